(* Proofs about the decoder MODEL (Models/PyDecoderM.v): the SPEC judge meets the Scan requirements, equals
   Base judge_fe for maxp <= maxe, and the decoder loop refines Scan.feed. *)
From Coq Require Import NArith List Bool Arith Lia ZifyBool ZifyNat ZifyN.
From FEC Require Import Generated.FEConsts Base.ListX Base.Bytes Base.Crc32 Base.Scan Base.FEFormat Models.PyDecoderM.
Import ListNotations.

Lemma shorter_ltb : forall n (l : list N), PyDecoder_shorter l n = Nat.ltb (length l) n.
Proof.
  induction n as [|n IH]; intros l; [destruct l; reflexivity|].
  destruct l as [|b t]; cbn [PyDecoder_shorter length]; [reflexivity|]. rewrite IH. reflexivity.
Qed.

Section JudgeFacts0.
  Variable maxp maxe : N.
  Notation judge := (PyDecoder_judge maxp maxe).

  (* for maxp <= maxe (the constructor default is maxp = maxe) the SPEC is literally the Base judge *)
  Lemma judge_py_eq_fe : (maxp <= maxe)%N -> forall l, judge l = judge_fe false true maxp l.
  Proof.
    intros Hm l. unfold PyDecoder_judge, judge_fe. rewrite shorter_ltb. cbn [andb].
    destruct (Nat.ltb (length l) HEADER_SIZE); [reflexivity|].
    set (h := parse_header (firstn HEADER_SIZE l)).
    destruct (negb (N.eqb (h_sync0 h) SYNC0 && N.eqb (h_sync1 h) SYNC1)); [reflexivity|].
    destruct (negb (N.eqb (h_reserved h) 0)); [reflexivity|].
    destruct (N.ltb maxp (h_psize h)) eqn:E1; [reflexivity|]. apply N.ltb_ge in E1.
    assert (E2 : N.ltb maxe (h_psize h) = false) by (apply N.ltb_ge; lia). rewrite E2.
    assert (E3 : N.ltb (N.of_nat (length l)) (N.of_nat HEADER_SIZE + h_psize h)
                 = Nat.ltb (length l) (HEADER_SIZE + N.to_nat (h_psize h))).
    { destruct (Nat.ltb (length l) (HEADER_SIZE + N.to_nat (h_psize h))) eqn:E.
      - apply Nat.ltb_lt in E. apply N.ltb_lt. lia.
      - apply Nat.ltb_ge in E. apply N.ltb_ge. lia. }
    rewrite E3. reflexivity.
  Qed.

  (* in general: the accepted set is that of min maxp maxe *)
  Lemma judge_py_accept_iff l n :
    judge l = Accept n <-> judge_fe false true (N.min maxp maxe) l = Accept n.
  Proof.
    unfold PyDecoder_judge, judge_fe. rewrite shorter_ltb. cbn [andb].
    destruct (Nat.ltb (length l) HEADER_SIZE); [tauto|].
    set (h := parse_header (firstn HEADER_SIZE l)).
    destruct (negb (N.eqb (h_sync0 h) SYNC0 && N.eqb (h_sync1 h) SYNC1)); [tauto|].
    destruct (negb (N.eqb (h_reserved h) 0)); [tauto|].
    assert (E3 : N.ltb (N.of_nat (length l)) (N.of_nat HEADER_SIZE + h_psize h)
                 = Nat.ltb (length l) (HEADER_SIZE + N.to_nat (h_psize h))).
    { destruct (Nat.ltb (length l) (HEADER_SIZE + N.to_nat (h_psize h))) eqn:E.
      - apply Nat.ltb_lt in E. apply N.ltb_lt. lia.
      - apply Nat.ltb_ge in E. apply N.ltb_ge. lia. }
    rewrite E3.
    destruct (N.ltb maxp (h_psize h)) eqn:E1; destruct (N.ltb maxe (h_psize h)) eqn:E2;
      destruct (N.ltb (N.min maxp maxe) (h_psize h)) eqn:E4;
      try (apply N.ltb_lt in E1); try (apply N.ltb_ge in E1); try (apply N.ltb_lt in E2); try (apply N.ltb_ge in E2);
      try (apply N.ltb_lt in E4); try (apply N.ltb_ge in E4); try lia;
      destruct (Nat.ltb (length l) (HEADER_SIZE + N.to_nat (h_psize h))); try tauto; split; discriminate.
  Qed.

  Lemma of_nat_ltb_app (l x : list N) k :
    N.ltb (N.of_nat (length l)) k = false -> N.ltb (N.of_nat (length (l ++ x))) k = false.
  Proof. rewrite !N.ltb_ge, app_length. lia. Qed.

  Theorem judge_py_ok : JudgeOK judge.
  Proof.
    constructor.
    - reflexivity.
    - intros l x. unfold PyDecoder_judge. rewrite !shorter_ltb.
      destruct (Nat.ltb (length l) HEADER_SIZE) eqn:E1; [congruence|]. apply Nat.ltb_ge in E1.
      assert (Hx : Nat.ltb (length (l ++ x)) HEADER_SIZE = false) by (apply Nat.ltb_ge; rewrite app_length; lia).
      rewrite Hx, firstn_app_ge by exact E1.
      set (h := parse_header (firstn HEADER_SIZE l)).
      destruct (negb (N.eqb (h_sync0 h) SYNC0 && N.eqb (h_sync1 h) SYNC1)); [reflexivity|].
      destruct (negb (N.eqb (h_reserved h) 0)); [reflexivity|].
      destruct (N.ltb maxp (h_psize h)); [reflexivity|].
      destruct (N.ltb (N.of_nat (length l)) (N.of_nat HEADER_SIZE + h_psize h)) eqn:E2; [congruence|].
      rewrite (of_nat_ltb_app _ x _ E2). apply N.ltb_ge in E2.
      destruct (N.ltb maxe (h_psize h)); [reflexivity|].
      intros _. unfold crc_region. rewrite sub_app_l by (unfold HEADER_SIZE in *; lia). reflexivity.
    - intros l n. unfold PyDecoder_judge. rewrite shorter_ltb.
      destruct (Nat.ltb (length l) HEADER_SIZE); [discriminate|].
      set (h := parse_header (firstn HEADER_SIZE l)).
      destruct (negb (N.eqb (h_sync0 h) SYNC0 && N.eqb (h_sync1 h) SYNC1)); [discriminate|].
      destruct (negb (N.eqb (h_reserved h) 0)); [discriminate|].
      destruct (N.ltb maxp (h_psize h)); [discriminate|].
      destruct (N.ltb (N.of_nat (length l)) (N.of_nat HEADER_SIZE + h_psize h)) eqn:E2; [discriminate|]. apply N.ltb_ge in E2.
      destruct (N.ltb maxe (h_psize h)); [discriminate|].
      destruct (N.eqb (crc32 (crc_region l (HEADER_SIZE + N.to_nat (h_psize h)))) (h_crc h)); [|discriminate].
      intros Heq. apply Accept_inj in Heq. subst n. unfold HEADER_SIZE in *. lia.
  Qed.

End JudgeFacts0.

Section JudgeFacts.
  Context {P : Type}.
  Variable parse_payload : N -> list N -> option P.
  Variable maxp maxe : N.

  Notation judge := (PyDecoder_judge maxp maxe).
  Notation judge_dec := (PyDecoder_judge_dec parse_payload maxp maxe).

  Theorem judge_dec_ok : JudgeOK judge_dec.
  Proof.
    pose proof (judge_py_ok maxp maxe) as OK. constructor.
    - unfold PyDecoder_judge_dec. rewrite (j_nil _ OK). reflexivity.
    - intros l x. unfold PyDecoder_judge_dec.
      destruct (judge l) as [n| |] eqn:J; [| |congruence].
      + intros _. rewrite (j_stable _ OK) by congruence. rewrite J.
        pose proof (j_bound _ OK _ _ J) as Hn.
        assert (H24 : (HEADER_SIZE <= length l)%nat).
        { unfold PyDecoder_judge in J. rewrite shorter_ltb in J. destruct (Nat.ltb (length l) HEADER_SIZE) eqn:E; [discriminate|]. apply Nat.ltb_ge in E. exact E. }
        rewrite firstn_app_ge by exact H24.
        rewrite sub_app_l; [reflexivity|]. unfold HEADER_SIZE in *. lia.
      + intros _. rewrite (j_stable _ OK) by congruence. rewrite J. reflexivity.
    - intros l n. unfold PyDecoder_judge_dec.
      destruct (judge l) as [m| |] eqn:J; try discriminate.
      destruct (parse_payload _ _); [|discriminate].
      intros Heq. apply Accept_inj in Heq. subst m. exact (j_bound _ OK _ _ J).
  Qed.

  (* the decoder's extra requirement is the only difference between the two judges *)
  Definition parser_total : Prop :=
    forall l n, judge l = Accept n ->
      parse_payload (h_type (parse_header (firstn HEADER_SIZE l))) (sub l HEADER_SIZE (n - HEADER_SIZE)) <> None.

  Lemma judge_dec_eq_judge : parser_total -> forall l, judge_dec l = judge l.
  Proof.
    intros HT l. unfold PyDecoder_judge_dec. destruct (judge l) as [n| |] eqn:J; try reflexivity.
    specialize (HT _ _ J). destruct (parse_payload _ _); [reflexivity|congruence].
  Qed.
End JudgeFacts.

(* ---- generic: scanning with pointwise equal judges ------------------------------------------------ *)
Lemma scan_aux_ext {B} (j1 j2 : list B -> verdict) : (forall l, j1 l = j2 l) ->
  forall f off l, scan_aux j1 f off l = scan_aux j2 f off l.
Proof.
  intros H. induction f as [|f IH]; intros off l; [reflexivity|].
  cbn [scan_aux]. rewrite H. destruct (j2 l); [rewrite IH|apply IH|]; reflexivity.
Qed.

Lemma scan_ext {B} (j1 j2 : list B -> verdict) : (forall l, j1 l = j2 l) -> forall off l, scan j1 off l = scan j2 off l.
Proof. intros H off l. apply scan_aux_ext. exact H. Qed.

Lemma feed_all_ext {B} (j1 j2 : list B -> verdict) : (forall l, j1 l = j2 l) ->
  forall cs st, feed_all j1 st cs = feed_all j2 st cs.
Proof.
  intros H. induction cs as [|c cs IH]; intros st; [reflexivity|].
  cbn [feed_all]. unfold feed. rewrite (scan_ext _ _ H). destruct (scan j2 (fst st) (snd st ++ c)) as [fs st1].
  rewrite IH. reflexivity.
Qed.

(* ---- header field facts ------------------------------------------------------------------------------ *)
Lemma parse_header_sync (b0 b1 : N) (t : list N) :
  h_sync0 (parse_header (firstn HEADER_SIZE (b0 :: b1 :: t))) = b0 /\
  h_sync1 (parse_header (firstn HEADER_SIZE (b0 :: b1 :: t))) = b1.
Proof.
  unfold HEADER_SIZE, parse_header, sub. cbn [firstn skipn h_sync0 h_sync1 le].
  rewrite !N.mul_0_r, !N.add_0_r. split; reflexivity.
Qed.

Section Refine.
  Context {P : Type}.
  Variable parse_payload : N -> list N -> option P.
  Variable maxp maxe : N.
  Variable rb ro : bool.

  Notation judge := (PyDecoder_judge maxp maxe).
  Notation J := (PyDecoder_judge_dec parse_payload maxp maxe).
  Notation step := (PyDecoder_step parse_payload maxp maxe rb ro false).
  Notation complete := (PyDecoder_complete parse_payload maxe rb ro false).
  Notation loop := (PyDecoder_loop parse_payload maxp maxe rb ro false).
  Notation on_data := (PyDecoder_on_data parse_payload maxp maxe rb ro false).
  Notation run := (PyDecoder_run parse_payload maxp maxe rb ro false).
  Notation res_of := (PyDecoder_result_of parse_payload rb ro).
  Notation state := PyDecoder_state.
  Notation abs := PyDecoder_abs.

  (* what a cached header is known to satisfy *)
  Definition hdr_facts (b : list N) (ml : N) (h : header) : Prop :=
    (HEADER_SIZE <= length b)%nat /\ h = parse_header (firstn HEADER_SIZE b) /\
    h_sync0 h = SYNC0 /\ h_sync1 h = SYNC1 /\ h_reserved h = 0%N /\ (h_psize h <= maxp)%N /\
    ml = (h_psize h + N.of_nat HEADER_SIZE)%N.

  Definition PyDecoder_Inv (st : state) : Prop :=
    match pd_hdr st with None => True | Some h => hdr_facts (pd_buf st) (pd_msg_len st) h end.

  (* the state between calls *)
  Definition PyDecoder_Post (st : state) : Prop :=
    PyDecoder_Inv st /\ J (pd_buf st) = More /\ (pd_hdr st = None <-> (length (pd_buf st) < HEADER_SIZE)%nat).

  Lemma Post_init : PyDecoder_Post PyDecoder_init.
  Proof. unfold PyDecoder_Post, PyDecoder_Inv, PyDecoder_init, HEADER_SIZE. cbn. repeat split; auto; lia. Qed.

  (* the verdict once a plausible header is known *)
  Lemma judge_with_header b ml h : hdr_facts b ml h ->
    judge b =
      if N.ltb (N.of_nat (length b)) ml then More else
      if N.ltb maxe (h_psize h) then Reject else
      if N.eqb (crc32 (sub b 8 (HEADER_SIZE + N.to_nat (h_psize h) - 8))) (h_crc h)
      then Accept (HEADER_SIZE + N.to_nat (h_psize h)) else Reject.
  Proof.
    intros (H24 & Hh & S0 & S1 & R0 & Hp & Hml). unfold PyDecoder_judge. rewrite shorter_ltb.
    assert (E : Nat.ltb (length b) HEADER_SIZE = false) by (apply Nat.ltb_ge; exact H24). rewrite E.
    rewrite <- Hh. rewrite S0, S1, R0, !N.eqb_refl. cbn [andb negb].
    assert (E1 : N.ltb maxp (h_psize h) = false) by (apply N.ltb_ge; exact Hp). rewrite E1.
    rewrite Hml, (N.add_comm (h_psize h)). reflexivity.
  Qed.

  Definition step_ok (st : state) (r : PyDecoder_step_res (P := P)) : Prop :=
    match r with
    | PdBreak st' =>
        J (pd_buf st) = More /\ pd_buf st' = pd_buf st /\ pd_processed st' = pd_processed st /\
        PyDecoder_Inv st' /\ (pd_hdr st' = None <-> (length (pd_buf st') < HEADER_SIZE)%nat)
    | PdContinue st' =>
        J (pd_buf st) = Reject /\ pd_buf st' = tl (pd_buf st) /\ pd_processed st' = (pd_processed st + 1)%N /\
        pd_hdr st' = None
    | PdEmit r st' =>
        exists n, J (pd_buf st) = Accept n /\ pd_buf st' = skipn n (pd_buf st) /\
                  pd_processed st' = (pd_processed st + N.of_nat n)%N /\ pd_hdr st' = None /\
                  res_of (N.to_nat (pd_processed st), firstn n (pd_buf st)) = Some r
    | PdRaise => False
    end.

  Lemma complete_ok st h :
    pd_hdr st = Some h -> hdr_facts (pd_buf st) (pd_msg_len st) h -> step_ok st (complete st h).
  Proof.
    intros Hh HF. pose proof (judge_with_header _ _ _ HF) as HJ.
    destruct HF as (H24 & Hhp & S0 & S1 & R0 & Hp & Hml).
    unfold PyDecoder_complete.
    destruct (N.ltb (N.of_nat (length (pd_buf st))) (pd_msg_len st)) eqn:E1.
    { cbn [step_ok]. unfold PyDecoder_judge_dec. rewrite HJ. repeat split; try reflexivity.
      - unfold PyDecoder_Inv. rewrite Hh. repeat split; assumption.
      - rewrite Hh. discriminate.
      - intros Hl. lia. }
    apply N.ltb_ge in E1.
    unfold PyDecoder_validate_crc.
    destruct (N.ltb maxe (h_psize h)) eqn:E2.
    { cbn [negb step_ok PyDecoder_pop pd_buf pd_processed pd_hdr]. unfold PyDecoder_judge_dec. rewrite HJ.
      repeat split; reflexivity. }
    assert (E4 : N.ltb (N.of_nat (length (pd_buf st))) (N.of_nat HEADER_SIZE + h_psize h) = false)
      by (apply N.ltb_ge; lia).
    rewrite E4.
    destruct (N.eqb (crc32 (sub (pd_buf st) 8 (HEADER_SIZE + N.to_nat (h_psize h) - 8))) (h_crc h)) eqn:E3.
    2:{ cbn [negb step_ok PyDecoder_pop pd_buf pd_processed pd_hdr]. unfold PyDecoder_judge_dec. rewrite HJ.
        repeat split; reflexivity. }
    cbn [negb pd_buf pd_msg_len pd_processed pd_hdr pd_last_seq].
    assert (Hn : N.to_nat (pd_msg_len st) = (HEADER_SIZE + N.to_nat (h_psize h))%nat) by (rewrite Hml; lia).
    rewrite Hn. set (n := (HEADER_SIZE + N.to_nat (h_psize h))%nat) in *.
    assert (HJd : J (pd_buf st) =
                  match parse_payload (h_type h) (sub (pd_buf st) HEADER_SIZE (n - HEADER_SIZE)) with
                  | Some _ => Accept n | None => Reject end).
    { unfold PyDecoder_judge_dec. rewrite HJ. rewrite <- Hhp. reflexivity. }
    destruct (parse_payload (h_type h) (sub (pd_buf st) HEADER_SIZE (n - HEADER_SIZE))) as [c|] eqn:EP.
    2:{ cbn [step_ok PyDecoder_pop pd_buf pd_processed pd_hdr]. rewrite HJd. repeat split; reflexivity. }
    cbn [step_ok pd_buf pd_processed pd_hdr]. exists n. rewrite HJd.
    assert (Hlen : (n <= length (pd_buf st))%nat) by lia.
    assert (Hn24 : (HEADER_SIZE <= n)%nat) by (subst n; lia).
    repeat split; try reflexivity.
    - rewrite Hml. lia.
    - unfold PyDecoder_result_of.
      rewrite firstn_firstn, Nat.min_l by exact Hn24. rewrite <- Hhp.
      assert (Hsk : skipn HEADER_SIZE (firstn n (pd_buf st)) = sub (pd_buf st) HEADER_SIZE (n - HEADER_SIZE)).
      { unfold sub. rewrite skipn_firstn_comm. reflexivity. }
      rewrite Hsk, EP. rewrite N2Nat.id. reflexivity.
  Qed.

  Lemma step_ok_step st : PyDecoder_Inv st -> pd_buf st <> [] -> step_ok st (step st).
  Proof.
    intros HI Hne. unfold PyDecoder_step. rewrite shorter_ltb.
    destruct (Nat.ltb (length (pd_buf st)) HEADER_SIZE) eqn:E0.
    { apply Nat.ltb_lt in E0. cbn [step_ok]. repeat split; try reflexivity; try assumption.
      - unfold PyDecoder_judge_dec, PyDecoder_judge. rewrite shorter_ltb.
        assert (E : Nat.ltb (length (pd_buf st)) HEADER_SIZE = true) by (apply Nat.ltb_lt; exact E0). rewrite E. reflexivity.
      - intros _. exact E0.
      - intros _. unfold PyDecoder_Inv in HI. destruct (pd_hdr st) as [h|]; [|reflexivity].
        destruct HI as (H24 & _). lia. }
    apply Nat.ltb_ge in E0.
    destruct (pd_hdr st) as [h|] eqn:Hh.
    { apply complete_ok; [exact Hh|]. unfold PyDecoder_Inv in HI. rewrite Hh in HI. exact HI. }
    destruct (pd_buf st) as [|b0 [|b1 t]] eqn:Hb; [congruence| cbn [length] in E0; unfold HEADER_SIZE in E0; lia |].
    pose proof (parse_header_sync b0 b1 t) as [HS0 HS1].
    assert (Hnl : Nat.ltb (length (b0 :: b1 :: t)) HEADER_SIZE = false) by (apply Nat.ltb_ge; exact E0).
    destruct (negb (N.eqb b0 SYNC0)) eqn:ES0.
    { cbn [step_ok PyDecoder_pop pd_buf pd_processed pd_hdr]. rewrite Hb.
      unfold PyDecoder_judge_dec, PyDecoder_judge. rewrite shorter_ltb. rewrite Hnl, HS0, HS1.
      apply negb_true_iff in ES0. rewrite ES0. cbn [andb negb]. repeat split; reflexivity. }
    destruct (negb (N.eqb b1 SYNC1)) eqn:ES1.
    { cbn [step_ok PyDecoder_pop pd_buf pd_processed pd_hdr]. rewrite Hb.
      unfold PyDecoder_judge_dec, PyDecoder_judge. rewrite shorter_ltb. rewrite Hnl, HS0, HS1.
      apply negb_true_iff in ES1. rewrite ES1, andb_false_r. cbn [negb]. repeat split; reflexivity. }
    apply negb_false_iff, N.eqb_eq in ES0, ES1.
    set (h := parse_header (firstn HEADER_SIZE (b0 :: b1 :: t))) in *.
    destruct (negb (N.eqb (h_reserved h) 0)) eqn:ER.
    { cbn [step_ok PyDecoder_pop pd_buf pd_processed pd_hdr]. rewrite Hb.
      unfold PyDecoder_judge_dec, PyDecoder_judge. rewrite shorter_ltb. rewrite Hnl. fold h. rewrite HS0, HS1, ES0, ES1, !N.eqb_refl.
      cbn [andb negb]. rewrite ER. repeat split; reflexivity. }
    destruct (N.ltb maxp (h_psize h)) eqn:EM.
    { cbn [step_ok PyDecoder_pop pd_buf pd_processed pd_hdr]. rewrite Hb.
      unfold PyDecoder_judge_dec, PyDecoder_judge. rewrite shorter_ltb. rewrite Hnl. fold h. rewrite HS0, HS1, ES0, ES1, !N.eqb_refl.
      cbn [andb negb]. rewrite ER, EM. repeat split; reflexivity. }
    apply negb_false_iff, N.eqb_eq in ER. apply N.ltb_ge in EM.
    set (st1 := {| pd_buf := b0 :: b1 :: t; pd_hdr := Some h; pd_msg_len := (h_psize h + N.of_nat HEADER_SIZE)%N;
                   pd_processed := pd_processed st; pd_last_seq := pd_last_seq st |}).
    assert (HF : hdr_facts (pd_buf st1) (pd_msg_len st1) h).
    { subst st1. cbn [pd_buf pd_msg_len]. unfold hdr_facts. repeat split; try assumption; try reflexivity.
      - rewrite <- ES0. exact HS0.
      - rewrite <- ES1. exact HS1. }
    pose proof (complete_ok st1 h eq_refl HF) as HC.
    destruct (complete st1 h) as [s'|s'|r s'|]; cbn [step_ok] in *; subst st1; cbn [pd_buf pd_processed] in *;
      rewrite ?Hb; exact HC.
  Qed.

  Hypothesis OKJ : JudgeOK J.

  Lemma loop_refines : forall fuel st,
    PyDecoder_Inv st -> (length (pd_buf st) < fuel)%nat ->
    exists rs st' fs,
      loop fuel st = PdDone rs st' /\ PyDecoder_Post st' /\
      scan_aux J fuel (N.to_nat (pd_processed st)) (pd_buf st) = (fs, abs st') /\
      map Some rs = map res_of fs.
  Proof.
    induction fuel as [|f IH]; intros st HI Hf; [lia|].
    cbn [PyDecoder_loop]. rewrite scan_aux_unfold.
    destruct (pd_buf st) as [|b0 t] eqn:Hb.
    { exists [], st, []. rewrite (j_nil _ OKJ). unfold PyDecoder_abs. rewrite Hb. repeat split; try reflexivity.
      - exact HI.
      - rewrite Hb. apply (j_nil _ OKJ).
      - intros _. rewrite Hb. unfold HEADER_SIZE. cbn. lia.
      - intros _. unfold PyDecoder_Inv in HI. destruct (pd_hdr st) as [h|]; [|reflexivity].
        destruct HI as (H24 & _). rewrite Hb in H24. unfold HEADER_SIZE in H24. cbn in H24. lia. }
    assert (Hne : pd_buf st <> []) by (rewrite Hb; discriminate).
    assert (Hlen : (length (pd_buf st) < S f)%nat) by (rewrite Hb; exact Hf).
    pose proof (step_ok_step st HI Hne) as HS. rewrite <- Hb.
    destruct (step st) as [s'|s'|r s'|]; cbn [step_ok] in HS.
    - destruct HS as (HJ & Hbuf & Hpr & HI' & Hiff). rewrite HJ.
      exists [], s', []. unfold PyDecoder_abs. rewrite Hbuf, Hpr. repeat split; try reflexivity; try assumption.
      + rewrite Hbuf. exact HJ.
      + apply Hiff.
      + apply Hiff.
    - destruct HS as (HJ & Hbuf & Hpr & Hh). rewrite HJ.
      assert (HI' : PyDecoder_Inv s') by (unfold PyDecoder_Inv; rewrite Hh; exact I).
      assert (Hf' : (length (pd_buf s') < f)%nat) by (rewrite Hbuf, Hb in *; cbn [tl length] in *; lia).
      destruct (IH s' HI' Hf') as (rs & st' & fs & HL & HP & HSc & HM).
      exists rs, st', fs. rewrite HL. refine (conj eq_refl (conj HP (conj _ HM))).
      rewrite <- Hbuf. replace (S (N.to_nat (pd_processed st))) with (N.to_nat (pd_processed s')) by (rewrite Hpr; lia).
      exact HSc.
    - destruct HS as (n & HJ & Hbuf & Hpr & Hh & HR). rewrite HJ.
      pose proof (j_bound _ OKJ _ _ HJ) as Hn.
      assert (HI' : PyDecoder_Inv s') by (unfold PyDecoder_Inv; rewrite Hh; exact I).
      assert (Hf' : (length (pd_buf s') < f)%nat) by (rewrite Hbuf, skipn_length; lia).
      destruct (IH s' HI' Hf') as (rs & st' & fs & HL & HP & HSc & HM).
      exists (r :: rs), st', ((N.to_nat (pd_processed st), firstn n (pd_buf st)) :: fs). rewrite HL.
      refine (conj eq_refl (conj HP (conj _ _))).
      + rewrite <- Hbuf.
        replace (N.to_nat (pd_processed st) + n)%nat with (N.to_nat (pd_processed s')) by (rewrite Hpr; lia).
        rewrite HSc. reflexivity.
      + cbn [map]. rewrite HR, HM. reflexivity.
    - destruct HS.
  Qed.

  Theorem on_data_refines st data :
    PyDecoder_Post st ->
    exists rs st' fs,
      on_data st data = PdDone rs st' /\ PyDecoder_Post st' /\
      feed J (abs st) data = (fs, abs st') /\ map Some rs = map res_of fs.
  Proof.
    intros HP. unfold PyDecoder_on_data. destruct data as [|d0 dt].
    { exists [], st, []. repeat split; try apply HP.
      rewrite feed_nil; [reflexivity|]. unfold wf_state, PyDecoder_abs. cbn [snd]. apply HP. }
    set (data := d0 :: dt).
    set (st1 := {| pd_buf := pd_buf st ++ data; pd_hdr := pd_hdr st; pd_msg_len := pd_msg_len st;
                   pd_processed := pd_processed st; pd_last_seq := pd_last_seq st |}).
    assert (HI1 : PyDecoder_Inv st1).
    { destruct HP as (HI & _). unfold PyDecoder_Inv in *. subst st1. cbn [pd_hdr pd_buf pd_msg_len].
      destruct (pd_hdr st) as [h|]; [|exact I].
      destruct HI as (H24 & Hh & Hrest). unfold hdr_facts. split; [rewrite app_length; lia|].
      split; [rewrite firstn_app_ge by exact H24; exact Hh | exact Hrest]. }
    destruct (loop_refines (S (length (pd_buf st1))) st1 HI1 (Nat.lt_succ_diag_r _)) as (rs & st' & fs & HL & HP' & HSc & HM).
    exists rs, st', fs. refine (conj HL (conj HP' (conj _ HM))). exact HSc.
  Qed.

  Theorem run_refines : forall chunks st,
    PyDecoder_Post st ->
    exists rss st' fs,
      run st chunks = PdRunDone rss st' /\ PyDecoder_Post st' /\
      feed_all J (abs st) chunks = (fs, abs st') /\ map Some (concat rss) = map res_of fs.
  Proof.
    induction chunks as [|c cs IH]; intros st HP.
    { exists [], st, []. repeat split; try apply HP. }
    cbn [PyDecoder_run feed_all].
    destruct (on_data_refines st c HP) as (rs & st1 & fs1 & HO & HP1 & HF & HM1). rewrite HO, HF.
    destruct (IH st1 HP1) as (rss & st2 & fs2 & HR & HP2 & HF2 & HM2). rewrite HR, HF2.
    exists (rs :: rss), st2, (fs1 ++ fs2). refine (conj eq_refl (conj HP2 (conj eq_refl _))).
    cbn [concat]. rewrite !map_app, HM1, HM2. reflexivity.
  Qed.
End Refine.
