(* Proofs about the decoder MODEL (Models/PyDecoderM.v): the SPEC judge meets the Scan requirements, equals
   Base judge_fe for maxp <= maxe, and the decoder loop refines Scan.feed. *)
From Coq Require Import NArith List Bool Arith Lia ZifyBool ZifyNat ZifyN.
From FEC Require Import Generated.FEConsts Base.ListX Base.Bytes Base.Crc32 Base.Scan Base.FEFormat Models.PyDecoderM.
Import ListNotations.

Section JudgeFacts0.
  Variable maxp maxe : N.
  Notation judge := (PyDecoder_judge maxp maxe).

  (* for maxp <= maxe (the constructor default is maxp = maxe) the SPEC is literally the Base judge *)
  Lemma judge_py_eq_fe : (maxp <= maxe)%N -> forall l, judge l = judge_fe false true maxp l.
  Proof.
    intros Hm l. unfold PyDecoder_judge, judge_fe. cbn [andb].
    destruct (Nat.ltb (length l) HEADER_SIZE); [reflexivity|].
    set (h := parse_header (firstn HEADER_SIZE l)).
    destruct (negb (N.eqb (h_sync0 h) SYNC0 && N.eqb (h_sync1 h) SYNC1)); [reflexivity|].
    destruct (negb (N.eqb (h_reserved h) 0)); [reflexivity|].
    destruct (N.ltb maxp (h_psize h)) eqn:E1; [reflexivity|]. apply N.ltb_ge in E1.
    assert (E2 : N.ltb maxe (h_psize h) = false) by (apply N.ltb_ge; lia). rewrite E2.
    assert (E3 : N.ltb (N.of_nat (length l)) (N.of_nat HEADER_SIZE + h_psize h)
                 = Nat.ltb (length l) (HEADER_SIZE + N.to_nat (h_psize h))).
    { destruct (Nat.ltb (length l) (HEADER_SIZE + N.to_nat (h_psize h))) eqn:E.
      - apply Nat.ltb_lt in E. apply N.ltb_lt. lia.
      - apply Nat.ltb_ge in E. apply N.ltb_ge. lia. }
    rewrite E3. reflexivity.
  Qed.

  (* in general: the accepted set is that of min maxp maxe *)
  Lemma judge_py_accept_iff l n :
    judge l = Accept n <-> judge_fe false true (N.min maxp maxe) l = Accept n.
  Proof.
    unfold PyDecoder_judge, judge_fe. cbn [andb].
    destruct (Nat.ltb (length l) HEADER_SIZE); [tauto|].
    set (h := parse_header (firstn HEADER_SIZE l)).
    destruct (negb (N.eqb (h_sync0 h) SYNC0 && N.eqb (h_sync1 h) SYNC1)); [tauto|].
    destruct (negb (N.eqb (h_reserved h) 0)); [tauto|].
    assert (E3 : N.ltb (N.of_nat (length l)) (N.of_nat HEADER_SIZE + h_psize h)
                 = Nat.ltb (length l) (HEADER_SIZE + N.to_nat (h_psize h))).
    { destruct (Nat.ltb (length l) (HEADER_SIZE + N.to_nat (h_psize h))) eqn:E.
      - apply Nat.ltb_lt in E. apply N.ltb_lt. lia.
      - apply Nat.ltb_ge in E. apply N.ltb_ge. lia. }
    rewrite E3.
    destruct (N.ltb maxp (h_psize h)) eqn:E1; destruct (N.ltb maxe (h_psize h)) eqn:E2;
      destruct (N.ltb (N.min maxp maxe) (h_psize h)) eqn:E4;
      try (apply N.ltb_lt in E1); try (apply N.ltb_ge in E1); try (apply N.ltb_lt in E2); try (apply N.ltb_ge in E2);
      try (apply N.ltb_lt in E4); try (apply N.ltb_ge in E4); try lia;
      destruct (Nat.ltb (length l) (HEADER_SIZE + N.to_nat (h_psize h))); try tauto; split; discriminate.
  Qed.

  Lemma of_nat_ltb_app (l x : list N) k :
    N.ltb (N.of_nat (length l)) k = false -> N.ltb (N.of_nat (length (l ++ x))) k = false.
  Proof. rewrite !N.ltb_ge, app_length. lia. Qed.

  Theorem judge_py_ok : JudgeOK judge.
  Proof.
    constructor.
    - reflexivity.
    - intros l x. unfold PyDecoder_judge.
      destruct (Nat.ltb (length l) HEADER_SIZE) eqn:E1; [congruence|]. apply Nat.ltb_ge in E1.
      assert (Hx : Nat.ltb (length (l ++ x)) HEADER_SIZE = false) by (apply Nat.ltb_ge; rewrite app_length; lia).
      rewrite Hx, firstn_app_ge by exact E1.
      set (h := parse_header (firstn HEADER_SIZE l)).
      destruct (negb (N.eqb (h_sync0 h) SYNC0 && N.eqb (h_sync1 h) SYNC1)); [reflexivity|].
      destruct (negb (N.eqb (h_reserved h) 0)); [reflexivity|].
      destruct (N.ltb maxp (h_psize h)); [reflexivity|].
      destruct (N.ltb (N.of_nat (length l)) (N.of_nat HEADER_SIZE + h_psize h)) eqn:E2; [congruence|].
      rewrite (of_nat_ltb_app _ x _ E2). apply N.ltb_ge in E2.
      destruct (N.ltb maxe (h_psize h)); [reflexivity|].
      intros _. unfold crc_region. rewrite sub_app_l by (unfold HEADER_SIZE in *; lia). reflexivity.
    - intros l n. unfold PyDecoder_judge.
      destruct (Nat.ltb (length l) HEADER_SIZE); [discriminate|].
      set (h := parse_header (firstn HEADER_SIZE l)).
      destruct (negb (N.eqb (h_sync0 h) SYNC0 && N.eqb (h_sync1 h) SYNC1)); [discriminate|].
      destruct (negb (N.eqb (h_reserved h) 0)); [discriminate|].
      destruct (N.ltb maxp (h_psize h)); [discriminate|].
      destruct (N.ltb (N.of_nat (length l)) (N.of_nat HEADER_SIZE + h_psize h)) eqn:E2; [discriminate|]. apply N.ltb_ge in E2.
      destruct (N.ltb maxe (h_psize h)); [discriminate|].
      destruct (N.eqb (crc32 (crc_region l (HEADER_SIZE + N.to_nat (h_psize h)))) (h_crc h)); [|discriminate].
      intros Heq. apply Accept_inj in Heq. subst n. unfold HEADER_SIZE in *. lia.
  Qed.

End JudgeFacts0.

Section JudgeFacts.
  Context {P : Type}.
  Variable parse_payload : N -> list N -> option P.
  Variable maxp maxe : N.

  Notation judge := (PyDecoder_judge maxp maxe).
  Notation judge_dec := (PyDecoder_judge_dec parse_payload maxp maxe).

  Theorem judge_dec_ok : JudgeOK judge_dec.
  Proof.
    pose proof (judge_py_ok maxp maxe) as OK. constructor.
    - unfold PyDecoder_judge_dec. rewrite (j_nil _ OK). reflexivity.
    - intros l x. unfold PyDecoder_judge_dec.
      destruct (judge l) as [n| |] eqn:J; [| |congruence].
      + intros _. rewrite (j_stable _ OK) by congruence. rewrite J.
        pose proof (j_bound _ OK _ _ J) as Hn.
        assert (H24 : (HEADER_SIZE <= length l)%nat).
        { unfold PyDecoder_judge in J. destruct (Nat.ltb (length l) HEADER_SIZE) eqn:E; [discriminate|]. apply Nat.ltb_ge in E. exact E. }
        rewrite firstn_app_ge by exact H24.
        rewrite sub_app_l; [reflexivity|]. unfold HEADER_SIZE in *. lia.
      + intros _. rewrite (j_stable _ OK) by congruence. rewrite J. reflexivity.
    - intros l n. unfold PyDecoder_judge_dec.
      destruct (judge l) as [m| |] eqn:J; try discriminate.
      destruct (parse_payload _ _); [|discriminate].
      intros Heq. apply Accept_inj in Heq. subst m. exact (j_bound _ OK _ _ J).
  Qed.

  (* the decoder's extra requirement is the only difference between the two judges *)
  Definition parser_total : Prop :=
    forall l n, judge l = Accept n ->
      parse_payload (h_type (parse_header (firstn HEADER_SIZE l))) (sub l HEADER_SIZE (n - HEADER_SIZE)) <> None.

  Lemma judge_dec_eq_judge : parser_total -> forall l, judge_dec l = judge l.
  Proof.
    intros HT l. unfold PyDecoder_judge_dec. destruct (judge l) as [n| |] eqn:J; try reflexivity.
    specialize (HT _ _ J). destruct (parse_payload _ _); [reflexivity|congruence].
  Qed.
End JudgeFacts.
