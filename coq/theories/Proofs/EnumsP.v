(* C03 — soundness of the table comparison functions: an empty mismatch list implies the specification. *)
From Coq Require Import ZArith List String Bool Lia.
From FEC Require Import Models.EnumsM.
Import ListNotations.
Open Scope string_scope.

Lemma app_nil_l2 : forall (A : Type) (a b : list A), (a ++ b)%list = [] -> a = [] /\ b = [].
Proof. intros A a b H. destruct a; [auto | discriminate]. Qed.

Lemma map_nil_inv : forall (A B : Type) (f : A -> B) l, map f l = [] -> l = [].
Proof. intros A B f l H. destruct l; [reflexivity | discriminate]. Qed.

Lemma filter_neg_nil : forall (A : Type) (f : A -> bool) l,
  filter (fun x => negb (f x)) l = [] -> forall x, In x l -> f x = true.
Proof.
  intros A f l. induction l as [|a t IH]; intros H x Hx; [destruct Hx|].
  cbn [filter] in H. destruct (f a) eqn:E; cbn [negb] in H; [|discriminate].
  destruct Hx as [->|Hx]; auto.
Qed.

Lemma filter_nil : forall (A : Type) (f : A -> bool) l,
  filter f l = [] -> forall x, In x l -> f x = false.
Proof.
  intros A f l. induction l as [|a t IH]; intros H x Hx; [destruct Hx|].
  cbn [filter] in H. destruct (f a) eqn:E; [discriminate|].
  destruct Hx as [->|Hx]; auto.
Qed.

Lemma flat_map_nil : forall (A B : Type) (f : A -> list B) l,
  flat_map f l = [] -> forall x, In x l -> f x = [].
Proof.
  intros A B f l. induction l as [|a t IH]; intros H x Hx; [destruct Hx|].
  cbn [flat_map] in H. apply app_nil_l2 in H. destruct H as [H1 H2].
  destruct Hx as [->|Hx]; auto.
Qed.

Lemma if_nil : forall (A : Type) (b : bool) (x : A), (if b then [] else [x]) = [] -> b = true.
Proof. intros A b x H. destruct b; [reflexivity | discriminate]. Qed.

Lemma mem_str_In : forall s l, mem_str s l = true <-> In s l.
Proof.
  intros s l. unfold mem_str. rewrite existsb_exists. split.
  - intros [x [Hx E]]. apply String.eqb_eq in E. subst. exact Hx.
  - intros H. exists s. split; [exact H | apply String.eqb_refl].
Qed.

Lemma mem_z_In : forall v l, mem_z v l = true <-> In v l.
Proof.
  intros v l. unfold mem_z. rewrite existsb_exists. split.
  - intros [x [Hx E]]. apply Z.eqb_eq in E. subst. exact Hx.
  - intros H. exists v. split; [exact H | apply Z.eqb_refl].
Qed.

Lemma nodup_str_sound : forall l, nodup_str l = true -> NoDup l.
Proof.
  induction l as [|a t IH]; intros H; [constructor|].
  cbn [nodup_str] in H. apply andb_true_iff in H. destruct H as [H1 H2].
  constructor; [|auto]. intro Hin. apply mem_str_In in Hin. rewrite Hin in H1. discriminate.
Qed.

Lemma nodup_z_sound : forall l, nodup_z l = true -> NoDup l.
Proof.
  induction l as [|a t IH]; intros H; [constructor|].
  cbn [nodup_z] in H. apply andb_true_iff in H. destruct H as [H1 H2].
  constructor; [|auto]. intro Hin. apply mem_z_In in Hin. rewrite Hin in H1. discriminate.
Qed.

Lemma assoc_In : forall (A : Type) k (l : list (string * A)) a, assoc k l = Some a -> In (k, a) l.
Proof.
  intros A k l. induction l as [|[k' a'] t IH]; intros a H; [discriminate|].
  cbn [assoc] in H. destruct (String.eqb k k') eqn:E.
  - apply String.eqb_eq in E. inversion H. subst. left. reflexivity.
  - right. auto.
Qed.

Lemma has_In : forall n v rows, has n v rows = true <-> In (n, v) rows.
Proof.
  intros n v rows. unfold has. rewrite existsb_exists. split.
  - intros [[n' v'] [Hx E]]. cbn [fst snd] in E. apply andb_true_iff in E. destruct E as [E1 E2].
    apply String.eqb_eq in E1. apply Z.eqb_eq in E2. subst. exact Hx.
  - intros H. exists (n, v). split; [exact H|]. cbn [fst snd]. rewrite String.eqb_refl, Z.eqb_refl. reflexivity.
Qed.

(* ---- enums ---------------------------------------------------------------------------------------- *)
Lemma cpp_row_ok_sound : forall co ren e rows prows n v,
  cpp_row_ok co ren e rows prows (n, v) = true ->
  if mem_pair (e, n) co
  then exists n', n' <> n /\ mem_pair (e, n') co = false /\ In (n', v) rows
  else In (py_name ren e n, v) prows.
Proof.
  intros co ren e rows prows n v H. unfold cpp_row_ok in H. cbn [fst snd] in H.
  destruct (mem_pair (e, n) co).
  - apply existsb_exists in H. destruct H as [[n' v'] [Hin E]]. cbn [fst snd] in E.
    apply andb_true_iff in E. destruct E as [E E3]. apply andb_true_iff in E. destruct E as [E1 E2].
    apply Z.eqb_eq in E3. subst v'. exists n'. split; [|split].
    + intro Heq. subst. rewrite String.eqb_refl in E1. discriminate.
    + apply negb_true_iff in E2. exact E2.
    + exact Hin.
  - apply has_In. exact H.
Qed.

Lemma py_row_ok_sound : forall co po ren e rows prows m v,
  py_row_ok co po ren e rows prows (m, v) = true ->
  if mem_pair (e, m) po
  then forall n, ~ In (n, v) rows
  else exists n, In (n, v) rows /\ mem_pair (e, n) co = false /\ py_name ren e n = m.
Proof.
  intros co po ren e rows prows m v H. unfold py_row_ok in H. cbn [fst snd] in H.
  destruct (mem_pair (e, m) po).
  - intros n Hin. apply negb_true_iff in H.
    assert (existsb (fun q : string * Z => Z.eqb (snd q) v) rows = true) as C.
    { apply existsb_exists. exists (n, v). split; [exact Hin | apply Z.eqb_refl]. }
    rewrite C in H. discriminate.
  - apply existsb_exists in H. destruct H as [[n v'] [Hin E]]. cbn [fst snd] in E.
    apply andb_true_iff in E. destruct E as [E E3]. apply andb_true_iff in E. destruct E as [E1 E2].
    apply Z.eqb_eq in E1. subst v'. apply String.eqb_eq in E3. apply negb_true_iff in E2.
    exists n. auto.
Qed.

Lemma enums_mismatches_sound : forall pairing co po ren cpp py,
  enums_mismatches pairing co po ren cpp py = [] -> enums_agree_spec pairing co po ren cpp py.
Proof.
  intros pairing co po ren cpp py H. unfold enums_mismatches in H.
  apply app_nil_l2 in H. destruct H as [H1 H]. apply app_nil_l2 in H. destruct H as [H2 H3].
  apply if_nil in H1. apply if_nil in H2.
  split; [apply nodup_str_sound; exact H1|]. split; [apply nodup_str_sound; exact H2|].
  intros e rows Hin. pose proof (flat_map_nil _ _ _ _ H3 _ Hin) as He.
  unfold enum_mismatches in He. cbn [fst snd] in He.
  destruct (assoc e pairing) as [pk|] eqn:Ea; [|discriminate].
  destruct (assoc pk py) as [prows|] eqn:Eb; [|discriminate].
  apply app_nil_l2 in He. destruct He as [A He]. apply app_nil_l2 in He. destruct He as [B He].
  apply app_nil_l2 in He. destruct He as [C D].
  apply if_nil in A. apply if_nil in B. apply map_nil_inv in C. apply map_nil_inv in D.
  exists pk, prows. split; [apply assoc_In; exact Ea|]. split; [apply assoc_In; exact Eb|].
  split; [apply nodup_str_sound; exact A|]. split; [apply nodup_str_sound; exact B|]. split.
  - intros n v Hr. apply (cpp_row_ok_sound co ren e rows prows n v). exact (filter_neg_nil _ _ _ C _ Hr).
  - intros m v Hr. apply (py_row_ok_sound co po ren e rows prows m v). exact (filter_neg_nil _ _ _ D _ Hr).
Qed.

(* ---- classification ----------------------------------------------------------------------------------- *)
Lemma prow_eqb_eq : forall a b, prow_eqb a b = true -> a = b.
Proof.
  intros [[v c] r] [[v' c'] r'] H. unfold prow_eqb in H. cbn [fst snd] in H.
  apply andb_true_iff in H. destruct H as [H H3]. apply andb_true_iff in H. destruct H as [H1 H2].
  apply Z.eqb_eq in H1. apply Bool.eqb_prop in H2. apply Bool.eqb_prop in H3. subst. reflexivity.
Qed.

Lemma classification_mismatches_sound : forall cc pc pcmd presp,
  classification_mismatches cc pc pcmd presp = [] -> classification_agrees_spec cc pc pcmd presp.
Proof.
  intros cc pc pcmd presp H. unfold classification_mismatches in H.
  apply app_nil_l2 in H. destruct H as [A H]. apply app_nil_l2 in H. destruct H as [B H].
  apply app_nil_l2 in H. destruct H as [C H]. apply app_nil_l2 in H. destruct H as [D E].
  apply map_nil_inv in A. apply map_nil_inv in B. apply if_nil in C. apply map_nil_inv in D. apply map_nil_inv in E.
  split; [|split; [|split; [|split]]].
  - intros n v c r Hin. pose proof (filter_neg_nil _ _ _ A _ Hin) as Hok. unfold crow_ok in Hok.
    apply andb_true_iff in Hok. destruct Hok as [H1 H2]. apply existsb_exists in H1.
    destruct H1 as [p [Hp Heq]]. apply prow_eqb_eq in Heq. subst p. split; [exact Hp|].
    intros [-> ->]. discriminate.
  - apply nodup_z_sound. exact C.
  - intros v c r Hin. pose proof (filter_neg_nil _ _ _ B _ Hin) as Hok. unfold prow_ok in Hok.
    apply andb_true_iff in Hok. destruct Hok as [Hok _]. apply andb_true_iff in Hok. destruct Hok as [H1 H2].
    apply Bool.eqb_prop in H1. apply Bool.eqb_prop in H2. subst c r. split; apply mem_z_In.
  - intros v Hc Hr. pose proof (filter_nil _ _ _ D _ Hc) as F. cbv beta in F. apply mem_z_In in Hr. rewrite Hr in F. discriminate.
  - intros v Hv. assert (In v (pcmd ++ presp)) as Hin by (apply in_or_app; exact Hv).
    pose proof (filter_neg_nil _ _ _ E _ Hin) as Hok. unfold set_member_ok in Hok.
    apply existsb_exists in Hok. destruct Hok as [[[[n v'] c] r] [Hr Heq]]. cbn [fst snd] in Heq.
    apply Z.eqb_eq in Heq. subst v'. exists n, c, r. exact Hr.
Qed.

(* ---- registry ----------------------------------------------------------------------------------------- *)
Lemma registry_mismatches_sound : forall cm pcl reg,
  registry_mismatches cm pcl reg = [] -> registry_bijective_spec cm pcl reg.
Proof.
  intros cm pcl reg H. unfold registry_mismatches in H.
  apply app_nil_l2 in H. destruct H as [A H]. apply app_nil_l2 in H. destruct H as [B H].
  apply app_nil_l2 in H. destruct H as [C H]. apply app_nil_l2 in H. destruct H as [D H].
  apply app_nil_l2 in H. destruct H as [E F].
  apply if_nil in A. apply if_nil in B. apply if_nil in C.
  apply map_nil_inv in D. apply map_nil_inv in E. apply map_nil_inv in F.
  split; [apply nodup_z_sound; exact A|]. split; [apply nodup_z_sound; exact B|].
  split; [apply nodup_z_sound; exact C|]. split; [|split].
  - intros s t ver Hin. pose proof (filter_neg_nil _ _ _ D _ Hin) as Hok. unfold cpp_msg_ok in Hok.
    apply existsb_exists in Hok. destruct Hok as [[[c t'] ver'] [Hp Heq]].
    unfold m_type, m_ver, m_name in Heq. cbn [fst snd] in Heq.
    apply andb_true_iff in Heq. destruct Heq as [Heq H3]. apply andb_true_iff in Heq. destruct Heq as [H1 H2].
    apply Z.eqb_eq in H1. apply Z.eqb_eq in H2. subst t' ver'. exists c. split; [exact Hp|].
    unfold reg_has in H3. apply existsb_exists in H3. destruct H3 as [[t' c'] [Hr Heq]]. cbn [fst snd] in Heq.
    apply andb_true_iff in Heq. destruct Heq as [G1 G2]. apply Z.eqb_eq in G1. apply String.eqb_eq in G2. subst. exact Hr.
  - intros c t ver Hin. pose proof (filter_neg_nil _ _ _ E _ Hin) as Hok. unfold py_class_ok in Hok.
    apply existsb_exists in Hok. destruct Hok as [[[s t'] ver'] [Hp Heq]].
    unfold m_type, m_ver in Heq. cbn [fst snd] in Heq.
    apply andb_true_iff in Heq. destruct Heq as [H1 H2]. apply Z.eqb_eq in H1. apply Z.eqb_eq in H2. subst.
    exists s. exact Hp.
  - intros t c Hin. pose proof (filter_neg_nil _ _ _ F _ Hin) as Hok. unfold reg_row_ok in Hok.
    apply existsb_exists in Hok. destruct Hok as [[[c' t'] ver] [Hp Heq]].
    unfold m_type, m_name in Heq. cbn [fst snd] in Heq.
    apply andb_true_iff in Heq. destruct Heq as [H1 H2]. apply Z.eqb_eq in H1. apply String.eqb_eq in H2. subst.
    exists ver. exact Hp.
Qed.
