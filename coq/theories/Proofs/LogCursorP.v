(* C11 — the reader (as repaired) refines the cursor SPEC for every operation sequence.
   Invariant WF: the original index has non-negative, strictly increasing offsets and non-decreasing
   P1 times; the current index is a subsequence of it; the current index splits as A ++ B with
   next = |A|, every entry of A at or before the last consumed offset and every entry of B beyond it. *)
From Coq Require Import ZArith List Bool Lia ZifyBool Sorted.
From FEC Require Import Generated.LogReaderConsts Models.FileIndexOpsM Models.LogReaderM Proofs.FileIndexOpsP.
Import ListNotations.
Open Scope Z_scope.

Definition nonneg_offs (l : list entry) : Prop := Forall (fun e => 0 <= e_off e) l.

Definition cursor_ok (data : list entry) (next last : Z) : Prop :=
  exists A B, data = A ++ B /\ next = zlen A /\ Forall (fun e => e_off e <= last) A /\ Forall (fun e => last < e_off e) B.

Record WF (r : reader) : Prop := mkWF {
  wf_inc : offs_inc (fi_data (r_orig r));
  wf_nonneg : nonneg_offs (fi_data (r_orig r));
  wf_sorted : times_sorted (fi_data (r_orig r));
  wf_sub : subseq (fi_data (r_index r)) (fi_data (r_orig r));
  wf_cur : cursor_ok (fi_data (r_index r)) (r_next r) (r_last r)
}.

Ltac split4 := split; [|split; [|split]].
Ltac split3 := split; [|split].

Definition cursor_of (r : reader) : cursor := mkC (r_orig r) (r_index r) (r_last r) (r_srcs r).

(* ---------------------------------------------------------------- the split *)
Lemma skipn_zlen_app {A} (a b : list A) : skipn (Z.to_nat (zlen a)) (a ++ b) = b.
Proof.
  unfold zlen. rewrite Nat2Z.id. rewrite skipn_app, skipn_all, Nat.sub_diag. reflexivity.
Qed.

Lemma beyond_split pos (a b : list entry) :
  Forall (fun e => e_off e <= pos) a -> Forall (fun e => pos < e_off e) b -> beyond pos (a ++ b) = b.
Proof.
  intros Ha Hb. unfold beyond. rewrite filter_app.
  replace (filter (fun e => pos <? e_off e) a) with (@nil entry).
  - cbn [app]. induction Hb as [|x l Hx Hl IH]; cbn [filter]; [reflexivity|]. replace (pos <? e_off x) with true by lia. f_equal. exact IH.
  - symmetry. induction Ha as [|x l Hx Hl IH]; cbn [filter]; [reflexivity|]. replace (pos <? e_off x) with false by lia. exact IH.
Qed.

Lemma inc_tail_gt (x : entry) l : offs_inc (x :: l) -> Forall (fun e => e_off x < e_off e) l.
Proof. intros H. apply StronglySorted_inv in H. apply H. Qed.

Lemma Forall_lt_trans (p q : Z) (l : list entry) : p <= q -> Forall (fun e => q < e_off e) l -> Forall (fun e => p < e_off e) l.
Proof. intros Hpq H. eapply Forall_impl; [|exact H]. cbn. intros; lia. Qed.
Lemma Forall_le_trans (p q : Z) (l : list entry) : p <= q -> Forall (fun e => e_off e <= p) l -> Forall (fun e => e_off e <= q) l.
Proof. intros Hpq H. eapply Forall_impl; [|exact H]. cbn. intros; lia. Qed.

(* ---------------------------------------------------------------- relocate *)
Lemma relocate_correct data prev :
  offs_inc data -> nonneg_offs data -> cursor_ok data (relocate data prev) prev.
Proof.
  intros Hinc Hnn. unfold relocate, cursor_ok.
  destruct (zlen data =? 0) eqn:E0.
  { apply Z.eqb_eq, zlen_zero in E0. subst. exists [], []. split4; constructor. }
  destruct (prev <? 0) eqn:Ep.
  { exists [], data. split4; [reflexivity|reflexivity|constructor|]. eapply Forall_impl; [|exact Hnn]. cbn. intros; lia. }
  set (g := fun e : entry => prev <? e_off e).
  unfold argmax_bool, find_first. rewrite (find_first_from_idx g).
  destruct (first_idx_split g data) as [[Hnone Hidx]|[a [x [b [Hd [Ha [Hx Hidx]]]]]]].
  - rewrite Hidx, Nat.ltb_irrefl. cbn [Z.ltb Z.compare].
    destruct data as [|e0 data']; [discriminate|].
    assert (Hall : Forall (fun e => e_off e <= prev) (e0 :: data')).
    { rewrite Forall_forall. intros y Hy. destruct (g y) eqn:Eg; [|subst g; cbn in Eg; lia].
      assert (existsb g (e0 :: data') = true) by (apply existsb_exists; exists y; split; assumption). congruence. }
    replace ((0 =? 0) && (e_off e0 <=? prev)) with true.
    + exists (e0 :: data'), []. rewrite app_nil_r. split4; [reflexivity|reflexivity|exact Hall|constructor].
    + inversion Hall; subst. lia.
  - rewrite Hidx. assert (Hlt : Nat.ltb (length a) (length data) = true).
    { apply Nat.ltb_lt. subst data. rewrite app_length. cbn [length]. lia. }
    rewrite Hlt. replace (0 + Z.of_nat (length a)) with (zlen a) by (unfold zlen; lia).
    pose proof (zlen_nonneg a) as Hna. replace (zlen a <? 0) with false by lia.
    assert (HA : Forall (fun e => e_off e <= prev) a).
    { rewrite Forall_forall. intros y Hy. destruct (g y) eqn:Eg; [|subst g; cbn in Eg; lia].
      assert (existsb g a = true) by (apply existsb_exists; exists y; split; assumption). congruence. }
    assert (HB : Forall (fun e => prev < e_off e) (x :: b)).
    { subst data. destruct (sorted_mid _ _ _ _ Hinc) as [_ Hb]. subst g. cbn in Hx. constructor; [lia|].
      eapply Forall_impl; [|exact Hb]. unfold off_lt. cbn. intros; lia. }
    destruct a as [|a0 a'].
    + cbn [app] in Hd. subst data. rewrite zlen_nil. replace ((0 =? 0) && (e_off x <=? prev)) with false by (inversion HB; subst; lia).
      exists [], (x :: b). split4; [reflexivity|reflexivity|constructor|exact HB].
    + replace ((zlen (a0 :: a') =? 0)) with false by (rewrite zlen_cons; pose proof (zlen_nonneg a'); lia). cbn [andb].
      exists (a0 :: a'), (x :: b). split4; [exact Hd|reflexivity|exact HA|exact HB].
Qed.

(* ---------------------------------------------------------------- reading *)
Lemma read_loop_scan c srcs f B : forall next last o n' l',
  read_loop fixed c srcs f B next last = (o, n', l') ->
  spec_scan c srcs f B last = (of_outcome o, l') /\
  exists C B', B = C ++ B' /\ n' = next + zlen C /\
               ((C = [] /\ l' = last) \/ (exists C0 x, C = C0 ++ [x] /\ l' = e_off x)).
Proof.
  induction B as [|e B IH]; intros next last o n' l' H; cbn [read_loop spec_scan] in *.
  - inversion H; subst. split; [reflexivity|]. exists [], []. split3; [reflexivity|rewrite zlen_nil; lia|left; split; reflexivity].
  - destruct (read_entry fixed c srcs f e) eqn:Er.
    + inversion H; subst. split; [reflexivity|]. exists [e], B. split3; [reflexivity|rewrite zlen_cons, zlen_nil; lia|]. right. exists [], e. split; reflexivity.
    + destruct (IH _ _ _ _ _ H) as [H1 [C [B' [H2 [H3 H4]]]]]. split; [exact H1|].
      exists (e :: C), B'. split3; [cbn [app]; congruence|rewrite zlen_cons; lia|]. right.
      destruct H4 as [[-> ->]|[C0 [x [-> ->]]]]; [exists [], e; split; reflexivity|exists (e :: C0), x; split; reflexivity].
    + inversion H; subst. split; [reflexivity|]. exists [e], B. split3; [reflexivity|rewrite zlen_cons, zlen_nil; lia|]. right. exists [], e. split; reflexivity.
    + inversion H; subst. split; [reflexivity|]. exists [e], B. split3; [reflexivity|rewrite zlen_cons, zlen_nil; lia|]. right. exists [], e. split; reflexivity.
Qed.

Lemma read_next_step c f r r' o :
  WF r -> read_next fixed c f r = (r', o) ->
  WF r' /\ spec_step c f (cursor_of r) OpRead = (cursor_of r', of_outcome o).
Proof.
  intros [Hinc Hnn Hso Hsub [A [B [Hd [Hn [HA HB]]]]]] H. unfold read_next in H.
  rewrite Hd, Hn, skipn_zlen_app in H.
  destruct (read_loop fixed c (r_srcs r) f B (zlen A) (r_last r)) as [[o1 n1] l1] eqn:El. inversion H; subst r' o. clear H.
  destruct (read_loop_scan _ _ _ _ _ _ _ _ _ El) as [Hscan [C [B' [HB' [Hn1 Hl1]]]]].
  split.
  - constructor; cbn [set_cursor r_orig r_index r_next r_last]; try assumption.
    exists (A ++ C), B'. subst B. rewrite app_assoc in Hd. split4; [exact Hd|rewrite zlen_app; lia| |].
    + destruct Hl1 as [[-> ->]|[C0 [x [-> ->]]]]; [rewrite app_nil_r; exact HA|].
      assert (Hx : r_last r < e_off x). { rewrite Forall_forall in HB. apply HB. apply in_or_app. left. apply in_or_app. right. left. reflexivity. }
      apply Forall_app. split; [eapply Forall_le_trans; [|exact HA]; lia|].
      apply Forall_app. split; [|constructor; [lia|constructor]].
      assert (Hc : offs_inc (fi_data (r_index r))) by (eapply subseq_sorted; eassumption).
      rewrite Hd in Hc. replace ((A ++ C0 ++ [x]) ++ B') with ((A ++ C0) ++ x :: B') in Hc by (rewrite <- !app_assoc; reflexivity).
      destruct (sorted_mid _ _ _ _ Hc) as [Hpre _]. apply Forall_app in Hpre. destruct Hpre as [_ Hpre].
      eapply Forall_impl; [|exact Hpre]. unfold off_lt. cbn. intros; lia.
    + destruct Hl1 as [[-> ->]|[C0 [x [-> ->]]]]; [cbn [app] in HB; exact HB|].
      assert (Hc : offs_inc (fi_data (r_index r))) by (eapply subseq_sorted; eassumption).
      rewrite Hd in Hc. replace ((A ++ C0 ++ [x]) ++ B') with ((A ++ C0) ++ x :: B') in Hc by (rewrite <- !app_assoc; reflexivity).
      destruct (sorted_mid _ _ _ _ Hc) as [_ Hpost]. exact Hpost.
  - cbn [spec_step cursor_of cs_cur cs_pos cs_srcs]. rewrite Hd, (beyond_split _ _ _ HA HB), Hscan. reflexivity.
Qed.

(* ---------------------------------------------------------------- refiltering *)
Lemma wf_reindex r i :
  WF r -> subseq (fi_data i) (fi_data (r_orig r)) ->
  WF (set_next (set_index r i) (relocate (fi_data i) (r_last r))).
Proof.
  intros [Hinc Hnn Hso Hsub Hc] Hs. constructor; cbn [set_next set_cursor set_index r_orig r_index r_next r_last]; try assumption.
  apply relocate_correct; [eapply subseq_sorted; eassumption|eapply subseq_Forall; eassumption].
Qed.

Lemma wf_srcs r s : WF r -> WF (set_srcs r s).
Proof. intros [H1 H2 H3 H4 H5]. constructor; assumption. Qed.
Lemma wf_apply_srcs fx r s : WF r -> WF (apply_source_ids fx r s).
Proof. intros H. unfold apply_source_ids. destruct s; [apply wf_srcs|]; exact H. Qed.

Lemma cur_sorted r : WF r -> times_sorted (fi_data (r_index r)).
Proof. intros [H1 H2 H3 H4 H5]. eapply subseq_sorted; eassumption. Qed.

(* filter_in_place without clearing (or clearing with a key that cannot fail) keeps the invariant *)
Lemma filter_in_place_wf r k clear s r' u :
  WF r -> (clear = false \/ k = KNone) -> filter_in_place fixed r k clear s = (r', u) -> WF r'.
Proof.
  intros Hwf Hc H. unfold filter_in_place in H. cbn [prev_offset fx_last_off fixed] in H.
  set (r1 := if clear then set_index r (r_orig r) else r) in *.
  assert (Hwf1 : WF r1 \/ (clear = true /\ k = KNone)).
  { destruct clear; [right; destruct Hc; [discriminate|split; [reflexivity|assumption]]|left; exact Hwf]. }
  destruct (getitem fixed (r_index (apply_source_ids fixed r1 s)) k) as [i|x] eqn:Eg.
  - inversion H; subst r' u. clear H.
    assert (Hl : r_last (apply_source_ids fixed r1 s) = r_last r) by (unfold apply_source_ids; destruct s, clear; reflexivity).
    assert (Ho : r_orig (apply_source_ids fixed r1 s) = r_orig r) by (unfold apply_source_ids; destruct s, clear; reflexivity).
    assert (Hsub : subseq (fi_data i) (fi_data (r_orig r))).
    { apply getitem_subseq in Eg. eapply subseq_trans; [exact Eg|].
      replace (r_index (apply_source_ids fixed r1 s)) with (r_index r1) by (unfold apply_source_ids; destruct s; reflexivity).
      subst r1. destruct clear; [apply subseq_refl|apply Hwf]. }
    destruct Hwf as [Hinc Hnn Hso Hsub0 Hcur].
    constructor; cbn [set_next set_cursor set_index r_orig r_index r_next r_last]; rewrite ?Ho, ?Hl; try assumption.
    apply relocate_correct; [eapply subseq_sorted; eassumption|eapply subseq_Forall; eassumption].
  - inversion H; subst r' u. destruct Hwf1 as [Hw|[-> ->]]; [apply wf_apply_srcs; exact Hw|]. cbn in Eg. discriminate.
Qed.

Lemma filter_step c f r k r' u :
  WF r -> filter_in_place fixed r k false None = (r', u) ->
  WF r' /\ spec_step c f (cursor_of r) (OpFilter k) = (cursor_of r', of_unit u).
Proof.
  intros Hwf H. split; [eapply filter_in_place_wf; [exact Hwf|left; reflexivity|exact H]|].
  unfold filter_in_place in H. cbn [prev_offset fx_last_off fixed apply_source_ids] in H.
  cbn [spec_step cursor_of cs_cur]. rewrite <- getitem_spec by (apply cur_sorted; exact Hwf).
  destruct (getitem fixed (r_index r) k) as [i|x]; inversion H; subst; reflexivity.
Qed.

Lemma clear_step c f r r' u :
  WF r -> filter_in_place fixed r KNone true None = (r', u) ->
  WF r' /\ spec_step c f (cursor_of r) OpClear = (cursor_of r', of_unit u).
Proof.
  intros Hwf H. split; [eapply filter_in_place_wf; [exact Hwf|right; reflexivity|exact H]|].
  unfold filter_in_place in H. cbn in H. inversion H; subst. reflexivity.
Qed.

Lemma rewind_wf r : WF r -> WF (rewind r).
Proof.
  intros [Hinc Hnn Hso Hsub Hc]. constructor; cbn [rewind set_cursor r_orig r_index r_next r_last]; try assumption.
  exists [], (fi_data (r_index r)). split4; [reflexivity|reflexivity|constructor|].
  eapply Forall_impl; [|eapply subseq_Forall; [exact Hsub|exact Hnn]]. cbn. intros; lia.
Qed.

Lemma filter_true_in_range (data : list entry) :
  filter_i (fun i e => ((0 <=? i) && (i <? zlen data)) && negb (is_nan e)) data = filter (fun e => negb (is_nan e)) data.
Proof.
  unfold filter_i. assert (G : forall l i, 0 <= i -> i + zlen l <= zlen data ->
    filter_i_from (fun i e => ((0 <=? i) && (i <? zlen data)) && negb (is_nan e)) i l = filter (fun e => negb (is_nan e)) l).
  { induction l as [|x l IH]; intros i Hi Hl; cbn [filter_i_from filter]; [reflexivity|]. rewrite zlen_cons in Hl. pose proof (zlen_nonneg l).
    replace ((0 <=? i) && (i <? zlen data)) with true by lia. cbn [andb]. rewrite IH by lia. reflexivity. }
  apply G; lia.
Qed.

Lemma remove_untimed_getitem fi :
  getitem fixed fi (KTimeSlice None None (Some RemoveNans)) =
  if zlen (fi_data fi) =? 0 then Ok (mkFI [] None)
  else Ok (mk_index (filter (fun e => negb (is_nan e)) (fi_data fi)) (fi_t0 fi)).
Proof.
  unfold getitem. destruct (zlen (fi_data fi) =? 0) eqn:E0; [reflexivity|]. cbn [fx_remove_nans fixed].
  unfold get_time_range_b. rewrite E0. cbn [bnd_is_none andb fx_remove_nans fixed hint_is_include fx_after_log].
  destruct (fi_t0 fi); [|reflexivity].
  replace (0 <? 0) with false by reflexivity. pose proof (zlen_nonneg (fi_data fi)).
  replace (zlen (fi_data fi) <? 0) with false by lia. rewrite filter_true_in_range. reflexivity.
Qed.

Lemma nth_error_split {A} (l : list A) n x : nth_error l n = Some x -> exists a b, l = a ++ x :: b /\ length a = n.
Proof. intros H. apply nth_error_split in H. exact H. Qed.

Lemma last_off_app l x : last_off (l ++ [x]) = Some (e_off x).
Proof. unfold last_off. rewrite rev_app_distr. reflexivity. Qed.

Lemma last_off_none l : last_off l = None -> l = [].
Proof. destruct l as [|y l] using rev_ind; [reflexivity|]. rewrite last_off_app. discriminate. Qed.

Lemma last_off_some l o : last_off l = Some o -> exists l0 x, l = l0 ++ [x] /\ o = e_off x.
Proof. destruct l as [|y l] using rev_ind; [discriminate|]. rewrite last_off_app. intros H. inversion H. exists l, y. split; reflexivity. Qed.

(* ---------------------------------------------------------------- one operation *)
Theorem step_refines c f r o r' x :
  WF r -> step_op fixed c f r o = (r', x) ->
  WF r' /\ spec_step c f (cursor_of r) o = (cursor_of r', x).
Proof.
  intros Hwf H. destruct o as [|k| | | |i filtered|]; cbn [step_op] in H.
  - (* read *)
    destruct (read_next fixed c f r) as [r1 o1] eqn:E. inversion H; subst. eapply read_next_step; eassumption.
  - (* filter *)
    destruct (filter_in_place fixed r k false None) as [r1 u] eqn:E. inversion H; subst. eapply filter_step; eassumption.
  - (* remove untimed *)
    cbn [fx_remove_nans fixed] in H.
    destruct (filter_in_place fixed r (KTimeSlice None None (Some RemoveNans)) false None) as [r1 u] eqn:E. inversion H; subst r1 x. clear H.
    split; [eapply filter_in_place_wf; [exact Hwf|left; reflexivity|exact E]|].
    unfold filter_in_place in E. cbn [prev_offset fx_last_off fixed apply_source_ids] in E. rewrite remove_untimed_getitem in E.
    cbn [spec_step cursor_of cs_cur]. destruct (zlen (fi_data (r_index r)) =? 0); inversion E; subst; reflexivity.
  - (* clear *)
    destruct (filter_in_place fixed r KNone true None) as [r1 u] eqn:E. inversion H; subst. eapply clear_step; eassumption.
  - (* rewind *)
    inversion H; subst. split; [apply rewind_wf; exact Hwf|reflexivity].
  - (* seek *)
    cbn [spec_step cursor_of cs_cur cs_orig].
    set (l := if filtered then fi_data (r_index r) else fi_data (r_orig r)) in *.
    assert (El : (if filtered then zlen (fi_data (r_index r)) else zlen (fi_data (r_orig r))) = zlen l) by (subst l; destruct filtered; reflexivity).
    rewrite El in H. destruct ((i <? 0) || (zlen l <=? i)) eqn:Eb; [inversion H; subst; split; [exact Hwf|reflexivity]|].
    assert (Hr1 : exists r1, (if filtered then (r, Ok tt) else filter_in_place fixed r KNone true None) = (r1, Ok tt) /\ WF r1 /\
                             fi_data (r_index r1) = l /\ r_orig r1 = r_orig r /\ r_srcs r1 = r_srcs r /\
                             r_index r1 = (if filtered then r_index r else r_orig r)).
    { destruct filtered.
      - exists r. split; [reflexivity|]. split; [exact Hwf|]. repeat split; reflexivity.
      - destruct (filter_in_place fixed r KNone true None) as [r1 u] eqn:E. exists r1.
        pose proof (filter_in_place_wf _ _ _ _ _ _ Hwf (or_intror eq_refl) E) as Hw1.
        unfold filter_in_place in E. cbn in E. inversion E; subst. split; [reflexivity|]. split; [exact Hw1|]. repeat split; reflexivity. }
    destruct Hr1 as [r1 [E1 [Hw1 [Hl1 [Ho1 [Hs1 Hi1]]]]]]. rewrite E1 in H.
    rewrite Hl1 in H. inversion H; subst r' x. clear H.
    set (lo := if i =? 0 then -1 else match nth_error l (Z.to_nat (i - 1)) with Some e => e_off e | None => -1 end).
    split.
    + destruct Hw1 as [Hinc Hnn Hso Hsub Hc]. constructor; cbn [set_cursor r_orig r_index r_next r_last]; try assumption.
      assert (Hcinc : offs_inc l) by (rewrite <- Hl1; eapply subseq_sorted; eassumption).
      assert (Hcnn : nonneg_offs l) by (rewrite <- Hl1; eapply subseq_Forall; eassumption).
      rewrite Hl1. unfold cursor_ok.
      destruct (Z.eq_dec i 0) as [->|Hi0].
      * exists [], l. subst lo. cbn. split4; [reflexivity|reflexivity|constructor|]. eapply Forall_impl; [|exact Hcnn]. cbn. intros; lia.
      * destruct (nth_error l (Z.to_nat (i - 1))) as [e|] eqn:En.
        -- destruct (nth_error_split _ _ _ En) as [a [b [Hab Hla]]].
           exists (a ++ [e]), b. subst lo. replace (i =? 0) with false by lia.
           split4; [rewrite <- app_assoc; exact Hab|rewrite zlen_app, zlen_cons, zlen_nil; unfold zlen; lia| |].
           ++ rewrite Hab in Hcinc. destruct (sorted_mid _ _ _ _ Hcinc) as [Hp _]. apply Forall_app. split; [|constructor; [lia|constructor]].
              eapply Forall_impl; [|exact Hp]. unfold off_lt. cbn. intros; lia.
           ++ rewrite Hab in Hcinc. destruct (sorted_mid _ _ _ _ Hcinc) as [_ Hp]. exact Hp.
        -- apply nth_error_None in En. unfold zlen in Eb. lia.
    + unfold cursor_of. cbn [set_cursor r_orig r_index r_last r_srcs set_cur set_pos cs_orig cs_cur cs_pos cs_srcs].
      rewrite Ho1, Hs1, Hi1. destruct filtered; reflexivity.
  - (* seek_to_eof *)
    cbn [spec_step cursor_of cs_cur cs_pos].
    pose proof Hwf as [Hinc Hnn Hso Hsub [A [B [Hd [Hn [HA HB]]]]]].
    destruct (r_next r =? zlen (fi_data (r_index r))) eqn:En.
    + inversion H; subst r' x. split; [exact Hwf|].
      assert (B = []). { rewrite Hd, zlen_app in En. apply zlen_zero. lia. } subst B. rewrite app_nil_r in Hd.
      destruct (last_off (fi_data (r_index r))) as [o|] eqn:El; [|reflexivity].
      destruct (last_off_some _ _ El) as [l0 [y [Hl0 ->]]].
      assert (e_off y <= r_last r). { rewrite Forall_forall in HA. apply HA. rewrite <- Hd, Hl0. apply in_or_app. right. left. reflexivity. }
      unfold set_pos, cursor_of. cbn [cs_orig cs_cur cs_pos cs_srcs]. replace (Z.max (r_last r) (e_off y)) with (r_last r) by lia. reflexivity.
    + destruct (last_off (fi_data (r_index r))) as [o|] eqn:El.
      * inversion H; subst r' x. destruct (last_off_some _ _ El) as [l0 [y [Hl0 ->]]].
        assert (HBne : B <> []). { intros ->. rewrite app_nil_r in Hd. rewrite Hd in En. lia. }
        assert (Hy : r_last r < e_off y).
        { destruct B as [|b0 B'] using rev_ind; [congruence|]. clear IHB'. rewrite Hd, app_assoc in Hl0. apply app_inj_tail in Hl0. destruct Hl0 as [_ <-].
          rewrite Forall_forall in HB. apply HB. apply in_or_app. right. left. reflexivity. }
        split.
        -- constructor; cbn [set_cursor r_orig r_index r_next r_last]; try assumption.
           exists (fi_data (r_index r)), []. rewrite app_nil_r. split4; [reflexivity|reflexivity| |constructor].
           assert (Hc : offs_inc (fi_data (r_index r))) by (eapply subseq_sorted; eassumption).
           rewrite Hl0 in *. destruct (sorted_mid _ _ _ _ Hc) as [Hp _]. apply Forall_app. split; [|constructor; [lia|constructor]].
           eapply Forall_impl; [|exact Hp]. unfold off_lt. cbn. intros; lia.
        -- unfold set_pos, cursor_of. cbn [set_cursor r_orig r_index r_last r_srcs cs_orig cs_cur cs_pos cs_srcs].
           replace (Z.max (r_last r) (e_off y)) with (e_off y) by lia. reflexivity.
      * apply last_off_none in El. rewrite El in En. rewrite Hd in El. apply app_eq_nil in El. destruct El as [-> ->]. cbn in Hn. rewrite Hn in En. discriminate.
Qed.

(* ---------------------------------------------------------------- every operation sequence *)
Theorem run_refines c f : forall ops r,
  WF r -> fst (run_ops fixed c f r ops) = spec_run c f (cursor_of r) ops.
Proof.
  induction ops as [|o ops IH]; intros r Hwf; [reflexivity|].
  cbn [run_ops spec_run]. destruct (step_op fixed c f r o) as [r' x] eqn:Es.
  destruct (step_refines _ _ _ _ _ _ Hwf Es) as [Hwf' Hspec]. rewrite Hspec.
  destruct (run_ops fixed c f r' ops) as [xs rf] eqn:Er. cbn [fst]. f_equal.
  specialize (IH r' Hwf'). rewrite Er in IH. exact IH.
Qed.

Theorem run_preserves_wf c f : forall ops r, WF r -> WF (snd (run_ops fixed c f r ops)).
Proof.
  induction ops as [|o ops IH]; intros r Hwf; [exact Hwf|].
  cbn [run_ops]. destruct (step_op fixed c f r o) as [r' x] eqn:Es.
  destruct (step_refines _ _ _ _ _ _ Hwf Es) as [Hwf' _].
  specialize (IH r' Hwf'). destruct (run_ops fixed c f r' ops) as [xs rf]. exact IH.
Qed.

Theorem run_refines_wf c f ops r :
  WF r -> fst (run_ops fixed c f r ops) = spec_run c f (cursor_of r) ops /\ WF (snd (run_ops fixed c f r ops)).
Proof. intros H. split; [exact (run_refines c f ops r H)|exact (run_preserves_wf c f ops r H)]. Qed.
