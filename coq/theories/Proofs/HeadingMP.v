From Coq Require Import ZArith QArith Qround Lqa Lia.
From FEC Require Import Models.HeadingM.
Open Scope Q_scope.

Lemma floor_bounds : forall P x, 0 < P ->
  P * inject_Z (Qfloor (x / P)) <= x /\ x < P * inject_Z (Qfloor (x / P)) + P.
Proof.
  intros P x HP.
  pose proof (Qfloor_le (x / P)) as H1.
  pose proof (Qlt_floor (x / P)) as H2.
  rewrite inject_Z_plus in H2.
  assert (NZ : ~ P == 0) by lra.
  pose proof (Qmult_div_r x P NZ) as E.
  split.
  - rewrite <- E at 2. apply Qmult_le_l; assumption.
  - rewrite <- E at 1. setoid_replace (P * inject_Z (Qfloor (x / P)) + P) with (P * (inject_Z (Qfloor (x / P)) + inject_Z 1)) by (unfold inject_Z at 3; ring).
    apply Qmult_lt_l; assumption.
Qed.

Lemma wrap0_range : forall P x, 0 < P -> 0 <= Heading_wrap0 P x /\ Heading_wrap0 P x < P.
Proof. intros P x HP. unfold Heading_wrap0. destruct (floor_bounds P x HP). split; lra. Qed.

Lemma wrap0_congr : forall P x, Heading_congr P (Heading_wrap0 P x) x.
Proof. intros. exists (- Qfloor (x / P))%Z. unfold Heading_wrap0. rewrite inject_Z_opp. ring. Qed.

(* uniqueness: two points of [0,P) that differ by a whole number of periods are equal *)
Lemma congr_unique : forall P a b, 0 < P -> 0 <= a < P -> 0 <= b < P -> Heading_congr P a b -> a == b.
Proof.
  intros P a b HP Ha Hb [k Hk].
  assert (k = 0)%Z.
  { destruct (Z_lt_le_dec k 1) as [L|L]; [destruct (Z_lt_le_dec (-1) k) as [L'|L']; [lia|]|]; exfalso.
    - assert (inject_Z k <= inject_Z (-1)) by (rewrite <- Zle_Qle; lia).
      assert (inject_Z k * P <= inject_Z (-1) * P) by (apply Qmult_le_compat_r; lra).
      unfold inject_Z at 2 in H0. lra.
    - assert (inject_Z 1 <= inject_Z k) by (rewrite <- Zle_Qle; lia).
      assert (inject_Z 1 * P <= inject_Z k * P) by (apply Qmult_le_compat_r; lra).
      unfold inject_Z at 1 in H0. lra. }
  subst k. rewrite Hk. unfold inject_Z. ring.
Qed.

#[global] Instance wrap0_proper : Proper (Qeq ==> Qeq ==> Qeq) Heading_wrap0.
Proof.
  intros P P' EP x x' Ex. unfold Heading_wrap0.
  assert (E : Qfloor (x / P) = Qfloor (x' / P')) by (apply Qfloor_comp; rewrite EP, Ex; reflexivity).
  rewrite E, EP, Ex. reflexivity.
Qed.
#[global] Instance wrapc_proper : Proper (Qeq ==> Qeq ==> Qeq) Heading_wrapc.
Proof. intros P P' EP x x' Ex. unfold Heading_wrapc. rewrite EP, Ex. reflexivity. Qed.
#[global] Instance heading_proper : Proper (Qeq ==> Qeq ==> Qeq) Heading_heading.
Proof. intros P P' EP x x' Ex. unfold Heading_heading. rewrite EP, Ex. reflexivity. Qed.
#[global] Instance yaw_proper : Proper (Qeq ==> Qeq ==> Qeq) Heading_yaw.
Proof. intros P P' EP x x' Ex. unfold Heading_yaw. rewrite EP, Ex. reflexivity. Qed.

Lemma congr_refl : forall P a b, a == b -> Heading_congr P a b.
Proof. intros. exists 0%Z. rewrite H. unfold inject_Z. ring. Qed.
Lemma congr_sym : forall P a b, Heading_congr P a b -> Heading_congr P b a.
Proof. intros P a b [k Hk]. exists (-k)%Z. rewrite Hk, inject_Z_opp. ring. Qed.
Lemma congr_trans : forall P a b c, Heading_congr P a b -> Heading_congr P b c -> Heading_congr P a c.
Proof. intros P a b c [k Hk] [l Hl]. exists (k + l)%Z. rewrite Hk, Hl, inject_Z_plus. ring. Qed.
Lemma congr_sub_l : forall P c a b, Heading_congr P a b -> Heading_congr P (c - a) (c - b).
Proof. intros P c a b [k Hk]. exists (-k)%Z. rewrite Hk, inject_Z_opp. ring. Qed.
Lemma congr_add_r : forall P c a b, Heading_congr P a b -> Heading_congr P (a + c) (b + c).
Proof. intros P c a b [k Hk]. exists k. rewrite Hk. ring. Qed.
Lemma congr_scale : forall P k a b, Heading_congr P a b -> Heading_congr (k * P) (k * a) (k * b).
Proof. intros P k a b [n Hn]. exists n. rewrite Hn. ring. Qed.

Lemma congr_unique_c : forall H a b, 0 < H -> - H <= a < H -> - H <= b < H -> Heading_congr (2 * H) a b -> a == b.
Proof.
  intros H a b HH Ha Hb C.
  assert (a + H == b + H); [|lra].
  apply (congr_unique (2 * H)); try lra. apply congr_add_r, C.
Qed.

Lemma wrapc_range : forall H x, 0 < H -> - H <= Heading_wrapc H x /\ Heading_wrapc H x < H.
Proof. intros H x HH. unfold Heading_wrapc. destruct (wrap0_range (2 * H) (x + H)); lra. Qed.

Lemma wrapc_congr : forall H x, Heading_congr (2 * H) (Heading_wrapc H x) x.
Proof.
  intros. unfold Heading_wrapc. destruct (wrap0_congr (2 * H) (x + H)) as [k Hk].
  exists k. rewrite Hk. ring.
Qed.

Lemma wrap0_scale : forall k P x, 0 < k -> 0 < P -> Heading_wrap0 (k * P) (k * x) == k * Heading_wrap0 P x.
Proof.
  intros k P x Hk HP. unfold Heading_wrap0.
  assert (E : k * x / (k * P) == x / P) by (field; split; lra).
  rewrite E. ring.
Qed.

Lemma wrapc_scale : forall k H x, 0 < k -> 0 < H -> Heading_wrapc (k * H) (k * x) == k * Heading_wrapc H x.
Proof.
  intros k H x Hk HH. unfold Heading_wrapc.
  setoid_replace (2 * (k * H)) with (k * (2 * H)) by ring.
  setoid_replace (k * x + k * H) with (k * (x + H)) by ring.
  rewrite wrap0_scale by lra. ring.
Qed.

(* --- the conversions --- *)
Lemma heading_range : forall H y, 0 < H -> 0 <= Heading_heading H y /\ Heading_heading H y < 2 * H.
Proof. intros. apply wrap0_range. lra. Qed.
Lemma yaw_range : forall H h, 0 < H -> - H <= Heading_yaw H h /\ Heading_yaw H h < H.
Proof. intros. apply wrapc_range. assumption. Qed.
Lemma heading_congr : forall H y, Heading_congr (2 * H) (Heading_heading H y) (H / 2 - y).
Proof. intros. apply wrap0_congr. Qed.
Lemma yaw_congr : forall H h, Heading_congr (2 * H) (Heading_yaw H h) (H / 2 - h).
Proof. intros. apply wrapc_congr. Qed.
Lemma heading_unique : forall H y r, 0 < H -> 0 <= r < 2 * H -> Heading_congr (2 * H) r (H / 2 - y) -> r == Heading_heading H y.
Proof.
  intros H y r HH Hr C. apply (congr_unique (2 * H)); try lra. apply heading_range; assumption.
  eapply congr_trans. apply C. apply congr_sym, heading_congr.
Qed.
Lemma yaw_unique : forall H h r, 0 < H -> - H <= r < H -> Heading_congr (2 * H) r (H / 2 - h) -> r == Heading_yaw H h.
Proof.
  intros H h r HH Hr C. apply (congr_unique_c H); try lra. apply yaw_range; assumption.
  eapply congr_trans. apply C. apply congr_sym, yaw_congr.
Qed.

Lemma yaw_heading_congr : forall H y, Heading_congr (2 * H) (Heading_yaw H (Heading_heading H y)) y.
Proof.
  intros. eapply congr_trans. apply yaw_congr.
  eapply congr_trans. apply congr_sub_l, heading_congr. apply congr_refl. ring.
Qed.
Lemma heading_yaw_congr : forall H h, Heading_congr (2 * H) (Heading_heading H (Heading_yaw H h)) h.
Proof.
  intros. eapply congr_trans. apply heading_congr.
  eapply congr_trans. apply congr_sub_l, yaw_congr. apply congr_refl. ring.
Qed.
Lemma yaw_heading_id : forall H y, 0 < H -> - H <= y < H -> Heading_yaw H (Heading_heading H y) == y.
Proof. intros H y HH Hy. apply (congr_unique_c H); try lra. apply yaw_range; assumption. apply yaw_heading_congr. Qed.
Lemma heading_yaw_id : forall H h, 0 < H -> 0 <= h < 2 * H -> Heading_heading H (Heading_yaw H h) == h.
Proof. intros H h HH Hh. apply (congr_unique (2 * H)); try lra. apply heading_range; assumption. apply heading_yaw_congr. Qed.

Lemma heading_scale : forall k H y, 0 < k -> 0 < H -> Heading_heading (k * H) (k * y) == k * Heading_heading H y.
Proof.
  intros k H y Hk HH. unfold Heading_heading.
  setoid_replace (2 * (k * H)) with (k * (2 * H)) by ring.
  setoid_replace (k * H / 2 - k * y) with (k * (H / 2 - y)) by field.
  apply wrap0_scale; lra.
Qed.
Lemma yaw_scale : forall k H h, 0 < k -> 0 < H -> Heading_yaw (k * H) (k * h) == k * Heading_yaw H h.
Proof.
  intros k H h Hk HH. unfold Heading_yaw.
  setoid_replace (k * H / 2 - k * h) with (k * (H / 2 - h)) by field.
  apply wrapc_scale; lra.
Qed.


Lemma degrees_instance : forall x,
  (0 <= Heading_heading_deg x /\ Heading_heading_deg x < 360) /\ (-(180) <= Heading_yaw_deg x /\ Heading_yaw_deg x < 180) /\
  Heading_congr 360 (Heading_heading_deg x) (90 - x) /\ Heading_congr 360 (Heading_yaw_deg x) (90 - x).
Proof.
  intro x. unfold Heading_heading_deg, Heading_yaw_deg, Heading_wrap360, Heading_wrap180.
  repeat split.
  - apply wrap0_range; reflexivity.
  - apply wrap0_range; reflexivity.
  - apply (wrapc_range 180); reflexivity.
  - apply (wrapc_range 180); reflexivity.
  - apply wrap0_congr.
  - apply (wrapc_congr 180).
Qed.
