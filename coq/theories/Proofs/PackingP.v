(* C02 — generic facts about the README's packing rule [layout_packed], by induction. *)
From Coq Require Import Arith List Lia Sorted.
From FEC Require Import Models.PackingM.
Import ListNotations.

(* the members are back to back: each one starts where the previous one ends, the first at the start offset *)
Lemma layout_packed_from_contiguous : forall l off,
  match layout_packed_from off l with
  | [] => l = []
  | (o, _) :: _ => o = off
  end /\
  forall i a b, nth_error (layout_packed_from off l) i = Some a ->
                nth_error (layout_packed_from off l) (S i) = Some b -> fst b = fst a + snd a.
Proof.
  induction l as [|c t IH]; intros off; cbn [layout_packed_from].
  - split; [reflexivity|]. intros i a b H. destruct i; discriminate.
  - split; [reflexivity|]. intros i a b Ha Hb. destruct i as [|i].
    + cbn [nth_error] in Ha, Hb. inversion Ha; subst a. cbn [fst snd].
      destruct (IH (off + ct_size c)) as [Hh _]. destruct (layout_packed_from (off + ct_size c) t) as [|[o s] r].
      * discriminate.
      * cbn [nth_error] in Hb. inversion Hb; subst b. cbn [fst]. exact Hh.
    + cbn [nth_error] in Ha, Hb. destruct (IH (off + ct_size c)) as [_ Ht]. exact (Ht i a b Ha Hb).
Qed.

(* every range lies between the start offset and start + total size *)
Lemma layout_packed_from_bounds : forall l off o s,
  In (o, s) (layout_packed_from off l) -> off <= o /\ o + s <= off + total_size l.
Proof.
  induction l as [|c t IH]; intros off o s H; cbn [layout_packed_from] in H; [destruct H|].
  cbn [total_size fold_right]. fold (total_size t). destruct H as [H|H].
  - inversion H; subst. lia.
  - apply IH in H. lia.
Qed.

(* offsets strictly increasing and ranges pairwise disjoint, when no member is empty *)
Lemma layout_packed_from_sorted : forall l off,
  Forall (fun c => 0 < ct_size c) l ->
  StronglySorted (fun a b => fst a + snd a <= fst b /\ fst a < fst b) (layout_packed_from off l).
Proof.
  induction l as [|c t IH]; intros off Hpos; cbn [layout_packed_from]; [constructor|].
  inversion Hpos as [|? ? Hc Ht]; subst. constructor; [apply IH; exact Ht|].
  apply Forall_forall. intros [o s] Hin. apply layout_packed_from_bounds in Hin. cbn [fst snd]. lia.
Qed.

Theorem layout_packed_no_overlap : forall l,
  Forall (fun c => 0 < ct_size c) l ->
  StronglySorted (fun a b => fst a + snd a <= fst b /\ fst a < fst b) (layout_packed l) /\
  (forall o s, In (o, s) (layout_packed l) -> o + s <= total_size l) /\
  List.length (layout_packed l) = List.length l.
Proof.
  intros l H. split; [apply layout_packed_from_sorted; exact H|]. split.
  - intros o s Hin. apply layout_packed_from_bounds in Hin. lia.
  - unfold layout_packed. generalize 0. induction l as [|c t IH]; intros off; cbn [layout_packed_from List.length]; [reflexivity|].
    inversion H; subst. rewrite IH; auto.
Qed.

Lemma round_up4_spec : forall n, n <= round_up4 n /\ round_up4 n < n + 4 /\ Nat.modulo (round_up4 n) 4 = 0.
Proof.
  intros n. unfold round_up4.
  pose proof (Nat.div_mod (n + 3) 4 ltac:(lia)) as D.
  pose proof (Nat.mod_upper_bound (n + 3) 4 ltac:(lia)) as U.
  split; [lia|]. split; [lia|].
  rewrite Nat.mul_comm. apply Nat.mod_mul. lia.
Qed.

Lemma list_eqb_pair_eq : forall l1 l2, list_eqb pair_eqb l1 l2 = true -> l1 = l2.
Proof.
  induction l1 as [|[a b] t IH]; intros [|[c d] t2] H; cbn [list_eqb] in H; try discriminate; [reflexivity|].
  apply andb_prop in H. destruct H as [H1 H2]. unfold pair_eqb in H1. cbn [fst snd] in H1.
  apply andb_prop in H1. destruct H1 as [Ha Hb]. apply Nat.eqb_eq in Ha. apply Nat.eqb_eq in Hb. subst.
  f_equal. auto.
Qed.

(* what [follows_readme s = true] means *)
Lemma follows_readme_sound : forall s, follows_readme s = true ->
  dumped s = layout_packed (map m_type (s_members s)) /\
  s_size s = round_up4 (total_size (map m_type (s_members s))) /\ s_align s = 4.
Proof.
  intros s H. unfold follows_readme in H. apply andb_prop in H. destruct H as [H H3].
  apply andb_prop in H. destruct H as [H1 H2].
  apply list_eqb_pair_eq in H1. apply Nat.eqb_eq in H2. apply Nat.eqb_eq in H3. auto.
Qed.

Lemma floats_aligned4_sound : forall s, floats_aligned4 s = true ->
  forall m, In m (s_members s) -> needs_align4 m = true -> Nat.modulo (m_off m) 4 = 0.
Proof.
  intros s H m Hin Hn. unfold floats_aligned4 in H. rewrite forallb_forall in H.
  specialize (H m Hin). rewrite Hn in H. cbn [implb] in H. apply Nat.eqb_eq. exact H.
Qed.
