(* C08: from the worker loops to candidate lists.  For every file, worker count and block table the raw
   index before the merge is the concatenation, over all blocks in ascending order, of the valid candidates
   each block sees in its buffer ([generate_shape], unconditional, hence totality); when every valid
   candidate is at most MAX bytes that concatenation is the list of all valid candidates of the file. *)
From Coq Require Import NArith List Bool Arith Lia ZifyBool ZifyNat ZifyN.
From FEC Require Import Generated.FEConsts Generated.FastIndexerConsts Base.ListX Base.Bytes Base.Crc32 Base.Scan Base.FEFormat
  Models.FastIndexerM Proofs.FastIndexerListP Proofs.FastIndexerArithP Proofs.FastIndexerJudgeP Proofs.FastIndexerCandP.
Import ListNotations.
Open Scope N_scope.

(* facts about the generated column widths *)
Lemma gen_time_fits : FI_TIME_INVALID <= FI_INT_MAX.
Proof. vm_compute. discriminate. Qed.
Lemma gen_size_fits : 24 + MAX_EXPECTED_SIZE_BYTES <= FI_SIZE_MAX.
Proof. vm_compute. discriminate. Qed.

Section Blocks.
  Variables READ MAX : N.
  Hypothesis READ_ge : 2 <= READ.
  Hypothesis READ_even : READ mod 2 = 0.
  Hypothesis MAX_ge : 24 <= MAX.
  Hypothesis MAX_le : MAX <= READ.
  Variable ptime : N -> N -> list N -> option (N * N).
  Variable file : list N.

  Let size := fi_len file.
  Let wc_full' := wc_full READ MAX READ_ge READ_even MAX_ge MAX_le.
  Let wc_short' := wc_short READ MAX READ_ge READ_even MAX_ge MAX_le.
  Let wc_break' := wc_break READ MAX READ_ge READ_even MAX_ge MAX_le.
  Let even_half' := even_half READ MAX READ_ge READ_even MAX_ge MAX_le.
  Let num_blocks_0' := num_blocks_0 READ MAX READ_ge READ_even MAX_ge MAX_le.
  Let num_blocks_spec' := num_blocks_spec READ MAX READ_ge READ_even MAX_ge MAX_le.

  (* what the block at bo contributes: the valid candidates of its candidate range as seen in its buffer *)
  Definition bentries (bo : N) : list fi_raw :=
    let data := fi_block_data READ MAX file bo in
    match fi_word_count READ MAX fi_cur bo (fi_len data) with
    | WCount wc => candsn ptime data bo (N.to_nat (2 * wc))
    | _ => []
    end.

  Lemma data_firstn bo : fi_block_data READ MAX file bo = firstn (N.to_nat (READ + MAX)) (skipn (N.to_nat bo) file).
  Proof. unfold fi_block_data. rewrite fi_take_firstn, fi_drop_skipn. reflexivity. Qed.

  Lemma data_len bo : fi_len (fi_block_data READ MAX file bo) = fi_blen READ MAX size bo.
  Proof.
    rewrite data_firstn, fi_len_length, firstn_length, skipn_length. unfold fi_blen, size. rewrite fi_len_length. lia.
  Qed.

  (* the three cases of word_count, for any block start *)
  Lemma wc_cases bo :
    (READ + MAX <= size - bo /\ fi_word_count READ MAX fi_cur bo (fi_blen READ MAX size bo) = WCount (READ / 2)) \/
    (size - bo < READ + MAX /\ (bo = 0 \/ MAX <= size - bo) /\
       exists wc, fi_word_count READ MAX fi_cur bo (fi_blen READ MAX size bo) = WCount wc /\
                  2 * wc + 3 >= size - bo /\ (wc = 0 \/ 2 * wc + 2 <= size - bo)) \/
    (size - bo < MAX /\ bo <> 0 /\ fi_word_count READ MAX fi_cur bo (fi_blen READ MAX size bo) = WBreak).
  Proof.
    destruct (N.le_gt_cases (READ + MAX) (size - bo)) as [Hf|Hf].
    - left. split; [exact Hf|]. apply wc_full'. exact Hf.
    - assert (Hhalf : 2 * ((size - bo) / 2) <= size - bo < 2 * ((size - bo) / 2) + 2).
      { pose proof (N.div_mod (size - bo) 2 ltac:(lia)). pose proof (N.mod_lt (size - bo) 2 ltac:(lia)). lia. }
      destruct (N.eq_dec bo 0) as [E|NE]; [|destruct (N.le_gt_cases MAX (size - bo)) as [Hm|Hm]].
      + right. left. split; [exact Hf|]. split; [left; exact E|]. eexists. split; [apply wc_short'; [exact Hf|left; exact E]|].
        destruct ((size - bo) / 2 =? 0) eqn:Z; lia.
      + right. left. split; [exact Hf|]. split; [right; exact Hm|]. eexists. split; [apply wc_short'; [exact Hf|right; exact Hm]|].
        destruct ((size - bo) / 2 =? 0) eqn:Z; lia.
      + right. right. split; [exact Hm|]. split; [exact NE|]. apply wc_break'; assumption.
  Qed.

  Lemma break_later bo bo' : fi_word_count READ MAX fi_cur bo (fi_blen READ MAX size bo) = WBreak -> bo <= bo' ->
    bentries bo' = [].
  Proof.
    intros B L. unfold bentries. cbn zeta. rewrite data_len.
    destruct (wc_cases bo) as [(_ & W)|[(_ & _ & wc & W & _)|(Hm & Hn & _)]]; [congruence|congruence|].
    destruct (wc_cases bo') as [(H & _)|[(_ & [H|H] & _)|(_ & _ & W')]]; [lia|lia|lia|]. rewrite W'. reflexivity.
  Qed.

  Lemma break_later_range : forall n a bo, fi_word_count READ MAX fi_cur bo (fi_blen READ MAX size bo) = WBreak -> bo <= a ->
    concat (map bentries (fi_range READ a n)) = [].
  Proof.
    induction n as [|n IH]; intros a bo B L; [reflexivity|]. cbn [fi_range map concat].
    rewrite (break_later bo a B L). rewrite (IH (a + READ) bo B) by lia. reflexivity.
  Qed.

  (* the loop over the blocks of one worker (its starts are an arithmetic progression) *)
  Lemma blocks_ok : forall n a me,
    fi_blocks READ MAX fi_cur ptime file (fi_range READ a n) me = FOk (concat (map bentries (fi_range READ a n))).
  Proof.
    induction n as [|n IH]; intros a me; [reflexivity|]. cbn [fi_range fi_blocks map concat].
    unfold bentries at 1. cbn zeta. rewrite data_len.
    destruct (wc_cases a) as [(Hf & W)|[(Hf & _ & wc & W & Hlo & Hhi)|(_ & _ & W)]]; rewrite W.
    - (* full read *)
      assert (Hb : fi_blen READ MAX size a = READ + MAX) by (unfold fi_blen; lia).
      pose proof even_half' as EH.
      assert (negb (READ / 2 =? 0) && negb (fi_has (2 * (READ / 2) + 1) (fi_block_data READ MAX file a)) = false) as ->.
      { rewrite fi_has_length, data_len, Hb. lia. }
      destruct (fi_process fi_cur ptime a (fi_syncs (fi_block_data READ MAX file a) 0 (N.to_nat (2 * (READ / 2)))) me) as [es me'] eqn:P.
      pose proof (process_syncs ptime (N.to_nat (2 * (READ / 2))) (fi_block_data READ MAX file a) 0 a me) as PS.
      rewrite P in PS. cbn [fst] in PS. rewrite N.add_0_r in PS. rewrite IH, PS. reflexivity.
    - assert (Hb : fi_blen READ MAX size a = size - a) by (unfold fi_blen; lia).
      assert (negb (wc =? 0) && negb (fi_has (2 * wc + 1) (fi_block_data READ MAX file a)) = false) as ->.
      { rewrite fi_has_length, data_len, Hb. lia. }
      destruct (fi_process fi_cur ptime a (fi_syncs (fi_block_data READ MAX file a) 0 (N.to_nat (2 * wc))) me) as [es me'] eqn:P.
      pose proof (process_syncs ptime (N.to_nat (2 * wc)) (fi_block_data READ MAX file a) 0 a me) as PS.
      rewrite P in PS. cbn [fst] in PS. rewrite N.add_0_r in PS. rewrite IH, PS. reflexivity.
    - rewrite (break_later_range n (a + READ) a W) by lia. reflexivity.
  Qed.

  (* ---- np.array of a worker never overflows (repaired code) ------------------------------------------- *)
  Lemma time_raw_le t : fi_time_raw fi_cur t <= TIME_INVALID.
  Proof.
    unfold fi_time_raw. destruct t as [[num den]|]; [|lia]. cbn [fi_cur c_timeguard andb].
    destruct (TIME_INVALID <=? num / den) eqn:E; lia.
  Qed.

  Lemma valid_psize l h : fi_valid l = Some h -> h_psize h <= MAX_EXPECTED_SIZE_BYTES.
  Proof.
    intros V. apply valid_judge in V. destruct V as (J & Hh). subst h.
    apply judge_fe_accept_inv in J. tauto.
  Qed.

  Lemma raw_of_bounds l off h : fi_valid l = Some h ->
    r_int (raw_of ptime l off h) <= FI_INT_MAX /\ r_size (raw_of ptime l off h) <= FI_SIZE_MAX.
  Proof.
    intros V. unfold raw_of. cbn [r_int r_size]. split.
    - pose proof (time_raw_le (ptime (h_type h) (h_msgver h) (fi_take (h_psize h) (fi_drop 24 l)))).
      pose proof gen_time_fits. unfold TIME_INVALID in *. lia.
    - pose proof (valid_psize _ _ V). pose proof gen_size_fits. lia.
  Qed.

  Lemma to_array_ok es : (forall e, In e es -> r_int e <= FI_INT_MAX /\ r_size e <= FI_SIZE_MAX) ->
    fi_to_array fi_cur es = FOk es.
  Proof.
    intros H. unfold fi_to_array. cbn [fi_cur c_sizewide].
    destruct (existsb (fun e => FI_INT_MAX <? r_int e) es) eqn:E1.
    { apply existsb_exists in E1. destruct E1 as (e & He & Hlt). apply H in He. lia. }
    destruct (existsb (fun e => FI_SIZE_MAX <? r_size e) es) eqn:E2.
    { apply existsb_exists in E2. destruct E2 as (e & He & Hlt). apply H in He. lia. }
    reflexivity.
  Qed.

  Lemma bentries_bounds bo e : In e (bentries bo) -> r_int e <= FI_INT_MAX /\ r_size e <= FI_SIZE_MAX.
  Proof.
    unfold bentries. cbn zeta. destruct (fi_word_count READ MAX fi_cur bo (fi_len (fi_block_data READ MAX file bo))); try (intros []).
    intros H. apply candsn_in in H. destruct H as (j & h & _ & V & _ & _ & ->). apply raw_of_bounds. exact V.
  Qed.

  Lemma worker_ok a n :
    fi_worker READ MAX fi_cur ptime file (fi_range READ a n) = FOk (concat (map bentries (fi_range READ a n))).
  Proof.
    unfold fi_worker. rewrite blocks_ok. apply to_array_ok.
    intros e He. apply in_concat in He. destruct He as (x & Hx & He). apply in_map_iff in Hx. destruct Hx as (bo & <- & _).
    eapply bentries_bounds. exact He.
  Qed.

  (* ---- the block table: every worker gets an arithmetic progression, together they are all blocks ---- *)
  Lemma range_app : forall m1 m2 a,
    fi_range READ a (m1 + m2) = fi_range READ a m1 ++ fi_range READ (a + N.of_nat m1 * READ) m2.
  Proof.
    induction m1 as [|m1 IH]; intros m2 a.
    - cbn [Nat.add fi_range app]. f_equal. lia.
    - cbn [Nat.add fi_range app]. f_equal. rewrite IH. f_equal. f_equal. lia.
  Qed.

  Definition is_range (s : list N) : Prop := exists a m, s = fi_range READ a m.

  Lemma alloc_spec q r : forall n i off,
    Forall is_range (fi_alloc READ q r n i off) /\
    concat (fi_alloc READ q r n i off) =
    fi_range READ off (N.to_nat (q * N.of_nat n + (N.min (i + N.of_nat n) r - N.min i r))).
  Proof.
    induction n as [|n IH]; intros i off.
    - cbn [fi_alloc concat]. split; [constructor|]. replace (N.to_nat _) with 0%nat by lia. reflexivity.
    - cbn [fi_alloc concat]. set (blocks := q + (if i <? r then 1 else 0)).
      destruct (IH (N.succ i) (off + blocks * READ)) as (F & C). split.
      + constructor; [eexists; eexists; reflexivity|exact F].
      + rewrite C.
        replace (N.to_nat (q * N.of_nat (S n) + (N.min (i + N.of_nat (S n)) r - N.min i r)))
          with (N.to_nat blocks + N.to_nat (q * N.of_nat n + (N.min (N.succ i + N.of_nat n) r - N.min (N.succ i) r)))%nat.
        * rewrite range_app. f_equal. f_equal. lia.
        * subst blocks. destruct (i <? r) eqn:E; lia.
  Qed.

  Lemma table_spec W : 1 <= W ->
    Forall is_range (fi_block_table READ size W) /\
    concat (fi_block_table READ size W) = fi_range READ 0 (N.to_nat (fi_num_blocks READ size)).
  Proof.
    intros HW. unfold fi_block_table. cbn zeta. set (nb := fi_num_blocks READ size).
    destruct (alloc_spec (nb / W) (nb mod W) (N.to_nat W) 0 0) as (F & C). split; [exact F|].
    rewrite C. f_equal. f_equal.
    pose proof (N.div_mod nb W ltac:(lia)). pose proof (N.mod_lt nb W ltac:(lia)).
    rewrite N2Nat.id. rewrite (N.mul_comm (nb / W) W). lia.
  Qed.

  Lemma gather_ok : forall tbl, Forall is_range tbl ->
    fi_gather (map (fi_worker READ MAX fi_cur ptime file) tbl) = FOk (concat (map bentries (concat tbl))).
  Proof.
    induction tbl as [|s tbl IH]; intros F; [reflexivity|].
    inversion F as [|? ? (a & m & ->) F']; subst. cbn [map fi_gather concat].
    rewrite worker_ok, IH by exact F'. rewrite map_app, concat_app. reflexivity.
  Qed.

  (* SHAPE of the result, for every file and every worker count >= 1: no exception; the kept entries are the
     greedy selection from the per-block candidate lists of all blocks in ascending order *)
  Theorem generate_shape W : 1 <= W ->
    fi_generate READ MAX fi_cur ptime file W =
    FOk (fi_from_raw (fi_greedy (concat (map bentries (fi_range READ 0 (N.to_nat (fi_num_blocks READ size))))) 0) 0).
  Proof.
    intros HW. unfold fi_generate. assert (W =? 0 = false) as -> by lia. cbn zeta. fold size.
    destruct (table_spec W HW) as (F & C). rewrite (gather_ok _ F), C. reflexivity.
  Qed.

  (* ---- per-block candidates seen in the file (needs: every valid candidate is at most MAX bytes) ------ *)
  Definition small_valid : Prop :=
    forall j h, fi_valid (skipn j file) = Some h -> N.of_nat (fi_msize h) <= MAX.

  Hypothesis SMALL : small_valid.

  Lemma bentries_file bo wc : fi_word_count READ MAX fi_cur bo (fi_blen READ MAX size bo) = WCount wc ->
    bentries bo = candsn ptime (skipn (N.to_nat bo) file) bo (N.to_nat (2 * wc)).
  Proof.
    intros W. unfold bentries. cbn zeta. rewrite data_len, W, data_firstn. apply candsn_prefix.
    intros j h Hj V. rewrite skipn_skipn in V. pose proof (SMALL _ _ V) as Hs.
    pose proof (valid_size_le _ _ V) as (Hfit & H24). rewrite skipn_length in Hfit. unfold HEADER_SIZE in H24.
    assert (Hsz : size = N.of_nat (length file)) by (unfold size; apply fi_len_length).
    destruct (wc_cases bo) as [(Hf & W')|[(Hf & _ & wc' & W' & _)|(_ & _ & W')]]; rewrite W' in W; [| |discriminate].
    - injection W as <-. pose proof even_half'. lia.
    - lia.
  Qed.

  (* the blocks from a onwards report exactly the valid candidates of the file from a onwards *)
  Lemma tiles : forall n a, a < size -> a = 0 \/ MAX <= size - a -> size <= a + N.of_nat n * READ ->
    concat (map bentries (fi_range READ a n)) = all_cands ptime (skipn (N.to_nat a) file) a.
  Proof.
    assert (Hsz : size = N.of_nat (length file)) by (unfold size; apply fi_len_length).
    induction n as [|n IH]; intros a Ha Hz Hn; [lia|]. cbn [fi_range map concat].
    destruct (wc_cases a) as [(Hf & W)|[(Hf & _ & wc & W & Hlo & Hhi)|(Hm & Hnz & _)]].
    - rewrite (bentries_file a _ W). pose proof even_half' as EH. rewrite EH.
      rewrite IH by lia.
      rewrite (all_cands_split ptime (N.to_nat READ) (skipn (N.to_nat a) file) a) by (rewrite skipn_length; lia).
      rewrite skipn_skipn, N2Nat.id. replace (N.to_nat a + N.to_nat READ)%nat with (N.to_nat (a + READ)) by lia. reflexivity.
    - rewrite (bentries_file a _ W).
      rewrite candsn_enough by (rewrite skipn_length; unfold HEADER_SIZE; lia).
      assert (B : fi_word_count READ MAX fi_cur (a + READ) (fi_blen READ MAX size (a + READ)) = WBreak).
      { destruct (wc_cases (a + READ)) as [(H & _)|[(_ & [H|H] & _)|(_ & _ & W')]]; [lia|lia|lia|exact W']. }
      rewrite (break_later_range n (a + READ) (a + READ) B) by lia. apply app_nil_r.
    - lia.
  Qed.

  Theorem all_blocks_all_cands :
    concat (map bentries (fi_range READ 0 (N.to_nat (fi_num_blocks READ size)))) = all_cands ptime file 0.
  Proof.
    destruct (N.eq_dec size 0) as [Z|NZ].
    - rewrite Z, num_blocks_0'. cbn [N.to_nat fi_range map concat].
      assert (file = []) as -> by (unfold size in Z; rewrite fi_len_length in Z; destruct file; [reflexivity|cbn [length] in Z; lia]).
      reflexivity.
    - destruct (num_blocks_spec' size ltac:(lia)) as (H1 & Hlo & Hhi).
      rewrite (tiles _ 0) by (rewrite ?N2Nat.id; lia). reflexivity.
  Qed.
End Blocks.
