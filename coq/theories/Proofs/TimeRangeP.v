(* C13 — proofs about the TimeRange model (Models/TimeRangeM.v). *)
From Coq Require Import ZArith List Bool Lia ZifyBool.
From FEC Require Import Generated.TimeRangeConsts Models.TimeRangeM.
Import ListNotations.
Open Scope Z_scope.

(* ------------------------------------------------------------------------------------------------ *)
(* order facts                                                                                      *)
(* ------------------------------------------------------------------------------------------------ *)
Lemma ge_lo_mono : forall lo c c', c <= c' -> ge_lo lo c = true -> ge_lo lo c' = true.
Proof. intros [[|z|]|] c c' H; cbn; try reflexivity; try discriminate; lia. Qed.

Lemma lt_hi_anti : forall hi c c', c <= c' -> lt_hi hi c = false -> lt_hi hi c' = false.
Proof. intros [[|z|]|] c c' H; cbn; try reflexivity; try discriminate; lia. Qed.

Lemma rel_mono : forall v o a b, a <= b -> rel v o a <= rel v o b.
Proof. intros v o a b H; unfold rel; destruct (iabs v), o; lia. Qed.

(* ------------------------------------------------------------------------------------------------ *)
(* closed form of one is_in_range step on a specified range                                          *)
(* ------------------------------------------------------------------------------------------------ *)
Definition cfg (r : tr) : iv := mkiv (start r) (stop r) (absolute r) None.
Definition next_t0 (r : tr) (m : msg) : option Z :=
  match t0 r, m with None, Timed t => Some t | o, _ => o end.
Definition verdict (r : tr) (m : msg) : bool :=
  negb (ended r) &&
  match m with
  | Untimed => is_none (start r) || started r
  | Timed t => in_iv (cfg r) (rel (cfg r) (next_t0 r m) t)
  end.
Definition next_ended (r : tr) (m : msg) : bool :=
  ended r ||
  match m with
  | Untimed => false
  | Timed t => let c := rel (cfg r) (next_t0 r m) t in
               (ge_lo (start r) c && negb (lt_hi (stop r) c)) || (negb (verdict r m) && started r)
  end.

Lemma is_in_range_closed : forall r m, specified r = true ->
  is_in_range r m =
  (mktr (start r) (stop r) (absolute r) (next_t0 r m) true (started r || verdict r m) (next_ended r m), verdict r m).
Proof.
  intros [st sp ab o spc sd ed] m H; cbn in H; subst spc.
  unfold is_in_range, is_in_range_gen, next_ended, verdict, next_t0, in_iv, rel, cfg, ge_lo, lt_hi; cbn -[ext_ltb].
  destruct m as [|t]; destruct o as [z|]; destruct ed, sd, ab; cbn -[ext_ltb];
    destruct st as [s|]; destruct sp as [e|]; cbn -[ext_ltb]; try reflexivity;
    repeat match goal with |- context [ext_ltb ?a ?b] => destruct (ext_ltb a b) eqn:?; cbn -[ext_ltb] end; reflexivity.
Qed.

(* ------------------------------------------------------------------------------------------------ *)
(* membership = SPEC : invariant on the two latches, t0 and the last P1 time of the pass             *)
(* ------------------------------------------------------------------------------------------------ *)
Record Inv (r : tr) (hist : list (msg * bool)) (last : option Z) : Prop := {
  inv_S : started r = some_accepted hist;
  inv_E1 : ended r = true -> seen_beyond (cfg r) (t0 r) hist = true;
  inv_E2 : seen_beyond (cfg r) (t0 r) hist = true -> is_none (start r) || started r = true -> ended r = true;
  inv_B : seen_beyond (cfg r) (t0 r) hist = true ->
          exists l, last = Some l /\ lt_hi (stop r) (rel (cfg r) (t0 r) l) = false;
  inv_L : started r = true -> is_none (start r) = false ->
          exists l, last = Some l /\ ge_lo (start r) (rel (cfg r) (t0 r) l) = true;
  inv_O : forall l, last = Some l -> t0 r <> None;
  inv_H : t0 r = None -> Forall (fun mb => fst mb = Untimed) hist
}.

Lemma seen_beyond_untimed : forall v o hist,
  Forall (fun mb : msg * bool => fst mb = Untimed) hist -> seen_beyond v o hist = false.
Proof.
  intros v o hist H; induction H as [|[m b] l Hm _ IH]; [reflexivity|].
  cbn in *; subst m; exact IH.
Qed.

Definition next_last (m : msg) (last : option Z) : option Z := match m with Timed t => Some t | Untimed => last end.
Definition step_sorted (m : msg) (last : option Z) : Prop :=
  match m, last with Timed t, Some l => l <= t | _, _ => True end.

Lemma step_inv : forall r m hist last,
  specified r = true -> Inv r hist last -> step_sorted m last ->
  verdict r m = spec_decide (cfg r) (next_t0 r m) hist m /\
  Inv (fst (is_in_range r m)) ((m, verdict r m) :: hist) (next_last m last).
Proof.
  intros r m hist last Hs [S E1 E2 B L O H] Hsort.
  rewrite (is_in_range_closed r m Hs); cbn [fst].
  destruct m as [|t].
  - (* untimed *)
    assert (Hn : next_t0 r Untimed = t0 r) by (unfold next_t0; destruct (t0 r); reflexivity).
    unfold verdict, next_ended; rewrite Hn; cbn [spec_decide next_last].
    set (sb := seen_beyond (cfg r) (t0 r) hist) in *.
    assert (Hv : negb (ended r) && (is_none (start r) || started r) = negb sb && (is_none (start r) || some_accepted hist)).
    { rewrite <- S. destruct (ended r) eqn:He, sb eqn:Hb; cbn; try reflexivity.
      - discriminate (E1 eq_refl).
      - destruct (is_none (start r) || started r) eqn:Hx; [|reflexivity]. discriminate (E2 eq_refl eq_refl). }
    split; [exact Hv|].
    constructor; cbn [cfg start stop absolute t0 started ended some_accepted seen_beyond existsb fst snd].
    + rewrite S. apply orb_comm.
    + rewrite orb_false_r. fold (cfg r). exact E1.
    + fold (cfg r). change (existsb _ hist) with sb. rewrite orb_false_r.
      intros Hb Hx. destruct (ended r) eqn:He; [reflexivity|]. cbn in Hx.
      apply E2; [exact Hb|]. destruct (is_none (start r)); [reflexivity|]. cbn in *.
      destruct (started r); [reflexivity|]. cbn in Hx. exact Hx.
    + fold (cfg r). exact B.
    + fold (cfg r). intros Hst Hno. apply L; [|exact Hno].
      destruct (started r); [reflexivity|]. rewrite Hno in Hst. cbn in Hst.
      rewrite andb_false_r in Hst. exact Hst.
    + exact O.
    + intros Ho. constructor; [reflexivity|]. apply H. exact Ho.
  - (* timed *)
    cbn [next_last step_sorted] in *.
    set (o' := next_t0 r (Timed t)).
    set (c := rel (cfg r) o' t).
    (* facts about the history under the (possibly new) origin *)
    assert (Hsb : seen_beyond (cfg r) o' hist = seen_beyond (cfg r) (t0 r) hist).
    { unfold o', next_t0. destruct (t0 r) eqn:Ho; [reflexivity|].
      rewrite !seen_beyond_untimed by (apply H; reflexivity). reflexivity. }
    assert (Hrel : forall l, last = Some l -> rel (cfg r) (t0 r) l <= c).
    { intros l Hl. unfold c, o', next_t0. destruct (t0 r) eqn:Ho.
      - apply rel_mono. rewrite Hl in Hsort. exact Hsort.
      - exfalso. exact (O l Hl eq_refl). }
    set (sb := seen_beyond (cfg r) (t0 r) hist) in *.
    assert (Hlo : started r = true -> ge_lo (start r) c = true).
    { intros Hst. destruct (is_none (start r)) eqn:Hn.
      - destruct (start r); [discriminate|reflexivity].
      - destruct (L Hst eq_refl) as [l [Hl Hg]]. eapply ge_lo_mono; [apply Hrel; exact Hl|exact Hg]. }
    assert (Hhi : sb = true -> lt_hi (stop r) c = false).
    { intros Hb. destruct (B Hb) as [l [Hl Hg]]. eapply lt_hi_anti; [apply Hrel; exact Hl|exact Hg]. }
    assert (Hv : verdict r (Timed t) = in_iv (cfg r) c).
    { unfold verdict. fold o'. fold c. destruct (ended r) eqn:He; [|reflexivity].
      cbn. unfold in_iv; cbn [lo hi cfg]. rewrite (Hhi (E1 eq_refl)). apply andb_false_r. }
    split; [rewrite Hv; reflexivity|].
    unfold next_ended. fold o'. fold c. rewrite Hv. unfold in_iv; cbn [lo hi cfg].
    constructor; cbn [cfg start stop absolute t0 started ended some_accepted seen_beyond existsb fst snd];
      fold (cfg r); fold c; unfold beyond; cbn [hi cfg]; fold (cfg r); rewrite ?Hsb; fold sb.
    + rewrite S. apply orb_comm.
    + intros He. destruct (lt_hi (stop r) c) eqn:Hl; [|reflexivity]. cbn.
      destruct sb eqn:Hb; [reflexivity|].
      destruct (ended r) eqn:Hed; [exact (E1 eq_refl)|]. cbn in He.
      rewrite !andb_false_r in He. cbn in He. rewrite andb_true_r in He. cbn in He.
      destruct (started r) eqn:Hst; [|rewrite andb_false_r in He; discriminate].
      rewrite (Hlo eq_refl) in He. discriminate.
    + intros Hb Hx.
      destruct (ended r) eqn:Hed; [reflexivity|]. cbn.
      destruct (lt_hi (stop r) c) eqn:Hl.
      * cbn in Hb. rewrite (Hhi Hb) in Hl. discriminate.
      * rewrite andb_false_r in *. cbn in *. rewrite orb_false_r in Hx.
        destruct (ge_lo (start r) c) eqn:Hg; [reflexivity|]. cbn.
        destruct (started r) eqn:Hst; [rewrite (Hlo eq_refl) in Hg; discriminate|].
        cbn in Hx. destruct (start r); [discriminate|]. cbn in Hg. discriminate.
    + intros Hb. exists t. split; [reflexivity|]. fold c.
      destruct (lt_hi (stop r) c) eqn:Hl; [|reflexivity]. cbn in Hb. rewrite (Hhi Hb) in Hl. discriminate.
    + intros Hst Hno. exists t. split; [reflexivity|]. fold c.
      destruct (started r) eqn:Hsd; [exact (Hlo eq_refl)|]. cbn in Hst.
      apply andb_prop in Hst. tauto.
    + intros l _. unfold o', next_t0. destruct (t0 r); discriminate.
    + unfold o', next_t0. destruct (t0 r); discriminate.
Qed.
