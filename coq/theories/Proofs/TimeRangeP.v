(* C13 — proofs about the TimeRange model (Models/TimeRangeM.v). *)
From Coq Require Import ZArith List Bool Lia ZifyBool.
From FEC Require Import Generated.TimeRangeConsts Models.TimeRangeM.
Import ListNotations.
Open Scope Z_scope.

(* ------------------------------------------------------------------------------------------------ *)
(* order facts                                                                                      *)
(* ------------------------------------------------------------------------------------------------ *)
Lemma ge_lo_mono : forall lo c c', c <= c' -> ge_lo lo c = true -> ge_lo lo c' = true.
Proof. intros [[|z|]|] c c' H; cbn; try reflexivity; try discriminate; lia. Qed.

Lemma lt_hi_anti : forall hi c c', c <= c' -> lt_hi hi c = false -> lt_hi hi c' = false.
Proof. intros [[|z|]|] c c' H; cbn; try reflexivity; try discriminate; lia. Qed.

Lemma rel_mono : forall v o a b, a <= b -> rel v o a <= rel v o b.
Proof. intros v o a b H; unfold rel; destruct (iabs v), o; lia. Qed.

(* ------------------------------------------------------------------------------------------------ *)
(* closed form of one is_in_range step on a specified range                                          *)
(* ------------------------------------------------------------------------------------------------ *)
Definition cfg (r : tr) : iv := mkiv (start r) (stop r) (absolute r) None.
Definition next_t0 (r : tr) (m : msg) : option Z :=
  match t0 r, m with None, Timed t => Some t | o, _ => o end.
Definition verdict (r : tr) (m : msg) : bool :=
  negb (ended r) &&
  match m with
  | Untimed => is_none (start r) || started r
  | Timed t => in_iv (cfg r) (rel (cfg r) (next_t0 r m) t)
  end.
Definition next_ended (r : tr) (m : msg) : bool :=
  ended r ||
  match m with
  | Untimed => false
  | Timed t => let c := rel (cfg r) (next_t0 r m) t in
               (ge_lo (start r) c && negb (lt_hi (stop r) c)) || (negb (verdict r m) && started r)
  end.

Lemma is_in_range_closed : forall r m, specified r = true ->
  is_in_range r m =
  (mktr (start r) (stop r) (absolute r) (next_t0 r m) true (started r || verdict r m) (next_ended r m), verdict r m).
Proof.
  intros [st sp ab o spc sd ed] m H; cbn in H; subst spc.
  unfold is_in_range, is_in_range_gen, next_ended, verdict, next_t0, in_iv, rel, cfg, ge_lo, lt_hi; cbn -[ext_ltb].
  destruct m as [|t]; destruct o as [z|]; destruct ed, sd, ab; cbn -[ext_ltb];
    destruct st as [s|]; destruct sp as [e|]; cbn -[ext_ltb]; try reflexivity;
    repeat match goal with |- context [ext_ltb ?a ?b] => destruct (ext_ltb a b) eqn:?; cbn -[ext_ltb] end; reflexivity.
Qed.

(* ------------------------------------------------------------------------------------------------ *)
(* membership = SPEC : invariant on the two latches, t0 and the last P1 time of the pass             *)
(* ------------------------------------------------------------------------------------------------ *)
Record Inv (r : tr) (hist : list (msg * bool)) (last : option Z) : Prop := {
  inv_S : started r = some_accepted hist;
  inv_E1 : ended r = true -> seen_beyond (cfg r) (t0 r) hist = true;
  inv_E2 : seen_beyond (cfg r) (t0 r) hist = true -> is_none (start r) || started r = true -> ended r = true;
  inv_B : seen_beyond (cfg r) (t0 r) hist = true ->
          exists l, last = Some l /\ lt_hi (stop r) (rel (cfg r) (t0 r) l) = false;
  inv_L : started r = true -> is_none (start r) = false ->
          exists l, last = Some l /\ ge_lo (start r) (rel (cfg r) (t0 r) l) = true;
  inv_O : forall l, last = Some l -> t0 r <> None;
  inv_H : t0 r = None -> Forall (fun mb => fst mb = Untimed) hist
}.

Lemma seen_beyond_untimed : forall v o hist,
  Forall (fun mb : msg * bool => fst mb = Untimed) hist -> seen_beyond v o hist = false.
Proof.
  intros v o hist H; induction H as [|[m b] l Hm _ IH]; [reflexivity|].
  cbn in *; subst m; exact IH.
Qed.

Lemma seen_beyond_cons : forall v o m b h,
  seen_beyond v o ((m, b) :: h) = (match m with Timed t => beyond v (rel v o t) | Untimed => false end) || seen_beyond v o h.
Proof. reflexivity. Qed.
Lemma some_accepted_cons : forall m b h, some_accepted ((m, b) :: h) = b || some_accepted h.
Proof. reflexivity. Qed.

Definition next_last (m : msg) (last : option Z) : option Z := match m with Timed t => Some t | Untimed => last end.
Definition step_sorted (m : msg) (last : option Z) : Prop :=
  match m, last with Timed t, Some l => l <= t | _, _ => True end.

Lemma step_inv : forall r m hist last,
  specified r = true -> Inv r hist last -> step_sorted m last ->
  verdict r m = spec_decide (cfg r) (next_t0 r m) hist m /\
  Inv (fst (is_in_range r m)) ((m, verdict r m) :: hist) (next_last m last).
Proof.
  intros r m hist last Hs [S E1 E2 B L O H] Hsort.
  rewrite (is_in_range_closed r m Hs); cbn [fst].
  destruct m as [|t].
  - (* untimed *)
    assert (Hn : next_t0 r Untimed = t0 r) by (unfold next_t0; destruct (t0 r); reflexivity).
    unfold verdict, next_ended; rewrite Hn; cbn [spec_decide next_last].
    set (sb := seen_beyond (cfg r) (t0 r) hist) in *.
    rewrite <- S. cbn [lo cfg].
    split.
    { clear B L O H; clearbody sb. destruct (ended r), sb, (is_none (start r)), (started r); cbn in *; intuition congruence. }
    constructor; change (cfg (mktr _ _ _ _ _ _ _)) with (cfg r);
      cbn [start stop absolute t0 started ended]; rewrite ?seen_beyond_cons, ?some_accepted_cons;
      fold sb; rewrite <- ?S; rewrite ?orb_false_l, ?orb_false_r.
    + clear B L O H; clearbody sb. destruct (ended r), sb, (is_none (start r)), (started r); cbn in *; intuition congruence.
    + exact E1.
    + clear B L O H; clearbody sb. destruct (ended r), sb, (is_none (start r)), (started r); cbn in *; intuition congruence.
    + exact B.
    + intros Hst Hno. apply L; [|exact Hno].
      clear B L O H; clearbody sb. destruct (ended r), sb, (is_none (start r)), (started r); cbn in *; intuition congruence.
    + exact O.
    + intros Ho. constructor; [reflexivity|]. apply H. exact Ho.
  - (* timed *)
    cbn [next_last step_sorted] in *.
    set (o' := next_t0 r (Timed t)).
    set (c := rel (cfg r) o' t).
    (* facts about the history under the (possibly new) origin *)
    assert (Hsb : seen_beyond (cfg r) o' hist = seen_beyond (cfg r) (t0 r) hist).
    { unfold o', next_t0. destruct (t0 r) eqn:Ho; [reflexivity|].
      rewrite !seen_beyond_untimed by (apply H; reflexivity). reflexivity. }
    assert (Hrel : forall l, last = Some l -> rel (cfg r) (t0 r) l <= c).
    { intros l Hl. unfold c, o', next_t0. destruct (t0 r) eqn:Ho.
      - apply rel_mono. rewrite Hl in Hsort. exact Hsort.
      - exfalso. exact (O l Hl eq_refl). }
    set (sb := seen_beyond (cfg r) (t0 r) hist) in *.
    assert (Hlo : started r = true -> ge_lo (start r) c = true).
    { intros Hst. destruct (is_none (start r)) eqn:Hn.
      - destruct (start r); [discriminate|reflexivity].
      - destruct (L Hst eq_refl) as [l [Hl Hg]]. eapply ge_lo_mono; [apply Hrel; exact Hl|exact Hg]. }
    assert (Hhi : sb = true -> lt_hi (stop r) c = false).
    { intros Hb. destruct (B Hb) as [l [Hl Hg]]. eapply lt_hi_anti; [apply Hrel; exact Hl|exact Hg]. }
    assert (Hno : is_none (start r) = true -> ge_lo (start r) c = true).
    { destruct (start r); [discriminate|reflexivity]. }
    clear B L Hrel.
    unfold next_ended, verdict. fold o'. fold c. unfold in_iv; cbn [lo hi cfg spec_decide].
    fold (cfg r). fold c. unfold in_iv; cbn [lo hi cfg].
    set (g := ge_lo (start r) c) in *. set (h := lt_hi (stop r) c) in *.
    split.
    { clear O H; clearbody sb g h. destruct (ended r), sb, g, h; cbn in *; intuition congruence. }
    constructor; change (cfg (mktr _ _ _ _ _ _ _)) with (cfg r);
      cbn [start stop absolute t0 started ended]; rewrite ?seen_beyond_cons, ?some_accepted_cons;
      fold c; unfold beyond; cbn [hi cfg]; fold h; rewrite ?Hsb; fold sb; rewrite <- ?S.
    + clear O H; clearbody sb g h. destruct (ended r), (started r), sb, g, h; cbn in *; intuition congruence.
    + clear O H; clearbody sb g h. destruct (ended r), (started r), sb, g, h; cbn in *; intuition congruence.
    + clear O H; clearbody sb g h. destruct (ended r), (started r), sb, g, h, (is_none (start r)); cbn in *; intuition congruence.
    + intros Hb. exists t. split; [reflexivity|]. fold c. fold h.
      clear O H; clearbody sb g h. destruct (ended r), (started r), sb, g, h; cbn in *; intuition congruence.
    + intros Hst Hn. exists t. split; [reflexivity|]. fold c. fold g.
      clear O H; clearbody sb g h. destruct (ended r), (started r), sb, g, h; cbn in *; intuition congruence.
    + intros l _. unfold o', next_t0. destruct (t0 r); discriminate.
    + unfold o', next_t0. destruct (t0 r); discriminate.
Qed.

Lemma spec_go_cfg : forall ops v v' o h,
  lo v = lo v' -> hi v = hi v' -> iabs v = iabs v' -> spec_go v o h ops = spec_go v' o h ops.
Proof.
  intros ops [l1 h1 a1 o1] [l2 h2 a2 o2] o h; cbn; intros -> -> ->.
  revert o h; induction ops as [|[m|] tl IH]; intros o h; cbn [spec_go]; [reflexivity| |apply IH].
  f_equal; apply IH.
Qed.

Lemma run_cons_msg : forall r m tl,
  fst (run r (Msg m :: tl)) = snd (is_in_range r m) :: fst (run (fst (is_in_range r m)) tl).
Proof.
  intros; unfold run, is_in_range; cbn [run_gen].
  destruct (is_in_range_gen current r m) as [r' b]. cbn [fst snd]. destruct (run_gen current r' tl); reflexivity.
Qed.
Lemma run_cons_restart : forall r tl, run r (Restart :: tl) = run (restart r) tl.
Proof. reflexivity. Qed.

Lemma inv_clear : forall r, started r = false -> ended r = false -> Inv r [] None.
Proof.
  intros r H1 H2; constructor; cbn; try congruence; try discriminate.
  intros; constructor.
Qed.

Lemma run_spec_core : forall ops r hist last,
  specified r = true -> Inv r hist last -> nondecr last ops = true ->
  fst (run r ops) = spec_go (cfg r) (t0 r) hist ops.
Proof.
  induction ops as [|[m|] tl IH]; intros r hist last Hs HI Hnd.
  - reflexivity.
  - rewrite run_cons_msg. cbn [spec_go].
    assert (Hsort : step_sorted m last).
    { destruct m as [|t]; cbn; [exact I|]. destruct last; [|exact I]. cbn in Hnd. lia. }
    destruct (step_inv r m hist last Hs HI Hsort) as [Hv HI'].
    assert (Hnd' : nondecr (next_last m last) tl = true).
    { destruct m as [|t]; cbn in *; [exact Hnd|]. destruct last; cbn in Hnd; lia. }
    revert HI'. rewrite (is_in_range_closed r m Hs); cbn [fst snd]; intros HI'.
    assert (Ho : match t0 r, m with None, Timed t => Some t | _, _ => t0 r end = next_t0 r m).
    { unfold next_t0; destruct (t0 r), m; reflexivity. }
    rewrite Ho.
    rewrite <- Hv. f_equal.
    rewrite (IH _ _ _ (eq_refl : specified (mktr _ _ _ _ true _ _) = true) HI' Hnd'). reflexivity.
  - rewrite run_cons_restart. cbn [spec_go nondecr] in *.
    rewrite (IH (restart r) [] None); [reflexivity|exact Hs| |exact Hnd].
    apply inv_clear; reflexivity.
Qed.

(* unspecified ranges (no bound at all): every message is accepted, by the model and by the SPEC *)
Definition all_true (ops : list op) : list bool :=
  flat_map (fun o => match o with Msg _ => [true] | Restart => [] end) ops.

Lemma run_unspecified : forall ops r, specified r = false -> fst (run r ops) = all_true ops.
Proof.
  induction ops as [|[m|] tl IH]; intros r Hs; [reflexivity| |].
  - rewrite run_cons_msg. unfold is_in_range, is_in_range_gen. rewrite Hs. cbn [negb fst snd all_true flat_map app].
    f_equal. apply IH. exact Hs.
  - rewrite run_cons_restart. apply IH. exact Hs.
Qed.

Lemma spec_unbounded : forall ops v o h, lo v = None -> hi v = None -> spec_go v o h ops = all_true ops.
Proof.
  induction ops as [|[m|] tl IH]; intros v o h Hl Hh; [reflexivity| |].
  - cbn [spec_go all_true flat_map app]. f_equal; [|apply IH; assumption].
    unfold spec_decide, in_iv, ge_lo, lt_hi. rewrite Hl, Hh. destruct m; [|reflexivity].
    assert (Hb : forall o' hh, seen_beyond v o' hh = false).
    { intros o' hh; induction hh as [|[m' b'] hh IHh]; [reflexivity|].
      rewrite seen_beyond_cons, IHh. unfold beyond, lt_hi; rewrite Hh. destruct m'; reflexivity. }
    rewrite Hb. reflexivity.
  - cbn [spec_go all_true flat_map app]. apply IH; assumption.
Qed.

Lemma init_describe : forall a,
  start (init a) = lo (describe a) /\ stop (init a) = hi (describe a) /\
  absolute (init a) = iabs (describe a) /\ t0 (init a) = a_t0 a.
Proof.
  intros [s e ab o]. unfold init, init_gen, describe, describe_abs, bound; cbn.
  repeat split.
  - destruct s as [|[| z |]|[[| z |]|]]; cbn; try reflexivity;
      destruct ab as [[|]|]; destruct e as [| |]; cbn; try reflexivity;
      rewrite ?andb_true_r, ?andb_false_r; try reflexivity; destruct (z =? tr_abs_open_start); reflexivity.
  - destruct e as [|[| z |]|[[| z |]|]]; reflexivity.
  - destruct ab as [[|]|]; [reflexivity|reflexivity|]. destruct (is_ts s || is_ts e); reflexivity.
Qed.

Lemma init_fresh : forall a, fresh (init a).
Proof. intros a; unfold fresh, init, init_gen; cbn; auto. Qed.

Theorem in_range_matches_spec_proof : forall a ops,
  nondecr None ops = true -> accepted (init a) ops = spec_run (describe a) ops.
Proof.
  intros a ops Hnd. unfold accepted, spec_run.
  destruct (init_describe a) as [H1 [H2 [H3 H4]]].
  destruct (init_fresh a) as [F1 [F2 F3]].
  destruct (specified (init a)) eqn:Hs.
  - rewrite (run_spec_core ops (init a) [] None Hs (inv_clear _ F1 F2) Hnd).
    rewrite H4. apply spec_go_cfg; cbn; auto.
  - rewrite (run_unspecified ops _ Hs). symmetry. apply spec_unbounded.
    + rewrite <- H1. destruct (start (init a)); [|reflexivity]. rewrite F3 in Hs; discriminate.
    + rewrite <- H2. destruct (start (init a)), (stop (init a)); try reflexivity; rewrite F3 in Hs; discriminate.
Qed.

(* every fresh range (constructed, parsed, made absolute, intersected, restarted) — not only [init a] *)
Lemma accepted_spec : forall r ops, fresh r -> nondecr None ops = true ->
  accepted r ops = spec_go (cfg r) (t0 r) [] ops.
Proof.
  intros r ops [F1 [F2 F3]] Hnd. unfold accepted.
  destruct (specified r) eqn:Hs.
  - apply (run_spec_core ops r [] None Hs (inv_clear _ F1 F2) Hnd).
  - rewrite (run_unspecified ops _ Hs). symmetry.
    destruct (start r) eqn:H1, (stop r) eqn:H2; try discriminate.
    apply spec_unbounded; cbn; assumption.
Qed.

(* the documented normalisations do not change which P1 times (>= 0 when absolute) are members *)
Lemma describe_membership : forall a c,
  (describe_abs a = true -> 0 <= c) -> in_iv (describe a) c = in_iv (describe_raw a) c.
Proof.
  intros [s e ab o] c Hc. unfold in_iv, describe, describe_raw; cbn [lo hi a_start a_end].
  f_equal.
  - destruct (bound s) as [[| z |]|]; try reflexivity.
    destruct ((z =? tr_abs_open_start) && describe_abs (mkargs s e ab o)) eqn:Hz; [|reflexivity].
    apply andb_prop in Hz. destruct Hz as [Hz Ha]. unfold tr_abs_open_start in Hz.
    specialize (Hc Ha). cbn. lia.
  - destruct (bound e) as [[| z |]|]; reflexivity.
Qed.
Lemma describe_open_start : forall a,
  is_none (lo (describe a)) = true <->
  bound (a_start a) = None \/ (describe_abs a = true /\ bound (a_start a) = Some (Fin 0)).
Proof.
  intros [s e ab o]. unfold describe; cbn [lo a_start].
  destruct (bound s) as [[| z |]|]; cbn; try (split; [discriminate|intros [H|[_ H]]; discriminate]).
  - destruct ((z =? tr_abs_open_start) && describe_abs (mkargs s e ab o)) eqn:Hz; cbn.
    + apply andb_prop in Hz. destruct Hz as [Hz Ha]. unfold tr_abs_open_start in Hz.
      split; [intros _; right; split; [exact Ha|f_equal; f_equal; lia]|reflexivity].
    + split; [discriminate|]. intros [H|[Ha H]]; [discriminate|]. injection H as ->.
      rewrite Ha in Hz. discriminate.
  - split; [left; reflexivity|reflexivity].
Qed.

(* ------------------------------------------------------------------------------------------------ *)
(* restart / t0                                                                                     *)
(* ------------------------------------------------------------------------------------------------ *)
Lemma is_in_range_frame : forall r m,
  let r' := fst (is_in_range r m) in
  start r' = start r /\ stop r' = stop r /\ absolute r' = absolute r /\ specified r' = specified r /\
  t0 r' = if specified r then next_t0 r m else t0 r.
Proof.
  intros r m. destruct (specified r) eqn:Hs.
  - rewrite (is_in_range_closed r m Hs); cbn. auto.
  - unfold is_in_range, is_in_range_gen; rewrite Hs; cbn. auto.
Qed.

Lemma run_cons_msg_snd : forall r m tl, snd (run r (Msg m :: tl)) = snd (run (fst (is_in_range r m)) tl).
Proof.
  intros; unfold run, is_in_range; cbn [run_gen].
  destruct (is_in_range_gen current r m) as [r' b]. cbn [fst snd]. destruct (run_gen current r' tl); reflexivity.
Qed.

Lemma run_frame : forall ops r,
  let r' := snd (run r ops) in
  start r' = start r /\ stop r' = stop r /\ absolute r' = absolute r /\ specified r' = specified r /\
  t0 r' = if specified r then match t0 r with Some z => Some z | None => first_timed ops end else t0 r.
Proof.
  induction ops as [|[m|] tl IH]; intros r; cbn zeta.
  - cbn. repeat split. destruct (specified r), (t0 r); reflexivity.
  - rewrite run_cons_msg_snd.
    destruct (IH (fst (is_in_range r m))) as [H1 [H2 [H3 [H4 H5]]]].
    destruct (is_in_range_frame r m) as [G1 [G2 [G3 [G4 G5]]]].
    rewrite H1, H2, H3, H4, H5, G1, G2, G3, G4, G5. repeat split.
    unfold next_t0. destruct (specified r); [|reflexivity]. destruct (t0 r), m; reflexivity.
  - rewrite run_cons_restart. destruct (IH (restart r)) as [H1 [H2 [H3 [H4 H5]]]].
    rewrite H1, H2, H3, H4, H5. cbn. auto.
Qed.

Lemma t0_first_timed_proof : forall a ops,
  t0 (snd (run (init a) ops)) =
  if specified (init a) then match a_t0 a with Some z => Some z | None => first_timed ops end else a_t0 a.
Proof. intros a ops. destruct (run_frame ops (init a)) as [_ [_ [_ [_ H]]]]. exact H. Qed.

Lemma restart_record : forall r ops,
  restart (snd (run r ops)) = set_t0 (restart r) (t0 (snd (run r ops))).
Proof.
  intros r ops. destruct (run_frame ops r) as [H1 [H2 [H3 [H4 _]]]].
  destruct (snd (run r ops)) as [a b c d e f g]; destruct r as [a' b' c' d' e' f' g']; cbn in *; subst.
  reflexivity.
Qed.

Lemma restart_resets_proof : forall a ops1 ops2,
  let r1 := snd (run (init a) ops1) in
  started (restart r1) = false /\ ended (restart r1) = false /\
  restart r1 = init (mkargs (a_start a) (a_end a) (a_abs a) (t0 r1)) /\
  accepted r1 (Restart :: ops2) = accepted (init (mkargs (a_start a) (a_end a) (a_abs a) (t0 r1))) ops2.
Proof.
  intros a ops1 ops2 r1.
  assert (H : restart r1 = init (mkargs (a_start a) (a_end a) (a_abs a) (t0 r1))).
  { unfold r1. rewrite restart_record. destruct a; reflexivity. }
  repeat split; [exact H|]. unfold accepted. rewrite run_cons_restart, H. reflexivity.
Qed.

(* ------------------------------------------------------------------------------------------------ *)
(* SPEC-level algebra: summary form, origins, shift, intersection                                    *)
(* ------------------------------------------------------------------------------------------------ *)
Definition untimed_only (h : list (msg * bool)) : Prop := Forall (fun mb : msg * bool => fst mb = Untimed) h.

(* the SPEC depends on the history only through "a P1 time at/beyond the end was seen" and "some message
   was accepted" *)
Fixpoint spec_sum (v : iv) (o : option Z) (sb sa : bool) (ops : list op) : list bool :=
  match ops with
  | [] => []
  | Restart :: tl => spec_sum v o false false tl
  | Msg m :: tl =>
      let o' := match o, m with None, Timed t => Some t | _, _ => o end in
      let b := match m with
               | Timed t => in_iv v (rel v o' t)
               | Untimed => negb sb && (is_none (lo v) || sa) end in
      let sb' := match m with Timed t => beyond v (rel v o' t) | Untimed => false end || sb in
      b :: spec_sum v o' sb' (b || sa) tl
  end.

Lemma spec_go_sum : forall ops v o h, (o = None -> untimed_only h) ->
  spec_go v o h ops = spec_sum v o (seen_beyond v o h) (some_accepted h) ops.
Proof.
  induction ops as [|[m|] tl IH]; intros v o h Hh; [reflexivity| |].
  - cbn [spec_go spec_sum].
    set (o' := match o, m with None, Timed t => Some t | _, _ => o end).
    assert (Hsb : seen_beyond v o' h = seen_beyond v o h).
    { unfold o'. destruct o as [z|]; [reflexivity|]. rewrite !seen_beyond_untimed by (apply Hh; reflexivity). reflexivity. }
    assert (Hd : spec_decide v o' h m =
                 match m with Timed t => in_iv v (rel v o' t) | Untimed => negb (seen_beyond v o h) && (is_none (lo v) || some_accepted h) end).
    { destruct m; cbn [spec_decide]; [rewrite Hsb|]; reflexivity. }
    rewrite Hd. f_equal. rewrite IH.
    + rewrite seen_beyond_cons, some_accepted_cons, Hsb. reflexivity.
    + intros Ho. constructor; [|apply Hh]; unfold o' in Ho; destruct o, m; try discriminate; reflexivity.
  - cbn [spec_go spec_sum]. rewrite IH; [reflexivity|]. intros _; constructor.
Qed.

Lemma rel_iabs : forall v v' o t, iabs v = iabs v' -> rel v o t = rel v' o t.
Proof. intros v v' o t H; unfold rel; rewrite H; reflexivity. Qed.

Lemma seen_beyond_ext : forall v v' o o' h,
  (forall t, beyond v (rel v o t) = beyond v' (rel v' o' t)) -> seen_beyond v o h = seen_beyond v' o' h.
Proof.
  intros v v' o o' h H; induction h as [|[m b] h IH]; [reflexivity|].
  rewrite !seen_beyond_cons, IH. destruct m; [reflexivity|]. rewrite H. reflexivity.
Qed.

(* absolute: the origin plays no role *)
Lemma spec_go_abs_origin : forall ops v o o' h, iabs v = true -> spec_go v o h ops = spec_go v o' h ops.
Proof.
  induction ops as [|[m|] tl IH]; intros v o o' h Ha; [reflexivity| |cbn [spec_go]; apply IH; exact Ha].
  cbn [spec_go].
  assert (Hr : forall x y t, rel v x t = rel v y t) by (intros; unfold rel; rewrite Ha; reflexivity).
  assert (Hd : forall x y, spec_decide v x h m = spec_decide v y h m).
  { intros x y. destruct m; cbn [spec_decide]; [|rewrite (Hr x y); reflexivity].
    rewrite (seen_beyond_ext v v x y h); [reflexivity|]. intros t; rewrite (Hr x y); reflexivity. }
  rewrite (Hd _ (match o', m with None, Timed t => Some t | _, _ => o' end)). f_equal. apply IH. exact Ha.
Qed.

(* relative: two origins that resolve to the same value at the first P1 time are interchangeable *)
Definition eff (o : option Z) (f : Z) : Z := match o with Some z => z | None => f end.

Lemma spec_go_origin : forall ops v o o' h, untimed_only h ->
  (forall f, first_timed ops = Some f -> eff o f = eff o' f) ->
  spec_go v o h ops = spec_go v o' h ops.
Proof.
  induction ops as [|[m|] tl IH]; intros v o o' h Hh Hf; [reflexivity| |].
  - cbn [spec_go]. destruct m as [|t].
    + (* untimed: the verdict does not look at the origin *)
      assert (H1 : match o with Some _ => o | None => o end = o) by (destruct o; reflexivity).
      assert (H2 : match o' with Some _ => o' | None => o' end = o') by (destruct o'; reflexivity).
      rewrite H1, H2. cbn [spec_decide]. rewrite !seen_beyond_untimed by exact Hh.
      f_equal. apply IH; [constructor; [reflexivity|exact Hh]|]. intros f Hft. apply Hf. exact Hft.
    + specialize (Hf t eq_refl).
      assert (E : match o with Some _ => o | None => Some t end = match o' with Some _ => o' | None => Some t end).
      { destruct o, o'; cbn in Hf; subst; reflexivity. }
      rewrite E. reflexivity.
  - cbn [spec_go]. apply IH; [constructor|]. intros f Hft. apply Hf. exact Hft.
Qed.

(* make_absolute at SPEC level: adding the origin to both bounds and comparing absolute times *)
Definition shift_iv (z : Z) (v : iv) : iv :=
  mkiv (option_map (fun e => ext_add e z) (lo v)) (option_map (fun e => ext_add e z) (hi v)) true (org v).

Lemma ge_lo_shift : forall l z c, ge_lo (option_map (fun e => ext_add e z) l) c = ge_lo l (c - z).
Proof. intros [[|x|]|] z c; cbn; try reflexivity. f_equal. lia. Qed.
Lemma lt_hi_shift : forall l z c, lt_hi (option_map (fun e => ext_add e z) l) c = lt_hi l (c - z).
Proof. intros [[|x|]|] z c; cbn; try reflexivity. lia. Qed.

Lemma spec_go_shift : forall ops v z h, iabs v = false ->
  spec_go (shift_iv z v) (Some z) h ops = spec_go v (Some z) h ops.
Proof.
  induction ops as [|[m|] tl IH]; intros v z h Ha; [reflexivity| |cbn [spec_go]; apply IH; exact Ha].
  cbn [spec_go].
  assert (Hin : forall t, in_iv (shift_iv z v) (rel (shift_iv z v) (Some z) t) = in_iv v (rel v (Some z) t)).
  { intros t. unfold in_iv, rel, shift_iv; cbn [lo hi iabs]. rewrite Ha, ge_lo_shift, lt_hi_shift. reflexivity. }
  assert (Hby : forall t, beyond (shift_iv z v) (rel (shift_iv z v) (Some z) t) = beyond v (rel v (Some z) t)).
  { intros t. unfold beyond, rel, shift_iv; cbn [lo hi iabs]. rewrite Ha, lt_hi_shift. reflexivity. }
  assert (Hd : spec_decide (shift_iv z v) (Some z) h m = spec_decide v (Some z) h m).
  { destruct m; cbn [spec_decide]; [|apply Hin].
    rewrite (seen_beyond_ext _ v (Some z) (Some z) h Hby). f_equal. f_equal.
    unfold shift_iv; cbn [lo]. destruct (lo v); reflexivity. }
  assert (Ho : match m with Timed _ => Some z | Untimed => Some z end = Some z) by (destruct m; reflexivity).
  change (match m with Untimed => Some z | Timed _ => Some z end) with (match m with Timed _ => Some z | Untimed => Some z end).
  rewrite Hd. f_equal. destruct m; apply IH; exact Ha.
Qed.

(* ---- intersection of two interval descriptions with the same kind and origin --------------------- *)
Definition max_lo (a b : option ext) : option ext :=
  match a with None => b | Some x => match b with Some y => Some (ext_max x y) | None => Some x end end.
Definition min_hi (a b : option ext) : option ext :=
  match a with None => b | Some x => match b with Some y => Some (ext_min x y) | None => Some x end end.

Lemma ge_lo_max : forall a b c, ge_lo (max_lo a b) c = ge_lo a c && ge_lo b c.
Proof.
  intros [x|] [y|] c; cbn; try reflexivity; [|rewrite andb_true_r; reflexivity].
  unfold ext_max. destruct x as [|x|], y as [|y|]; cbn; try reflexivity;
    try (destruct (x <? y) eqn:E; cbn; lia); try lia; try (destruct (c <? x); reflexivity);
    try (destruct (c <? y); reflexivity).
Qed.
Lemma lt_hi_min : forall a b c, lt_hi (min_hi a b) c = lt_hi a c && lt_hi b c.
Proof.
  intros [x|] [y|] c; cbn; try reflexivity; [|rewrite andb_true_r; reflexivity].
  unfold ext_min. destruct x as [|x|], y as [|y|]; cbn; try reflexivity;
    try (destruct (y <? x) eqn:E; cbn; lia); try lia; try (destruct (c <? x); reflexivity);
    try (destruct (c <? y); reflexivity).
Qed.
Lemma is_none_max : forall a b, is_none (max_lo a b) = is_none a && is_none b.
Proof. intros [x|] [y|]; reflexivity. Qed.

Record J (vA vB vI : iv) (o : option Z) (last : option Z) (sbA saA sbB saB sbI saI : bool) : Prop := {
  J_sb : sbI = sbA || sbB;
  J_sa : saI = true -> saA = true /\ saB = true;
  J_LA : saA = true -> is_none (lo vA) = false -> exists l, last = Some l /\ ge_lo (lo vA) (rel vI o l) = true;
  J_LB : saB = true -> is_none (lo vB) = false -> exists l, last = Some l /\ ge_lo (lo vB) (rel vI o l) = true;
  J_MA : forall l, last = Some l -> lt_hi (hi vA) (rel vI o l) = false -> sbA = true;
  J_MB : forall l, last = Some l -> lt_hi (hi vB) (rel vI o l) = false -> sbB = true;
  J_K : forall l, last = Some l -> in_iv vI (rel vI o l) = true -> saI = true;
  J_O : forall l, last = Some l -> o <> None
}.

Lemma spec_sum_intersect : forall ops vA vB vI o last sbA saA sbB saB sbI saI,
  iabs vA = iabs vI -> iabs vB = iabs vI ->
  lo vI = max_lo (lo vA) (lo vB) -> hi vI = min_hi (hi vA) (hi vB) ->
  J vA vB vI o last sbA saA sbB saB sbI saI ->
  nondecr last ops = true ->
  spec_sum vI o sbI saI ops = and_lists (spec_sum vA o sbA saA ops) (spec_sum vB o sbB saB ops).
Proof.
  induction ops as [|[m|] tl IH]; intros vA vB vI o last sbA saA sbB saB sbI saI HaA HaB Hlo Hhi HJ Hnd;
    [reflexivity| |].
  - cbn [spec_sum]. unfold and_lists. cbn [combine map fst snd]. fold (and_lists).
    destruct m as [|t].
    + (* untimed *)
      assert (Ho : match o with Some _ => o | None => o end = o) by (destruct o; reflexivity).
      rewrite Ho. rewrite !orb_false_l.
      destruct HJ as [Jsb Jsa JLA JLB JMA JMB JK JO].
      assert (Hb : negb sbI && (is_none (lo vI) || saI) =
                   (negb sbA && (is_none (lo vA) || saA)) && (negb sbB && (is_none (lo vB) || saB))).
      { rewrite Hlo, is_none_max, Jsb.
        destruct sbA; [reflexivity|]. destruct sbB; [cbn; rewrite andb_false_r; reflexivity|]. cbn [negb orb andb].
        destruct saI eqn:HsI.
        - destruct (Jsa eq_refl) as [-> ->]. rewrite !orb_true_r. reflexivity.
        - rewrite orb_false_r.
          destruct (is_none (lo vA)) eqn:nA, (is_none (lo vB)) eqn:nB; cbn [andb orb].
          + reflexivity.
          + destruct saB eqn:HsB; [|reflexivity]. exfalso.
            destruct (JLB eq_refl eq_refl) as [l [Hl Hg]].
            assert (Hin : in_iv vI (rel vI o l) = true).
            { unfold in_iv. rewrite Hlo, Hhi, ge_lo_max, lt_hi_min, Hg.
              destruct (lo vA); [discriminate|]. cbn [ge_lo andb].
              destruct (lt_hi (hi vA) (rel vI o l)) eqn:E1; [|discriminate (JMA l Hl E1)].
              destruct (lt_hi (hi vB) (rel vI o l)) eqn:E2; [|discriminate (JMB l Hl E2)]. reflexivity. }
            discriminate (JK l Hl Hin).
          + destruct saA eqn:HsA; [|reflexivity]. exfalso.
            destruct (JLA eq_refl eq_refl) as [l [Hl Hg]].
            assert (Hin : in_iv vI (rel vI o l) = true).
            { unfold in_iv. rewrite Hlo, Hhi, ge_lo_max, lt_hi_min, Hg.
              destruct (lo vB); [discriminate|]. cbn [ge_lo andb].
              destruct (lt_hi (hi vA) (rel vI o l)) eqn:E1; [|discriminate (JMA l Hl E1)].
              destruct (lt_hi (hi vB) (rel vI o l)) eqn:E2; [|discriminate (JMB l Hl E2)]. reflexivity. }
            discriminate (JK l Hl Hin).
          + destruct saA eqn:HsA; [|reflexivity]. destruct saB eqn:HsB; [|reflexivity]. exfalso.
            destruct (JLA eq_refl eq_refl) as [l [Hl Hg]].
            destruct (JLB eq_refl eq_refl) as [l' [Hl' Hg']].
            rewrite Hl in Hl'. injection Hl' as <-.
            assert (Hin : in_iv vI (rel vI o l) = true).
            { unfold in_iv. rewrite Hlo, Hhi, ge_lo_max, lt_hi_min, Hg, Hg'. cbn [andb].
              destruct (lt_hi (hi vA) (rel vI o l)) eqn:E1; [|discriminate (JMA l Hl E1)].
              destruct (lt_hi (hi vB) (rel vI o l)) eqn:E2; [|discriminate (JMB l Hl E2)]. reflexivity. }
            discriminate (JK l Hl Hin). }
      rewrite Hb. f_equal.
      apply (IH vA vB vI o last); try assumption.
      rewrite <- Hb.
      constructor.
      * exact Jsb.
      * rewrite Hb. intros H. apply orb_prop in H. destruct H as [H|H].
        -- apply andb_prop in H. destruct H as [H1 H2]. rewrite H1, H2. auto.
        -- destruct (Jsa H) as [-> ->]. rewrite !orb_true_r. auto.
      * intros H Hn. apply JLA; [|exact Hn]. rewrite Hn in H. cbn in H.
        destruct saA; [reflexivity|]. rewrite andb_false_r in H. exact H.
      * intros H Hn. apply JLB; [|exact Hn]. rewrite Hn in H. cbn in H.
        destruct saB; [reflexivity|]. rewrite andb_false_r in H. exact H.
      * exact JMA.
      * exact JMB.
      * intros l Hl Hin. rewrite (JK l Hl Hin). apply orb_true_r.
      * exact JO.
    + (* timed *)
      cbn [nondecr] in Hnd. apply andb_prop in Hnd. destruct Hnd as [Hsort Hnd].
      set (o' := match o with Some _ => o | None => Some t end).
      assert (HrA : rel vA o' t = rel vI o' t) by (apply rel_iabs; exact HaA).
      assert (HrB : rel vB o' t = rel vI o' t) by (apply rel_iabs; exact HaB).
      rewrite HrA, HrB. set (c := rel vI o' t).
      destruct HJ as [Jsb Jsa JLA JLB JMA JMB JK JO].
      assert (Hin : in_iv vI c = in_iv vA c && in_iv vB c).
      { unfold in_iv. rewrite Hlo, Hhi, ge_lo_max, lt_hi_min.
        destruct (ge_lo (lo vA) c), (ge_lo (lo vB) c), (lt_hi (hi vA) c), (lt_hi (hi vB) c); reflexivity. }
      rewrite Hin. f_equal.
      assert (Hrel : forall l, last = Some l -> rel vI o l <= c /\ o' = o).
      { intros l Hl. unfold c, o'. destruct o as [z|]; [|exfalso; exact (JO l Hl eq_refl)].
        split; [|reflexivity]. apply rel_mono. rewrite Hl in Hsort. apply Z.leb_le. exact Hsort. }
      apply (IH vA vB vI o' (Some t)); try assumption.
      * constructor.
        -- unfold beyond. rewrite Hhi, lt_hi_min, Jsb.
           destruct (lt_hi (hi vA) c), (lt_hi (hi vB) c), sbA, sbB; reflexivity.
        -- rewrite <- Hin. intros H. apply orb_prop in H. destruct H as [H|H].
           ++ rewrite Hin in H. apply andb_prop in H. destruct H as [-> ->]. auto.
           ++ destruct (Jsa H) as [-> ->]. rewrite !orb_true_r. auto.
        -- intros H Hn. exists t. split; [reflexivity|]. fold c.
           destruct (in_iv vA c) eqn:E; [unfold in_iv in E; apply andb_prop in E; tauto|].
           cbn in H. destruct (JLA H Hn) as [l [Hl Hg]]. destruct (Hrel l Hl) as [Hle Ho].
           eapply ge_lo_mono; [exact Hle|exact Hg].
        -- intros H Hn. exists t. split; [reflexivity|]. fold c.
           destruct (in_iv vB c) eqn:E; [unfold in_iv in E; apply andb_prop in E; tauto|].
           cbn in H. destruct (JLB H Hn) as [l [Hl Hg]]. destruct (Hrel l Hl) as [Hle Ho].
           eapply ge_lo_mono; [exact Hle|exact Hg].
        -- intros l Hl E. injection Hl as <-. fold c in E. unfold beyond. rewrite E. reflexivity.
        -- intros l Hl E. injection Hl as <-. fold c in E. unfold beyond. rewrite E. reflexivity.
        -- intros l Hl E. injection Hl as <-. fold c in E. rewrite <- Hin, E. reflexivity.
        -- intros l _. unfold o'. destruct o; discriminate.
  - cbn [spec_sum]. apply (IH vA vB vI o None); try assumption.
    constructor; try discriminate; try reflexivity; auto.
Qed.

Lemma spec_intersect_go : forall vA vB vI o ops,
  iabs vA = iabs vI -> iabs vB = iabs vI ->
  lo vI = max_lo (lo vA) (lo vB) -> hi vI = min_hi (hi vA) (hi vB) ->
  nondecr None ops = true ->
  spec_go vI o [] ops = and_lists (spec_go vA o [] ops) (spec_go vB o [] ops).
Proof.
  intros vA vB vI o ops HaA HaB Hlo Hhi Hnd.
  rewrite !spec_go_sum by (intros _; constructor). cbn [seen_beyond some_accepted existsb].
  apply (spec_sum_intersect ops vA vB vI o None); try assumption.
  constructor; try discriminate; try reflexivity; auto.
Qed.

(* ------------------------------------------------------------------------------------------------ *)
(* make_absolute / intersect on the model                                                            *)
(* ------------------------------------------------------------------------------------------------ *)
Lemma make_absolute_rel : forall r arg r', absolute r = false -> make_absolute r arg = Ok r' ->
  exists z, (t0 r = Some z \/ (t0 r = None /\ arg = Some z)) /\
            cfg r' = shift_iv z (cfg r) /\ t0 r' = Some z /\
            started r' = started r /\ ended r' = ended r /\ specified r' = specified r.
Proof.
  intros [st sp ab o spc sd ed] arg r' Ha H. cbn in Ha; subst ab.
  unfold make_absolute, make_absolute_gen in H; cbn in H.
  destruct arg as [a|], o as [z|]; cbn in H; try discriminate;
    [exists z|exists a|exists z]; injection H as <-;
    (split; [auto|]); destruct st, sp; cbn; auto.
Qed.

Lemma make_absolute_abs : forall r arg, absolute r = true ->
  exists r', make_absolute r arg = Ok r' /\ cfg r' = cfg r /\ started r' = started r /\ ended r' = ended r /\
             specified r' = specified r.
Proof.
  intros [st sp ab o spc sd ed] arg Ha. cbn in Ha; subst ab.
  unfold make_absolute, make_absolute_gen; cbn.
  destruct arg, o; cbn; eexists; (split; [reflexivity|cbn; auto]).
Qed.

Definition combine_tr (self other : tr) : tr :=
  let st := max_lo (start self) (start other) in
  let en := min_hi (stop self) (stop other) in
  mktr st en (absolute self) (match t0 self with None => t0 other | Some z => Some z end)
       (negb (is_none st) || negb (is_none en)) (started self) (ended self).

Lemma intersect_unfold : forall A B,
  intersect A B =
  if absolute A && negb (absolute B) then
    match make_absolute B (t0 A) with Ok B' => Ok (combine_tr A B') | ValueError => ValueError end
  else if negb (absolute A) && absolute B then
    match make_absolute A (t0 B) with Ok A' => Ok (combine_tr A' B) | ValueError => ValueError end
  else Ok (combine_tr A B).
Proof.
  intros A B. unfold intersect, intersect_gen, make_absolute.
  assert (E : forall s o : tr,
    Ok (match t0 (set_specified (set_stop (set_start s (max_lo (start s) (start o))) (min_hi (stop s) (stop o)))
                   (negb (is_none (max_lo (start s) (start o))) || negb (is_none (min_hi (stop s) (stop o))))) with
        | None => set_t0 (set_specified (set_stop (set_start s (max_lo (start s) (start o))) (min_hi (stop s) (stop o)))
                   (negb (is_none (max_lo (start s) (start o))) || negb (is_none (min_hi (stop s) (stop o))))) (t0 o)
        | Some _ => set_specified (set_stop (set_start s (max_lo (start s) (start o))) (min_hi (stop s) (stop o)))
                   (negb (is_none (max_lo (start s) (start o))) || negb (is_none (min_hi (stop s) (stop o))))
        end) = Ok (combine_tr s o)).
  { intros [a b c d e f g] o. unfold combine_tr; cbn. destruct d; reflexivity. }
  destruct (absolute A && negb (absolute B)).
  - destruct (make_absolute_gen current B (t0 A)); [apply E|reflexivity].
  - destruct (negb (absolute A) && absolute B).
    + destruct (make_absolute_gen current A (t0 B)); [apply E|reflexivity].
    + apply E.
Qed.

Lemma combine_fresh : forall s o, started s = false -> ended s = false -> fresh (combine_tr s o).
Proof. intros s o H1 H2; unfold fresh, combine_tr; cbn; auto. Qed.

Lemma origins_agree_unfold : forall A B ops f, origins_agree A B ops = true -> first_timed ops = Some f ->
  match absolute A, absolute B with
  | true, true => True
  | true, false => t0 B <> None \/ eff (t0 A) f = f
  | false, true => t0 A <> None \/ eff (t0 B) f = f
  | false, false => eff (t0 A) f = eff (t0 B) f
  end.
Proof.
  intros A B ops f H Hf. unfold origins_agree in H. rewrite Hf in H. unfold eff.
  destruct (absolute A), (absolute B); [exact I| | |lia].
  - destruct (t0 B); [left; discriminate|right]. cbn in H. lia.
  - destruct (t0 A); [left; discriminate|right]. cbn in H. lia.
Qed.

Theorem intersect_spec_proof : forall A B I ops,
  fresh A -> fresh B -> intersect A B = Ok I ->
  nondecr None ops = true -> origins_agree A B ops = true ->
  fresh I /\ accepted I ops = and_lists (accepted A ops) (accepted B ops).
Proof.
  intros A B I ops FA FB HI Hnd Hor.
  pose proof FA as [FA1 [FA2 FA3]]. pose proof FB as [FB1 [FB2 FB3]].
  rewrite intersect_unfold in HI.
  rewrite (accepted_spec A ops FA Hnd), (accepted_spec B ops FB Hnd).
  destruct (absolute A) eqn:aA, (absolute B) eqn:aB; cbn [andb negb] in HI.
  - (* absolute, absolute *)
    injection HI as <-.
    assert (FI : fresh (combine_tr A B)) by (apply combine_fresh; assumption).
    split; [exact FI|]. rewrite (accepted_spec _ ops FI Hnd).
    rewrite (spec_go_abs_origin ops (cfg (combine_tr A B)) _ None) by (cbn; exact aA).
    rewrite (spec_go_abs_origin ops (cfg A) _ None) by (cbn; exact aA).
    rewrite (spec_go_abs_origin ops (cfg B) _ None) by (cbn; exact aB).
    apply spec_intersect_go; cbn; congruence.
  - (* absolute self, relative other: other is converted with self's t0 if it has none *)
    destruct (make_absolute B (t0 A)) as [B'|] eqn:HB; [|discriminate]. injection HI as <-.
    destruct (make_absolute_rel B (t0 A) B' aB HB) as [z [Hz [HcB [HtB [HsB [HeB HspB]]]]]].
    assert (FI : fresh (combine_tr A B')) by (apply combine_fresh; assumption).
    split; [exact FI|]. rewrite (accepted_spec _ ops FI Hnd).
    rewrite (spec_go_abs_origin ops (cfg (combine_tr A B')) _ None) by (cbn; exact aA).
    rewrite (spec_go_abs_origin ops (cfg A) _ None) by (cbn; exact aA).
    assert (HBz : spec_go (cfg B) (t0 B) [] ops = spec_go (cfg B') None [] ops).
    { rewrite (spec_go_origin ops (cfg B) (t0 B) (Some z)).
      - rewrite <- (spec_go_shift ops (cfg B) z []) by (cbn; exact aB). rewrite <- HcB.
        apply spec_go_abs_origin. rewrite HcB. reflexivity.
      - constructor.
      - intros f Hf. pose proof (origins_agree_unfold A B ops f Hor Hf) as Ho. rewrite aA, aB in Ho.
        destruct Hz as [Hz|[Hz1 Hz2]]; [rewrite Hz; reflexivity|].
        rewrite Hz1. cbn [eff]. destruct Ho as [Ho|Ho]; [exfalso; apply Ho; exact Hz1|].
        rewrite Hz2 in Ho. cbn [eff] in Ho. symmetry. exact Ho. }
    rewrite HBz.
    assert (aB' : absolute B' = true).
    { change (iabs (cfg B') = true). rewrite HcB. reflexivity. }
    apply spec_intersect_go; try assumption; cbn; try reflexivity; congruence.
  - (* relative self, absolute other: self is converted with other's t0 if it has none *)
    destruct (make_absolute A (t0 B)) as [A'|] eqn:HA; [|discriminate]. injection HI as <-.
    destruct (make_absolute_rel A (t0 B) A' aA HA) as [z [Hz [HcA [HtA [HsA [HeA HspA]]]]]].
    assert (FI : fresh (combine_tr A' B)) by (apply combine_fresh; congruence).
    split; [exact FI|]. rewrite (accepted_spec _ ops FI Hnd).
    assert (aA' : absolute A' = true).
    { change (iabs (cfg A') = true). rewrite HcA. reflexivity. }
    rewrite (spec_go_abs_origin ops (cfg (combine_tr A' B)) _ None) by (cbn; exact aA').
    rewrite (spec_go_abs_origin ops (cfg B) _ None) by (cbn; exact aB).
    assert (HAz : spec_go (cfg A) (t0 A) [] ops = spec_go (cfg A') None [] ops).
    { rewrite (spec_go_origin ops (cfg A) (t0 A) (Some z)).
      - rewrite <- (spec_go_shift ops (cfg A) z []) by (cbn; exact aA). rewrite <- HcA.
        apply spec_go_abs_origin. rewrite HcA. reflexivity.
      - constructor.
      - intros f Hf. pose proof (origins_agree_unfold A B ops f Hor Hf) as Ho. rewrite aA, aB in Ho.
        destruct Hz as [Hz|[Hz1 Hz2]]; [rewrite Hz; reflexivity|].
        rewrite Hz1. cbn [eff]. destruct Ho as [Ho|Ho]; [exfalso; apply Ho; exact Hz1|].
        rewrite Hz2 in Ho. cbn [eff] in Ho. symmetry. exact Ho. }
    rewrite HAz.
    apply spec_intersect_go; try assumption; cbn; try reflexivity; congruence.
  - (* relative, relative: one common origin *)
    injection HI as <-.
    assert (FI : fresh (combine_tr A B)) by (apply combine_fresh; assumption).
    split; [exact FI|]. rewrite (accepted_spec _ ops FI Hnd).
    set (oI := t0 (combine_tr A B)).
    assert (Hf : forall f, first_timed ops = Some f -> eff (t0 A) f = eff oI f /\ eff (t0 B) f = eff oI f).
    { intros f Hft. pose proof (origins_agree_unfold A B ops f Hor Hft) as Ho. rewrite aA, aB in Ho.
      unfold oI, combine_tr; cbn. destruct (t0 A); cbn in *; auto. }
    rewrite (spec_go_origin ops (cfg A) (t0 A) oI) by (try constructor; intros f Hft; apply (Hf f Hft)).
    rewrite (spec_go_origin ops (cfg B) (t0 B) oI) by (try constructor; intros f Hft; apply (Hf f Hft)).
    apply spec_intersect_go; cbn; congruence.
Qed.

Lemma intersect_raises_iff : forall A B,
  intersect A B = ValueError <-> (absolute A <> absolute B /\ t0 A = None /\ t0 B = None).
Proof.
  intros A B. rewrite intersect_unfold.
  destruct (absolute A) eqn:aA, (absolute B) eqn:aB; cbn [andb negb].
  - split; [discriminate|intros [H _]; congruence].
  - destruct B as [st sp ab o spc sd ed]; cbn in aB; subst ab.
    unfold make_absolute, make_absolute_gen; cbn.
    destruct (t0 A), o; cbn; (split; intros H;
      [try discriminate; repeat split; congruence | try reflexivity; destruct H as [_ [H1 H2]]; discriminate]).
  - destruct A as [st sp ab o spc sd ed]; cbn in aA; subst ab.
    unfold make_absolute, make_absolute_gen; cbn.
    destruct (t0 B), o; cbn; (split; intros H;
      [try discriminate; repeat split; congruence | try reflexivity; destruct H as [_ [H1 H2]]; discriminate]).
  - split; [discriminate|intros [H _]; congruence].
Qed.

(* ------------------------------------------------------------------------------------------------ *)
(* parse                                                                                             *)
(* ------------------------------------------------------------------------------------------------ *)
Lemma no_sep_app : forall a b, no_sep (a ++ b) = no_sep a && no_sep b.
Proof. intros; unfold no_sep; apply forallb_app. Qed.
Lemma no_sep_rev : forall a, no_sep (rev a) = no_sep a.
Proof.
  induction a as [|c a IH]; [reflexivity|]. cbn [rev]. rewrite no_sep_app, IH. unfold no_sep; cbn.
  rewrite andb_true_r. apply andb_comm.
Qed.

Lemma split_aux_field : forall a cur rest, no_sep a = true ->
  split_aux cur (a ++ tr_sep :: rest) = (rev cur ++ a) :: split_aux [] rest.
Proof.
  induction a as [|c a IH]; intros cur rest H.
  - cbn [app split_aux]. rewrite Z.eqb_refl, app_nil_r. reflexivity.
  - cbn in H. apply andb_prop in H. destruct H as [Hc Ha]. cbn [app split_aux].
    destruct (c =? tr_sep); [discriminate|]. rewrite IH by exact Ha. cbn [rev]. rewrite <- app_assoc. reflexivity.
Qed.
Lemma split_aux_last : forall a cur, no_sep a = true -> split_aux cur a = [rev cur ++ a].
Proof.
  induction a as [|c a IH]; intros cur H.
  - cbn. rewrite app_nil_r. reflexivity.
  - cbn in H. apply andb_prop in H. destruct H as [Hc Ha]. cbn [split_aux].
    destruct (c =? tr_sep); [discriminate|]. rewrite IH by exact Ha. cbn [rev]. rewrite <- app_assoc. reflexivity.
Qed.

Lemma str_to_time_value : forall fld v, field_value fld v -> str_to_time fld = (Some v, false).
Proof.
  intros fld v [[-> ->]|[Hne [e [He ->]]]]; [reflexivity|].
  unfold str_to_time. destruct fld; [congruence|]. rewrite He. reflexivity.
Qed.

Lemma kw_facts :
  no_sep tr_kw_abs = true /\ no_sep tr_kw_rel = true /\
  list_eqb tr_kw_abs tr_kw_abs = true /\ list_eqb tr_kw_rel tr_kw_abs = false /\ list_eqb tr_kw_rel tr_kw_rel = true.
Proof. repeat split; reflexivity. Qed.

(* every text of the documented form parses, to the range its fields describe *)
Theorem parse_complete_proof : forall sh absarg vs ve, fields_ok sh vs ve ->
  parse (render sh) absarg = POk (init (describe_text sh absarg vs ve)).
Proof.
  intros sh absarg vs ve H. destruct kw_facts as [K1 [K2 [K3 [K4 K5]]]].
  unfold parse, parse_gen, split.
  destruct sh as [a|a b|a b k]; cbn [render fields_ok describe_text] in *.
  - destruct H as [Ha [Hva ->]]. rewrite (split_aux_last a [] Ha). cbn [rev app length nth_error Nat.eqb Nat.ltb Nat.leb].
    rewrite (str_to_time_value a vs Hva). reflexivity.
  - destruct H as [Ha [Hb [Hva Hvb]]].
    rewrite (split_aux_field a [] b Ha), (split_aux_last b [] Hb).
    cbn [rev app length nth_error Nat.eqb Nat.ltb Nat.leb].
    rewrite (str_to_time_value a vs Hva), (str_to_time_value b ve Hvb). reflexivity.
  - destruct H as [Ha [Hb [Hva Hvb]]].
    rewrite (split_aux_field a [] _ Ha), (split_aux_field b [] _ Hb).
    assert (Hk : no_sep (if k then tr_kw_abs else tr_kw_rel) = true) by (destruct k; assumption).
    rewrite (split_aux_last _ [] Hk).
    cbn [rev app length nth_error Nat.eqb Nat.ltb Nat.leb].
    rewrite (str_to_time_value a vs Hva), (str_to_time_value b ve Hvb).
    destruct k; [rewrite K3|rewrite K4, K5]; reflexivity.
Qed.

(* conversely: whatever parse accepts is a text of the documented form *)
Fixpoint join (l : list (list Z)) : list Z :=
  match l with
  | [] => []
  | a :: tl => match tl with [] => a | _ :: _ => a ++ tr_sep :: join tl end
  end.

Lemma split_aux_join : forall s cur, no_sep cur = true ->
  join (split_aux cur s) = rev cur ++ s /\ Forall (fun f => no_sep f = true) (split_aux cur s) /\ split_aux cur s <> [].
Proof.
  induction s as [|c s IH]; intros cur Hc.
  - cbn. rewrite app_nil_r. repeat split; [|discriminate]. constructor; [rewrite no_sep_rev; exact Hc|constructor].
  - cbn [split_aux]. destruct (c =? tr_sep) eqn:E.
    + destruct (IH [] eq_refl) as [J [F N]]. repeat split; [|constructor; [rewrite no_sep_rev; exact Hc|exact F]|discriminate].
      cbn [join]. destruct (split_aux [] s) eqn:Es; [congruence|]. rewrite J. cbn.
      apply Z.eqb_eq in E. subst c. reflexivity.
    + assert (Hc' : no_sep (c :: cur) = true) by (unfold no_sep in *; cbn; rewrite E, Hc; reflexivity).
      destruct (IH (c :: cur) Hc') as [J [F N]]. repeat split; [|exact F|exact N].
      rewrite J. cbn [rev]. rewrite <- app_assoc. reflexivity.
Qed.

Lemma list_eqb_eq : forall a b, list_eqb a b = true -> a = b.
Proof.
  unfold list_eqb. induction a as [|x a IH]; intros [|y b] H; cbn in H; try discriminate; [reflexivity|].
  apply andb_prop in H. destruct H as [Hl H]. apply andb_prop in H. destruct H as [Hxy H].
  apply Z.eqb_eq in Hxy. subst y. f_equal. apply IH. rewrite Hl, H. reflexivity.
Qed.

Lemma str_to_time_field : forall fld v u, str_to_time fld = (Some v, u) -> field_value fld v.
Proof.
  intros fld v u H. unfold str_to_time in H. destruct fld as [|c fld].
  - injection H as <- _. left; auto.
  - destruct (pyfloat (c :: fld)) eqn:E; try discriminate. injection H as <- _.
    right. split; [discriminate|]. exists e; auto.
Qed.

Theorem parse_sound_proof : forall s absarg r, parse s absarg = POk r ->
  exists sh vs ve, s = render sh /\ fields_ok sh vs ve /\ r = init (describe_text sh absarg vs ve).
Proof.
  intros s absarg r H. unfold parse, parse_gen in H.
  destruct (split_aux_join s [] eq_refl) as [J [F N]]. fold (split s) in *. cbn [rev app] in J.
  destruct (split s) as [|a [|b [|k [|x l]]]] eqn:Es; [congruence| | | |].
  - (* one field *)
    cbn [length nth_error Nat.eqb Nat.ltb Nat.leb] in H.
    destruct (str_to_time a) as [[va|] u] eqn:Ea; [|destruct u; discriminate].
    injection H as <-. inversion F as [|? ? Fa _]; subst.
    exists (S1 a), va, None. cbn [render fields_ok describe_text join]. repeat split; auto.
    eapply str_to_time_field; exact Ea.
  - cbn [length nth_error Nat.eqb Nat.ltb Nat.leb] in H.
    destruct (str_to_time a) as [[va|] u] eqn:Ea; [|destruct u; discriminate].
    destruct (str_to_time b) as [[vb|] u'] eqn:Eb; [|destruct u'; discriminate].
    injection H as <-. inversion F as [|? ? Fa F']; subst. inversion F' as [|? ? Fb _]; subst.
    exists (S2 a b), va, vb. cbn [render fields_ok describe_text join]. repeat split; auto;
      eapply str_to_time_field; eassumption.
  - cbn [length nth_error Nat.eqb Nat.ltb Nat.leb] in H.
    inversion F as [|? ? Fa F']; subst. inversion F' as [|? ? Fb _]; subst.
    destruct (list_eqb k tr_kw_abs) eqn:Ka.
    + apply list_eqb_eq in Ka. subst k.
      destruct (str_to_time a) as [[va|] u] eqn:Ea; [|destruct u; discriminate].
      destruct (str_to_time b) as [[vb|] u'] eqn:Eb; [|destruct u'; discriminate].
      injection H as <-.
      exists (S3 a b true), va, vb. cbn [render fields_ok describe_text join]. repeat split; auto;
        eapply str_to_time_field; eassumption.
    + destruct (list_eqb k tr_kw_rel) eqn:Kr; [|discriminate].
      apply list_eqb_eq in Kr. subst k.
      destruct (str_to_time a) as [[va|] u] eqn:Ea; [|destruct u; discriminate].
      destruct (str_to_time b) as [[vb|] u'] eqn:Eb; [|destruct u'; discriminate].
      injection H as <-.
      exists (S3 a b false), va, vb. cbn [render fields_ok describe_text join]. repeat split; auto;
        eapply str_to_time_field; eassumption.
  - (* more than three fields: ValueError *)
    cbn [length Nat.eqb Nat.ltb Nat.leb] in H. discriminate.
Qed.

(* ------------------------------------------------------------------------------------------------ *)
(* make_absolute keeps the accepted set                                                              *)
(* ------------------------------------------------------------------------------------------------ *)
Lemma cfg_fresh_accepted : forall r r' ops, fresh r -> fresh r' -> nondecr None ops = true ->
  cfg r' = cfg r -> absolute r = true -> accepted r' ops = accepted r ops.
Proof.
  intros r r' ops F F' Hnd Hc Ha.
  rewrite (accepted_spec r ops F Hnd), (accepted_spec r' ops F' Hnd), Hc.
  apply spec_go_abs_origin. exact Ha.
Qed.

Theorem make_absolute_preserves_proof : forall r arg r' ops,
  fresh r -> make_absolute r arg = Ok r' -> nondecr None ops = true ->
  (absolute r = true \/ t0 r <> None \/ forall f, first_timed ops = Some f -> arg = Some f) ->
  fresh r' /\ absolute r' = true /\ accepted r' ops = accepted r ops.
Proof.
  intros r arg r' ops F H Hnd Hor. pose proof F as [F1 [F2 F3]].
  destruct (absolute r) eqn:Ha.
  - destruct (make_absolute_abs r arg Ha) as [r2 [H2 [Hc [Hs [He Hsp]]]]].
    rewrite H in H2. injection H2 as <-.
    assert (F' : fresh r').
    { unfold fresh. rewrite Hs, He, Hsp, F3. repeat split; try assumption.
      change (start r') with (lo (cfg r')). change (stop r') with (hi (cfg r')). rewrite Hc. reflexivity. }
    repeat split; try apply F'.
    + change (iabs (cfg r') = true). rewrite Hc. exact Ha.
    + apply cfg_fresh_accepted; assumption.
  - destruct (make_absolute_rel r arg r' Ha H) as [z [Hz [Hc [Ht [Hs [He Hsp]]]]]].
    assert (F' : fresh r').
    { unfold fresh. rewrite Hs, He, Hsp, F3. repeat split; try assumption.
      change (start r') with (lo (cfg r')). change (stop r') with (hi (cfg r')). rewrite Hc. cbn.
      destruct (start r), (stop r); reflexivity. }
    repeat split; try apply F'.
    + change (iabs (cfg r') = true). rewrite Hc. reflexivity.
    + rewrite (accepted_spec r ops F Hnd), (accepted_spec r' ops F' Hnd), Ht, Hc.
      rewrite (spec_go_shift ops (cfg r) z []) by exact Ha.
      apply spec_go_origin; [constructor|].
      intros f Hf. destruct Hz as [Hz|[Hz1 Hz2]]; [rewrite Hz; reflexivity|].
      rewrite Hz1. cbn [eff]. destruct Hor as [Hor|[Hor|Hor]]; [discriminate|congruence|].
      specialize (Hor f Hf). congruence.
Qed.

Lemma make_absolute_idempotent_proof : forall r arg arg' r',
  absolute r = false -> make_absolute r arg = Ok r' -> make_absolute r' arg' = Ok r'.
Proof.
  intros [st sp ab o spc sd ed] arg arg' r' Ha H. cbn in Ha; subst ab.
  unfold make_absolute, make_absolute_gen in *; cbn in *.
  destruct arg as [a|], o as [z|]; cbn in H; try discriminate; injection H as <-;
    destruct st, sp, arg'; reflexivity.
Qed.

(* ------------------------------------------------------------------------------------------------ *)
(* the code before the repairs (witnesses of the three findings)                                     *)
(* ------------------------------------------------------------------------------------------------ *)
Definition accepted_legacy (r : tr) (ops : list op) : list bool := fst (run_gen legacy r ops).

(* open start, end 2 s absolute: Pose@3 s then an event — the event was accepted *)
Lemma legacy_end_latch :
  let a := mkargs ANone (AFloat (Fin 16)) (Some true) None in
  let ops := [Msg (Timed 24); Msg Untimed] in
  accepted_legacy (init_gen legacy a) ops = [false; true] /\ spec_run (describe a) ops = [false; false] /\
  accepted (init a) ops = [false; false].
Proof. repeat split; vm_compute; reflexivity. Qed.

(* relative [1,3) s with t0 = 10 s intersected with absolute [0, 12.5) s: nothing was accepted *)
Lemma legacy_make_absolute :
  let A := mkargs (AFloat (Fin 8)) (AFloat (Fin 24)) (Some false) (Some 80) in
  let B := mkargs (AFloat (Fin 0)) (AFloat (Fin 100)) (Some true) None in
  let ops := [Msg (Timed 80); Msg (Timed 88); Msg Untimed; Msg (Timed 96); Msg (Timed 100); Msg (Timed 104)] in
  (exists I, intersect_gen legacy (init_gen legacy A) (init_gen legacy B) = Ok I /\
             accepted_legacy I ops = [false; false; false; false; false; false]) /\
  and_lists (spec_run (describe A) ops) (spec_run (describe B) ops) = [false; true; true; true; false; false] /\
  (exists I, intersect (init A) (init B) = Ok I /\ accepted I ops = [false; true; true; true; false; false]).
Proof. repeat split; try (eexists; split); vm_compute; reflexivity. Qed.

(* end = -inf was read as "no end" *)
Lemma legacy_neg_inf_end :
  let a := mkargs (AFloat (Fin 8)) (AFloat NInf) (Some true) None in
  let ops := [Msg (Timed 8)] in
  accepted_legacy (init_gen legacy a) ops = [true] /\ spec_run (describe a) ops = [false] /\ accepted (init a) ops = [false].
Proof. repeat split; vm_compute; reflexivity. Qed.

(* ------------------------------------------------------------------------------------------------ *)
(* statements as used by Properties/C13.v                                                            *)
(* ------------------------------------------------------------------------------------------------ *)
Lemma describe_is_interval_proof : forall (a : args),
  (forall c, (describe_abs a = true -> 0 <= c) -> in_iv (describe a) c = in_iv (describe_raw a) c) /\
  (is_none (lo (describe a)) = true <->
   bound (a_start a) = None \/ (describe_abs a = true /\ bound (a_start a) = Some (Fin 0))).
Proof. intros a; split; [exact (describe_membership a) | exact (describe_open_start a)]. Qed.

Lemma fresh_range_matches_spec_proof : forall (r : tr) (ops : list op),
  fresh r -> nondecr None ops = true ->
  accepted r ops = spec_run (mkiv (start r) (stop r) (absolute r) (t0 r)) ops.
Proof.
  intros r ops F H. rewrite (accepted_spec r ops F H). unfold spec_run; cbn [org].
  apply spec_go_cfg; reflexivity.
Qed.

Lemma parse_spec_proof : forall (sh : shape) (absarg : option bool) (vs ve : option ext) (ops : list op),
  fields_ok sh vs ve -> nondecr None ops = true ->
  exists r, parse (render sh) absarg = POk r /\
            accepted r ops = spec_run (describe (describe_text sh absarg vs ve)) ops.
Proof.
  intros sh absarg vs ve ops H Hnd. eexists. split; [exact (parse_complete_proof sh absarg vs ve H)|].
  exact (in_range_matches_spec_proof _ ops Hnd).
Qed.

Lemma legacy_refuted_proof :
  (let a := mkargs ANone (AFloat (Fin 16)) (Some true) None in
   let ops := [Msg (Timed 24); Msg Untimed] in
   accepted_legacy (init_gen legacy a) ops = [false; true] /\ spec_run (describe a) ops = [false; false] /\
   accepted (init a) ops = [false; false]) /\
  (let A := mkargs (AFloat (Fin 8)) (AFloat (Fin 24)) (Some false) (Some 80) in
   let B := mkargs (AFloat (Fin 0)) (AFloat (Fin 100)) (Some true) None in
   let ops := [Msg (Timed 80); Msg (Timed 88); Msg Untimed; Msg (Timed 96); Msg (Timed 100); Msg (Timed 104)] in
   (exists I, intersect_gen legacy (init_gen legacy A) (init_gen legacy B) = Ok I /\
              accepted_legacy I ops = [false; false; false; false; false; false]) /\
   and_lists (spec_run (describe A) ops) (spec_run (describe B) ops) = [false; true; true; true; false; false] /\
   (exists I, intersect (init A) (init B) = Ok I /\ accepted I ops = [false; true; true; true; false; false])) /\
  (let a := mkargs (AFloat (Fin 8)) (AFloat NInf) (Some true) None in
   let ops := [Msg (Timed 8)] in
   accepted_legacy (init_gen legacy a) ops = [true] /\ spec_run (describe a) ops = [false] /\ accepted (init a) ops = [false]).
Proof. exact (conj legacy_end_latch (conj legacy_make_absolute legacy_neg_inf_end)). Qed.
