(* Consequences of the refinement (Proofs/PyDecoderP.v) combined with the generic framing theory (Base/Scan.v):
   the lemmas the property theorems of C04 and C05 are closed with. *)
From Coq Require Import NArith List Bool Arith Lia ZifyBool ZifyNat ZifyN.
From FEC Require Import Generated.FEConsts Base.ListX Base.Bytes Base.Crc32 Base.Scan Base.FEFormat
  Models.PyDecoderM Proofs.PyDecoderP.
Import ListNotations.

Lemma map_Some_inj {A} (a b : list A) : map Some a = map Some b -> a = b.
Proof.
  revert b. induction a as [|x a IH]; intros [|y b] H; try discriminate; [reflexivity|].
  cbn [map] in H. injection H as -> H. f_equal. apply IH. exact H.
Qed.

Section Thm.
  Context {P : Type}.
  Variable parse_payload : N -> list N -> option P.
  Variable maxp maxe : N.
  Variable rb ro : bool.

  Notation judge := (PyDecoder_judge maxp maxe).
  Notation J := (PyDecoder_judge_dec parse_payload maxp maxe).
  Notation on_data := (PyDecoder_on_data parse_payload maxp maxe rb ro false).
  Notation run := (PyDecoder_run parse_payload maxp maxe rb ro false).
  Notation res_of := (PyDecoder_result_of parse_payload rb ro).
  Notation Post := (PyDecoder_Post parse_payload maxp maxe).
  Notation abs := PyDecoder_abs.
  Notation init := PyDecoder_init.

  Let OKJ : JudgeOK J := judge_dec_ok parse_payload maxp maxe.

  Lemma wf_init : wf_state J (abs init).
  Proof. unfold wf_state, PyDecoder_abs, PyDecoder_init. cbn [snd pd_buf]. apply (j_nil _ OKJ). Qed.

  Lemma abs_init : abs init = (0%nat, []).
  Proof. reflexivity. Qed.

  (* the decoder, run over any chunk list, returns the frames of ONE scan of the concatenated stream (for the judge
     that includes the payload-parser requirement), and ends in the scan's residual state *)
  Theorem run_is_scan chunks :
    exists rss st' fs,
      run init chunks = PdRunDone rss st' /\ Post st' /\
      scan J 0 (concat chunks) = (fs, abs st') /\ map Some (concat rss) = map res_of fs.
  Proof.
    destruct (run_refines parse_payload maxp maxe rb ro OKJ chunks init (Post_init _ _ _))
      as (rss & st' & fs & HR & HP & HF & HM).
    exists rss, st', fs. refine (conj HR (conj HP (conj _ HM))).
    rewrite (feed_all_concat _ OKJ) in HF by apply wf_init. exact HF.
  Qed.

  (* one call refines one feed step *)
  Theorem decoder_refines_feed st chunk :
    Post st ->
    exists rs st' fs,
      on_data st chunk = PdDone rs st' /\ Post st' /\
      feed J (abs st) chunk = (fs, abs st') /\ map Some rs = map res_of fs.
  Proof. exact (on_data_refines parse_payload maxp maxe rb ro OKJ st chunk). Qed.

  (* ---- C04 ------------------------------------------------------------------------------------------- *)
  Theorem never_raises chunks : exists rss st', run init chunks = PdRunDone rss st'.
  Proof. destruct (run_is_scan chunks) as (rss & st' & _ & H & _). eauto. Qed.

  Theorem on_data_never_raises st c : Post st ->
    exists rs st', on_data st c = PdDone rs st' /\ Post st'.
  Proof.
    intros HP. destruct (on_data_refines parse_payload maxp maxe rb ro OKJ st c HP) as (rs & st' & _ & H & HP' & _).
    eauto.
  Qed.

  Theorem conservation chunks rss st' :
    run init chunks = PdRunDone rss st' ->
    (pd_processed st' + N.of_nat (length (pd_buf st')) = N.of_nat (length (concat chunks)))%N.
  Proof.
    intros HR. destruct (run_is_scan chunks) as (rss2 & st2 & fs & HR2 & _ & HS & _).
    rewrite HR in HR2. injection HR2 as <- <-.
    unfold PyDecoder_abs in HS. apply (scan_conserve _ OKJ) in HS. lia.
  Qed.

  (* a state between calls: nothing is buffered beyond what cannot yet be judged *)
  Theorem post_buffer_bound st : Post st ->
    (N.of_nat (length (pd_buf st)) < N.of_nat HEADER_SIZE + maxp)%N /\
    match pd_hdr st with
    | None => (length (pd_buf st) < HEADER_SIZE)%nat
    | Some h => hdr_facts maxp (pd_buf st) (pd_msg_len st) h /\
                (N.of_nat (length (pd_buf st)) < N.of_nat HEADER_SIZE + h_psize h)%N
    end.
  Proof.
    intros (HI & HM & Hiff). unfold PyDecoder_Inv in HI.
    destruct (pd_hdr st) as [h|] eqn:Hh.
    - pose proof (judge_with_header maxp maxe _ _ _ HI) as HJ.
      assert (Hlt : (N.of_nat (length (pd_buf st)) < N.of_nat HEADER_SIZE + h_psize h)%N).
      { destruct HI as (_ & Hhp & _ & _ & _ & _ & Hml).
        destruct (N.ltb (N.of_nat (length (pd_buf st))) (pd_msg_len st)) eqn:E.
        - apply N.ltb_lt in E. lia.
        - exfalso. unfold PyDecoder_judge_dec in HM. rewrite HJ in HM.
          destruct (N.ltb maxe (h_psize h)); [discriminate|].
          destruct (N.eqb _ _); [|discriminate].
          destruct (parse_payload _ _); discriminate. }
      split; [|split; [exact HI|exact Hlt]].
      destruct HI as (_ & _ & _ & _ & _ & Hp & _). lia.
    - assert (Hl : (length (pd_buf st) < HEADER_SIZE)%nat) by (apply Hiff; reflexivity).
      split; [lia|exact Hl].
  Qed.

  Theorem buffer_bound chunks rss st' :
    run init chunks = PdRunDone rss st' ->
    (N.of_nat (length (pd_buf st')) < N.of_nat HEADER_SIZE + maxp)%N /\
    match pd_hdr st' with
    | None => (length (pd_buf st') < HEADER_SIZE)%nat
    | Some h => hdr_facts maxp (pd_buf st') (pd_msg_len st') h /\
                (N.of_nat (length (pd_buf st')) < N.of_nat HEADER_SIZE + h_psize h)%N
    end.
  Proof.
    intros HR. destruct (run_is_scan chunks) as (rss2 & st2 & fs & HR2 & HP & _).
    rewrite HR in HR2. injection HR2 as <- <-. apply post_buffer_bound. exact HP.
  Qed.

  (* exactness against the SPEC judge of the property text, under the proviso on the payload parser *)
  Theorem exact_partial : parser_total parse_payload maxp maxe -> forall chunks,
    exists rss st' fs,
      run init chunks = PdRunDone rss st' /\
      scan judge 0 (concat chunks) = (fs, abs st') /\ map Some (concat rss) = map res_of fs /\
      frames_ok judge 0 (concat chunks) 0 fs.
  Proof.
    intros HT chunks. destruct (run_is_scan chunks) as (rss & st' & fs & HR & _ & HS & HM).
    exists rss, st', fs.
    rewrite (scan_ext _ _ (judge_dec_eq_judge parse_payload maxp maxe HT)) in HS.
    refine (conj HR (conj HS (conj HM _))).
    apply (scan_frames_ok _ (judge_py_ok maxp maxe)) in HS. exact HS.
  Qed.

  Theorem exact_partial_fe : (maxp <= maxe)%N -> parser_total parse_payload maxp maxe -> forall chunks,
    exists rss st' fs,
      run init chunks = PdRunDone rss st' /\
      scan (judge_fe false true maxp) 0 (concat chunks) = (fs, abs st') /\ map Some (concat rss) = map res_of fs /\
      frames_ok (judge_fe false true maxp) 0 (concat chunks) 0 fs.
  Proof.
    intros Hm HT chunks. destruct (exact_partial HT chunks) as (rss & st' & fs & HR & HS & HM & _).
    exists rss, st', fs. rewrite (scan_ext _ _ (judge_py_eq_fe maxp maxe Hm)) in HS.
    refine (conj HR (conj HS (conj HM _))). apply (scan_frames_ok _ (judge_fe_ok false true maxp)) in HS. exact HS.
  Qed.

  (* ---- C05 ------------------------------------------------------------------------------------------- *)
  (* the state between calls is a function of the scanner state *)
  Lemma obs_determined s1 s2 : Post s1 -> Post s2 -> abs s1 = abs s2 -> PyDecoder_obs s1 = PyDecoder_obs s2.
  Proof.
    intros (HI1 & _ & F1) (HI2 & _ & F2) HA. unfold PyDecoder_abs in HA. injection HA as Hp Hb.
    apply N2Nat.inj in Hp. unfold PyDecoder_obs. rewrite Hb, Hp.
    unfold PyDecoder_Inv in *. rewrite Hb in *.
    destruct (pd_hdr s1) as [h1|] eqn:E1; destruct (pd_hdr s2) as [h2|] eqn:E2.
    - destruct HI1 as (_ & Hh1 & _ & _ & _ & _ & Hm1). destruct HI2 as (_ & Hh2 & _ & _ & _ & _ & Hm2).
      rewrite Hm1, Hm2, Hh1, Hh2. reflexivity.
    - exfalso. destruct HI1 as (H24 & _). assert (Hl : (length (pd_buf s2) < HEADER_SIZE)%nat) by (apply F2; reflexivity). lia.
    - exfalso. destruct HI2 as (H24 & _). assert (Hl : (length (pd_buf s2) < HEADER_SIZE)%nat) by (apply F1; reflexivity). lia.
    - reflexivity.
  Qed.

  Theorem chunk_independent cs1 cs2 : concat cs1 = concat cs2 ->
    exists rss1 st1 rss2 st2,
      run init cs1 = PdRunDone rss1 st1 /\ run init cs2 = PdRunDone rss2 st2 /\
      concat rss1 = concat rss2 /\ PyDecoder_obs st1 = PyDecoder_obs st2.
  Proof.
    intros HC.
    destruct (run_is_scan cs1) as (rss1 & st1 & fs1 & HR1 & HP1 & HS1 & HM1).
    destruct (run_is_scan cs2) as (rss2 & st2 & fs2 & HR2 & HP2 & HS2 & HM2).
    exists rss1, st1, rss2, st2. rewrite HC in HS1. rewrite HS1 in HS2.
    assert (Hfs : fs1 = fs2) by congruence. assert (Habs : abs st1 = abs st2) by congruence.
    refine (conj HR1 (conj HR2 (conj _ _))).
    - apply map_Some_inj. rewrite HM1, HM2, Hfs. reflexivity.
    - apply obs_determined; assumption.
  Qed.

  (* what one more call delivers: exactly the frames the scan of the longer prefix has beyond those of the shorter *)
  Theorem delivery_point cs c :
    exists rss st rs st' F G,
      run init cs = PdRunDone rss st /\ on_data st c = PdDone rs st' /\
      fst (scan J 0 (concat cs)) = F /\ fst (scan J 0 (concat cs ++ c)) = F ++ G /\
      map Some (concat rss) = map res_of F /\ map Some rs = map res_of G.
  Proof.
    destruct (run_is_scan cs) as (rss & st & F & HR & HP & HS & HM).
    destruct (on_data_refines parse_payload maxp maxe rb ro OKJ st c HP) as (rs & st' & G & HO & _ & HF & HMG).
    exists rss, st, rs, st', F, G. refine (conj HR (conj HO (conj _ (conj _ (conj HM HMG))))).
    - rewrite HS. reflexivity.
    - rewrite (scan_app _ OKJ), HS. unfold feed in HF. cbn [fst snd] in *.
      unfold PyDecoder_abs in HF. cbn [fst snd] in HF. unfold PyDecoder_abs. cbn [fst snd]. rewrite HF. reflexivity.
  Qed.

  (* a stream of valid messages: after any prefix that ends inside (or at the start of) message k+1, exactly the first
     k messages have been delivered, whatever the chunking; i.e. each is delivered by the call that supplies its last byte *)
  Lemma self_framed_prefix_more m k : self_framed J m -> (k < length m)%nat -> J (firstn k m) = More.
  Proof.
    unfold self_framed. intros HA Hk.
    assert (Hj : judge m = Accept (length m)).
    { unfold PyDecoder_judge_dec in HA. destruct (judge m) as [n| |] eqn:E; try discriminate.
      destruct (parse_payload _ _); [|discriminate]. exact HA. }
    assert (Hjm : judge (firstn k m) = More).
    { unfold PyDecoder_judge in *. rewrite !shorter_ltb in *.
      assert (Hlk : length (firstn k m) = k) by (rewrite firstn_length; lia). rewrite Hlk.
      destruct (Nat.ltb k HEADER_SIZE) eqn:E0; [reflexivity|]. apply Nat.ltb_ge in E0.
      destruct (Nat.ltb (length m) HEADER_SIZE) eqn:E1; [discriminate|].
      rewrite firstn_firstn, Nat.min_l by exact E0.
      set (h := parse_header (firstn HEADER_SIZE m)) in *.
      destruct (negb (N.eqb (h_sync0 h) SYNC0 && N.eqb (h_sync1 h) SYNC1)); [discriminate|].
      destruct (negb (N.eqb (h_reserved h) 0)); [discriminate|].
      destruct (N.ltb maxp (h_psize h)); [discriminate|].
      destruct (N.ltb (N.of_nat (length m)) (N.of_nat HEADER_SIZE + h_psize h)) eqn:E2; [discriminate|]. apply N.ltb_ge in E2.
      destruct (N.ltb maxe (h_psize h)); [discriminate|].
      destruct (N.eqb _ _); [|discriminate]. apply Accept_inj in Hj.
      assert (E3 : N.ltb (N.of_nat k) (N.of_nat HEADER_SIZE + h_psize h) = true) by (apply N.ltb_lt; lia).
      rewrite E3. reflexivity. }
    unfold PyDecoder_judge_dec. rewrite Hjm. reflexivity.
  Qed.

  Theorem clean_stream msgs m k cs :
    Forall (self_framed J) msgs -> self_framed J m -> (k < length m)%nat ->
    concat cs = concat msgs ++ firstn k m ->
    exists rss st',
      run init cs = PdRunDone rss st' /\
      map Some (concat rss) = map res_of (rebase 0 msgs) /\
      pd_buf st' = firstn k m /\ pd_processed st' = N.of_nat (length (concat msgs)).
  Proof.
    intros HF Hm Hk HC.
    destruct (run_is_scan cs) as (rss & st' & fs & HR & HP & HS & HM).
    exists rss, st'. rewrite HC in HS.
    rewrite (scan_app _ OKJ), (scan_concat_frames _ OKJ) in HS by exact HF. cbn [fst snd app] in HS.
    rewrite (scan_more _ _ _ (self_framed_prefix_more _ _ Hm Hk)) in HS.
    injection HS as Hfs Hoff Hbuf. rewrite app_nil_r in Hfs. subst fs.
    refine (conj HR (conj HM (conj (eq_sym Hbuf) _))). cbn [Nat.add] in Hoff. lia.
  Qed.
End Thm.

(* ---- instances and witnesses --------------------------------------------------------------------------- *)
(* a payload parser of the kind the registered classes have: type 10000 (Pose) needs exactly 140 bytes, every other
   type takes the bytes as they are *)
Definition demo_parser (t : N) (p : list N) : option (list N) :=
  if N.eqb t 10000 then (if Nat.eqb (length p) 140 then Some p else None) else Some p.

(* Pose header, 3-byte payload "abc", correct CRC (built with struct/zlib; the CRC is re-checked by vm_compute below) *)
Definition bad_pose : list N :=
  [46; 49; 0; 0; 32; 36; 173; 155; 2; 0; 16; 39; 7; 0; 0; 0; 3; 0; 0; 0; 0; 0; 0; 0; 97; 98; 99]%N.
(* InputDataWrapper (type 13120) with 8 header bytes and the 4 data bytes 1 2 3 4 *)
Definition wrapper4 : list N :=
  [46; 49; 0; 0; 83; 215; 120; 54; 2; 0; 64; 51; 5; 0; 0; 0; 12; 0; 0; 0; 0; 0; 0; 0; 0; 0; 0; 0; 0; 0; 0; 0; 1; 2; 3; 4]%N.
(* EventNotification-sized message (type 13004), 4 zero bytes *)
Definition small_msg : list N :=
  [46; 49; 0; 0; 68; 147; 164; 141; 2; 0; 204; 50; 1; 0; 0; 0; 4; 0; 0; 0; 0; 0; 0; 0; 0; 0; 0; 0]%N.

Definition M24 : N := 16777216.

Lemma bad_pose_accepted_by_spec : PyDecoder_judge M24 M24 bad_pose = Accept 27.
Proof. vm_compute. reflexivity. Qed.

Lemma bad_pose_dropped_by_decoder :
  exists st, PyDecoder_run demo_parser M24 M24 true true false PyDecoder_init [bad_pose] = PdRunDone [[]] st.
Proof. eexists. vm_compute. reflexivity. Qed.

Lemma bad_pose_spec_frames : fst (scan (PyDecoder_judge M24 M24) 0 bad_pose) = [(0%nat, bad_pose)].
Proof. vm_compute. reflexivity. Qed.

(* full-strength exactness (no proviso on the payload parser) is false of the decoder *)
Definition exact_full_stmt : Prop :=
  forall (P : Type) (parse : N -> list N -> option P) (maxp maxe : N) (rb ro : bool) (chunks : list (list N)),
  exists rss st',
    PyDecoder_run parse maxp maxe rb ro false PyDecoder_init chunks = PdRunDone rss st' /\
    map Some (concat rss) =
    map (PyDecoder_result_of parse rb ro) (fst (scan (PyDecoder_judge maxp maxe) 0 (concat chunks))).

Lemma bad_pose_expected_entry :
  map (PyDecoder_result_of demo_parser true true) [(0%nat, bad_pose)] = [None].
Proof. vm_compute. reflexivity. Qed.

Theorem exact_full_refuted : ~ exact_full_stmt.
Proof.
  intros H. destruct (H _ demo_parser M24 M24 true true [bad_pose]) as (rss & st' & HR & HM).
  destruct bad_pose_dropped_by_decoder as (st & HD). rewrite HD in HR. injection HR as <- _.
  replace (concat [bad_pose]) with bad_pose in HM by (symmetry; apply app_nil_r).
  rewrite bad_pose_spec_frames, bad_pose_expected_entry in HM. clear HD. discriminate HM.
Qed.

(* the proviso of the partial theorem is met by non-trivial parsers (here: the identity, i.e. every type unknown) *)
Lemma parser_total_identity maxp maxe : parser_total (fun (_ : N) (p : list N) => Some p) maxp maxe.
Proof. intros l n _. discriminate. Qed.

(* the clean-stream hypotheses are met by real messages *)
Lemma demo_self_framed :
  self_framed (PyDecoder_judge_dec demo_parser M24 M24) wrapper4 /\
  self_framed (PyDecoder_judge_dec demo_parser M24 M24) small_msg.
Proof. split; vm_compute; reflexivity. Qed.

(* the decoder on real bytes: both messages come out, with offsets 0 and 36, under three chunkings *)
Lemma demo_run :
  let stream := wrapper4 ++ small_msg in
  let offs rss := map (fun r => pr_off r) (concat rss) in
  match PyDecoder_run demo_parser M24 M24 true true false PyDecoder_init [stream],
        PyDecoder_run demo_parser M24 M24 true true false PyDecoder_init (map (fun b => [b]) stream),
        PyDecoder_run demo_parser M24 M24 true true false PyDecoder_init [firstn 30 stream; []; skipn 30 stream] with
  | PdRunDone r1 s1, PdRunDone r2 s2, PdRunDone r3 s3 =>
      concat r1 = concat r2 /\ concat r2 = concat r3 /\ offs r1 = [Some 0%N; Some 36%N] /\
      map (fun r => pr_payload r) (concat r1) = [skipn 24 wrapper4; skipn 24 small_msg] /\
      PyDecoder_obs s1 = PyDecoder_obs s2 /\ pd_processed s1 = 64%N
  | _, _, _ => False
  end.
Proof. vm_compute. repeat split; reflexivity. Qed.

(* the pre-repair decoder (legacy = true) handed the parser everything buffered behind the header: a length-inferred
   payload then depends on the chunking (DESIGN 21 #3) *)
Lemma legacy_values_depend_on_chunking :
  let greedy := fun (_ : N) (p : list N) => Some p in
  let stream := wrapper4 ++ small_msg in
  match PyDecoder_run greedy M24 M24 true true true PyDecoder_init [stream],
        PyDecoder_run greedy M24 M24 true true true PyDecoder_init [wrapper4; small_msg] with
  | PdRunDone r1 _, PdRunDone r2 _ =>
      map (fun r => length (pr_payload r)) (concat r1) = [40; 4]%nat /\
      map (fun r => length (pr_payload r)) (concat r2) = [12; 4]%nat
  | _, _ => False
  end.
Proof. vm_compute. split; reflexivity. Qed.
