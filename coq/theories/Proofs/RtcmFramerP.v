(* C14, framer level (floor part): Reset() and SetBuffer() facts.  The refinement to scan is in
   Proofs/RtcmRefineP.v. *)
From Coq Require Import NArith ZArith List Bool Lia.
From FEC Require Import Generated.RtcmConsts Base.Scan Models.FramerCoreM Models.FramerSpecM Models.RtcmFormatM Models.RtcmFramerM.
Import ListNotations.
Open Scope N_scope.

(* Reset() at any point yields the parser state and counters of a freshly constructed framer on the
   same buffer *)
Theorem rtcm_reset_is_fresh (f : rframer) :
  let c := f_core (rtcm_reset f) in
  c_state c = RS_SYNC /\ c_next c = 0 /\ c_size c = 0 /\ c_x c = (0, 0) /\
  c_cap c = c_cap (f_core f) /\ f_has (rtcm_reset f) = f_has f /\ length (c_buf c) = length (c_buf (f_core f)).
Proof. cbn. repeat split. Qed.

Lemma rtcm_reset_idem f : rtcm_reset (rtcm_reset f) = rtcm_reset f.
Proof. reflexivity. Qed.
