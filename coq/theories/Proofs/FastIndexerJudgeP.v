(* C08: the indexer's acceptance test at one position is Base judge_fe (lazy, no reserved test) made
   end-of-file aware; consequences: prefix stability and locality of acceptance *)
From Coq Require Import NArith List Bool Arith Lia ZifyBool ZifyNat ZifyN.
From FEC Require Import Generated.FEConsts Base.ListX Base.Bytes Base.Crc32 Base.Scan Base.FEFormat
  Models.FastIndexerM Proofs.FastIndexerListP.
Import ListNotations.
Open Scope N_scope.

Definition fi_msize (h : header) : nat := (HEADER_SIZE + N.to_nat (h_psize h))%nat.

Lemma sync_fields (l : list N) b0 b1 t : l = b0 :: b1 :: t ->
  h_sync0 (parse_header (firstn HEADER_SIZE l)) = b0 /\ h_sync1 (parse_header (firstn HEADER_SIZE l)) = b1.
Proof.
  intros ->. unfold parse_header, HEADER_SIZE. cbn [h_sync0 h_sync1 firstn sub skipn le]. split; lia.
Qed.

Lemma fi_has_nat {A} (l : list A) n : fi_has n l = (N.to_nat n <=? length l)%nat.
Proof. rewrite fi_has_length, fi_len_length. destruct (N.leb_spec n (N.of_nat (length l))); destruct (Nat.leb_spec (N.to_nat n) (length l)); lia. Qed.

Lemma crc_region_take (l : list N) (p : N) :
  fi_take (24 + p - 8) (fi_drop 8 l) = crc_region l (HEADER_SIZE + N.to_nat p).
Proof.
  unfold crc_region, sub. rewrite fi_take_firstn, fi_drop_skipn. unfold HEADER_SIZE.
  replace (N.to_nat (24 + p - 8)) with (24 + N.to_nat p - 8)%nat by lia. reflexivity.
Qed.

(* both directions of "fi_valid = judge accepts" *)
Lemma valid_judge l h : fi_valid l = Some h ->
  fi_judge l = Accept (fi_msize h) /\ h = parse_header (firstn HEADER_SIZE l).
Proof.
  unfold fi_valid, fi_judge, judge_fe, fi_msize. cbn [andb].
  destruct (fi_sync_at l) eqn:S; [|discriminate]. cbn [negb].
  rewrite fi_has_nat. change (N.to_nat 24) with HEADER_SIZE.
  destruct (Nat.leb_spec HEADER_SIZE (length l)) as [L|L]; [|discriminate]. cbn [negb].
  assert (Nat.ltb (length l) HEADER_SIZE = false) as -> by (apply Nat.ltb_ge; exact L).
  set (h0 := parse_header (firstn HEADER_SIZE l)).
  destruct l as [|b0 [|b1 t]]; try discriminate. cbn [fi_sync_at] in S.
  destruct (sync_fields (b0 :: b1 :: t) b0 b1 t eq_refl) as (S0 & S1). fold h0 in S0, S1. rewrite S0, S1, S. cbn [negb].
  destruct (MAX_EXPECTED_SIZE_BYTES <? h_psize h0) eqn:P; [discriminate|].
  rewrite fi_has_nat. replace (N.to_nat (24 + h_psize h0)) with (HEADER_SIZE + N.to_nat (h_psize h0))%nat by (unfold HEADER_SIZE; lia).
  destruct (Nat.leb_spec (HEADER_SIZE + N.to_nat (h_psize h0)) (length (b0 :: b1 :: t))) as [L2|L2]; [|discriminate]. cbn [negb].
  assert (Nat.ltb (length (b0 :: b1 :: t)) (HEADER_SIZE + N.to_nat (h_psize h0)) = false) as -> by (apply Nat.ltb_ge; exact L2).
  rewrite crc_region_take.
  destruct (crc32 (crc_region (b0 :: b1 :: t) (HEADER_SIZE + N.to_nat (h_psize h0))) =? h_crc h0); [|discriminate].
  intros E. injection E as <-. split; reflexivity.
Qed.

Lemma judge_valid l n : fi_judge l = Accept n ->
  fi_valid l = Some (parse_header (firstn HEADER_SIZE l)) /\ n = fi_msize (parse_header (firstn HEADER_SIZE l)).
Proof.
  intros J. pose proof (judge_fe_accept_inv _ _ _ _ _ J) as (L & S0 & S1 & _ & P & Hn & Ln & C).
  set (h0 := parse_header (firstn HEADER_SIZE l)) in *.
  unfold fi_valid, fi_msize. fold h0.
  destruct l as [|b0 [|b1 t]]; try (unfold HEADER_SIZE in L; cbn [length] in L; lia).
  destruct (sync_fields (b0 :: b1 :: t) b0 b1 t eq_refl) as (T0 & T1). fold h0 in T0, T1.
  assert (B0 : (b0 =? SYNC0) = true) by (apply N.eqb_eq; congruence).
  assert (B1 : (b1 =? SYNC1) = true) by (apply N.eqb_eq; congruence).
  cbn [fi_sync_at]. rewrite B0, B1. cbn [andb negb].
  rewrite fi_has_nat. change (N.to_nat 24) with HEADER_SIZE.
  destruct (Nat.leb_spec HEADER_SIZE (length (b0 :: b1 :: t))) as [L'|L']; [|lia]. cbn [negb].
  assert (MAX_EXPECTED_SIZE_BYTES <? h_psize h0 = false) as -> by lia.
  rewrite fi_has_nat. replace (N.to_nat (24 + h_psize h0)) with (HEADER_SIZE + N.to_nat (h_psize h0))%nat by (unfold HEADER_SIZE; lia).
  destruct (Nat.leb_spec (HEADER_SIZE + N.to_nat (h_psize h0)) (length (b0 :: b1 :: t))) as [L2|L2]; [|lia]. cbn [negb].
  rewrite crc_region_take, <- Hn, C, N.eqb_refl. split; reflexivity.
Qed.

Lemma valid_none_judge l : fi_valid l = None -> forall n, fi_judge l <> Accept n.
Proof. intros V n J. apply judge_valid in J. destruct J as (J & _). congruence. Qed.

Lemma valid_size_le l h : fi_valid l = Some h -> (fi_msize h <= length l)%nat /\ (HEADER_SIZE <= fi_msize h)%nat.
Proof.
  intros V. apply valid_judge in V. destruct V as (J & _).
  pose proof (j_bound _ (judge_fe_ok false false MAX_EXPECTED_SIZE_BYTES) _ _ J). unfold fi_msize in *. lia.
Qed.

(* acceptance seen through a prefix of the data (a block buffer is a prefix of a file suffix) *)
Lemma valid_prefix_up l m h : fi_valid (firstn m l) = Some h -> fi_valid l = Some h.
Proof.
  intros V. pose proof (valid_size_le _ _ V) as (Hsz & Hh). apply valid_judge in V. destruct V as (J & Hh0).
  assert (J2 : fi_judge l = Accept (fi_msize h)).
  { rewrite <- (firstn_skipn m l). unfold fi_judge in *.
    rewrite (j_stable _ (judge_fe_ok false false MAX_EXPECTED_SIZE_BYTES)) by congruence. exact J. }
  apply judge_valid in J2. destruct J2 as (V2 & _). rewrite V2. f_equal.
  rewrite Hh0. rewrite firstn_firstn. rewrite firstn_length in Hsz. rewrite Nat.min_l by lia. reflexivity.
Qed.

Lemma valid_prefix_down l m h : fi_valid l = Some h -> (fi_msize h <= m)%nat -> fi_valid (firstn m l) = Some h.
Proof.
  intros V Hm. pose proof (valid_size_le _ _ V) as (Hsz & Hh). apply valid_judge in V. destruct V as (J & Hh0).
  pose proof (judge_fe_local false false MAX_EXPECTED_SIZE_BYTES _ _ J) as JL.
  assert (E : firstn m l = firstn (fi_msize h) l ++ firstn (m - fi_msize h) (skipn (fi_msize h) l)).
  { rewrite <- (firstn_skipn (fi_msize h) l) at 1. rewrite firstn_app, firstn_firstn.
    rewrite firstn_length. rewrite (Nat.min_r m) by lia. rewrite (Nat.min_l (fi_msize h)) by lia. reflexivity. }
  assert (J2 : fi_judge (firstn m l) = Accept (fi_msize h)).
  { rewrite E. unfold fi_judge in *. rewrite (j_stable _ (judge_fe_ok false false MAX_EXPECTED_SIZE_BYTES)) by congruence. exact JL. }
  apply judge_valid in J2. destruct J2 as (V2 & _). rewrite V2. f_equal.
  rewrite Hh0, firstn_firstn. rewrite Nat.min_l by lia. reflexivity.
Qed.

(* the code's acceptance (repaired: with the length test) after a preamble match is fi_valid *)
Lemma accept_valid l : fi_sync_at l = true -> fi_accept fi_cur l = fi_valid l.
Proof. intros S. unfold fi_accept, fi_valid. rewrite S. reflexivity. Qed.

Lemma valid_sync l h : fi_valid l = Some h -> fi_sync_at l = true.
Proof. unfold fi_valid. destruct (fi_sync_at l); [reflexivity|discriminate]. Qed.
