(* C16 — lemmas about columns, the generic path and the NaN-time removal (Models/ToNumpyM.v). *)
From Coq Require Import Bool Arith Lia String List Sorted.
From FEC Require Import Models.ToNumpyM.
Import ListNotations.

Section Columns.
  Context {M V : Type}.

  Lemma column_length : forall (get : M -> V) ms, length (np_column get ms) = length ms.
  Proof. intros. apply map_length. Qed.

  (* position i of the output is the field of the i-th message; there is an i-th output iff there is an i-th message *)
  Lemma column_nth : forall (get : M -> V) ms i,
    nth_error (np_column get ms) i = option_map get (nth_error ms i).
  Proof. intros. unfold np_column. apply nth_error_map. Qed.

  Lemma column_app : forall (get : M -> V) a b, np_column get (a ++ b) = np_column get a ++ np_column get b.
  Proof. intros. apply map_app. Qed.

  Lemma first_is_first : forall (get : M -> V) dflt m ms, np_first get dflt (m :: ms) = get m.
  Proof. reflexivity. Qed.

  Lemma first_nth : forall (get : M -> V) dflt ms m, nth_error ms 0 = Some m -> np_first get dflt ms = get m.
  Proof. intros get dflt [|a ms] m H; cbn in H; [discriminate|]. injection H as ->. reflexivity. Qed.

  Lemma generic_keys : forall fields (get : string -> M -> V) ms, map fst (np_generic fields get ms) = fields.
  Proof. intros. unfold np_generic. rewrite map_map. cbn. apply map_id. Qed.

  Lemma generic_columns : forall fields (get : string -> M -> V) ms k col,
    In (k, col) (np_generic fields get ms) <-> In k fields /\ col = np_column (get k) ms.
  Proof.
    intros. unfold np_generic. rewrite in_map_iff. split.
    - intros [f [E H]]. injection E as <- <-. auto.
    - intros [H ->]. exists k. auto.
  Qed.
End Columns.

Section RemoveNan.
  Context {V : Type}.

  Lemma select_cons_shift : forall {A} (pos : list nat) (x : A) xs,
    np_select (map S pos) (x :: xs) = np_select pos xs.
  Proof. induction pos as [|p pos IH]; intros; cbn; [reflexivity|]. f_equal. apply IH. Qed.

  Lemma positions_from_shift : forall is_nan i,
    np_positions_from (S i) is_nan = map S (np_positions_from i is_nan).
  Proof.
    induction is_nan as [|b r IH]; intros i; cbn [np_positions_from map]; [reflexivity|].
    destruct b; cbn [map]; rewrite IH; reflexivity.
  Qed.

  (* boolean-mask indexing = picking the positions of the valid times, whatever the array holds *)
  Lemma compress_is_select : forall {A} is_nan (d : list A), length d = length is_nan ->
    np_compress (map negb is_nan) d = np_select (np_positions is_nan) d.
  Proof.
    unfold np_positions. induction is_nan as [|b r IH]; intros d L.
    - destruct d; reflexivity.
    - destruct d as [|x xs]; [discriminate|]. cbn [map np_compress np_positions_from].
      cbn in L. injection L as L. rewrite positions_from_shift.
      destruct b; cbn [negb].
      + rewrite select_cons_shift. apply IH, L.
      + cbn [np_select flat_map nth_error app]. fold (np_select (map S (np_positions_from 0 r)) (x :: xs)).
        rewrite select_cons_shift. f_equal. apply IH, L.
  Qed.

  Lemma positions_from_spec : forall is_nan i p,
    In p (np_positions_from i is_nan) <-> (i <= p /\ nth_error is_nan (p - i) = Some false).
  Proof.
    induction is_nan as [|b r IH]; intros i p; cbn [np_positions_from].
    - split; [intros []|]. intros [_ H]. destruct (p - i); discriminate.
    - destruct b.
      + rewrite IH. split.
        * intros [H1 H2]. split; [lia|]. replace (p - i) with (S (p - S i)) by lia. exact H2.
        * intros [H1 H2]. destruct (p - i) as [|k] eqn:E; [discriminate|]. cbn in H2.
          split; [lia|]. replace (p - S i) with k by lia. exact H2.
      + cbn [In]. rewrite IH. split.
        * intros [<-|[H1 H2]]; [split; [lia|]; rewrite Nat.sub_diag; reflexivity|].
          split; [lia|]. replace (p - i) with (S (p - S i)) by lia. exact H2.
        * intros [H1 H2]. destruct (p - i) as [|k] eqn:E; [left; lia|]. right. cbn in H2.
          split; [lia|]. replace (p - S i) with k by lia. exact H2.
  Qed.

  (* the kept positions are exactly the indices of the valid P1 times ... *)
  Lemma positions_spec : forall is_nan p, In p (np_positions is_nan) <-> nth_error is_nan p = Some false.
  Proof.
    intros. unfold np_positions. rewrite positions_from_spec. rewrite Nat.sub_0_r. split; [intros [_ H]; exact H|].
    intros H. split; [lia|exact H].
  Qed.

  Lemma positions_from_lb : forall is_nan i p, In p (np_positions_from i is_nan) -> i <= p.
  Proof. intros is_nan i p H. apply positions_from_spec in H. apply H. Qed.

  (* ... in ascending order without repeats *)
  Lemma positions_from_sorted : forall is_nan i, StronglySorted lt (np_positions_from i is_nan).
  Proof.
    induction is_nan as [|b r IH]; intros i; cbn [np_positions_from]; [constructor|].
    destruct b; [apply IH|]. constructor; [apply IH|].
    apply Forall_forall. intros p Hp. apply positions_from_lb in Hp. lia.
  Qed.

  Lemma positions_sorted : forall is_nan, StronglySorted lt (np_positions is_nan).
  Proof. intros. apply positions_from_sorted. Qed.

  Lemma positions_count : forall is_nan, length (np_positions is_nan) = np_count (map negb is_nan).
  Proof.
    intros is_nan. unfold np_positions, np_count. generalize 0.
    induction is_nan as [|b r IH]; intros i; cbn [np_positions_from map filter]; [reflexivity|].
    destruct b; cbn [negb length]; rewrite IH; reflexivity.
  Qed.

  Lemma select_length : forall {A} (pos : list nat) (d : list A),
    (forall p, In p pos -> p < length d) -> length (np_select pos d) = length pos.
  Proof.
    induction pos as [|p pos IH]; intros d H; cbn [np_select flat_map]; [reflexivity|].
    destruct (nth_error d p) eqn:E.
    - rewrite app_length. cbn [length]. cbn [Nat.add]. f_equal. apply (IH d). intros q Hq. apply H. right; exact Hq.
    - exfalso. apply nth_error_None in E. specialize (H p (or_introl eq_refl)). lia.
  Qed.

  Lemma skipped_split : forall ntd key,
    np_is_skipped ntd key = false ->
    existsb (String.eqb key) np_skipped_keys = false /\ existsb (String.eqb key) ntd = false.
  Proof. intros ntd key H. unfold np_is_skipped in H. apply orb_false_elim in H. exact H. Qed.

  (* One entry: a time-dependent array in one of the layouts used by this code base loses exactly the
     positions of the invalid P1 times, along its time axis. *)
  Lemma filter_entry_time : forall is_nan ntd key (v : np_arr V) ax,
    np_is_skipped ntd key = false ->
    np_has_time_axis (length is_nan) v ax ->
    (forall cols d, v = A2 cols d -> Forall (fun r => length r = cols) d) ->
    np_filter_entry is_nan ntd (key, v) = (key, np_select_time (np_positions is_nan) v ax).
  Proof.
    intros is_nan ntd key v ax Hs Hax Hwf. destruct (skipped_split _ _ Hs) as [S1 S2].
    unfold np_filter_entry. rewrite S1, S2.
    destruct v as [d|cols d|d|]; destruct ax; cbn [np_has_time_axis] in Hax; try contradiction;
      cbn [np_select_time].
    - rewrite (proj2 (Nat.eqb_eq _ _) Hax). rewrite compress_is_select by exact Hax. reflexivity.
    - subst cols. rewrite Nat.eqb_refl. rewrite positions_count. do 2 f_equal.
      apply map_ext_in. intros r Hr. apply compress_is_select.
      specialize (Hwf _ _ eq_refl). rewrite Forall_forall in Hwf. apply Hwf, Hr.
    - destruct Hax as [Hc Hl]. rewrite (proj2 (Nat.eqb_neq _ _) Hc), (proj2 (Nat.eqb_eq _ _) Hl).
      rewrite compress_is_select by exact Hl. reflexivity.
    - rewrite (proj2 (Nat.eqb_eq _ _) Hax). rewrite compress_is_select by exact Hax. reflexivity.
  Qed.

  Lemma filter_entry_skipped : forall is_nan ntd key (v : np_arr V),
    np_is_skipped ntd key = true -> np_filter_entry is_nan ntd (key, v) = (key, v).
  Proof.
    intros is_nan ntd key v H. unfold np_is_skipped in H. unfold np_filter_entry.
    destruct (existsb (String.eqb key) np_skipped_keys); [reflexivity|].
    cbn in H. rewrite H. reflexivity.
  Qed.

  Lemma filter_entry_key : forall is_nan ntd (kv : string * np_arr V),
    fst (np_filter_entry is_nan ntd kv) = fst kv.
  Proof.
    intros is_nan ntd [key v]. unfold np_filter_entry.
    destruct (existsb (String.eqb key) np_skipped_keys); [reflexivity|].
    destruct (existsb (String.eqb key) ntd); [reflexivity|].
    destruct v as [d|cols d|d|]; cbn [fst].
    - destruct (length d =? length is_nan); reflexivity.
    - destruct (cols =? length is_nan); [reflexivity|]. destruct (length d =? length is_nan); reflexivity.
    - destruct (length d =? length is_nan); reflexivity.
    - reflexivity.
  Qed.

  (* remove_nan_consistent: with at least one invalid P1 time, every time-dependent array of the object loses
     the same positions [np_positions is_nan] — the invalid ones — along its time axis; arrays declared
     not_time_dependent, the bookkeeping attributes and non-arrays stay as they are; keys are unchanged. *)
  Theorem remove_nan_consistent : forall is_nan ntd (entries : list (string * np_arr V)),
    existsb (fun b => b) is_nan = true ->
    let out := np_remove_nan is_nan ntd entries in
    map fst out = map fst entries /\
    (forall i key v ax,
        nth_error entries i = Some (key, v) -> np_is_skipped ntd key = false ->
        np_has_time_axis (length is_nan) v ax ->
        (forall cols d, v = A2 cols d -> Forall (fun r => length r = cols) d) ->
        nth_error out i = Some (key, np_select_time (np_positions is_nan) v ax)) /\
    (forall i key v,
        nth_error entries i = Some (key, v) -> np_is_skipped ntd key = true \/ v = A0 ->
        nth_error out i = Some (key, v)).
  Proof.
    intros is_nan ntd entries Hany out. subst out. unfold np_remove_nan. rewrite Hany. split; [|split].
    - rewrite map_map. apply map_ext. intros kv. apply filter_entry_key.
    - intros i key v ax Hi Hs Hax Hwf. rewrite nth_error_map, Hi. cbn [option_map]. f_equal.
      apply filter_entry_time; assumption.
    - intros i key v Hi [Hs | ->]; rewrite nth_error_map, Hi; cbn [option_map]; f_equal.
      + apply filter_entry_skipped, Hs.
      + unfold np_filter_entry. destruct (existsb (String.eqb key) np_skipped_keys); [reflexivity|].
        destruct (existsb (String.eqb key) ntd); reflexivity.
  Qed.

  Theorem remove_nan_nothing_to_do : forall is_nan ntd (entries : list (string * np_arr V)),
    existsb (fun b => b) is_nan = false -> np_remove_nan is_nan ntd entries = entries.
  Proof. intros is_nan ntd entries H. unfold np_remove_nan. rewrite H. reflexivity. Qed.

  (* consequence: afterwards every time-dependent array has one entry per valid P1 time *)
  Theorem remove_nan_lengths : forall is_nan (d : list V),
    length d = length is_nan ->
    length (np_select (np_positions is_nan) d) = np_count (map negb is_nan).
  Proof.
    intros is_nan d L. rewrite select_length; [apply positions_count|].
    intros p Hp. apply positions_spec in Hp. rewrite L. apply nth_error_Some. congruence.
  Qed.

  (* the element at output position j is the element at the j-th valid position of the input *)
  Theorem select_nth : forall {A} (pos : list nat) (d : list A) j p,
    (forall q, In q pos -> q < length d) -> nth_error pos j = Some p ->
    nth_error (np_select pos d) j = nth_error d p.
  Proof.
    induction pos as [|q pos IH]; intros d j p H Hj; [destruct j; discriminate|].
    cbn [np_select flat_map]. destruct (nth_error d q) as [x|] eqn:E.
    - destruct j as [|j]; cbn [nth_error app] in *.
      + injection Hj as <-. symmetry. exact E.
      + apply IH; [intros; apply H; right; assumption|exact Hj].
    - exfalso. apply nth_error_None in E. specialize (H q (or_introl eq_refl)). lia.
  Qed.

  (* what the code did before the repair: a Nx3x3 array kept its invalid entries *)
  Lemma legacy_inconsistent : forall (x : V),
    np_remove_nan_legacy [false; true] [] [("p1_time"%string, A1 [x; x]); ("position_cov_enu_m2"%string, AH [[x]; [x]])]
    = [("p1_time"%string, A1 [x]); ("position_cov_enu_m2"%string, AH [[x]; [x]])].
  Proof. reflexivity. Qed.
End RemoveNan.
