(* C02 — soundness of the layout comparison: no mismatching row implies the per-struct / per-member statement. *)
From Coq Require Import Arith ZArith List String Bool Lia.
From FEC Require Import Models.PackingM Models.LayoutM Models.LayoutValuesM.
Import ListNotations.

Lemma app_nil2 : forall (A : Type) (a b : list A), (a ++ b)%list = [] -> a = [] /\ b = [].
Proof. intros A a b H. destruct a; [auto | discriminate]. Qed.

Lemma if_nil1 : forall (A : Type) (b : bool) (x : A), (if b then [] else [x]) = [] -> b = true.
Proof. intros A b x H. destruct b; [reflexivity | discriminate]. Qed.

Lemma flat_map_nil_in : forall (A B : Type) (f : A -> list B) l,
  flat_map f l = [] -> forall x, In x l -> f x = [].
Proof.
  intros A B f l. induction l as [|a t IH]; intros H x Hx; [destruct Hx|].
  cbn [flat_map] in H. apply app_nil2 in H. destruct H as [H1 H2]. destruct Hx as [->|Hx]; auto.
Qed.

Lemma is_nil_true : forall (A : Type) (l : list A), is_nil l = true -> l = [].
Proof. intros A l H. destruct l; [reflexivity | discriminate]. Qed.

Lemma forallb2_combine : forall (A B : Type) (f : A -> B -> bool) l1 l2,
  forallb2 f l1 l2 = true ->
  List.length l1 = List.length l2 /\ forall a b, In (a, b) (combine l1 l2) -> f a b = true.
Proof.
  intros A B f. induction l1 as [|a t IH]; intros [|b t2] H; cbn [forallb2] in H; try discriminate.
  - split; [reflexivity|]. intros ? ? [].
  - apply andb_prop in H. destruct H as [H1 H2]. destruct (IH _ H2) as [L F]. split.
    + cbn [List.length]. f_equal. exact L.
    + intros a' b' [Heq|Hin]; [inversion Heq; subst; exact H1 | auto].
Qed.

Lemma checks_all_true : forall (l : list (string * bool)) (g : string * bool -> row),
  map g (filter (fun c => negb (snd c)) l) = [] -> forall c, In c l -> snd c = true.
Proof.
  intros l g H c Hin. apply map_eq_nil in H.
  induction l as [|a t IH]; [destruct Hin|].
  cbn [filter] in H. destruct (snd a) eqn:E; cbn [negb] in H; [|discriminate].
  destruct Hin as [->|Hin]; auto.
Qed.

Lemma struct_mismatches_sound : forall T E cs ps,
  struct_mismatches T E cs ps = [] ->
  s_name cs = p_cpp ps /\ nesting_ok T cs = true /\ size_ok cs ps = true /\ tail_ok E cs ps = true /\
  forall m, In m (s_members cs) ->
    (forall b, In b (m_live T E cs m) -> on_byte ps b (live_byte_ok E cs (m_attr T E cs ps m)) = true) /\
    (forall b, In b (m_dead T E cs m) -> on_byte ps b (dead_byte_ok E cs m) = true) /\
    unique_ok T E cs ps m = true /\ confined_ok T E cs ps m = true /\ name_ok T E cs ps m = true /\
    pack_ok T E cs ps m = true.
Proof.
  intros T E cs ps H. unfold struct_mismatches in H.
  apply app_nil2 in H. destruct H as [A H]. apply app_nil2 in H. destruct H as [B H].
  apply app_nil2 in H. destruct H as [C H]. apply app_nil2 in H. destruct H as [D F].
  apply if_nil1 in A. apply if_nil1 in B. apply if_nil1 in C. apply if_nil1 in D.
  apply String.eqb_eq in A. repeat (split; [assumption|]).
  intros m Hm. pose proof (flat_map_nil_in _ _ _ _ F m Hm) as Hc. cbv beta in Hc.
  pose proof (checks_all_true _ _ Hc) as All.
  assert (forallb snd (member_checks T E cs ps m) = true) as Hall by (apply forallb_forall; exact All).
  unfold member_checks in Hall. cbn [forallb snd] in Hall. rewrite !andb_true_iff in Hall.
  destruct Hall as (L & Dd & U & Cf & Nm & Pk & _).
  unfold live_ok in L. unfold dead_ok in Dd. rewrite forallb_forall in L. rewrite forallb_forall in Dd.
  repeat split; assumption.
Qed.

Lemma layout_mismatches_sound : forall T E cpp py,
  layout_mismatches T E cpp py = [] -> layouts_agree_spec T E cpp py.
Proof.
  intros T E cpp py H. unfold layout_mismatches in H. apply app_nil2 in H. destruct H as [A B].
  apply if_nil1 in A. apply Nat.eqb_eq in A. split; [exact A|].
  intros cs ps Hin. pose proof (flat_map_nil_in _ _ _ _ B (cs, ps) Hin) as Hs. cbn [fst snd] in Hs.
  destruct (struct_mismatches_sound _ _ _ _ Hs) as [N [_ [S [Tl M]]]]. repeat split; try assumption; apply M; assumption.
Qed.

Lemma forallb2_struct_agree_sound : forall T E cpp py,
  forallb2 (struct_agree T E) cpp py = true -> layouts_agree_spec T E cpp py.
Proof.
  intros T E cpp py H. apply forallb2_combine in H. destruct H as [L F]. split; [exact L|].
  intros cs ps Hin. specialize (F cs ps Hin). unfold struct_agree in F. apply is_nil_true in F.
  destruct (struct_mismatches_sound _ _ _ _ F) as [N [_ [S [Tl M]]]]. repeat split; try assumption; apply M; assumption.
Qed.

(* reading of two of the boolean atoms, for the statement in Properties/C02.v *)
Lemma size_ok_sound : forall cs ps, size_ok cs ps = true ->
  p_min_size ps = Some (s_size cs) /\ p_packed_len ps = Some (s_size cs) /\
  (p_consumed ps = None \/ p_consumed ps = Some (s_size cs)).
Proof.
  intros cs ps H. unfold size_ok in H. apply andb_prop in H. destruct H as [H H3]. apply andb_prop in H. destruct H as [H1 H2].
  unfold opt_nat_eqb in H1, H3.
  destruct (p_min_size ps) as [a|]; [|discriminate]. destruct (p_packed_len ps) as [c|]; [|discriminate].
  apply Nat.eqb_eq in H1. apply Nat.eqb_eq in H3. subst. split; [reflexivity|]. split; [reflexivity|].
  destruct (p_consumed ps) as [k|]; [|left; reflexivity]. apply Nat.eqb_eq in H2. subst. right. reflexivity.
Qed.

(* every way of reading: the table of each call path agrees with the C++ layouts, and names the same fixed attributes
   byte for byte as the reference table *)
Lemma paths_agree_sound : forall T E cpp ref paths,
  paths_agree T E cpp ref paths = true ->
  forall path tbl, In (path, tbl) paths ->
    layouts_agree_spec T E cpp tbl /\
    List.length ref = List.length tbl /\
    forall p q, In (p, q) (combine ref tbl) -> same_fixed p q = true.
Proof.
  intros T E cpp ref paths H path tbl Hin. unfold paths_agree in H. rewrite forallb_forall in H.
  specialize (H _ Hin). cbn [snd] in H. apply andb_prop in H. destruct H as [H1 H2].
  split; [apply forallb2_struct_agree_sound; exact H1|]. exact (forallb2_combine _ _ _ _ _ H2).
Qed.

(* value rows: the boolean test is the arithmetic statement *)
Lemma value_ok_sound : forall r, value_ok r = true -> value_agrees r.
Proof.
  intros r H. unfold value_ok in H. cbv zeta in H.
  apply andb_prop in H. destruct H as [H H4]. apply andb_prop in H. destruct H as [H H3].
  apply andb_prop in H. destruct H as [H1 H2].
  apply Z.ltb_lt in H1. apply Z.ltb_lt in H2. apply negb_true_iff in H3. apply Z.eqb_neq in H3.
  unfold value_agrees. split; [exact H1|]. split; [exact H2|]. split; [exact H3|].
  destruct ((v_scale_num r =? 1) && (v_scale_den r =? 1)).
  - apply Z.eqb_eq. exact H4.
  - apply Z.leb_le. exact H4.
Qed.

Lemma values_forall : forall rows, forallb value_ok rows = true -> forall r, In r rows -> value_agrees r.
Proof. intros rows H r Hin. apply value_ok_sound. exact (proj1 (forallb_forall _ _) H r Hin). Qed.
