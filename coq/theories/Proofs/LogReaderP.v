(* C10 — the repaired constructor + iteration return exactly the filter of the unfiltered log. *)
From Coq Require Import ZArith List Bool Lia ZifyBool Sorted.
From FEC Require Import Generated.LogReaderConsts Models.FileIndexOpsM Models.LogReaderM
  Proofs.FileIndexOpsP Proofs.LogCursorP Proofs.LogReaderInitP.
Import ListNotations.
Open Scope Z_scope.
Ltac Zify.zify_post_hook ::= Z.to_euclidean_division_equations.

(* ---------------------------------------------------------------- iteration = one pass over the index *)
Fixpoint read_all (c : cfg) (srcs : option (list Z)) (f : file) (l : list entry) : list (msg * list piece) :=
  match l with
  | [] => []
  | e :: t => match read_entry fixed c srcs f e with
              | SStop => []
              | SSkip => read_all c srcs f t
              | SRet m => (m, assemble c m (e_off e) (e_idx e)) :: read_all c srcs f t
              | SErr _ => []
              end
  end.

Lemma skipn_cons_tail {A} (l : list A) n e t : skipn n l = e :: t -> skipn (S n) l = t.
Proof.
  revert l. induction n as [|n IH]; intros l H; [cbn in H; subst; reflexivity|].
  destruct l as [|x l]; [discriminate|]. cbn [skipn] in *. apply IH. exact H.
Qed.

Lemma read_entry_no_err c srcs f e x : read_entry fixed c srcs f e <> SErr x.
Proof.
  unfold read_entry. cbn [fx_payload fixed negb]. rewrite andb_false_r.
  destruct (exceeds (c_max_bytes c) (e_off e + header_size)); [discriminate|].
  destruct (file_at f (e_off e)); [|discriminate]. destruct (negb (src_ok srcs m)); [discriminate|].
  destruct (exceeds (c_max_bytes c) (e_off e + m_size m)); discriminate.
Qed.

Lemma iterate_read_all c f : forall l fuel r,
  0 <= r_next r -> skipn (Z.to_nat (r_next r)) (fi_data (r_index r)) = l -> (length l < fuel)%nat ->
  iterate fixed c f fuel r = Ok (read_all c (r_srcs r) f l).
Proof.
  induction l as [|e t IH]; intros fuel r Hn Hl Hf; (destruct fuel as [|k]; [lia|]); cbn [iterate]; unfold read_next; rewrite Hl; cbn [read_loop read_all].
  - reflexivity.
  - destruct (read_entry fixed c (r_srcs r) f e) eqn:Er.
    + reflexivity.
    + (* skipped inside the same read_next call: same as starting one entry later *)
      set (r1 := set_cursor r (r_next r + 1) (e_off e)).
      assert (Hl1 : skipn (Z.to_nat (r_next r1)) (fi_data (r_index r1)) = t).
      { subst r1. cbn [set_cursor r_next r_index]. replace (Z.to_nat (r_next r + 1)) with (S (Z.to_nat (r_next r))) by lia. eapply skipn_cons_tail; exact Hl. }
      specialize (IH (S k) r1 ltac:(subst r1; cbn; lia) Hl1 ltac:(cbn [length] in Hf; lia)).
      cbn [iterate] in IH. unfold read_next in IH. rewrite Hl1 in IH. subst r1. cbn [set_cursor r_next r_last r_srcs r_orig r_index r_avail] in IH.
      exact IH.
    + set (r1 := set_cursor r (r_next r + 1) (e_off e)).
      assert (Hl1 : skipn (Z.to_nat (r_next r1)) (fi_data (r_index r1)) = t).
      { subst r1. cbn [set_cursor r_next r_index]. replace (Z.to_nat (r_next r + 1)) with (S (Z.to_nat (r_next r))) by lia. eapply skipn_cons_tail; exact Hl. }
      rewrite (IH k r1 ltac:(subst r1; cbn; lia) Hl1 ltac:(cbn [length] in Hf; lia)). reflexivity.
    + exfalso. eapply read_entry_no_err. exact Er.
Qed.

(* ---------------------------------------------------------------- the index of a log *)
Lemma first_time_app a b : first_time (a ++ b) = match first_time a with Some x => Some x | None => first_time b end.
Proof. induction a as [|e a IH]; cbn [app first_time]; [reflexivity|]. destruct (e_time e); [reflexivity|exact IH]. Qed.

Lemma first_time_entries l : forall i, first_time (entries_from i l) = match first_msg_time l with Some t => Some (t / 8) | None => None end.
Proof. induction l as [|m l IH]; intros i; cbn [entries_from first_time first_msg_time entry_of e_time]; [reflexivity|]. destruct (m_time m); [reflexivity|apply IH]. Qed.

(* the truncated index is a prefix of the entries *)
Lemma filter_below_prefix lim (E : list entry) :
  offs_inc E -> exists rest, E = filter (fun e => below lim (e_off e)) E ++ rest /\ Forall (fun e => below lim (e_off e) = false) rest.
Proof.
  induction E as [|e E IH]; intros Hinc; [exists []; split; [reflexivity|constructor]|].
  pose proof (inc_tail_gt _ _ Hinc) as Hgt. apply StronglySorted_inv in Hinc. destruct Hinc as [Hinc _].
  cbn [filter]. destruct (below lim (e_off e)) eqn:Eb.
  - destruct (IH Hinc) as [rest [H1 H2]]. exists rest. split; [cbn [app]; f_equal; exact H1|exact H2].
  - assert (Hall : Forall (fun x => below lim (e_off x) = false) E).
    { eapply Forall_impl; [|exact Hgt]. cbn. intros x Hx. unfold below in *. destruct lim; [lia|discriminate]. }
    replace (filter (fun x => below lim (e_off x)) E) with (@nil entry).
    + exists (e :: E). split; [reflexivity|constructor; assumption].
    + symmetry. clear -Hall. induction Hall as [|x l Hx Hl IHl]; cbn [filter]; [reflexivity|]. rewrite Hx. exact IHl.
Qed.

(* ---------------------------------------------------------------- what the constructor's index is *)
Definition tyf (t : option (list Z)) (e : entry) : bool := match t with None => true | Some l => memZ (e_type e) l end.

Definition bound_free (R : option trange) : Prop :=
  match R with None => True | Some r => tr_start r = None /\ tr_end r = None end.

(* window used by the model on an index with this t0 (whole seconds): lower bound in seconds, upper in eighths *)
Definition model_window (t0 : option Z) (R : option trange) : option Z * option Z :=
  match R with
  | None => (None, None)
  | Some r =>
      let base := if tr_abs r then Some 0
                  else match tr_t0 r with Some t => Some t | None => match t0 with Some s => Some (8 * s) | None => None end end in
      (match tr_start r, base with Some s, Some b => Some ((b + s) / 8) | _, _ => None end,
       match tr_end r, base with Some e, Some b => Some (b + e) | _, _ => None end)
  end.

Lemma filter_pos_true_id l : filter_pos (window_hint IncludeNans None None) l = l.
Proof. unfold filter_pos. apply filter_pos_from_true. intros pre e rest _. cbn [window_hint]. unfold window_ok. destruct (e_time e); reflexivity. Qed.

Lemma getitem_range fi R :
  times_sorted (fi_data fi) -> (bound_free R \/ fi_t0 fi <> None) ->
  exists i, getitem fixed fi (range_key R) = Ok i /\
            fi_data i = filter_pos (window_ok (fst (model_window (fi_t0 fi) R)) (snd (model_window (fi_t0 fi) R))) (fi_data fi).
Proof.
  intros Hs Hb. destruct R as [r|]; cbn [range_key model_window fst snd].
  2:{ exists fi. split; [reflexivity|]. symmetry; apply filter_pos_true_id. }
  rewrite getitem_spec by exact Hs. cbn [spec_getitem].
  destruct (zlen (fi_data fi) =? 0) eqn:E0.
  { apply Z.eqb_eq, zlen_zero in E0. exists (mkFI [] None). rewrite E0. split; reflexivity. }
  unfold resolve_range, spec_time. rewrite E0.
  destruct (tr_abs r) eqn:Ea.
  - (* absolute *)
    destruct (tr_start r) as [s|] eqn:Es, (tr_end r) as [e|] eqn:Ee; cbn [bnd_of bnd_is_none andb bnd_val option_map fst snd].
    1-3: destruct (fi_t0 fi) as [t0|] eqn:Et; [|destruct Hb as [[Hb1 Hb2]|Hb]; [cbn in Hb1, Hb2; congruence|congruence]];
         eexists; split; [reflexivity|]; cbn [mk_index fi_data fi_t0 window_hint]; rewrite ?Z.add_0_l; reflexivity.
    eexists. split; [reflexivity|]. cbn [mk_index fi_data fi_t0]. reflexivity.
  - (* relative *)
    destruct (tr_start r) as [s|] eqn:Es, (tr_end r) as [e|] eqn:Ee.
    4:{ cbn [bnd_add bnd_is_none andb]. destruct (tr_t0 r), (fi_t0 fi); cbn [bnd_add bnd_is_none andb];
        (eexists; split; [reflexivity|]; cbn [mk_index fi_data fi_t0]; reflexivity). }
    1-3: destruct (fi_t0 fi) as [t0|] eqn:Et; [|destruct Hb as [[Hb1 Hb2]|Hb]; [cbn in Hb1, Hb2; congruence|congruence]];
         destruct (tr_t0 r) as [tt|]; cbn [bnd_add bnd_is_none andb bnd_val option_map];
         eexists; (split; [reflexivity|]); cbn [mk_index fi_data fi_t0 window_hint]; reflexivity.
Qed.

Lemma getitem_types fi t :
  exists i, getitem fixed fi (types_key t) = Ok i /\ fi_data i = filter (tyf t) (fi_data fi) /\ (fi_data fi <> [] -> fi_t0 fi <> None -> fi_t0 i = fi_t0 fi).
Proof.
  destruct t as [ts|]; cbn [types_key getitem tyf].
  2:{ exists fi. split; [reflexivity|]. split; [|reflexivity]. symmetry. induction (fi_data fi) as [|a l IH]; cbn [filter]; [reflexivity|]. change (tyf None a) with true. cbn iota. f_equal. exact IH. }
  destruct (zlen (fi_data fi) =? 0) eqn:E0.
  - apply Z.eqb_eq, zlen_zero in E0. exists (mkFI [] None). rewrite E0. split; [reflexivity|]. split; [reflexivity|congruence].
  - eexists. split; [reflexivity|]. cbn [mk_index fi_data fi_t0]. split; [reflexivity|]. intros _ Ht. destruct (fi_t0 fi); [reflexivity|congruence].
Qed.

(* ---------------------------------------------------------------- source discovery *)
Lemma populate_ok c f srcs :
  wf_file f ->
  exists r, populate fixed c f (initial (index_of_file f (c_max_bytes c)) srcs []) = Ok r /\ WF r /\
            r_orig r = index_of_file f (c_max_bytes c) /\ r_index r = r_orig r /\ r_next r = 0 /\ r_last r = -1 /\
            r_srcs r = srcs.
Proof.
  intros Hwf. unfold populate.
  pose proof (wf_initial f (c_max_bytes c) srcs [] Hwf) as Hw0.
  set (r0 := initial (index_of_file f (c_max_bytes c)) srcs []) in *.
  destruct (populate_types_ok c f (uniq_sorted (map e_type (fi_data (r_index r0)))) r0 [] Hw0 eq_refl) as [rp [acc [Ep [Hwp [Hip [Hop Hsp]]]]]].
  rewrite Ep. eexists. split; [reflexivity|].
  split; [apply rewind_wf; destruct Hwp as [A1 A2 A3 A4 A5]; constructor; assumption|].
  cbn [rewind set_cursor set_avail r_orig r_index r_next r_last r_srcs r_avail]. rewrite Hip, Hop, Hsp. repeat split; reflexivity.
Qed.

(* the constructor with filters *)
Lemma construct_general c f srcs types R :
  wf_file f ->
  (bound_free R \/ fi_t0 (index_of_file f (c_max_bytes c)) <> None) ->
  let orig := index_of_file f (c_max_bytes c) in
  let w := model_window (fi_t0 orig) R in
  exists r, construct fixed c f srcs types R = Ok r /\
            r_next r = 0 /\ r_srcs r = srcs /\
            fi_data (r_index r) = filter (tyf (norm_types types)) (filter_pos (window_ok (fst w) (snd w)) (fi_data orig)).
Proof.
  intros Hwf Hb orig w. unfold construct. fold orig.
  destruct (populate_ok c f srcs Hwf) as [r1 [Ep [Hw1 [Fo [Fi [Fn [Fl Fs]]]]]]]. fold orig in Ep, Fo.
  unfold initial in Ep. rewrite Ep. cbn [bind].
  destruct (index_of_file_props f (c_max_bytes c) Hwf) as [Oinc [Onn Oso]]. fold orig in Oinc, Onn, Oso. cbv zeta in Oinc, Onn, Oso.
  (* 1: key None + source ids *)
  assert (STEP : forall r s, r_last r = -1 -> filter_in_place fixed r KNone false s = (set_next (apply_source_ids fixed r s) 0, Ok tt)).
  { intros r s Hl. unfold filter_in_place. cbn [prev_offset fx_last_off fixed getitem].
    replace (r_index (apply_source_ids fixed r s)) with (r_index r) by (destruct s; reflexivity).
    replace (set_index (apply_source_ids fixed r s) (r_index r)) with (apply_source_ids fixed r s) by (destruct s, r; reflexivity).
    rewrite Hl. unfold relocate. destruct (zlen (fi_data (r_index r)) =? 0); reflexivity. }
  rewrite (STEP r1 (r_srcs r1) Fl).
  set (r2 := set_next (apply_source_ids fixed r1 (r_srcs r1)) 0).
  assert (F2 : r_index r2 = orig /\ r_last r2 = -1 /\ r_orig r2 = orig /\ r_srcs r2 = srcs).
  { subst r2. rewrite Fs. destruct srcs; cbn [apply_source_ids fx_srcs_as_requested fixed set_next set_cursor set_srcs r_index r_last r_orig r_srcs];
      rewrite ?Fi, ?Fo, ?Fl, ?Fs; repeat split; reflexivity. }
  destruct F2 as [Fi2 [Fl2 [Fo2 Fs2]]].
  (* 2: the type key, applied to the full index *)
  destruct (getitem_types orig (norm_types types)) as [it [Eit [Dit Tit]]].
  assert (S2 : filter_in_place fixed r2 (types_key (norm_types types)) false None = (set_next (set_index r2 it) 0, Ok tt)).
  { unfold filter_in_place. cbn [prev_offset fx_last_off fixed apply_source_ids]. rewrite Fi2, Eit, Fl2. f_equal. f_equal.
    unfold relocate. destruct (zlen (fi_data it) =? 0); reflexivity. }
  rewrite S2. set (r3 := set_next (set_index r2 it) 0).
  (* 3: the time key, applied to the type-filtered index: cannot fail under the hypothesis *)
  assert (Hs_it : times_sorted (fi_data it)) by (rewrite Dit; eapply subseq_sorted; [apply subseq_filter|exact Oso]).
  assert (Hb_it : bound_free R \/ fi_t0 it <> None \/ fi_data it = []).
  { destruct Hb as [Hb|Hb]; [left; exact Hb|]. right. destruct (fi_data orig) as [|e0 d0] eqn:Ed.
    - right. rewrite Dit. reflexivity.
    - left. rewrite Tit; [exact Hb|discriminate|exact Hb]. }
  assert (S3 : exists i3, getitem fixed it (range_key R) = Ok i3).
  { destruct Hb_it as [H|[H|H]].
    - destruct (getitem_range it R Hs_it (or_introl H)) as [i [Hi _]]. exists i. exact Hi.
    - destruct (getitem_range it R Hs_it (or_intror H)) as [i [Hi _]]. exists i. exact Hi.
    - destruct R as [rr|]; [|exists it; reflexivity]. exists (mkFI [] None). cbn [range_key getitem]. rewrite H. reflexivity. }
  destruct S3 as [i3 Ei3].
  assert (S3' : filter_in_place fixed r3 (range_key R) false None = (set_next (set_index r3 i3) 0, Ok tt)).
  { unfold filter_in_place. cbn [prev_offset fx_last_off fixed apply_source_ids]. subst r3. cbn [set_next set_index set_cursor r_index r_last].
    rewrite Ei3, Fl2. f_equal. f_equal. unfold relocate. destruct (zlen (fi_data i3) =? 0); reflexivity. }
  rewrite S3'. cbn [fx_time_first fixed].
  (* 4: the final index: time range on the full index, then types *)
  destruct (getitem_range orig R Oso Hb) as [i1 [Ei1 Di1]]. rewrite Ei1. cbn [bind].
  destruct (getitem_types i1 (norm_types types)) as [i4 [Ei4 [Di4 _]]]. rewrite Ei4. cbn [bind].
  eexists. split; [reflexivity|]. subst r3. cbn [set_index set_next set_cursor r_next r_srcs r_index].
  split; [reflexivity|]. split; [exact Fs2|]. rewrite Di4, Di1. reflexivity.
Qed.

(* ---------------------------------------------------------------- the pass over the index = the filter over the log *)
Definition keep (c : cfg) (srcs types : option (list Z)) (w : option Z * option Z) (pre : list msg) (m : msg) : bool :=
  type_ok types m && src_ok srcs m && bytes_ok (c_max_bytes c) m && in_time_pos w pre m.

Lemma spec_select_none kp c : forall l pre, (forall pre' m', In m' l -> kp pre' m' = false) -> spec_select_from kp c pre l = [].
Proof.
  induction l as [|m l IH]; intros pre H; cbn [spec_select_from]; [reflexivity|].
  rewrite (H pre m (or_introl eq_refl)). apply IH. intros pre' m' Hin. apply H. right. exact Hin.
Qed.

Lemma exceeds_mono mb x y : exceeds mb x = true -> x <= y -> exceeds mb y = true.
Proof. unfold exceeds. destruct mb; [|discriminate]. lia. Qed.

Lemma read_size_pos : 0 < read_size_bytes.
Proof. reflexivity. Qed.

Lemma limit_exceeds f mb x : below (index_limit f mb) x = false -> exceeds mb (x + header_size) = true.
Proof.
  unfold below, index_limit, exceeds. pose proof header_size_pos. pose proof read_size_pos.
  destruct mb as [b|]; [|discriminate]. destruct (b =? 0); [discriminate|]. destruct (b <? f_size f); [|discriminate].
  intros H1. assert (b <= - (- b / read_size_bytes) * read_size_bytes) by nia. lia.
Qed.

Lemma existsb_times (g : option Z -> bool) (p : list entry) : existsb (fun e => g (e_time e)) p = existsb g (map e_time p).
Proof. induction p as [|e p IH]; cbn [existsb map]; [reflexivity|]. rewrite IH. reflexivity. Qed.

Lemma window_ok_times lo hi p1 p2 e1 e2 :
  map e_time p1 = map e_time p2 -> e_time e1 = e_time e2 -> window_ok lo hi p1 e1 = window_ok lo hi p2 e2.
Proof.
  intros Hp He. unfold window_ok, started_before, ended_before. rewrite He.
  assert (S : forall s, existsb (time_ge_s s) p1 = existsb (time_ge_s s) p2).
  { intros s. unfold time_ge_s. rewrite (existsb_times (fun t => match t with Some t => s <=? t | None => false end) p1),
      (existsb_times (fun t => match t with Some t => s <=? t | None => false end) p2), Hp. reflexivity. }
  assert (U : forall h, existsb (time_ge_8 h) p1 = existsb (time_ge_8 h) p2).
  { intros h. unfold time_ge_8. rewrite (existsb_times (fun t => match t with Some t => h <=? 8 * t | None => false end) p1),
      (existsb_times (fun t => match t with Some t => h <=? 8 * t | None => false end) p2), Hp. reflexivity. }
  destruct (e_time e2), lo, hi; rewrite ?S, ?U; reflexivity.
Qed.

Lemma file_at_mid f pre m t :
  f_msgs f = pre ++ m :: t -> Forall (fun x => m_off x < m_off m) pre -> file_at f (m_off m) = Some m.
Proof.
  intros Hf Hp. unfold file_at. rewrite Hf. clear Hf. induction Hp as [|x pre Hx Hp IH]; cbn [app find].
  - rewrite Z.eqb_refl. reflexivity.
  - replace (m_off x =? m_off m) with false by lia. exact IH.
Qed.

Lemma filter_none {A} (g : A -> bool) l : Forall (fun x => g x = false) l -> filter g l = [].
Proof. induction 1 as [|x l Hx Hl IH]; cbn [filter]; [reflexivity|]. rewrite Hx. exact IH. Qed.

Lemma core_pass c srcs ty w f : forall l pre pre_e i,
  f_msgs f = pre ++ l -> i = zlen pre ->
  map e_time pre_e = map e_time (map (entry_of 0) pre) ->
  StronglySorted msg_before (f_msgs f) -> Forall (msg_ok (f_size f)) (f_msgs f) ->
  read_all c srcs f (filter (tyf ty) (filter_pos_from (window_ok (fst w) (snd w)) pre_e
      (filter (fun e => below (index_limit f (c_max_bytes c)) (e_off e)) (entries_from i l))))
  = spec_select_from (keep c srcs ty w) c pre l.
Proof.
  induction l as [|m t IH]; intros pre pre_e i Hf Hi Hpe Hsort Hok; [reflexivity|].
  pose proof header_size_pos as Hhp.
  (* facts about m and the messages after it *)
  assert (Hsplit := Hsort). rewrite Hf in Hsplit. destruct (sorted_mid _ _ _ _ Hsplit) as [Hbefore Hafter].
  assert (Hokall := Hok). rewrite Hf in Hokall. apply Forall_app in Hokall. destruct Hokall as [Hokpre Hokl].
  inversion Hokl as [|? ? Hokm Hokt]; subst.
  assert (Hpre_lt : Forall (fun x => m_off x < m_off m) pre).
  { rewrite Forall_forall in *. intros x Hx. specialize (Hbefore x Hx). specialize (Hokpre x Hx). unfold msg_before, msg_ok in *. lia. }
  assert (Hfile : file_at f (m_off m) = Some m) by (eapply file_at_mid; eassumption).
  assert (Hlater : forall m', In m' t -> m_off m + m_size m <= m_off m').
  { rewrite Forall_forall in Hafter. intros m' Hin. apply Hafter. exact Hin. }
  assert (Hlater_ok : forall m', In m' t -> header_size <= m_size m').
  { rewrite Forall_forall in Hokt. intros m' Hin. apply Hokt. exact Hin. }
  set (e := entry_of (zlen pre) m).
  cbn [entries_from filter]. fold e. change (e_off e) with (m_off m).
  (* the recursive call *)
  assert (Hf' : f_msgs f = (pre ++ [m]) ++ t) by (rewrite <- app_assoc; exact Hf).
  assert (Hpe' : map e_time (pre_e ++ [e]) = map e_time (map (entry_of 0) (pre ++ [m]))).
  { rewrite !map_app, Hpe. reflexivity. }
  specialize (IH (pre ++ [m]) (pre_e ++ [e]) (zlen pre + 1) Hf' ltac:(rewrite zlen_app, zlen_cons, zlen_nil; lia) Hpe' Hsort Hok).
  cbn [spec_select_from].
  destruct (below (index_limit f (c_max_bytes c)) (m_off m)) eqn:Eb.
  - (* indexed *)
    cbn [filter_pos_from].
    assert (Hw : window_ok (fst w) (snd w) pre_e e = in_time_pos w pre m).
    { unfold in_time_pos. apply window_ok_times; [exact Hpe|reflexivity]. }
    rewrite Hw.
    assert (Hty : tyf ty e = type_ok ty m) by reflexivity.
    assert (STOP : exceeds (c_max_bytes c) (m_off m + m_size m) = true ->
                   spec_select_from (keep c srcs ty w) c (pre ++ [m]) t = []).
    { intros Hex. apply spec_select_none. intros pre' m' Hin. unfold keep, bytes_ok.
      rewrite (exceeds_mono _ _ (m_off m' + m_size m') Hex); [rewrite andb_false_r; reflexivity|].
      specialize (Hlater m' Hin). specialize (Hlater_ok m' Hin). lia. }
    destruct (in_time_pos w pre m) eqn:Et; [destruct (tyf ty e) eqn:Ety|].
    + (* selected by the index: the read-time tests decide *)
      cbn [filter]. rewrite Ety. cbn [read_all]. unfold read_entry. change (e_off e) with (m_off m). rewrite Hfile.
      cbn [fx_payload fixed negb]. rewrite andb_false_r.
      unfold keep. rewrite <- Hty, Et. cbn [andb]. rewrite andb_true_r. unfold bytes_ok.
      destruct (exceeds (c_max_bytes c) (m_off m + header_size)) eqn:E1.
      * assert (E2 : exceeds (c_max_bytes c) (m_off m + m_size m) = true) by (eapply exceeds_mono; [exact E1|unfold msg_ok in Hokm; lia]).
        rewrite E2. cbn [negb]. rewrite andb_false_r. symmetry. apply STOP. exact E2.
      * destruct (src_ok srcs m) eqn:Es; cbn [negb andb].
        -- destruct (exceeds (c_max_bytes c) (m_off m + m_size m)) eqn:E2; cbn [negb].
           ++ symmetry. apply STOP. reflexivity.
           ++ change (e_idx e) with (zlen pre). f_equal. exact IH.
        -- exact IH.
    + cbn [filter]. rewrite Ety. unfold keep. rewrite <- Hty. cbn [andb]. exact IH.
    + unfold keep. rewrite Et, andb_false_r. exact IH.
  - (* beyond the indexed blocks: nothing from here on is indexed, and nothing from here on fits the byte limit *)
    assert (Hrest : Forall (fun x => below (index_limit f (c_max_bytes c)) (e_off x) = false) (entries_from (zlen pre + 1) t)).
    { apply (entries_from_Forall (fun m' => m_off m <= m_off m')).
      - intros j m' Hm'. cbn [entry_of e_off]. unfold below in *. destruct (index_limit f (c_max_bytes c)); [lia|discriminate].
      - rewrite Forall_forall. intros m' Hin. specialize (Hlater m' Hin). unfold msg_ok in Hokm. lia. }
    rewrite (filter_none _ _ Hrest). cbn [filter_pos_from filter read_all].
    symmetry. rewrite <- (spec_select_none (keep c srcs ty w) c (m :: t) pre); [reflexivity|].
    intros pre' m' Hin. unfold keep, bytes_ok.
    assert (Hoff : m_off m <= m_off m' /\ header_size <= m_size m').
    { destruct Hin as [<-|Hin]; [unfold msg_ok in Hokm; lia|]. specialize (Hlater m' Hin). specialize (Hlater_ok m' Hin). unfold msg_ok in Hokm. lia. }
    assert (Hx : exceeds (c_max_bytes c) (m_off m' + m_size m') = true).
    { eapply exceeds_mono; [apply (limit_exceeds f (c_max_bytes c) (m_off m')); unfold below in *; destruct (index_limit f (c_max_bytes c)); [lia|discriminate]|lia]. }
    rewrite Hx. cbn [negb]. rewrite andb_false_r. reflexivity.
Qed.

(* ---------------------------------------------------------------- the window the model uses is the SPEC's *)
Lemma index_t0 f mb :
  wf_file f -> fi_t0 (index_of_file f mb) <> None ->
  fi_t0 (index_of_file f mb) = match first_msg_time (f_msgs f) with Some t => Some (t / 8) | None => None end.
Proof.
  intros Hwf Hne. cbn [index_of_file mk_index fi_t0] in *.
  destruct (wf_entries f 0 Hwf) as [Hinc _].
  destruct (filter_below_prefix (index_limit f mb) _ Hinc) as [rest [Hsplit _]].
  rewrite <- (first_time_entries (f_msgs f) 0). rewrite Hsplit at 2. rewrite first_time_app.
  destruct (first_time (filter (fun e => below (index_limit f mb) (e_off e)) (entries_from 0 (f_msgs f)))); [reflexivity|congruence].
Qed.

Lemma window_agrees f mb R :
  wf_file f -> (bound_free R \/ fi_t0 (index_of_file f mb) <> None) ->
  model_window (fi_t0 (index_of_file f mb)) R = spec_window (f_msgs f) R.
Proof.
  intros Hwf Hb. destruct R as [r|]; [|reflexivity]. unfold model_window, spec_window.
  destruct Hb as [[Hs He]|Hb]; [rewrite Hs, He; destruct (tr_abs r), (tr_t0 r); reflexivity|].
  rewrite (index_t0 f mb Hwf Hb). rewrite (index_t0 f mb Hwf Hb) in Hb.
  destruct (first_msg_time (f_msgs f)) as [t|]; [|congruence].
  destruct (tr_abs r); [destruct (tr_start r), (tr_end r); reflexivity|].
  destruct (tr_t0 r); destruct (tr_start r), (tr_end r); reflexivity.
Qed.

Lemma spec_select_cfg kp c1 c2 : (forall m a b, assemble c1 m a b = assemble c2 m a b) ->
  forall l pre, spec_select_from kp c1 pre l = spec_select_from kp c2 pre l.
Proof. intros H. induction l as [|m l IH]; intros pre; cbn [spec_select_from]; [reflexivity|]. rewrite IH, H. reflexivity. Qed.

Lemma spec_select_ext c kp1 kp2 : forall l pre,
  (forall pre' m, In m l -> kp1 pre' m = kp2 pre' m) -> spec_select_from kp1 c pre l = spec_select_from kp2 c pre l.
Proof.
  induction l as [|m l IH]; intros pre H; cbn [spec_select_from]; [reflexivity|].
  rewrite (H pre m (or_introl eq_refl)), (IH (pre ++ [m])); [reflexivity|]. intros pre' m' Hin. apply H. right. exact Hin.
Qed.

(* hypotheses of the main theorem *)
Definition range_has_t0 (c : cfg) (f : file) (R : option trange) : Prop :=
  bound_free R \/ fi_t0 (index_of_file f (c_max_bytes c)) <> None.

Theorem read_is_filter_thm c f srcs types R :
  wf_file f -> range_has_t0 c f R ->
  read_log fixed c f srcs types R = Ok (spec_read c f srcs types R).
Proof.
  intros Hwf Ht. unfold read_log. set (c' := with_range c R).
  assert (Hmb : c_max_bytes c' = c_max_bytes c) by reflexivity.
  assert (Ht' : bound_free R \/ fi_t0 (index_of_file f (c_max_bytes c')) <> None) by (rewrite Hmb; exact Ht).
  destruct (construct_general c' f srcs types R Hwf Ht') as [r [Ec [Hn [Hs Hdata]]]]. rewrite Ec. cbn [bind].
  rewrite (iterate_read_all c' f (fi_data (r_index r)) _ r); [|lia|rewrite Hn; reflexivity|lia].
  f_equal. rewrite Hs, Hdata. rewrite Hmb.
  rewrite (window_agrees f (c_max_bytes c) R Hwf Ht).
  destruct Hwf as [Hsort [Htimes Hok]].
  cbn [index_of_file mk_index fi_data]. rewrite <- Hmb. unfold filter_pos.
  rewrite (core_pass c' srcs (norm_types types) (spec_window (f_msgs f) R) f (f_msgs f) [] [] 0 eq_refl eq_refl eq_refl Hsort Hok).
  unfold spec_read. rewrite (spec_select_cfg _ c' c) by reflexivity. reflexivity.
Qed.
