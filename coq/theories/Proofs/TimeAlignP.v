(* C15 — lemmas about the time-alignment model (Models/TimeAlignM.v). *)
From Coq Require Import ZArith List Bool Lia ZifyBool Sorted.
From FEC Require Import Models.TimeAlignM.
Import ListNotations.
Open Scope Z_scope.

(* ---------------------------------------------------------------------------------------------- *)
(* np.unique: sorted strictly ascending, same members                                              *)
(* ---------------------------------------------------------------------------------------------- *)

Lemma insert_u_in : forall x l y, In y (insert_u x l) <-> y = x \/ In y l.
Proof.
  induction l as [|a l IH]; intros y; cbn [insert_u].
  - cbn. intuition.
  - destruct (x <? a) eqn:E1.
    + cbn. intuition.
    + destruct (x =? a) eqn:E2.
      * apply Z.eqb_eq in E2. subst. cbn. intuition.
      * cbn [In]. rewrite IH. intuition.
Qed.

Lemma insert_u_sorted : forall x l, StronglySorted Z.lt l -> StronglySorted Z.lt (insert_u x l).
Proof.
  induction l as [|a l IH]; intros S; cbn [insert_u].
  - repeat constructor.
  - inversion S as [|? ? S' F]; subst.
    destruct (x <? a) eqn:E1.
    + apply Z.ltb_lt in E1. constructor; [exact S|].
      constructor; [exact E1|]. rewrite Forall_forall in *. intros y Hy. specialize (F y Hy). lia.
    + destruct (x =? a) eqn:E2; [exact S|].
      apply Z.ltb_ge in E1. apply Z.eqb_neq in E2.
      constructor; [apply IH; exact S'|].
      rewrite Forall_forall in *. intros y Hy. apply insert_u_in in Hy. destruct Hy as [->|Hy]; [lia|auto].
Qed.

Lemma np_unique_in : forall l y, In y (np_unique l) <-> In y l.
Proof.
  induction l as [|a l IH]; intros y; cbn [np_unique fold_right].
  - reflexivity.
  - fold (np_unique l). rewrite insert_u_in, IH. cbn. intuition.
Qed.

Lemma np_unique_sorted : forall l, StronglySorted Z.lt (np_unique l).
Proof.
  induction l as [|a l IH]; cbn [np_unique fold_right].
  - constructor.
  - apply insert_u_sorted. exact IH.
Qed.

Lemma sorted_ext : forall a b, StronglySorted Z.lt a -> StronglySorted Z.lt b ->
  (forall x, In x a <-> In x b) -> a = b.
Proof.
  induction a as [|x a IH]; intros b Sa Sb H.
  - destruct b as [|y b]; [reflexivity|]. exfalso. apply (proj2 (H y)). left; reflexivity.
  - destruct b as [|y b]; [exfalso; apply (proj1 (H x)); left; reflexivity|].
    inversion Sa as [|? ? Sa' Fa]; subst. inversion Sb as [|? ? Sb' Fb]; subst.
    rewrite Forall_forall in Fa, Fb.
    assert (x = y).
    { destruct (proj1 (H x) (or_introl eq_refl)) as [E|E]; [auto|].
      destruct (proj2 (H y) (or_introl eq_refl)) as [E'|E']; [auto|].
      specialize (Fa _ E'). specialize (Fb _ E). lia. }
    subst y. f_equal. apply IH; auto.
    intros z. split; intros Hz.
    + destruct (proj1 (H z) (or_intror Hz)) as [E|E]; [|exact E]. subst z. specialize (Fa _ Hz). lia.
    + destruct (proj2 (H z) (or_intror Hz)) as [E|E]; [|exact E]. subst z. specialize (Fb _ Hz). lia.
Qed.

Lemma sorted_filter : forall (f : Z -> bool) l, StronglySorted Z.lt l -> StronglySorted Z.lt (filter f l).
Proof.
  induction l as [|a l IH]; intros S; cbn [filter]; [constructor|].
  inversion S as [|? ? S' F]; subst.
  destruct (f a); [|auto].
  constructor; [auto|]. rewrite Forall_forall in *. intros y Hy. apply filter_In in Hy. apply F, Hy.
Qed.

Lemma sorted_NoDup : forall l, StronglySorted Z.lt l -> NoDup l.
Proof.
  induction l as [|a l IH]; intros S; [constructor|].
  inversion S as [|? ? S' F]; subst. constructor; [|auto].
  intros Hin. rewrite Forall_forall in F. specialize (F _ Hin). lia.
Qed.

Lemma np_unique_id : forall l, StronglySorted Z.lt l -> np_unique l = l.
Proof.
  intros l S. apply sorted_ext; [apply np_unique_sorted|exact S|apply np_unique_in].
Qed.

Lemma memZ_In : forall x l, memZ x l = true <-> In x l.
Proof.
  intros x l. unfold memZ. rewrite existsb_exists. split.
  - intros [y [Hy E]]. apply Z.eqb_eq in E. subst. exact Hy.
  - intros H. exists x. split; [exact H|apply Z.eqb_refl].
Qed.

Lemma np_intersect1d_in : forall a b x, In x (np_intersect1d a b) <-> In x a /\ In x b.
Proof.
  intros a b x. unfold np_intersect1d. rewrite filter_In, memZ_In, !np_unique_in. reflexivity.
Qed.

Lemma np_intersect1d_sorted : forall a b, StronglySorted Z.lt (np_intersect1d a b).
Proof. intros. apply sorted_filter, np_unique_sorted. Qed.

(* ---------------------------------------------------------------------------------------------- *)
(* first_index / first_with                                                                        *)
(* ---------------------------------------------------------------------------------------------- *)

Lemma nth_first_index : forall msgs v,
  nth_error msgs (first_index v (map fst msgs)) = ta_first_with v msgs.
Proof.
  induction msgs as [|m msgs IH]; intros v; cbn [map first_index ta_first_with find].
  - reflexivity.
  - destruct (fst m =? v) eqn:E; [reflexivity|]. cbn [nth_error]. apply IH.
Qed.

Lemma first_with_some : forall msgs v, In v (map fst msgs) -> exists m, ta_first_with v msgs = Some m.
Proof.
  induction msgs as [|m msgs IH]; intros v H; [destruct H|].
  cbn [ta_first_with find]. destruct (fst m =? v) eqn:E; [eauto|].
  destruct H as [H|H]; [apply Z.eqb_neq in E; cbn in H; congruence|]. apply IH, H.
Qed.

Lemma first_with_none : forall msgs v, ta_first_with v msgs = None -> ~ In v (map fst msgs).
Proof.
  intros msgs v H Hin. destruct (first_with_some _ _ Hin) as [m Hm]. congruence.
Qed.

Lemma first_index_nth : forall l v, In v l -> nth_error l (first_index v l) = Some v.
Proof.
  induction l as [|a l IH]; intros v H; [destruct H|].
  cbn [first_index]. destruct (a =? v) eqn:E.
  - apply Z.eqb_eq in E. subst. reflexivity.
  - cbn [nth_error]. apply IH. destruct H as [H|H]; [apply Z.eqb_neq in E; congruence|exact H].
Qed.

Lemma first_index_lt : forall l v, In v l -> (first_index v l < length l)%nat.
Proof.
  intros l v H. apply nth_error_Some. rewrite first_index_nth by exact H. discriminate.
Qed.

Lemma first_index_of_nth : forall l i v, NoDup l -> nth_error l i = Some v -> first_index v l = i.
Proof.
  induction l as [|a l IH]; intros i v ND H; [destruct i; discriminate|].
  inversion ND as [|? ? Hn ND']; subst.
  cbn [first_index]. destruct i as [|i]; cbn [nth_error] in H.
  - injection H as ->. rewrite Z.eqb_refl. reflexivity.
  - destruct (a =? v) eqn:E.
    + apply Z.eqb_eq in E. subst. exfalso. apply Hn. eapply nth_error_In; eauto.
    + f_equal. apply IH; auto.
Qed.

(* ---------------------------------------------------------------------------------------------- *)
(* set_nth / scatter                                                                               *)
(* ---------------------------------------------------------------------------------------------- *)

Lemma set_nth_spec : forall {A} (l : list A) k v, (k < length l)%nat ->
  exists r, set_nth l k v = Some r /\ length r = length l /\ nth_error r k = Some v /\
            forall i, i <> k -> nth_error r i = nth_error l i.
Proof.
  induction l as [|a l IH]; intros k v H; [cbn in H; lia|].
  destruct k as [|k]; cbn [set_nth].
  - eexists. split; [reflexivity|]. repeat split. intros [|i] Hi; [congruence|reflexivity].
  - cbn [length] in H. destruct (IH k v ltac:(lia)) as [r [E [L [N O]]]]. rewrite E.
    eexists. split; [reflexivity|]. cbn [length nth_error]. repeat split; [lia|exact N|].
    intros [|i] Hi; [reflexivity|]. cbn [nth_error]. apply O. congruence.
Qed.

Lemma scatter_spec : forall ks vs base,
  length ks = length vs -> Forall (fun k => (k < length base)%nat) ks -> NoDup ks ->
  exists r, scatter base ks vs = Some r /\ length r = length base /\
    (forall j k v, nth_error ks j = Some k -> nth_error vs j = Some v -> nth_error r k = Some (Z.of_nat v)) /\
    (forall i, ~ In i ks -> nth_error r i = nth_error base i).
Proof.
  induction ks as [|k ks IH]; intros vs base L F ND.
  - destruct vs; [|discriminate]. exists base. cbn [scatter]. repeat split; auto.
    intros [|j] ? ? H; discriminate.
  - destruct vs as [|v vs]; [discriminate|]. cbn [scatter].
    inversion F as [|? ? Fk F']; subst. inversion ND as [|? ? Hn ND']; subst.
    destruct (set_nth_spec base k (Z.of_nat v) Fk) as [b' [E [Lb [Nk Ob]]]]. rewrite E.
    assert (F'' : Forall (fun k0 => (k0 < length b')%nat) ks) by (rewrite Lb; exact F').
    destruct (IH vs b' ltac:(cbn in L; lia) F'' ND') as [r [Er [Lr [P1 P2]]]].
    exists r. split; [exact Er|]. split; [lia|]. split.
    + intros [|j] k0 v0 Hk Hv; cbn [nth_error] in Hk, Hv.
      * injection Hk as <-. injection Hv as <-. rewrite (P2 k Hn). exact Nk.
      * eapply P1; eauto.
    + intros i Hi. rewrite P2 by (intros H; apply Hi; right; exact H).
      apply Ob. intros ->. apply Hi. left; reflexivity.
Qed.

(* ---------------------------------------------------------------------------------------------- *)
(* map_opt                                                                                         *)
(* ---------------------------------------------------------------------------------------------- *)

Lemma map_opt_all : forall {A B} (f : A -> option B) (g : A -> B) l,
  (forall x, In x l -> f x = Some (g x)) -> map_opt f l = Some (map g l).
Proof.
  induction l as [|a l IH]; intros H; cbn [map_opt map]; [reflexivity|].
  rewrite (H a) by (left; reflexivity). rewrite IH by (intros; apply H; right; assumption). reflexivity.
Qed.

Lemma map_opt_map : forall {A B C} (h : A -> B) (f : B -> option C) l,
  map_opt f (map h l) = map_opt (fun x => f (h x)) l.
Proof.
  induction l as [|a l IH]; cbn [map_opt map]; [reflexivity|]. rewrite IH. reflexivity.
Qed.

Lemma map_opt_seq : forall {A B} (f : nat -> option B) (g : A -> B) (T : list A) s,
  (forall i t, nth_error T i = Some t -> f (s + i)%nat = Some (g t)) ->
  map_opt f (seq s (length T)) = Some (map g T).
Proof.
  induction T as [|t T IH]; intros s H; cbn [length seq map_opt map]; [reflexivity|].
  rewrite <- (Nat.add_0_r s) at 1. rewrite (H O t eq_refl).
  rewrite (IH (S s)); [reflexivity|].
  intros i t' Hi. replace (S s + i)%nat with (s + S i)%nat by lia. apply H. exact Hi.
Qed.

(* ---------------------------------------------------------------------------------------------- *)
(* one entry, DROP and INSERT                                                                      *)
(* ---------------------------------------------------------------------------------------------- *)

Lemma pick_in : forall msgs t, In t (map fst msgs) ->
  exists m, ta_first_with t msgs = Some m /\ ta_pick msgs t = Kept m.
Proof.
  intros msgs t H. destruct (first_with_some _ _ H) as [m Hm]. exists m. unfold ta_pick. rewrite Hm. auto.
Qed.

Lemma pick_notin : forall msgs t, ~ In t (map fst msgs) -> ta_pick msgs t = Fresh t.
Proof.
  intros msgs t H. unfold ta_pick. destruct (ta_first_with t msgs) eqn:E; [|reflexivity].
  exfalso. apply H. unfold ta_first_with in E. apply find_some in E. destruct E as [Hin E].
  apply Z.eqb_eq in E. subst. apply in_map. exact Hin.
Qed.

(* DROP: whatever array time_set is, the entry gets its first message at every common time *)
Lemma drop_entry_spec : forall ts e,
  ta_drop_entry ts e = Some (map (ta_pick (e_msgs e)) (np_intersect1d (ta_times e) ts)).
Proof.
  intros ts e. unfold ta_drop_entry, np_intersect1d_idx. rewrite map_opt_map.
  apply map_opt_all. intros v Hv. apply np_intersect1d_in in Hv. destruct Hv as [Hv _].
  unfold ta_times. rewrite nth_first_index.
  destruct (pick_in _ _ Hv) as [m [E1 E2]]. rewrite E1, E2. reflexivity.
Qed.

(* INSERT: with a strictly ascending time_set *)
Lemma insert_entry_spec : forall T e, StronglySorted Z.lt T ->
  ta_insert_entry T e = Some (map (ta_pick (e_msgs e)) T).
Proof.
  intros T e ST. unfold ta_insert_entry, np_intersect1d_idx.
  set (p1 := ta_times e). set (vals := np_intersect1d p1 T).
  assert (NDT : NoDup T) by (apply sorted_NoDup; exact ST).
  assert (Hvals : forall v, In v vals <-> In v p1 /\ In v T) by (intros; apply np_intersect1d_in).
  assert (NDv : NoDup vals) by (apply sorted_NoDup, np_intersect1d_sorted).
  assert (NDk : NoDup (map (fun v => first_index v T) vals)).
  { assert (Hsub : forall v, In v vals -> In v T) by (intros v Hv; apply Hvals, Hv).
    clear - NDv Hsub. revert NDv Hsub. generalize vals as l. induction l as [|a l IH]; intros ND H; [constructor|].
    inversion ND as [|? ? Hn ND']; subst. cbn [map]. constructor.
    - intros Hin. apply in_map_iff in Hin. destruct Hin as [b [Eb Hb]].
      assert (In a T) by (apply H; left; reflexivity).
      assert (In b T) by (apply H; right; exact Hb).
      assert (Some a = Some b).
      { rewrite <- (first_index_nth T a) by assumption. rewrite <- (first_index_nth T b) by assumption.
        rewrite Eb. reflexivity. }
      congruence.
    - apply IH; [exact ND'|]. intros v Hv. apply H. right; exact Hv. }
  destruct (scatter_spec (map (fun v => first_index v T) vals) (map (fun v => first_index v p1) vals)
                         (repeat (-1) (length T))) as [mi [E [Lmi [P1 P2]]]].
  - rewrite !map_length. reflexivity.
  - rewrite Forall_forall. intros k Hk. apply in_map_iff in Hk. destruct Hk as [v [<- Hv]].
    rewrite repeat_length. apply first_index_lt. apply Hvals, Hv.
  - exact NDk.
  - rewrite E. apply (map_opt_seq _ (ta_pick (e_msgs e)) T 0). intros i t Hi. cbn [Nat.add].
    unfold ta_get_value.
    destruct (in_dec Z.eq_dec t p1) as [Hin|Hnin].
    + (* the type has a message at t *)
      assert (Hv : In t vals) by (apply Hvals; split; [exact Hin|eapply nth_error_In; eauto]).
      destruct (In_nth_error _ _ Hv) as [j Hj].
      assert (Hk : nth_error (map (fun v => first_index v T) vals) j = Some i).
      { rewrite nth_error_map, Hj. cbn. f_equal. apply first_index_of_nth; auto. }
      assert (Hx : nth_error (map (fun v => first_index v p1) vals) j = Some (first_index t p1)).
      { rewrite nth_error_map, Hj. reflexivity. }
      rewrite (P1 _ _ _ Hk Hx).
      destruct (Z.of_nat (first_index t p1) >=? 0) eqn:G; [|lia].
      rewrite Nat2Z.id. unfold p1, ta_times. rewrite nth_first_index.
      destruct (pick_in _ _ Hin) as [m [E1 E2]]. rewrite E1, E2. reflexivity.
    + (* it has none: the slot keeps -1 *)
      rewrite P2.
      * rewrite nth_error_repeat by (apply nth_error_Some; congruence).
        cbn. rewrite Hi. rewrite pick_notin by exact Hnin. reflexivity.
      * intros Hk. apply in_map_iff in Hk. destruct Hk as [v [Ev Hv]].
        apply Hvals in Hv. destruct Hv as [Hv1 Hv2].
        pose proof (first_index_nth T v Hv2) as Hn. rewrite Ev, Hi in Hn. congruence.
Qed.

(* ---------------------------------------------------------------------------------------------- *)
(* the two loops                                                                                   *)
(* ---------------------------------------------------------------------------------------------- *)

Lemma second_spec : forall f g mt es,
  (forall e, In e es -> ta_is_aligned mt e = true -> f e = Some (g e)) ->
  ta_second f mt es =
  Some (map (fun e => if ta_is_aligned mt e then Replaced (g e) else Untouched) es).
Proof.
  induction es as [|e es IH]; intros H; cbn [ta_second map]; [reflexivity|].
  rewrite IH by (intros; apply H; [right|]; assumption).
  destruct (ta_is_aligned mt e) eqn:A; [|reflexivity].
  rewrite (H e (or_introl eq_refl) A). reflexivity.
Qed.

Lemma collect_insert_some : forall mt es acc,
  ta_collect INSERT mt es (Some acc) = Some (acc ++ concat (map ta_times (ta_aligned mt es))).
Proof.
  induction es as [|e es IH]; intros acc; cbn [ta_collect ta_aligned filter map concat].
  - rewrite app_nil_r. reflexivity.
  - destruct (ta_is_aligned mt e).
    + rewrite IH. cbn [map concat]. rewrite app_assoc. reflexivity.
    + apply IH.
Qed.

Lemma collect_insert_none : forall mt es,
  ta_collect INSERT mt es None =
  match ta_aligned mt es with [] => None | _ => Some (concat (map ta_times (ta_aligned mt es))) end.
Proof.
  induction es as [|e es IH]; cbn [ta_collect ta_aligned filter]; [reflexivity|].
  destruct (ta_is_aligned mt e).
  - rewrite collect_insert_some. reflexivity.
  - exact IH.
Qed.

Lemma collect_drop_some : forall mt es acc, exists r,
  ta_collect DROP mt es (Some acc) = Some r /\
  forall t, In t r <-> In t acc /\ forall e, In e (ta_aligned mt es) -> In t (ta_times e).
Proof.
  induction es as [|e es IH]; intros acc; cbn [ta_collect ta_aligned filter].
  - exists acc. split; [reflexivity|]. intros t. split; [intros H; split; [exact H|intros ? []]|intros [H _]; exact H].
  - destruct (ta_is_aligned mt e).
    + destruct (IH (np_intersect1d acc (ta_times e))) as [r [E H]]. exists r. split; [exact E|].
      intros t. rewrite H, np_intersect1d_in. split.
      * intros [[H1 H2] H3]. split; [exact H1|]. intros e' [<-|He']; auto.
      * intros [H1 H2]. split; [split; [exact H1|apply H2; left; reflexivity]|].
        intros e' He'. apply H2. right. exact He'.
    + apply IH.
Qed.

Lemma collect_drop_none : forall mt es,
  match ta_aligned mt es with
  | [] => ta_collect DROP mt es None = None
  | e0 :: r => exists ts, ta_collect DROP mt es None = Some ts /\
                 forall t, In t ts <-> In t (ta_times e0) /\ forall e, In e r -> In t (ta_times e)
  end.
Proof.
  induction es as [|e es IH]; cbn [ta_collect ta_aligned filter]; [reflexivity|].
  destruct (ta_is_aligned mt e).
  - destruct (collect_drop_some mt es (ta_times e)) as [ts [E H]]. exists ts. split; [exact E|exact H].
  - exact IH.
Qed.

Lemma aligned_in : forall mt es e, In e (ta_aligned mt es) <-> In e es /\ ta_is_aligned mt e = true.
Proof. intros. unfold ta_aligned. apply filter_In. Qed.

Lemma spec_times_sorted : forall mode mt es, StronglySorted Z.lt (ta_spec_times mode mt es).
Proof.
  intros [| |] mt es; unfold ta_spec_times.
  - constructor.
  - destruct (ta_aligned mt es); [constructor|apply np_unique_sorted].
  - apply np_unique_sorted.
Qed.

Lemma spec_times_insert_in : forall mt es t,
  In t (ta_spec_times INSERT mt es) <-> exists e, In e (ta_aligned mt es) /\ In t (ta_times e).
Proof.
  intros mt es t. unfold ta_spec_times. rewrite np_unique_in, in_concat. split.
  - intros [l [Hl Ht]]. apply in_map_iff in Hl. destruct Hl as [e [<- He]]. eauto.
  - intros [e [He Ht]]. exists (ta_times e). split; [apply in_map; exact He|exact Ht].
Qed.

Lemma spec_times_drop_in : forall mt es t, ta_aligned mt es <> [] ->
  (In t (ta_spec_times DROP mt es) <-> forall e, In e (ta_aligned mt es) -> In t (ta_times e)).
Proof.
  intros mt es t NE. unfold ta_spec_times. destruct (ta_aligned mt es) as [|e0 r]; [congruence|].
  rewrite np_unique_in, filter_In, forallb_forall. split.
  - intros [H0 H] e [<-|He]; [exact H0|]. apply memZ_In, H, He.
  - intros H. split; [apply H; left; reflexivity|]. intros e He. apply memZ_In, H. right; exact He.
Qed.

Theorem align_eq_spec : forall mode mt es, ta_align mode mt es = Ok (ta_spec mode mt es).
Proof.
  intros [| |] mt es; unfold ta_align, ta_spec.
  - reflexivity.
  - (* DROP *)
    rewrite (second_spec _ (fun e => map (ta_pick (e_msgs e)) (ta_spec_times DROP mt es))); [reflexivity|].
    intros e He A. rewrite drop_entry_spec. do 2 f_equal.
    assert (Hal : In e (ta_aligned mt es)) by (apply aligned_in; auto).
    assert (NE : ta_aligned mt es <> []) by (intros E; rewrite E in Hal; destruct Hal).
    apply sorted_ext; [apply np_intersect1d_sorted|apply spec_times_sorted|].
    intros t. rewrite np_intersect1d_in, (spec_times_drop_in mt es t NE).
    pose proof (collect_drop_none mt es) as C.
    destruct (ta_aligned mt es) as [|e0 r] eqn:AL; [congruence|].
    destruct C as [ts [E H]]. rewrite E. rewrite H. split.
    + intros [_ [H0 Hr]] e' [<-|He']; auto.
    + intros Hall. split; [apply Hall; exact Hal|]. split; [apply Hall; left; reflexivity|].
      intros e' He'. apply Hall. right; exact He'.
  - (* INSERT *)
    assert (TS : match ta_collect INSERT mt es None with Some ts => np_unique ts | None => [] end
                 = ta_spec_times INSERT mt es).
    { rewrite collect_insert_none. unfold ta_spec_times. destruct (ta_aligned mt es); reflexivity. }
    rewrite TS.
    rewrite (second_spec _ (fun e => map (ta_pick (e_msgs e)) (ta_spec_times INSERT mt es))); [reflexivity|].
    intros e He A. apply insert_entry_spec, spec_times_sorted.
Qed.

(* ---------------------------------------------------------------------------------------------- *)
(* what a picked item is                                                                           *)
(* ---------------------------------------------------------------------------------------------- *)

(* Kept m at time t: m is an input message of the type, its time is t, and it is the FIRST message of
   the type with that time (duplicated times inside one type collapse to the first occurrence). *)
Lemma pick_kept : forall msgs t m, ta_pick msgs t = Kept m ->
  fst m = t /\ exists l1 l2, msgs = l1 ++ m :: l2 /\ forall m', In m' l1 -> fst m' <> t.
Proof.
  intros msgs t m. unfold ta_pick, ta_first_with.
  destruct (find (fun m0 => fst m0 =? t) msgs) as [m0|] eqn:E; [|discriminate].
  intros H. injection H as <-. revert E. induction msgs as [|a msgs IH]; [discriminate|].
  cbn [find]. destruct (fst a =? t) eqn:Ea.
  - intros H. injection H as <-. apply Z.eqb_eq in Ea. split; [exact Ea|].
    exists [], msgs. split; [reflexivity|]. intros ? [].
  - intros H. destruct (IH H) as [Ht [l1 [l2 [-> Hl]]]]. split; [exact Ht|].
    exists (a :: l1), l2. split; [reflexivity|]. intros m' [<-|Hm']; [apply Z.eqb_neq; exact Ea|auto].
Qed.

Lemma pick_fresh : forall msgs t t', ta_pick msgs t = Fresh t' -> t' = t /\ ~ In t (map fst msgs).
Proof.
  intros msgs t t'. unfold ta_pick. destruct (ta_first_with t msgs) eqn:E; [discriminate|].
  intros H. injection H as <-. split; [reflexivity|]. apply first_with_none. exact E.
Qed.

Lemma pick_time : forall msgs t, ta_time (ta_pick msgs t) = t.
Proof.
  intros msgs t. destruct (ta_pick msgs t) eqn:E; cbn [ta_time].
  - apply pick_kept in E. apply E.
  - apply pick_fresh in E. apply E.
Qed.

Lemma map_pick_times : forall msgs T, map ta_time (map (ta_pick msgs) T) = T.
Proof.
  intros msgs T. rewrite map_map. rewrite <- (map_id T) at 2. apply map_ext. intros. apply pick_time.
Qed.

(* ---------------------------------------------------------------------------------------------- *)
(* the property theorems, stated about ta_align                                                    *)
(* ---------------------------------------------------------------------------------------------- *)

Lemma pick_kept_iff : forall msgs t m,
  ta_pick msgs t = Kept m <-> fst m = t /\ ta_first_occurrence m msgs.
Proof.
  intros msgs t m. split.
  - intros H. destruct (pick_kept _ _ _ H) as [Ht [l1 [l2 [E Hl]]]]. split; [exact Ht|].
    exists l1, l2. split; [exact E|]. rewrite Ht. exact Hl.
  - intros [Ht [l1 [l2 [-> Hl]]]]. rewrite Ht in Hl. unfold ta_pick, ta_first_with.
    induction l1 as [|a l1 IH]; cbn [app find].
    + rewrite (proj2 (Z.eqb_eq _ _) Ht). reflexivity.
    + rewrite (proj2 (Z.eqb_neq _ _) (Hl a (or_introl eq_refl))).
      apply IH. intros m' Hm'. apply Hl. right; exact Hm'.
Qed.

Lemma spec_nth : forall mode mt es i e, mode <> NONE -> nth_error es i = Some e ->
  nth_error (ta_spec mode mt es) i =
  Some (if ta_is_aligned mt e then Replaced (map (ta_pick (e_msgs e)) (ta_spec_times mode mt es)) else Untouched).
Proof.
  intros mode mt es i e NN H. unfold ta_spec.
  destruct mode; [congruence| |]; rewrite nth_error_map, H; reflexivity.
Qed.

Lemma out_of_inv : forall mode mt es outs i e l,
  ta_align mode mt es = Ok outs -> ta_out_of es outs i e l ->
  mode <> NONE /\ ta_is_aligned mt e = true /\ l = map (ta_pick (e_msgs e)) (ta_spec_times mode mt es).
Proof.
  intros mode mt es outs i e l A [He Ho]. rewrite align_eq_spec in A. injection A as <-.
  destruct mode.
  - unfold ta_spec in Ho. rewrite nth_error_map, He in Ho. discriminate.
  - rewrite (spec_nth DROP mt es i e) in Ho by (congruence || exact He).
    destruct (ta_is_aligned mt e); [|discriminate]. injection Ho as <-. repeat split; congruence.
  - rewrite (spec_nth INSERT mt es i e) in Ho by (congruence || exact He).
    destruct (ta_is_aligned mt e); [|discriminate]. injection Ho as <-. repeat split; congruence.
Qed.

Theorem ta_total : forall mode mt es, exists outs, ta_align mode mt es = Ok outs /\ length outs = length es.
Proof.
  intros. exists (ta_spec mode mt es). split; [apply align_eq_spec|].
  unfold ta_spec. destruct mode; apply map_length.
Qed.

Theorem ta_aligned_replaced : forall mode mt es outs i e,
  ta_align mode mt es = Ok outs -> mode <> NONE -> nth_error es i = Some e -> ta_is_aligned mt e = true ->
  exists l, nth_error outs i = Some (Replaced l).
Proof.
  intros mode mt es outs i e A NN He Al. rewrite align_eq_spec in A. injection A as <-.
  rewrite (spec_nth mode mt es i e NN He), Al. eauto.
Qed.

Theorem ta_unaligned_untouched : forall mode mt es outs i e,
  ta_align mode mt es = Ok outs -> nth_error es i = Some e ->
  mode = NONE \/ ta_is_aligned mt e = false ->
  nth_error outs i = Some Untouched.
Proof.
  intros mode mt es outs i e A He H. rewrite align_eq_spec in A. injection A as <-.
  destruct mode.
  - unfold ta_spec. rewrite nth_error_map, He. reflexivity.
  - destruct H as [H|H]; [discriminate|]. rewrite (spec_nth DROP mt es i e) by (congruence || exact He). rewrite H. reflexivity.
  - destruct H as [H|H]; [discriminate|]. rewrite (spec_nth INSERT mt es i e) by (congruence || exact He). rewrite H. reflexivity.
Qed.

Theorem ta_pairwise_equal_times : forall mode mt es outs i e l j e' l',
  ta_align mode mt es = Ok outs -> ta_out_of es outs i e l -> ta_out_of es outs j e' l' ->
  map ta_time l = map ta_time l'.
Proof.
  intros mode mt es outs i e l j e' l' A O1 O2.
  destruct (out_of_inv _ _ _ _ _ _ _ A O1) as [_ [_ ->]].
  destruct (out_of_inv _ _ _ _ _ _ _ A O2) as [_ [_ ->]].
  rewrite !map_pick_times. reflexivity.
Qed.

Theorem ta_all_same_length : forall mode mt es outs i e l j e' l',
  ta_align mode mt es = Ok outs -> ta_out_of es outs i e l -> ta_out_of es outs j e' l' ->
  length l = length l'.
Proof.
  intros. rewrite <- (map_length ta_time l), <- (map_length ta_time l'). f_equal.
  eapply ta_pairwise_equal_times; eauto.
Qed.

Theorem ta_ascending_times : forall mode mt es outs i e l,
  ta_align mode mt es = Ok outs -> ta_out_of es outs i e l -> ta_ascending (map ta_time l).
Proof.
  intros mode mt es outs i e l A O. destruct (out_of_inv _ _ _ _ _ _ _ A O) as [_ [_ ->]].
  rewrite map_pick_times. apply spec_times_sorted.
Qed.

Lemma out_of_aligned_nonempty : forall mode mt es outs i e l,
  ta_align mode mt es = Ok outs -> ta_out_of es outs i e l -> In e (ta_aligned mt es).
Proof.
  intros mode mt es outs i e l A O. destruct (out_of_inv _ _ _ _ _ _ _ A O) as [_ [Al _]].
  apply aligned_in. split; [|exact Al]. destruct O as [He _]. eapply nth_error_In; eauto.
Qed.

Theorem ta_drop_times_intersection : forall mt es outs i e l,
  ta_align DROP mt es = Ok outs -> ta_out_of es outs i e l ->
  forall t, In t (map ta_time l) <-> (forall e', In e' (ta_aligned mt es) -> In t (ta_times e')).
Proof.
  intros mt es outs i e l A O t.
  pose proof (out_of_aligned_nonempty _ _ _ _ _ _ _ A O) as Hin.
  destruct (out_of_inv _ _ _ _ _ _ _ A O) as [_ [_ ->]]. rewrite map_pick_times.
  apply spec_times_drop_in. intros E. rewrite E in Hin. destruct Hin.
Qed.

Theorem ta_insert_times_union : forall mt es outs i e l,
  ta_align INSERT mt es = Ok outs -> ta_out_of es outs i e l ->
  forall t, In t (map ta_time l) <-> (exists e', In e' (ta_aligned mt es) /\ In t (ta_times e')).
Proof.
  intros mt es outs i e l A O t.
  destruct (out_of_inv _ _ _ _ _ _ _ A O) as [_ [_ ->]]. rewrite map_pick_times.
  apply spec_times_insert_in.
Qed.

(* every element of a new list that is not freshly constructed is an input object of that type — the
   first one of the type carrying its time *)
Theorem ta_kept_identity : forall mode mt es outs i e l k m,
  ta_align mode mt es = Ok outs -> ta_out_of es outs i e l -> nth_error l k = Some (Kept m) ->
  In m (e_msgs e) /\ ta_first_occurrence m (e_msgs e).
Proof.
  intros mode mt es outs i e l k m A O Hk. destruct (out_of_inv _ _ _ _ _ _ _ A O) as [_ [_ ->]].
  rewrite nth_error_map in Hk. destruct (nth_error (ta_spec_times mode mt es) k) as [t|]; [|discriminate].
  cbn in Hk. injection Hk as Hk. apply pick_kept_iff in Hk. destruct Hk as [_ F]. split; [|exact F].
  destruct F as [l1 [l2 [-> _]]]. apply in_or_app. right. left. reflexivity.
Qed.

(* default-constructed elements exist only in INSERT mode and only at times the type had no message *)
Theorem ta_fresh_only_when_missing : forall mode mt es outs i e l k t,
  ta_align mode mt es = Ok outs -> ta_out_of es outs i e l -> nth_error l k = Some (Fresh t) ->
  mode = INSERT /\ ~ In t (ta_times e).
Proof.
  intros mode mt es outs i e l k t A O Hk.
  pose proof (out_of_aligned_nonempty _ _ _ _ _ _ _ A O) as Hal.
  destruct (out_of_inv _ _ _ _ _ _ _ A O) as [NN [_ ->]].
  rewrite nth_error_map in Hk. destruct (nth_error (ta_spec_times mode mt es) k) as [t0|] eqn:E; [|discriminate].
  cbn in Hk. injection Hk as Hk. apply pick_fresh in Hk. destruct Hk as [-> Hn]. split; [|exact Hn].
  destruct mode; [congruence| |reflexivity].
  exfalso. apply Hn. apply nth_error_In in E.
  assert (NE : ta_aligned mt es <> []) by (intros E'; rewrite E' in Hal; destruct Hal).
  apply (spec_times_drop_in mt es t0 NE); assumption.
Qed.

(* exactly the first-occurrence messages whose time is on the common axis survive *)
Theorem ta_survivors : forall mode mt es outs i e l m,
  ta_align mode mt es = Ok outs -> ta_out_of es outs i e l ->
  (In (Kept m) l <-> ta_first_occurrence m (e_msgs e) /\ In (fst m) (map ta_time l)).
Proof.
  intros mode mt es outs i e l m A O. destruct (out_of_inv _ _ _ _ _ _ _ A O) as [_ [_ ->]].
  rewrite map_pick_times, in_map_iff. split.
  - intros [t [Hp Ht]]. apply pick_kept_iff in Hp. destruct Hp as [<- F]. auto.
  - intros [F Ht]. exists (fst m). split; [|exact Ht]. apply pick_kept_iff. auto.
Qed.

(* INSERT drops nothing but later duplicates: every first-occurrence message of an aligned type survives *)
Theorem ta_insert_keeps_all : forall mt es outs i e l m,
  ta_align INSERT mt es = Ok outs -> ta_out_of es outs i e l ->
  ta_first_occurrence m (e_msgs e) -> In (Kept m) l.
Proof.
  intros mt es outs i e l m A O F. apply (ta_survivors _ _ _ _ _ _ _ m A O). split; [exact F|].
  apply (ta_insert_times_union _ _ _ _ _ _ A O). exists e. split.
  - eapply out_of_aligned_nonempty; eauto.
  - destruct F as [l1 [l2 [E _]]]. unfold ta_times. rewrite E, map_app. apply in_or_app. right. left. reflexivity.
Qed.

(* with no repeated time inside a type, "first occurrence" is just membership *)
Lemma first_occurrence_nodup : forall m msgs, NoDup (map fst msgs) -> In m msgs -> ta_first_occurrence m msgs.
Proof.
  intros m msgs ND Hin. apply in_split in Hin. destruct Hin as [l1 [l2 ->]].
  exists l1, l2. split; [reflexivity|]. intros m' Hm' E.
  rewrite map_app in ND. cbn [map] in ND. apply NoDup_remove_2 in ND. apply ND.
  apply in_or_app. left. rewrite <- E. apply in_map. exact Hm'.
Qed.

(* position by position: where the type has a message with the time of that position it shows its first such
   message (the identical object), elsewhere a default-valued message carrying that time *)
Theorem ta_positionwise : forall mode mt es outs i e l k t,
  ta_align mode mt es = Ok outs -> ta_out_of es outs i e l -> nth_error (map ta_time l) k = Some t ->
  (In t (ta_times e) ->
     exists m, nth_error l k = Some (Kept m) /\ fst m = t /\ ta_first_occurrence m (e_msgs e)) /\
  (~ In t (ta_times e) -> nth_error l k = Some (Fresh t)).
Proof.
  intros mode mt es outs i e l k t A O Hk. destruct (out_of_inv _ _ _ _ _ _ _ A O) as [_ [_ ->]].
  rewrite map_pick_times in Hk. rewrite nth_error_map, Hk. cbn [option_map]. split.
  - intros Hin. destruct (pick_in _ _ Hin) as [m [_ E]]. exists m. split; [rewrite E; reflexivity|].
    apply pick_kept_iff. exact E.
  - intros Hn. rewrite pick_notin by exact Hn. reflexivity.
Qed.
