(* C08: the binary-counter list accessors of the model are firstn / skipn / length *)
From Coq Require Import NArith List Bool Arith Lia ZifyBool ZifyNat ZifyN.
From FEC Require Import Base.ListX Models.FastIndexerM.
Import ListNotations.
Open Scope N_scope.

Lemma fi_len_acc_length {A} : forall (l : list A) acc, fi_len_acc l acc = acc + N.of_nat (length l).
Proof. induction l as [|a t IH]; intros acc; cbn [fi_len_acc length]; [lia|]. rewrite IH. lia. Qed.

Lemma fi_len_length {A} (l : list A) : fi_len l = N.of_nat (length l).
Proof. unfold fi_len. rewrite fi_len_acc_length. lia. Qed.

Lemma fi_take_firstn {A} : forall (l : list A) n, fi_take n l = firstn (N.to_nat n) l.
Proof.
  induction l as [|a t IH]; intros n; cbn [fi_take].
  - rewrite firstn_nil. reflexivity.
  - destruct (n =? 0) eqn:E.
    + apply N.eqb_eq in E. subst. reflexivity.
    + apply N.eqb_neq in E. replace (N.to_nat n) with (S (N.to_nat (N.pred n))) by lia.
      cbn [firstn]. rewrite IH. reflexivity.
Qed.

Lemma fi_drop_skipn {A} : forall (l : list A) n, fi_drop n l = skipn (N.to_nat n) l.
Proof.
  induction l as [|a t IH]; intros n; cbn [fi_drop].
  - rewrite skipn_nil. reflexivity.
  - destruct (n =? 0) eqn:E.
    + apply N.eqb_eq in E. subst. reflexivity.
    + apply N.eqb_neq in E. replace (N.to_nat n) with (S (N.to_nat (N.pred n))) by lia.
      cbn [skipn]. apply IH.
Qed.

Lemma fi_has_length {A} : forall (l : list A) n, fi_has n l = (n <=? fi_len l).
Proof.
  intros l n. rewrite fi_len_length. revert n.
  induction l as [|a t IH]; intros n; cbn [fi_has length].
  - destruct (n =? 0) eqn:E; lia.
  - destruct (n =? 0) eqn:E.
    + lia.
    + rewrite IH. lia.
Qed.
