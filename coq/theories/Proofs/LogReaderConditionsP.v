(* C10 — a plain sufficient condition for the remaining hypothesis of read_is_filter (a time bound needs a
   P1 time among the indexed messages): some P1-timed message starts inside the indexed blocks. *)
From Coq Require Import ZArith List Bool Lia ZifyBool Sorted.
From FEC Require Import Generated.LogReaderConsts Models.FileIndexOpsM Models.LogReaderM
  Proofs.FileIndexOpsP Proofs.LogCursorP Proofs.LogReaderInitP Proofs.LogReaderP Proofs.LogReaderSpecP.
Import ListNotations.
Open Scope Z_scope.

Lemma entries_from_mid p m rest : forall i, In (entry_of (i + zlen p) m) (entries_from i (p ++ m :: rest)).
Proof.
  induction p as [|x p IH]; intros i; cbn [app entries_from].
  - left. f_equal. rewrite zlen_nil. lia.
  - right. rewrite zlen_cons. replace (i + (1 + zlen p)) with ((i + 1) + zlen p) by lia. apply IH.
Qed.

(* ---------------------------------------------------------------- a plain sufficient condition for range_has_t0 *)
Lemma first_time_some l : (exists e, In e l /\ e_time e <> None) -> first_time l <> None.
Proof.
  induction l as [|x l IH]; intros [e [Hin Ht]]; [destruct Hin|]. cbn [first_time].
  destruct (e_time x) eqn:Ex; [discriminate|]. apply IH. destruct Hin as [<-|Hin]; [congruence|exists e; split; assumption].
Qed.

Theorem has_t0_indexed c f R :
  (exists m t, In m (f_msgs f) /\ m_time m = Some t /\ below (index_limit f (c_max_bytes c)) (m_off m) = true) ->
  range_has_t0 c f R.
Proof.
  intros [m [t [Hin [Ht Hb]]]]. right. cbn [index_of_file mk_index fi_t0]. apply first_time_some.
  apply in_split in Hin. destruct Hin as [p [rest Hsplit]].
  exists (entry_of (0 + zlen p) m). split; [|cbn [entry_of e_time]; rewrite Ht; discriminate].
  apply filter_In. split; [rewrite Hsplit; apply entries_from_mid|exact Hb].
Qed.

(* the main theorem under plain conditions on the log *)
Theorem read_is_filter_plain c f srcs types R :
  wf_file f ->
  (bound_free R \/ exists m t, In m (f_msgs f) /\ m_time m = Some t /\ below (index_limit f (c_max_bytes c)) (m_off m) = true) ->
  read_log fixed c f srcs types R = Ok (spec_read c f srcs types R).
Proof.
  intros Hwf Ht. apply read_is_filter_thm; [exact Hwf|].
  destruct Ht as [Ht|Ht]; [left; exact Ht|apply has_t0_indexed; exact Ht].
Qed.
