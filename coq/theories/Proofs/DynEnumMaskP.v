(* C17 — proofs about the enum_bitmask helpers: to_values (to_bitmask S) is the sub-list of the members selected by S,
   for all integers (Python ints are unbounded, so is Z), any offset, any list S. *)
From Coq Require Import ZArith List Bool String Ascii Lia.
From FEC Require Import Generated.DynEnumTables Models.DynEnumM.
Import ListNotations.
Open Scope Z_scope.

(* ---------------------------------------------------------------------------------------------------------- *)
(* bits *)

Lemma testbit_1 : forall j, Z.testbit 1 j = (j =? 0).
Proof.
  intros j. destruct (Z.eqb_spec j 0) as [->|N]; [reflexivity|].
  destruct (Z.lt_ge_cases j 0) as [L|G].
  - apply Z.testbit_neg_r. assumption.
  - apply Z.bits_above_log2; [lia|]. cbn. lia.
Qed.

Lemma testbit_bit : forall n k, 0 <= n -> 0 <= k -> Z.testbit (Z.shiftl 1 n) k = (k =? n).
Proof.
  intros n k Hn Hk. rewrite Z.shiftl_spec by assumption. rewrite testbit_1.
  destruct (Z.eqb_spec (k - n) 0); destruct (Z.eqb_spec k n); try reflexivity; lia.
Qed.

Lemma land_bit_zero : forall a n, 0 <= n -> (Z.land a (Z.shiftl 1 n) =? 0) = negb (Z.testbit a n).
Proof.
  intros a n Hn. destruct (Z.testbit a n) eqn:T; cbn [negb].
  - apply Z.eqb_neq. intro H.
    assert (Z.testbit (Z.land a (Z.shiftl 1 n)) n = true) as K
      by (rewrite Z.land_spec, T, testbit_bit, Z.eqb_refl by assumption; reflexivity).
    rewrite H, Z.bits_0 in K. discriminate.
  - apply Z.eqb_eq. apply Z.bits_inj'. intros k Hk.
    rewrite Z.land_spec, Z.bits_0, testbit_bit by assumption.
    destruct (Z.eqb_spec k n) as [->|]; [rewrite T|]; auto using andb_false_r.
Qed.

Definition or_bits (off : Z) (vs : list Z) (acc : Z) : Z :=
  fold_left (fun a v => Z.lor a (Z.shiftl 1 (v - off))) vs acc.

Lemma testbit_or_bits : forall off vs acc k, 0 <= k -> (forall v, In v vs -> off <= v) ->
  Z.testbit (or_bits off vs acc) k = Z.testbit acc k || existsb (fun v => v - off =? k) vs.
Proof.
  unfold or_bits. induction vs as [|v vs IH]; intros acc k Hk Hvs; cbn [fold_left existsb].
  - rewrite orb_false_r. reflexivity.
  - rewrite IH by (auto; intros; apply Hvs; right; assumption).
    rewrite Z.lor_spec, testbit_bit by (auto; specialize (Hvs v (or_introl eq_refl)); lia).
    rewrite (Z.eqb_sym k (v - off)), orb_assoc. reflexivity.
Qed.

(* ---------------------------------------------------------------------------------------------------------- *)
(* to_values *)

Lemma bit_of_ok : forall off v, off <= v -> bit_of off v = inl (Z.shiftl 1 (v - off)).
Proof. intros. unfold bit_of. destruct (Z.ltb_spec (v - off) 0); [lia | reflexivity]. Qed.

Lemma bit_of_err : forall off v, v < off -> bit_of off v = inr ValueError.
Proof. intros. unfold bit_of. destruct (Z.ltb_spec (v - off) 0); [reflexivity | lia]. Qed.

Lemma bit_of_inl : forall off v b, bit_of off v = inl b -> off <= v /\ b = Z.shiftl 1 (v - off).
Proof. unfold bit_of. intros off v b H. destruct (Z.ltb_spec (v - off) 0); [discriminate|]. injection H as <-. split; [lia | reflexivity]. Qed.

Lemma to_values_from_ok : forall off mask vals, (forall e, In e vals -> off <= snd e) ->
  to_values_from off mask vals = inl (filter (fun e => Z.testbit mask (snd e - off)) vals).
Proof.
  induction vals as [|e t IH]; intros H; cbn [to_values_from filter]; [reflexivity|].
  pose proof (H e (or_introl eq_refl)) as He.
  rewrite (bit_of_ok off (snd e) He), IH by (intros; apply H; right; assumption).
  rewrite land_bit_zero by lia. destruct (Z.testbit mask (snd e - off)); reflexivity.
Qed.

(* to_values refuses exactly when some member the helper knows lies below the offset *)
Lemma to_values_from_err : forall off mask vals, (exists e, In e vals /\ snd e < off) ->
  to_values_from off mask vals = inr ValueError.
Proof.
  induction vals as [|e t IH]; intros [x [Hin Hlt]]; [destruct Hin|]. cbn [to_values_from].
  destruct (Z.lt_ge_cases (snd e) off) as [L|G].
  - rewrite (bit_of_err _ _ L). reflexivity.
  - destruct Hin as [->|Hin]; [lia|]. rewrite (bit_of_ok _ _ G), IH by (exists x; auto). reflexivity.
Qed.

(* ---------------------------------------------------------------------------------------------------------- *)
(* to_bitmask *)

(* the member value an item denotes *)
Definition item_value (m : mask_cls) (it : item) : option Z :=
  match it with
  | IVal v => Some v
  | IName s => match find (fun e => String.eqb (fst e) (upper s) && name_bit_ok m e) (m_values m) with
               | Some e => Some (snd e)
               | None => None
               end
  end.

Definition values_of (m : mask_cls) (items : list item) : list Z :=
  flat_map (fun it => match item_value m it with Some v => [v] | None => [] end) items.

Lemma step_ok : forall m acc it, item_ok m it = true ->
  exists v, item_value m it = Some v /\ m_offset m <= v /\
            to_bitmask_step m (inl acc) it = inl (Z.lor acc (Z.shiftl 1 (v - m_offset m))).
Proof.
  intros m acc [v|s] H; cbn [item_ok item_value to_bitmask_step] in *.
  - apply Z.leb_le in H. exists v. rewrite (bit_of_ok _ _ H). auto.
  - apply existsb_exists in H. destruct H as [e0 [Hin0 H0]].
    destruct (find (fun e => String.eqb (fst e) (upper s) && name_bit_ok m e) (m_values m)) as [e|] eqn:F.
    2:{ rewrite (find_none _ _ F e0 Hin0) in H0. discriminate. }
    apply find_some in F. destruct F as [Hin F]. apply andb_true_iff in F. destruct F as [Fn Fb].
    apply String.eqb_eq in Fn. exists (snd e). unfold name_bit_ok in Fb. rewrite <- Fn.
    destruct (by_name (m_entries m) (fst e)) as [x|]; [|discriminate].
    destruct (bit_of (m_offset m) (snd e)) as [b|] eqn:B; [|discriminate].
    apply Z.eqb_eq in Fb. apply bit_of_inl in B. destruct B as [Hle ->]. rewrite Fb. auto.
Qed.

Lemma to_bitmask_ok : forall m items acc, forallb (item_ok m) items = true ->
  fold_left (to_bitmask_step m) items (inl acc) = inl (or_bits (m_offset m) (values_of m items) acc)
  /\ (forall v, In v (values_of m items) -> m_offset m <= v).
Proof.
  induction items as [|it items IH]; intros acc H; cbn [fold_left forallb] in *.
  - split; [reflexivity | intros v []].
  - apply andb_true_iff in H. destruct H as [H1 H2].
    destruct (step_ok m acc it H1) as [v [Ev [Hle Es]]]. rewrite Es.
    destruct (IH (Z.lor acc (Z.shiftl 1 (v - m_offset m))) H2) as [I1 I2]. rewrite I1.
    unfold values_of. cbn [flat_map]. rewrite Ev. cbn [app]. split; [reflexivity|].
    intros w [<-|Hw]; [assumption | apply I2; assumption].
Qed.

(* ---------------------------------------------------------------------------------------------------------- *)
(* round trip, values *)

Lemma existsb_shift : forall off x S, existsb (fun v => v - off =? x - off) S = existsb (Z.eqb x) S.
Proof.
  induction S as [|v S IH]; cbn [existsb]; [reflexivity|]. f_equal; [|assumption].
  destruct (Z.eqb_spec (v - off) (x - off)); destruct (Z.eqb_spec x v); try reflexivity; lia.
Qed.

Theorem mask_roundtrip_lemma : forall m (S : list Z),
  (forall e, In e (m_values m) -> m_offset m <= snd e) ->
  (forall v, In v S -> m_offset m <= v) ->
  roundtrip m (map IVal S) = inl (spec_roundtrip (m_values m) S).
Proof.
  intros m S Hm HS. unfold roundtrip, to_bitmask.
  assert (forallb (item_ok m) (map IVal S) = true) as K.
  { apply forallb_forall. intros it Hit. apply in_map_iff in Hit. destruct Hit as [v [<- Hv]]. cbn. apply Z.leb_le. auto. }
  destruct (to_bitmask_ok m (map IVal S) 0 K) as [E Hv]. rewrite E.
  assert (values_of m (map IVal S) = S) as V.
  { unfold values_of. clear. induction S; cbn; [reflexivity | f_equal; assumption]. }
  rewrite V in *. unfold to_values. rewrite (to_values_from_ok _ _ _ Hm). apply f_equal.
  unfold spec_roundtrip. apply filter_ext_in. intros e He.
  rewrite testbit_or_bits by (auto; specialize (Hm e He); lia). rewrite Z.bits_0. cbn [orb].
  apply existsb_shift.
Qed.

(* "the same set": when S consists of distinct member values, the result has exactly the values of S *)
Theorem mask_roundtrip_set_lemma : forall m (S : list Z) r,
  (forall e, In e (m_values m) -> m_offset m <= snd e) ->
  (forall v, In v S -> In v (map snd (m_values m))) ->
  roundtrip m (map IVal S) = r ->
  exists l, r = inl l /\ (forall v, In v (map snd l) <-> In v S) /\ (forall e, In e l -> In e (m_values m)).
Proof.
  intros m S r Hm HS <-. exists (spec_roundtrip (m_values m) S). split; [|split].
  - apply mask_roundtrip_lemma; [assumption|]. intros v Hv. apply HS in Hv. apply in_map_iff in Hv.
    destruct Hv as [e [<- He]]. auto.
  - intros v. unfold spec_roundtrip. rewrite in_map_iff. split.
    + intros [e [<- He]]. apply filter_In in He. destruct He as [_ He]. apply existsb_exists in He.
      destruct He as [w [Hw Ew]]. apply Z.eqb_eq in Ew. rewrite Ew. assumption.
    + intros Hv. pose proof (HS v Hv) as Hin. apply in_map_iff in Hin. destruct Hin as [e [<- He]].
      exists e. split; [reflexivity|]. apply filter_In. split; [assumption|].
      apply existsb_exists. exists (snd e). split; [assumption | apply Z.eqb_refl].
  - intros e He. unfold spec_roundtrip in He. apply filter_In in He. apply He.
Qed.

(* ---------------------------------------------------------------------------------------------------------- *)
(* round trip, values and names mixed *)

Lemma nodupb_NoDup : forall {A} (eqb : A -> A -> bool), (forall a b, eqb a b = true <-> a = b) ->
  forall l, nodupb eqb l = true -> NoDup l.
Proof.
  intros A eqb Heq. induction l as [|a l IH]; intros H; [constructor|]. cbn in H.
  apply andb_true_iff in H. destruct H as [H1 H2]. constructor; [|auto].
  intro Hin. apply negb_true_iff in H1. rewrite <- not_true_iff_false in H1. apply H1.
  apply existsb_exists. exists a. split; [assumption | apply Heq; reflexivity].
Qed.

Lemma NoDup_map_inj_in : forall {A B} (f : A -> B) l a b, NoDup (map f l) -> In a l -> In b l -> f a = f b -> a = b.
Proof.
  induction l as [|x l IH]; intros a b ND Ha Hb E; [destruct Ha|]. cbn in ND. inversion ND as [|? ? Hx ND']; subst.
  destruct Ha as [->|Ha]; destruct Hb as [->|Hb]; auto.
  - exfalso. apply Hx. rewrite E. apply in_map. assumption.
  - exfalso. apply Hx. rewrite <- E. apply in_map. assumption.
Qed.

Theorem mask_roundtrip_items_lemma : forall m items, rt_pre m items = true ->
  roundtrip m items = inl (spec_roundtrip_items (m_values m) items).
Proof.
  intros m items H. unfold rt_pre in H.
  apply andb_true_iff in H. destruct H as [H Hnn].
  apply andb_true_iff in H. destruct H as [H Hnv].
  apply andb_true_iff in H. destruct H as [Hm Hit].
  assert (forall e, In e (m_values m) -> m_offset m <= snd e) as Hm'
    by (intros e He; rewrite forallb_forall in Hm; apply Z.leb_le; auto).
  apply (nodupb_NoDup Z.eqb Z.eqb_eq) in Hnv. apply (nodupb_NoDup String.eqb String.eqb_eq) in Hnn.
  unfold roundtrip, to_bitmask. destruct (to_bitmask_ok m items 0 Hit) as [E Hv]. rewrite E.
  unfold to_values. rewrite (to_values_from_ok _ _ _ Hm'). apply f_equal.
  unfold spec_roundtrip_items. apply filter_ext_in. intros e He.
  rewrite testbit_or_bits by (auto; specialize (Hm' e He); lia). rewrite Z.bits_0. cbn [orb].
  clear E. induction items as [|it items IH]; [reflexivity|].
  cbn [forallb] in Hit. apply andb_true_iff in Hit. destruct Hit as [Hi Hrest].
  unfold values_of in *. cbn [flat_map existsb]. rewrite existsb_app.
  rewrite IH by (auto; intros; apply Hv; cbn [flat_map]; apply in_or_app; right; assumption).
  f_equal. clear IH.
  destruct it as [v|s]; cbn [item_value item_selects existsb].
  - rewrite orb_false_r.
    destruct (Z.eqb_spec (v - m_offset m) (snd e - m_offset m)); destruct (Z.eqb_spec (snd e) v); try reflexivity; lia.
  - cbn [item_ok] in Hi. apply existsb_exists in Hi. destruct Hi as [e1 [Hin1 H1]].
    destruct (find (fun e0 => String.eqb (fst e0) (upper s) && name_bit_ok m e0) (m_values m)) as [e0|] eqn:F.
    2:{ rewrite (find_none _ _ F e1 Hin1) in H1. discriminate. }
    apply find_some in F. destruct F as [Hin0 F]. apply andb_true_iff in F. destruct F as [Fn _].
    apply String.eqb_eq in Fn. cbn [existsb]. rewrite orb_false_r.
    destruct (Z.eqb_spec (snd e0 - m_offset m) (snd e - m_offset m)) as [Ev|Ev]; destruct (String.eqb_spec (fst e) (upper s)) as [En|En]; try reflexivity.
    + exfalso. apply En. rewrite <- Fn. f_equal. symmetry.
      apply (NoDup_map_inj_in snd (m_values m) e0 e Hnv Hin0 He). lia.
    + exfalso. apply Ev. f_equal. f_equal.
      apply (NoDup_map_inj_in fst (m_values m) e0 e Hnn Hin0 He). congruence.
Qed.
