(* C08: the list of all valid candidates of a byte range ([candsn]); what one block of one worker reports
   is the candidate list of its range, first as seen in the block buffer, then (when every valid candidate
   is at most MAX bytes) as seen in the file *)
From Coq Require Import NArith List Bool Arith Lia ZifyBool ZifyNat ZifyN.
From FEC Require Import Generated.FEConsts Base.ListX Base.Bytes Base.Crc32 Base.Scan Base.FEFormat
  Models.FastIndexerM Proofs.FastIndexerListP Proofs.FastIndexerJudgeP.
Import ListNotations.
Open Scope N_scope.

Section Cand.
  Variable ptime : N -> N -> list N -> option (N * N).

  (* the raw record the repaired code appends for an accepted candidate at the head of l *)
  Definition raw_of (l : list N) (off : N) (h : header) : fi_raw :=
    mkRaw (fi_time_raw fi_cur (ptime (h_type h) (h_msgver h) (fi_take (h_psize h) (fi_drop 24 l))))
          (h_type h) off (24 + h_psize h).

  Definition cand (l : list N) (off : N) : list fi_raw :=
    match fi_valid l with Some h => [raw_of l off h] | None => [] end.

  (* valid candidates among the first cnt positions of l, whose first byte has absolute offset off *)
  Fixpoint candsn (l : list N) (off : N) (cnt : nat) {struct cnt} : list fi_raw :=
    match cnt with
    | O => []
    | S c => match l with [] => [] | _ :: t => cand l off ++ candsn t (N.succ off) c end
    end.

  Definition all_cands (l : list N) (off : N) : list fi_raw := candsn l off (length l).

  Lemma candsn_nil off cnt : candsn [] off cnt = [].
  Proof. destruct cnt; reflexivity. Qed.

  Lemma cand_short l off : (length l < HEADER_SIZE)%nat -> cand l off = [].
  Proof.
    intros H. unfold cand. destruct (fi_valid l) as [h|] eqn:V; [|reflexivity].
    apply valid_size_le in V. lia.
  Qed.

  Lemma candsn_short : forall cnt l off, (length l < HEADER_SIZE)%nat -> candsn l off cnt = [].
  Proof.
    induction cnt as [|c IH]; intros l off H; [reflexivity|]. destruct l as [|a t]; [reflexivity|].
    cbn [candsn]. rewrite cand_short by exact H. rewrite IH by (cbn [length] in H; lia). reflexivity.
  Qed.

  (* ---- what fi_process reports for the preamble matches of one block (repaired code) ----------------- *)
  Lemma process_syncs : forall cnt l i bo me,
    fst (fi_process fi_cur ptime bo (fi_syncs l i cnt) me) = candsn l (bo + i) cnt.
  Proof.
    induction cnt as [|c IH]; intros l i bo me; [reflexivity|].
    destruct l as [|b0 t]; [reflexivity|]. cbn [fi_syncs candsn].
    destruct t as [|b1 t'].
    - cbn [fi_process fst]. rewrite cand_short by (unfold HEADER_SIZE; cbn [length]; lia).
      rewrite candsn_nil. reflexivity.
    - destruct ((b0 =? SYNC0) && (b1 =? SYNC1)) eqn:S.
      + cbn [fi_process]. cbn [fi_cur c_reportall negb andb].
        rewrite accept_valid by exact S. unfold cand.
        destruct (fi_valid (b0 :: b1 :: t')) as [h|] eqn:V.
        * destruct (fi_process fi_cur ptime bo (fi_syncs (b1 :: t') (N.succ i) c) (bo + i + (24 + h_psize h))) as [es me'] eqn:P.
          cbn [fst app]. f_equal.
          specialize (IH (b1 :: t') (N.succ i) bo (bo + i + (24 + h_psize h))). rewrite P in IH. cbn [fst] in IH.
          rewrite IH. f_equal. lia.
        * cbn [app]. rewrite IH. f_equal. lia.
      + unfold cand. assert (fi_valid (b0 :: b1 :: t') = None) as ->.
        { unfold fi_valid. cbn [fi_sync_at]. rewrite S. reflexivity. }
        cbn [app]. rewrite IH. f_equal. lia.
  Qed.

  (* ---- prefix: a block buffer is a prefix of the file suffix at the block start ---------------------- *)
  Lemma cand_prefix l m off :
    (forall h, fi_valid l = Some h -> (fi_msize h <= m)%nat) -> cand (firstn m l) off = cand l off.
  Proof.
    intros H. unfold cand. destruct (fi_valid l) as [h|] eqn:V.
    - specialize (H h eq_refl). rewrite (valid_prefix_down _ _ _ V H). f_equal. unfold raw_of. f_equal. f_equal. f_equal.
      rewrite !fi_take_firstn, !fi_drop_skipn. rewrite skipn_firstn_comm, firstn_firstn. f_equal.
      unfold fi_msize, HEADER_SIZE in H. lia.
    - destruct (fi_valid (firstn m l)) as [h|] eqn:V2; [|reflexivity].
      apply valid_prefix_up in V2. congruence.
  Qed.

  Lemma candsn_prefix : forall cnt l m off,
    (forall j h, (j < cnt)%nat -> fi_valid (skipn j l) = Some h -> (j + fi_msize h <= m)%nat) ->
    candsn (firstn m l) off cnt = candsn l off cnt.
  Proof.
    induction cnt as [|c IH]; intros l m off H; [reflexivity|].
    destruct l as [|a t]; [rewrite firstn_nil; reflexivity|].
    destruct m as [|m'].
    - cbn [firstn]. rewrite candsn_nil. cbn [candsn].
      assert (cand (a :: t) off = []) as ->.
      { unfold cand. destruct (fi_valid (a :: t)) as [h|] eqn:V; [|reflexivity].
        pose proof (H 0%nat h ltac:(lia) V). pose proof (valid_size_le _ _ V). unfold HEADER_SIZE in *. lia. }
      cbn [app]. rewrite <- (IH t 0%nat (N.succ off)).
      + rewrite firstn_O, candsn_nil. reflexivity.
      + intros j h Hj V. pose proof (H (S j) h ltac:(lia) V). lia.
    - cbn [firstn candsn]. change (a :: firstn m' t) with (firstn (S m') (a :: t)).
      rewrite cand_prefix by (intros h V; pose proof (H 0%nat h ltac:(lia) V); lia).
      rewrite IH; [reflexivity|]. intros j h Hj V. pose proof (H (S j) h ltac:(lia) V). lia.
  Qed.

  (* ---- splitting a range ---------------------------------------------------------------------------- *)
  Lemma candsn_split : forall c1 c2 l off,
    candsn l off (c1 + c2) = candsn l off c1 ++ candsn (skipn c1 l) (off + N.of_nat c1) c2.
  Proof.
    induction c1 as [|c1 IH]; intros c2 l off.
    - cbn [Nat.add candsn skipn app]. f_equal. lia.
    - destruct l as [|a t].
      + cbn [skipn]. rewrite !candsn_nil. reflexivity.
      + cbn [Nat.add candsn skipn]. rewrite IH, <- app_assoc. do 3 f_equal. lia.
  Qed.

  Lemma candsn_over : forall cnt l off, (length l <= cnt)%nat -> candsn l off cnt = all_cands l off.
  Proof.
    intros cnt l off H. unfold all_cands. replace cnt with (length l + (cnt - length l))%nat by lia.
    rewrite candsn_split, skipn_all, candsn_nil, app_nil_r. reflexivity.
  Qed.

  (* no candidate can start in the last 23 bytes *)
  Lemma candsn_enough cnt l off : (length l < cnt + HEADER_SIZE)%nat -> candsn l off cnt = all_cands l off.
  Proof.
    intros H. destruct (Nat.le_gt_cases (length l) cnt) as [L|G]; [apply candsn_over; exact L|].
    unfold all_cands. replace (length l) with (cnt + (length l - cnt))%nat by lia.
    rewrite candsn_split. rewrite (candsn_short _ (skipn cnt l)) by (rewrite skipn_length; lia).
    rewrite app_nil_r. reflexivity.
  Qed.

  Lemma all_cands_split c l off : (c <= length l)%nat ->
    all_cands l off = candsn l off c ++ all_cands (skipn c l) (off + N.of_nat c).
  Proof.
    intros H. unfold all_cands. rewrite skipn_length.
    replace (length l) with (c + (length l - c))%nat at 1 by lia. apply candsn_split.
  Qed.

  (* every reported candidate is a valid candidate of the list, with its offset and size *)
  Lemma candsn_in : forall cnt l off e, In e (candsn l off cnt) ->
    exists j h, (j < cnt)%nat /\ fi_valid (skipn j l) = Some h /\ r_off e = off + N.of_nat j /\
                r_size e = 24 + h_psize h /\ e = raw_of (skipn j l) (off + N.of_nat j) h.
  Proof.
    induction cnt as [|c IH]; intros l off e H; [destruct H|].
    destruct l as [|a t]; [destruct H|]. cbn [candsn] in H. apply in_app_or in H. destruct H as [H|H].
    - unfold cand in H. destruct (fi_valid (a :: t)) as [h|] eqn:V; [|destruct H].
      destruct H as [<-|[]]. exists 0%nat, h. cbn [skipn]. rewrite N.add_0_r. repeat split; try reflexivity; try lia. exact V.
    - apply IH in H. destruct H as (j & h & Hj & V & Ho & Hs & He). exists (S j), h. cbn [skipn].
      replace (off + N.of_nat (S j)) with (N.succ off + N.of_nat j) by lia. repeat split; try assumption; lia.
  Qed.
End Cand.
