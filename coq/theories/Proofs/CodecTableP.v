(* C01 — instances of the generic round trip, the Timestamp adapter, and the generated description table. *)
From Coq Require Import ZArith NArith List Bool Lia ZifyBool ZifyNat.
From FEC Require Import Generated.CodecConsts Models.CodecM Proofs.CodecP Proofs.CodecTsRealP Generated.LayoutPy.
Import ListNotations.
Open Scope Z_scope.

(* the law of the property for one description and one input *)
Definition Codec_roundtrip_at (d : Codec_desc) (b : list Z) (e : Codec_env) (n : nat) : Prop :=
  exists b1, Codec_pack d e = Some b1 /\ length b1 = n /\ Codec_sizeof d e = Some n /\
             exists e2, Codec_parse d b1 = Some (e2, n) /\ e2 = e /\ Codec_pack d e2 = Some b1.

Lemma Codec_nots_ok : forall top k a z v, Codec_wf_adapter top k a = true -> Codec_not_count a ->
  Codec_krange k z = true -> Codec_adec_nots a z = Some v -> Codec_aval_ok k a v.
Proof.
  intros top k a z v W NC R D. destruct a; eapply Codec_adapter_fix; eauto; discriminate.
Qed.
Lemma Codec_nots_cnt : forall t z v, Codec_adec_nots (ACount t) z = Some v -> v = FInt z.
Proof. intros t z v H. cbn in H. congruence. Qed.
Lemma Codec_nots_sub : forall a z v, Codec_adec_nots a z = Some v -> Codec_adec a z = Some v.
Proof. intros [] z v H; try exact H. discriminate H. Qed.

Lemma Codec_dom_sub : forall a z v, Codec_adec_dom a z = Some v -> Codec_adec a z = Some v.
Proof. unfold Codec_adec_dom. intros a z v H. destruct (Codec_adom a z); try discriminate. exact H. Qed.
Lemma Codec_dom_cnt : forall t z v, Codec_adec_dom (ACount t) z = Some v -> v = FInt z.
Proof. intros t z v H. cbn in H. congruence. Qed.
Lemma Codec_dom_ok : Codec_ts_projection_full -> forall top k a z v, Codec_wf_adapter top k a = true -> Codec_not_count a ->
  Codec_krange k z = true -> Codec_adec_dom a z = Some v -> Codec_aval_ok k a v.
Proof.
  intros TS top k a z v W NC R D. unfold Codec_adec_dom in D.
  destruct a; cbn [Codec_adom] in D; try (eapply Codec_adapter_fix; eauto; discriminate).
  destruct (Codec_ts_dom z) eqn:Dz; try discriminate. cbn in D. inversion D; subst.
  destruct k; try discriminate W. apply TS; auto.
  unfold Codec_krange in R. cbn in R. lia.
Qed.

Lemma Codec_finish : forall d b e n b1, Codec_pack d e = Some b1 -> length b1 = n -> Codec_parse d b1 = Some (e, n) ->
  Codec_roundtrip_at d b e n.
Proof.
  intros d b e n b1 P L R. exists b1. split; auto. split; auto. split.
  - rewrite (Codec_sizeof_enc _ _ _ P), L. reflexivity.
  - exists e. auto.
Qed.

(* layouts without Timestamp fields and without lenient parts (no tagged sub-payload, no length-prefixed string):
   unconditional, for every input that parses *)
Lemma Codec_roundtrip_nots : forall d, Codec_wf d = true -> Codec_uses_ts d = false -> Codec_rigid d = true ->
  forall b e n, Codec_bytes_ok b = true -> Codec_parse d b = Some (e, n) -> Codec_roundtrip_at d b e n.
Proof.
  intros d W U G b e n B P.
  assert (P' : Codec_parse_with Codec_adec_nots true d b = Some (e, n)).
  { unfold Codec_parse, Codec_parse_with in *. destruct (Codec_dec_wire Codec_adec false d [] b) as [[e0 rest]|] eqn:D; try discriminate.
    rewrite <- (Codec_dec_wire_rigid _ _ _ _ G). rewrite (Codec_dec_wire_nots _ _ _ _ _ U D). exact P. }
  destruct (Codec_roundtrip_AD _ Codec_nots_ok Codec_nots_cnt d b e n W B P') as (b1 & E & L & R & O).
  eapply Codec_finish; eauto.
Qed.

(* any layout without Timestamp fields, for the inputs in canonical form (the strict decoder accepts them): declared
   lengths equal to what the content needs, length-prefixed strings without trailing NULs, content understood *)
Lemma Codec_roundtrip_canonical : forall d, Codec_wf d = true ->
  forall b e n, Codec_bytes_ok b = true -> Codec_parse_with Codec_adec_nots true d b = Some (e, n) ->
  Codec_parse d b = Some (e, n) /\ Codec_roundtrip_at d b e n.
Proof.
  intros d W b e n B P. split.
  - exact (Codec_parse_sub _ _ true false Codec_nots_sub ltac:(discriminate) d b _ P).
  - destruct (Codec_roundtrip_AD _ Codec_nots_ok Codec_nots_cnt d b e n W B P) as (b1 & E & L & R & O).
    eapply Codec_finish; eauto.
Qed.
Lemma Codec_canonical_nots : forall d b r, Codec_uses_ts d = false ->
  Codec_parse_with Codec_adec true d b = Some r -> Codec_parse_with Codec_adec_nots true d b = Some r.
Proof.
  unfold Codec_parse_with. intros d b r U P. destruct (Codec_dec_wire Codec_adec true d [] b) as [[e0 rest]|] eqn:D; try discriminate.
  rewrite (Codec_dec_wire_nots _ _ _ _ _ U D). exact P.
Qed.

(* any layout, Timestamp fields included: for canonical inputs whose stamps are in the domain of the projection law,
   under that law (stated in full; proved for part of the domain, otherwise evaluated) *)
Lemma Codec_roundtrip_ts : Codec_ts_projection_full -> forall d, Codec_wf d = true ->
  forall b e n, Codec_bytes_ok b = true -> Codec_parse_dom d b = Some (e, n) ->
  Codec_parse d b = Some (e, n) /\ Codec_roundtrip_at d b e n.
Proof.
  intros TS d W b e n B P. split.
  - exact (Codec_parse_sub _ _ true false Codec_dom_sub ltac:(discriminate) d b _ P).
  - destruct (Codec_roundtrip_AD _ (Codec_dom_ok TS) Codec_dom_cnt d b e n W B P) as (b1 & E & L & R & O).
    eapply Codec_finish; eauto.
Qed.

(* ---- the generated table -------------------------------------------------------------------------- *)
Lemma Codec_all_descriptions_wf : forallb (fun p => Codec_wf (snd p)) py_descriptions = true.
Proof. vm_compute. reflexivity. Qed.

Lemma Codec_table_roundtrip_nots : forall i d, In (i, d) py_descriptions -> Codec_uses_ts d = false -> Codec_rigid d = true ->
  forall b e n, Codec_bytes_ok b = true -> Codec_parse d b = Some (e, n) -> Codec_roundtrip_at d b e n.
Proof.
  intros i d I. pose proof Codec_all_descriptions_wf as W. rewrite forallb_forall in W. specialize (W _ I).
  apply Codec_roundtrip_nots. exact W.
Qed.
Lemma Codec_table_roundtrip_canonical : forall i d, In (i, d) py_descriptions -> Codec_uses_ts d = false ->
  forall b e n, Codec_bytes_ok b = true -> Codec_parse_with Codec_adec true d b = Some (e, n) ->
  Codec_parse d b = Some (e, n) /\ Codec_roundtrip_at d b e n.
Proof.
  intros i d I U b e n B P. pose proof Codec_all_descriptions_wf as W. rewrite forallb_forall in W. specialize (W _ I).
  apply Codec_roundtrip_canonical; auto. apply Codec_canonical_nots; auto.
Qed.
Lemma Codec_table_roundtrip_ts : Codec_ts_projection_full -> forall i d, In (i, d) py_descriptions ->
  forall b e n, Codec_bytes_ok b = true -> Codec_parse_dom d b = Some (e, n) ->
  Codec_parse d b = Some (e, n) /\ Codec_roundtrip_at d b e n.
Proof.
  intros TS i d I. pose proof Codec_all_descriptions_wf as W. rewrite forallb_forall in W. specialize (W _ I).
  apply Codec_roundtrip_ts; auto.
Qed.

Lemma Codec_table_offsets : forall i d, In (i, d) py_descriptions ->
  (Codec_nogreedy d = true -> forall b e n, Codec_parse d b = Some (e, n) ->
     forall pre post, Codec_parse_at d (length pre) (pre ++ b ++ post) = Some (e, n)) /\
  (Codec_nogreedy d = false -> forall b e n, Codec_parse d b = Some (e, n) -> n = length b).
Proof.
  intros i d I. split.
  - intros G b e n P. apply Codec_offset_indep_parse; auto.
  - intros G b e n P. pose proof Codec_all_descriptions_wf as W. rewrite forallb_forall in W. specialize (W _ I).
    cbn in W. unfold Codec_wf in W. apply andb_true_iff in W as [W _]. apply andb_true_iff in W as [_ W].
    unfold Codec_parse, Codec_parse_with in P.
    destruct (Codec_dec_wire Codec_adec false d [] b) as [[e0 rest]|] eqn:D; try discriminate. inversion P; subst.
    rewrite (Codec_greedy_all _ _ _ _ _ _ _ _ W G D). cbn. lia.
Qed.

Lemma Codec_table_partition :
  forallb (fun p => (negb (Codec_uses_ts (snd p)) && Codec_rigid (snd p)) || negb (Codec_uses_ts (snd p)) || Codec_uses_ts (snd p)) py_descriptions = true /\
  (length py_descriptions = length (filter (fun p => negb (Codec_uses_ts (snd p)) && Codec_rigid (snd p)) py_descriptions)
                         + length (filter (fun p => negb (Codec_uses_ts (snd p)) && negb (Codec_rigid (snd p))) py_descriptions)
                         + length (filter (fun p => Codec_uses_ts (snd p)) py_descriptions))%nat.
Proof. vm_compute. split; reflexivity. Qed.

(* ---- Timestamp --------------------------------------------------------------------------------------- *)
(* the part of the projection law that is proved: stamps with a sentinel field *)
Lemma Codec_ts_projection_sentinel : forall z, 0 <= z < 2 ^ 64 ->
  (Codec_ts_sec z =? ts_invalid) || (Codec_ts_ns z =? ts_invalid) = true ->
  Codec_aval_ok U64 ATimestamp (Codec_ts_dec z).
Proof.
  intros z R S. unfold Codec_ts_dec. rewrite S.
  exists (Codec_ts_join ts_invalid ts_invalid). split; [reflexivity|]. split; reflexivity.
Qed.

(* ... and stamps with a whole number of seconds (ns = 0): the sum is exact, the fractional part is zero *)
Lemma Codec_rnd53_small : forall m e, 0 < m < 2 ^ 53 -> Codec_rnd53 m e = (m, e).
Proof.
  intros m e H. unfold Codec_rnd53.
  replace (m <=? 0) with false by lia.
  assert (Z.log2 m < 53) by (apply Z.log2_lt_pow2; lia).
  replace (Z.log2 m + 1 <=? 53) with true by lia. reflexivity.
Qed.

Lemma Codec_of_to_bits : forall m e, 0 < m < 2 ^ 53 ->
  let k := 53 - (Z.log2 m + 1) in
  0 < e - k + 1075 ->
  Codec_of_bits (Codec_to_bits (m, e)) = (m * 2 ^ k, e - k) /\ 0 <= k /\ 2 ^ 52 <= m * 2 ^ k < 2 ^ 53.
Proof.
  intros m e H k He.
  assert (L : Z.log2 m < 53) by (apply Z.log2_lt_pow2; lia).
  assert (L0 : 0 <= Z.log2 m) by apply Z.log2_nonneg.
  assert (K : 0 <= k) by (unfold k; lia).
  destruct (Z.log2_spec m ltac:(lia)) as [Lo Hi].
  assert (B : 2 ^ 52 <= m * 2 ^ k < 2 ^ 53).
  { replace 52 with (Z.log2 m + k) by (unfold k; lia). replace 53 with (Z.succ (Z.log2 m) + k) by (unfold k; lia).
    rewrite !Z.pow_add_r by lia. assert (0 < 2 ^ k) by (apply Z.pow_pos_nonneg; lia). nia. }
  split; [|split; auto].
  unfold Codec_to_bits. replace (m <=? 0) with false by lia. fold k.
  set (M := m * 2 ^ k) in *. set (E := e - k) in *.
  unfold Codec_of_bits.
  assert (D : ((E + 1075) * 2 ^ 52 + (M - 2 ^ 52)) / 2 ^ 52 = E + 1075).
  { rewrite Z.div_add_l by lia. rewrite Z.div_small by lia. lia. }
  assert (R : ((E + 1075) * 2 ^ 52 + (M - 2 ^ 52)) mod 2 ^ 52 = M - 2 ^ 52).
  { rewrite Z.add_comm, Z.mod_add by lia. apply Z.mod_small. lia. }
  rewrite D, R. replace (E + 1075 =? 0) with false by lia. f_equal; lia.
Qed.

Lemma Codec_ts_projection_integer_seconds : forall z, 0 <= z < 2 ^ 64 ->
  Codec_ts_ns z = 0 -> Codec_ts_sec z < ts_invalid - 1 ->
  Codec_aval_ok U64 ATimestamp (Codec_ts_dec z).
Proof.
  intros z Hz Hn Hs. unfold Codec_ts_sec, Codec_ts_ns in *.
  assert (Zs : z = z mod 2 ^ 32) by (pose proof (Z.div_mod z (2 ^ 32) ltac:(lia)); lia).
  set (sec := z mod 2 ^ 32) in *.
  assert (S0 : 0 <= sec < 2 ^ 32) by (apply Z.mod_pos_bound; lia).
  change ts_invalid with 4294967295 in *.
  assert (Dz : Codec_ts_dec z = FInt (Codec_to_bits (Codec_fadd (sec, 0) (Codec_fmul (0, 0) Codec_c_dec)))).
  { unfold Codec_ts_dec, Codec_ts_sec, Codec_ts_ns. fold sec. rewrite Hn. change ts_invalid with 4294967295.
    replace ((sec =? 4294967295) || (0 =? 4294967295)) with false by lia. reflexivity. }
  assert (M0 : Codec_fmul (0, 0) Codec_c_dec = (0, 0)) by reflexivity.
  rewrite M0 in Dz.
  destruct (Z.eq_dec sec 0) as [E0 | N0].
  - (* zero *) rewrite Dz, E0. exists 0. repeat split; try reflexivity.
  - assert (A : Codec_fadd (sec, 0) (0, 0) = (sec, 0)).
    { unfold Codec_fadd. cbn [fst snd]. rewrite Z.min_id, Z.sub_diag. cbn [Z.pow]. rewrite Z.mul_1_r, Z.mul_0_l, Z.add_0_r.
      apply Codec_rnd53_small. lia. }
    rewrite A in Dz. rewrite Dz.
    assert (Hm : 0 < sec < 2 ^ 53) by lia.
    assert (L32 : Z.log2 sec < 32) by (apply Z.log2_lt_pow2; lia).
    pose proof (Z.log2_nonneg sec) as L0.
    destruct (Codec_of_to_bits sec 0 Hm ltac:(lia)) as (OB & K0 & MB).
    set (k := 53 - (Z.log2 sec + 1)) in *.
    assert (K21 : 21 <= k) by (unfold k; lia).
    assert (P : 0 < 2 ^ k) by (apply Z.pow_pos_nonneg; lia).
    assert (BR : 0 <= Codec_to_bits (sec, 0) < 2047 * 2 ^ 52).
    { unfold Codec_to_bits. replace (sec <=? 0) with false by lia. fold k. change (0 - k) with (- k). lia. }
    assert (EN : Codec_ts_enc (FInt (Codec_to_bits (sec, 0))) = Some (Codec_ts_join sec 0)).
    { unfold Codec_ts_enc.
      replace ((Codec_to_bits (sec, 0) <? 0) || (2047 * 2 ^ 52 <=? Codec_to_bits (sec, 0))) with false by lia.
      rewrite OB. cbn [fst snd]. unfold Codec_floor.
      replace (0 <=? 0 - k) with false by lia. replace (- (0 - k)) with k by lia.
      rewrite Z.div_mul by lia. rewrite Z.sub_diag.
      assert (F0 : Codec_fmul (0, 0 - k) Codec_c_enc = (0, 0)) by (unfold Codec_fmul; cbn [fst snd]; rewrite Z.mul_0_l; reflexivity).
      rewrite F0. cbn [Codec_round_int]. change ts_carry_at with 1000000000.
      replace (1000000000 <=? (if 0 <=? 0 then 0 * 2 ^ 0 else _)) with false by reflexivity.
      cbn [Z.leb Z.compare Z.mul Z.pow].
      match goal with |- (if ?c then _ else _) = _ => replace c with true by (change (Z.pow_pos 2 32) with (2 ^ 32); lia) end.
      reflexivity. }
    exists (Codec_ts_join sec 0). split; [exact EN|]. split.
    + unfold Codec_krange, Codec_ts_join. cbn. lia.
    + cbn [Codec_adec]. f_equal. unfold Codec_ts_join. rewrite Z.mul_0_l, Z.add_0_r.
      rewrite <- Zs at 1. exact Dz.
Qed.

Lemma Codec_ts_projection_partial : forall z, 0 <= z < 2 ^ 64 ->
  ((Codec_ts_sec z =? ts_invalid) || (Codec_ts_ns z =? ts_invalid) = true \/ (Codec_ts_ns z = 0 /\ Codec_ts_sec z < ts_invalid - 1)) ->
  Codec_aval_ok U64 ATimestamp (Codec_ts_dec z).
Proof.
  intros z R [S | [N S]]. apply Codec_ts_projection_sentinel; auto. apply Codec_ts_projection_integer_seconds; auto.
Qed.

(* THE PROJECTION LAW, IN FULL: sentinel stamps, whole seconds, and (Proofs/CodecTsRealP.v, over the reals with Flocq)
   every stamp with 0 < ns < 10^9 *)
Lemma Codec_ts_projection_holds : Codec_ts_projection_full.
Proof.
  intros z Hz D. unfold Codec_ts_dom in D.
  destruct ((Codec_ts_sec z =? ts_invalid) || (Codec_ts_ns z =? ts_invalid)) eqn:S.
  - apply Codec_ts_projection_sentinel; auto.
  - cbn [orb] in D. apply andb_true_iff in D as [D1 D2].
    assert (N0 : 0 <= Codec_ts_ns z). { unfold Codec_ts_ns. apply Z.div_pos; lia. }
    destruct (Z.eq_dec (Codec_ts_ns z) 0) as [E | NE].
    + apply Codec_ts_projection_integer_seconds; auto. lia.
    + apply Codec_ts_projection_finite; auto; lia.
Qed.

(* hence, unconditionally: any layout, canonical inputs with stamps in the domain *)
Lemma Codec_roundtrip_ts_full : forall d, Codec_wf d = true ->
  forall b e n, Codec_bytes_ok b = true -> Codec_parse_dom d b = Some (e, n) ->
  Codec_parse d b = Some (e, n) /\ Codec_roundtrip_at d b e n.
Proof. exact (Codec_roundtrip_ts Codec_ts_projection_holds). Qed.
Lemma Codec_table_roundtrip_ts_full : forall i d, In (i, d) py_descriptions ->
  forall b e n, Codec_bytes_ok b = true -> Codec_parse_dom d b = Some (e, n) ->
  Codec_parse d b = Some (e, n) /\ Codec_roundtrip_at d b e n.
Proof. exact (Codec_table_roundtrip_ts Codec_ts_projection_holds). Qed.

(* the code before the repair did not satisfy the law: (529378 s, 273878287 ns) came back as ...286 *)
Lemma Codec_ts_legacy_refuted :
  exists z z', Codec_ts_dom z = true /\ Codec_ts_enc_legacy (Codec_ts_dec z) = Some z' /\
               Codec_ts_dec z' <> Codec_ts_dec z /\ z = Codec_ts_join 529378 273878287 /\ z' = Codec_ts_join 529378 273878286.
Proof.
  exists (Codec_ts_join 529378 273878287), (Codec_ts_join 529378 273878286).
  split; [vm_compute; reflexivity|]. split; [vm_compute; reflexivity|]. split; [|split; reflexivity].
  vm_compute. discriminate.
Qed.
(* the repaired code on the same stamp *)
Lemma Codec_ts_witness_fixed : Codec_ts_enc (Codec_ts_dec (Codec_ts_join 529378 273878287)) = Some (Codec_ts_join 529378 273878287).
Proof. vm_compute. reflexivity. Qed.

(* outside the domain the law fails for the repaired code too (recorded findings): a nanosecond field >= 10^9, and
   seconds reaching the sentinel *)
Lemma Codec_ts_outside_domain_refuted :
  (exists z z', Codec_ts_dom z = false /\ Codec_ts_enc (Codec_ts_dec z) = Some z' /\ Codec_ts_dec z' <> Codec_ts_dec z /\
                z = Codec_ts_join 0 3221225472) /\
  (exists z z', Codec_ts_dom z = false /\ Codec_ts_enc (Codec_ts_dec z) = Some z' /\ Codec_ts_dec z' = FNaN /\ Codec_ts_dec z <> FNaN /\
                z = Codec_ts_join 4294967294 999999999).
Proof.
  split.
  - exists (Codec_ts_join 0 3221225472), (Codec_ts_join 3 221225472).
    split; [vm_compute; reflexivity|]. split; [vm_compute; reflexivity|]. split; [vm_compute; discriminate|reflexivity].
  - exists (Codec_ts_join 4294967294 999999999), (Codec_ts_join 4294967295 0).
    split; [vm_compute; reflexivity|]. split; [vm_compute; reflexivity|]. split; [vm_compute; reflexivity|]. split; [vm_compute; discriminate|reflexivity].
Qed.

(* evaluation of the law on one stamp (used on the generated grid, Generated/CodecTsCases.v) *)
Definition Codec_ts_check (z : Z) : bool :=
  match Codec_ts_enc (Codec_ts_dec z) with
  | Some z' => (0 <=? z') && (z' <? 2 ^ 64) &&
               match Codec_ts_dec z, Codec_ts_dec z' with
               | FNaN, FNaN => true | FInt a, FInt b => a =? b | _, _ => false end
  | None => false
  end.
Lemma Codec_ts_check_sound : forall z, Codec_ts_check z = true -> Codec_aval_ok U64 ATimestamp (Codec_ts_dec z).
Proof.
  unfold Codec_ts_check. intros z H. destruct (Codec_ts_enc (Codec_ts_dec z)) as [z'|] eqn:E; try discriminate.
  apply andb_true_iff in H as [R H]. exists z'. split; [exact E|]. split; [exact R|]. cbn.
  destruct (Codec_ts_dec z), (Codec_ts_dec z'); try discriminate; auto. apply Z.eqb_eq in H. subst. reflexivity.
Qed.

(* ---- non-vacuity ------------------------------------------------------------------------------------- *)
(* a layout with a count, a counted part, a sentinel field, padding and a strict enum; an input that parses *)
Definition Codec_ex_desc : Codec_desc :=
  [WItem (IField 1 U16 (ACount 3)); WItem (IPad [0; 0]); WItem (IField 2 S16 (ASentinel (-32768)));
   WCounted 3 1 [IField 1 U8 (AStrict [0; 1; 5]); IField 2 F32 AQuiet32; IPad [0]]].
Definition Codec_ex_input : list Z := [2; 0; 9; 9; 0; 128;  5; 1; 0; 160; 127; 7;  1; 0; 0; 128; 63; 7].
Lemma Codec_ex_parses : Codec_wf Codec_ex_desc = true /\ Codec_uses_ts Codec_ex_desc = false /\ Codec_bytes_ok Codec_ex_input = true /\
  Codec_parse Codec_ex_desc Codec_ex_input =
    Some ([(1%N, VF (FInt 2)); (2%N, VF FNaN); (3%N, VRecs [[(1%N, FInt 5); (2%N, FInt 2145386497)]; [(1%N, FInt 1); (2%N, FInt 1065353216)]])], 18%nat) /\
  Codec_pack Codec_ex_desc [(1%N, VF (FInt 2)); (2%N, VF FNaN); (3%N, VRecs [[(1%N, FInt 5); (2%N, FInt 2145386497)]; [(1%N, FInt 1); (2%N, FInt 1065353216)]])]
    = Some [2; 0; 0; 0; 0; 128;  5; 1; 0; 224; 127; 0;  1; 0; 0; 128; 63; 0].
Proof. vm_compute. repeat split; reflexivity. Qed.

(* ---- non-canonical inputs: the recorded findings as model witnesses ----------------------------------------------- *)
(* a FaultControl-like container: tag, declared length, sub-payload chosen by the tag *)
Definition Codec_ex_tagged : Codec_desc :=
  [WItem (IField 1 U8 AId); WItem (IPad [0; 0; 0]); WItem (IField 2 U32 (ACount 3));
   WTagged 3 {| tg_tag := 1; tg_len := 2; tg_skip := None; tg_cases := [(0, []); (4, [IField 1 U8 ABool])]; tg_sub := None; tg_opaque := false |}].
(* declared length 1 for the empty payload of tag 0: parses (the surplus byte is ignored), is serialised in 8 bytes, not 9 *)
Lemma Codec_overlong_payload_refuted :
  Codec_wf Codec_ex_tagged = true /\
  Codec_parse Codec_ex_tagged [0; 0; 0; 0; 1; 0; 0; 0; 7] = Some ([(1%N, VF (FInt 0)); (2%N, VF (FInt 1)); (3%N, VTag [] [] 0)], 9%nat) /\
  Codec_pack Codec_ex_tagged [(1%N, VF (FInt 0)); (2%N, VF (FInt 1)); (3%N, VTag [] [] 0)] = Some [0; 0; 0; 0; 0; 0; 0; 0] /\
  Codec_parse_with Codec_adec true Codec_ex_tagged [0; 0; 0; 0; 1; 0; 0; 0; 7] = None /\
  (* the canonical encoding of the same message satisfies the hypothesis of the theorem *)
  Codec_parse_with Codec_adec_nots true Codec_ex_tagged [4; 0; 0; 0; 1; 0; 0; 0; 1] =
    Some ([(1%N, VF (FInt 4)); (2%N, VF (FInt 1)); (3%N, VTag [] [(1%N, FInt 1)] 1)], 9%nat).
Proof. vm_compute. repeat split; reflexivity. Qed.

(* a VersionInfo-like length-prefixed string: "a\0" parses as "a" and is serialised with length 1 *)
Definition Codec_ex_string : Codec_desc := [WItem (IField 1 U8 (ACount 2)); WBytes 2 (LCount 1) BStr].
Lemma Codec_nul_padded_string_refuted :
  Codec_wf Codec_ex_string = true /\
  Codec_parse Codec_ex_string [2; 97; 0] = Some ([(1%N, VF (FInt 2)); (2%N, VBytes [97])], 3%nat) /\
  Codec_pack Codec_ex_string [(1%N, VF (FInt 2)); (2%N, VBytes [97])] = Some [1; 97] /\
  Codec_parse_with Codec_adec true Codec_ex_string [2; 97; 0] = None /\
  Codec_parse_with Codec_adec_nots true Codec_ex_string [2; 195; 177] = Some ([(1%N, VF (FInt 2)); (2%N, VBytes [195; 177])], 3%nat).
Proof. vm_compute. repeat split; reflexivity. Qed.
