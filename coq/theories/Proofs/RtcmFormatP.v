(* C14, format level: the CRC-24Q table of rtcm_framer.cc is the table of polynomial 0x1864CFB;
   CRC24Hash() as written equals the bit-serial CRC-24Q on every byte string; judge_rtcm meets the
   requirements of Base/Scan.v (JudgeOK, JudgeLocal). *)
From Coq Require Import NArith List Bool Arith Lia.
From FEC Require Import Generated.RtcmConsts Generated.Crc24qTable Base.ListX Base.Bytes Base.Scan Models.RtcmFormatM.
Import ListNotations.
Open Scope N_scope.

(* ---- the table in the source = the table that follows from the polynomial ---- *)
Theorem crc24q_table_correct : crc24q_table_src = crc24q_table_computed.
Proof. vm_compute. reflexivity. Qed.

Lemma crc24q_table_length : length crc24q_table_src = 256%nat.
Proof. rewrite crc24q_table_correct. reflexivity. Qed.

(* ---- judge_rtcm and Scan ---- *)
Lemma Accept_inj0 a b : Accept a = Accept b -> a = b.
Proof. congruence. Qed.

Lemma nth_app_l (l x : list N) i : (i < length l)%nat -> nth i (l ++ x) 0 = nth i l 0.
Proof. intros. apply app_nth1. assumption. Qed.

Lemma firstn_app_le (l x : list N) n : (n <= length l)%nat -> firstn n (l ++ x) = firstn n l.
Proof. intros H. rewrite firstn_app. replace (n - length l)%nat with 0%nat by lia. cbn [firstn]. apply app_nil_r. Qed.

Theorem judge_rtcm_ok cap : JudgeOK (judge_rtcm cap).
Proof.
  constructor.
  - reflexivity.
  - intros l x. destruct l as [|b0 t]; [cbn; congruence|].
    unfold judge_rtcm. cbn [app].
    destruct (negb (N.eqb b0 SPEC_PREAMBLE)); [reflexivity|].
    change ((b0 :: t) ++ x) with ((b0 :: t) ++ x). set (l := b0 :: t).
    change (b0 :: t ++ x) with (l ++ x).
    destruct (Nat.ltb (length l) (N.to_nat SPEC_HEADER_BYTES)) eqn:E1; [congruence|]. apply Nat.ltb_ge in E1.
    assert (H3 : (3 <= length l)%nat) by exact E1.
    assert (Hx : Nat.ltb (length (l ++ x)) (N.to_nat SPEC_HEADER_BYTES) = false)
      by (apply Nat.ltb_ge; rewrite app_length; lia).
    rewrite Hx. rewrite !nth_app_l by lia.
    set (size := Nat.add (N.to_nat (rtcm_len (nth 1 l 0) (nth 2 l 0))) RTCM_OVERHEAD).
    destruct ((cap <? N.of_nat size) || (SPEC_HEADER_BYTES + SPEC_MAX_PAYLOAD + SPEC_CRC_BYTES <? N.of_nat size)); [reflexivity|].
    destruct (Nat.ltb (length l) size) eqn:E2; [congruence|]. apply Nat.ltb_ge in E2.
    assert (Hx2 : Nat.ltb (length (l ++ x)) size = false) by (apply Nat.ltb_ge; rewrite app_length; lia).
    rewrite Hx2. intros _.
    rewrite firstn_app_le by lia. rewrite sub_app_l; [reflexivity|].
    assert (6 <= size)%nat by (subst size; unfold RTCM_OVERHEAD; cbn; lia).
    change (N.to_nat SPEC_CRC_BYTES) with 3%nat. lia.
  - intros l n. destruct l as [|b0 t]; [cbn; congruence|].
    unfold judge_rtcm. set (l := b0 :: t).
    destruct (negb (N.eqb b0 SPEC_PREAMBLE)); [discriminate|].
    destruct (Nat.ltb (length l) (N.to_nat SPEC_HEADER_BYTES)); [discriminate|].
    set (size := Nat.add (N.to_nat (rtcm_len (nth 1 l 0) (nth 2 l 0))) RTCM_OVERHEAD).
    destruct ((cap <? N.of_nat size) || (SPEC_HEADER_BYTES + SPEC_MAX_PAYLOAD + SPEC_CRC_BYTES <? N.of_nat size)); [discriminate|].
    destruct (Nat.ltb (length l) size) eqn:E2; [discriminate|]. apply Nat.ltb_ge in E2.
    destruct (N.eqb (crc24q _) _); [|discriminate].
    intros H. apply Accept_inj0 in H. subst n. split; [|exact E2]. subst size. unfold RTCM_OVERHEAD. cbn. lia.
Qed.

Theorem judge_rtcm_local cap : JudgeLocal (judge_rtcm cap).
Proof.
  intros l n. destruct l as [|b0 t]; [cbn; congruence|].
  unfold judge_rtcm at 1. set (l := b0 :: t).
  destruct (negb (N.eqb b0 SPEC_PREAMBLE)) eqn:E0; [discriminate|].
  destruct (Nat.ltb (length l) (N.to_nat SPEC_HEADER_BYTES)) eqn:E1; [discriminate|]. apply Nat.ltb_ge in E1.
  assert (H3 : (3 <= length l)%nat) by exact E1.
  set (size := Nat.add (N.to_nat (rtcm_len (nth 1 l 0) (nth 2 l 0))) RTCM_OVERHEAD).
  destruct ((cap <? N.of_nat size) || (SPEC_HEADER_BYTES + SPEC_MAX_PAYLOAD + SPEC_CRC_BYTES <? N.of_nat size)) eqn:E3; [discriminate|].
  destruct (Nat.ltb (length l) size) eqn:E2; [discriminate|]. apply Nat.ltb_ge in E2.
  destruct (N.eqb (crc24q _) _) eqn:E4; [|discriminate].
  intros H. apply Accept_inj0 in H. subst n.
  assert (H6 : (6 <= size)%nat) by (subst size; unfold RTCM_OVERHEAD; cbn; lia).
  assert (Hl : length (firstn size l) = size) by (apply firstn_length_le; exact E2).
  assert (Hf : firstn size l = b0 :: firstn (pred size) t).
  { unfold l. rewrite <- firstn_cons. f_equal. lia. }
  unfold judge_rtcm. rewrite Hf at 1. rewrite E0.
  rewrite Hl.
  assert (Nat.ltb size (N.to_nat SPEC_HEADER_BYTES) = false) as -> by (apply Nat.ltb_ge; change (N.to_nat SPEC_HEADER_BYTES) with 3%nat; lia).
  assert (Hn1 : nth 1 (firstn size l) 0 = nth 1 l 0).
  { rewrite <- (firstn_skipn size l) at 2. rewrite app_nth1 by lia. reflexivity. }
  assert (Hn2 : nth 2 (firstn size l) 0 = nth 2 l 0).
  { rewrite <- (firstn_skipn size l) at 2. rewrite app_nth1 by lia. reflexivity. }
  rewrite Hn1, Hn2. fold size. rewrite E3, Nat.ltb_irrefl.
  rewrite firstn_firstn, Nat.min_l by lia.
  rewrite sub_firstn by (change (N.to_nat SPEC_CRC_BYTES) with 3%nat; lia).
  rewrite E4. reflexivity.
Qed.

(* what acceptance means, as listed in the property text *)
Theorem judge_rtcm_accept_inv cap l n :
  judge_rtcm cap l = Accept n ->
  nth 0 l 0 = SPEC_PREAMBLE /\ (3 <= length l)%nat /\
  n = Nat.add (N.to_nat (rtcm_len (nth 1 l 0) (nth 2 l 0))) 6 /\ (n <= length l)%nat /\ N.of_nat n <= cap /\
  crc24q (firstn (n - 3) l) = be (sub l (n - 3) 3).
Proof.
  destruct l as [|b0 t]; [cbn; congruence|].
  unfold judge_rtcm. set (l := b0 :: t).
  destruct (N.eqb b0 SPEC_PREAMBLE) eqn:E0; [|discriminate]. cbn [negb].
  destruct (Nat.ltb (length l) (N.to_nat SPEC_HEADER_BYTES)) eqn:E1; [discriminate|]. apply Nat.ltb_ge in E1.
  set (size := Nat.add (N.to_nat (rtcm_len (nth 1 l 0) (nth 2 l 0))) RTCM_OVERHEAD).
  destruct ((cap <? N.of_nat size) || (SPEC_HEADER_BYTES + SPEC_MAX_PAYLOAD + SPEC_CRC_BYTES <? N.of_nat size)) eqn:E3; [discriminate|].
  apply orb_false_iff in E3 as [E3 _].
  destruct (Nat.ltb (length l) size) eqn:E2; [discriminate|]. apply Nat.ltb_ge in E2.
  destruct (N.eqb (crc24q _) _) eqn:E4; [|discriminate].
  intros H. apply Accept_inj0 in H. subst n. apply N.eqb_eq in E0, E4. apply N.ltb_ge in E3.
  repeat split; try assumption.
Qed.

(* ---- CRC24Hash() as written (32-bit accumulator, table) = bit-serial CRC-24Q ---- *)
Definition M24 : N := 16777215.

Lemma lt_pow2_bits' x n : x < 2 ^ n <-> (forall k, n <= k -> N.testbit x k = false).
Proof.
  split.
  - intros H k Hk. destruct x as [|p]; [apply N.bits_0|].
    apply N.bits_above_log2. apply N.log2_lt_pow2 in H; lia.
  - intros H. destruct x as [|p]; [apply N.neq_0_lt_0, N.pow_nonzero; discriminate|].
    apply N.log2_lt_pow2; [lia|].
    destruct (N.ltb_spec (N.log2 (N.pos p)) n) as [|Hge]; [assumption|].
    specialize (H _ Hge). rewrite N.bit_log2 in H by discriminate. discriminate.
Qed.

Lemma poly_bits k : 25 <= k -> N.testbit crc24q_poly k = false.
Proof. intros H. apply (proj1 (lt_pow2_bits' crc24q_poly 25)); [reflexivity|exact H]. Qed.

Lemma q_step_bit_lt c : c < 2 ^ 24 -> q_step_bit c < 2 ^ 24.
Proof.
  intros H. rewrite lt_pow2_bits' in H. unfold q_step_bit.
  destruct (N.testbit (N.shiftl c 1) 24) eqn:E; apply lt_pow2_bits'; intros k Hk.
  - rewrite N.lxor_spec. destruct (N.eq_dec k 24) as [->|Hne].
    + rewrite E. reflexivity.
    + rewrite N.shiftl_spec_high' by lia. rewrite H by lia. rewrite poly_bits by lia. reflexivity.
  - destruct (N.eq_dec k 24) as [->|Hne]; [exact E|].
    rewrite N.shiftl_spec_high' by lia. apply H. lia.
Qed.

Lemma q_step8_lt c : c < 2 ^ 24 -> q_step8 c < 2 ^ 24.
Proof. intros H. unfold q_step8. do 8 apply q_step_bit_lt. exact H. Qed.

(* linearity in the low part: bits of z below 23 do not influence the reduction decision *)
Lemma q_step_bit_lxor x z : N.testbit z 23 = false -> q_step_bit (N.lxor x z) = N.lxor (q_step_bit x) (N.shiftl z 1).
Proof.
  intros Hz. unfold q_step_bit. rewrite N.shiftl_lxor, N.lxor_spec.
  assert (N.testbit (N.shiftl z 1) 24 = false) as -> by (rewrite N.shiftl_spec_high' by lia; exact Hz).
  rewrite xorb_false_r. destruct (N.testbit (N.shiftl x 1) 24); [|reflexivity].
  rewrite !N.lxor_assoc. f_equal. apply N.lxor_comm.
Qed.

Lemma testbit_shiftl_small lo k : lo < 2 ^ 16 -> k < 8 -> N.testbit (N.shiftl lo k) 23 = false.
Proof.
  intros H Hk. rewrite N.shiftl_spec_high' by lia. apply (proj1 (lt_pow2_bits' lo 16) H). lia.
Qed.

Lemma q_step8_split x lo : lo < 2 ^ 16 -> q_step8 (N.lxor x lo) = N.lxor (q_step8 x) (N.shiftl lo 8).
Proof.
  intros H. unfold q_step8.
  assert (H0 : lo = N.shiftl lo 0) by (rewrite N.shiftl_0_r; reflexivity). rewrite H0 at 1.
  do 8 (rewrite q_step_bit_lxor by (apply testbit_shiftl_small; [exact H|lia]); rewrite N.shiftl_shiftl; cbn [N.add Pos.add Pos.succ]).
  reflexivity.
Qed.

Lemma q_lookup_spec i : i < 256 -> q_lookup i = q_step8 (N.shiftl i 16).
Proof.
  intros Hi. unfold q_lookup. rewrite crc24q_table_correct. unfold crc24q_table_computed, q_range256.
  assert (Hn : (N.to_nat i < 256)%nat) by lia.
  rewrite (nth_indep _ 0 (q_step8 (N.shiftl (N.of_nat 0) 16))) by (rewrite !map_length, seq_length; exact Hn).
  rewrite map_map. rewrite (map_nth (fun x => q_step8 (N.shiftl (N.of_nat x) 16))).
  rewrite seq_nth by exact Hn. cbn [Nat.add]. rewrite N2Nat.id. reflexivity.
Qed.

Lemma land_ones_lt x n : N.land x (N.ones n) < 2 ^ n.
Proof. rewrite N.land_ones. apply N.mod_lt. apply N.pow_nonzero. discriminate. Qed.

Lemma land_lxor_distr a b c : N.land (N.lxor a b) c = N.lxor (N.land a c) (N.land b c).
Proof.
  apply N.bits_inj. intros n. rewrite N.lxor_spec, !N.land_spec, N.lxor_spec.
  destruct (N.testbit a n), (N.testbit b n), (N.testbit c n); reflexivity.
Qed.

Lemma q_upd_agree cm b : b < 256 ->
  N.land (q_upd_table cm b) M24 = q_upd_bits (N.land cm M24) b.
Proof.
  intros Hb. unfold q_upd_table, q_upd_bits.
  set (cs := N.land cm M24).
  set (hi := N.land (N.shiftr cm 16) 255). set (lo := N.land cm 65535).
  assert (Hhi : hi < 256) by (unfold hi; change 255 with (N.ones 8); apply (land_ones_lt _ 8)).
  assert (Hlo : lo < 2 ^ 16) by (unfold lo; change 65535 with (N.ones 16); apply land_ones_lt).
  assert (Hidx : N.lxor b hi < 256).
  { change 256 with (2 ^ 8). apply lt_pow2_bits'. intros k Hk. rewrite N.lxor_spec.
    rewrite (proj1 (lt_pow2_bits' b 8) Hb), (proj1 (lt_pow2_bits' hi 8) Hhi) by exact Hk. reflexivity. }
  rewrite q_lookup_spec by exact Hidx.
  assert (Hcs : cs = N.lxor (N.shiftl hi 16) lo).
  { unfold cs, hi, lo, M24. apply N.bits_inj. intros n.
    rewrite N.lxor_spec, !N.land_spec.
    change 16777215 with (N.ones 24). change 65535 with (N.ones 16). change 255 with (N.ones 8).
    destruct (N.ltb_spec n 16) as [Hn|Hn].
    - rewrite N.shiftl_spec_low by exact Hn. rewrite !N.ones_spec_low by lia. rewrite xorb_false_l. reflexivity.
    - rewrite N.shiftl_spec_high' by exact Hn. rewrite N.land_spec, N.shiftr_spec by lia.
      rewrite (N.ones_spec_high 16) by lia. rewrite andb_false_r, xorb_false_r.
      replace (n - 16 + 16) with n by lia.
      destruct (N.ltb_spec n 24) as [Hn2|Hn2].
      + rewrite !N.ones_spec_low by lia. reflexivity.
      + rewrite !N.ones_spec_high by lia. reflexivity. }
  assert (Hin : N.lxor cs (N.shiftl b 16) = N.lxor (N.shiftl (N.lxor b hi) 16) lo).
  { rewrite Hcs, N.shiftl_lxor. rewrite (N.lxor_comm (N.shiftl b 16)).
    rewrite !N.lxor_assoc. f_equal. apply N.lxor_comm. }
  rewrite Hin, q_step8_split by exact Hlo.
  assert (HT : q_step8 (N.shiftl (N.lxor b hi) 16) < 2 ^ 24).
  { apply q_step8_lt. change (2 ^ 24) with (2 ^ 8 * 2 ^ 16). rewrite N.shiftl_mul_pow2.
    apply N.mul_lt_mono_pos_r; [reflexivity|exact Hidx]. }
  rewrite land_lxor_distr. rewrite (N.lxor_comm (q_step8 _)).
  f_equal.
  - unfold lo, M24. apply N.bits_inj. intros n. rewrite N.land_spec.
    change 4294967296 with (2 ^ 32). rewrite <- N.land_ones, N.land_spec.
    change 16777215 with (N.ones 24). change 65535 with (N.ones 16).
    destruct (N.ltb_spec n 8) as [Hn|Hn].
    + rewrite !N.shiftl_spec_low by exact Hn. reflexivity.
    + rewrite !N.shiftl_spec_high' by exact Hn. rewrite N.land_spec.
      destruct (N.ltb_spec n 24) as [Hn2|Hn2].
      * rewrite !N.ones_spec_low by lia. rewrite !andb_true_r. reflexivity.
      * rewrite (N.ones_spec_high 24) by lia. rewrite (N.ones_spec_high 16) by lia. rewrite !andb_false_r. reflexivity.
  - unfold M24. change 16777215 with (N.ones 24). rewrite N.land_ones. apply N.mod_small. exact HT.
Qed.

Lemma crc24_fold_agree : forall l cm, Forall (fun b => b < 256) l ->
  N.land (fold_left q_upd_table l cm) M24 = fold_left q_upd_bits l (N.land cm M24).
Proof.
  induction l as [|b l IH]; intros cm H; [reflexivity|].
  inversion H as [|? ? Hb Hl]; subst. cbn [fold_left]. rewrite IH by exact Hl. rewrite q_upd_agree by exact Hb. reflexivity.
Qed.

(* CalculateCRC of the RTCM framer = CRC-24Q, on every byte string *)
Theorem crc24_hash_eq_spec l : Forall (fun b => b < 256) l -> crc24_hash l = crc24q l.
Proof.
  intros H. unfold crc24_hash, crc24q. change RTCM_CRC_MASK with M24. rewrite crc24_fold_agree by exact H. reflexivity.
Qed.
