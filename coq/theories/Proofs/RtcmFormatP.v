(* C14, format level: the CRC-24Q table of rtcm_framer.cc is the table of polynomial 0x1864CFB;
   CRC24Hash() as written equals the bit-serial CRC-24Q on every byte string; judge_rtcm meets the
   requirements of Base/Scan.v (JudgeOK, JudgeLocal). *)
From Coq Require Import NArith List Bool Arith Lia.
From FEC Require Import Generated.RtcmConsts Generated.Crc24qTable Base.ListX Base.Bytes Base.Scan Models.RtcmFormatM.
Import ListNotations.
Open Scope N_scope.

(* ---- the table in the source = the table that follows from the polynomial ---- *)
Theorem crc24q_table_correct : crc24q_table_src = crc24q_table_computed.
Proof. vm_compute. reflexivity. Qed.

Lemma crc24q_table_length : length crc24q_table_src = 256%nat.
Proof. rewrite crc24q_table_correct. reflexivity. Qed.

(* ---- judge_rtcm and Scan ---- *)
Lemma Accept_inj0 a b : Accept a = Accept b -> a = b.
Proof. congruence. Qed.

Lemma nth_app_l (l x : list N) i : (i < length l)%nat -> nth i (l ++ x) 0 = nth i l 0.
Proof. intros. apply app_nth1. assumption. Qed.

Lemma firstn_app_le (l x : list N) n : (n <= length l)%nat -> firstn n (l ++ x) = firstn n l.
Proof. intros H. rewrite firstn_app. replace (n - length l)%nat with 0%nat by lia. cbn [firstn]. apply app_nil_r. Qed.

Theorem judge_rtcm_ok cap : JudgeOK (judge_rtcm cap).
Proof.
  constructor.
  - reflexivity.
  - intros l x. destruct l as [|b0 t]; [cbn; congruence|].
    unfold judge_rtcm. cbn [app].
    destruct (negb (N.eqb b0 RTCM_PREAMBLE)); [reflexivity|].
    change ((b0 :: t) ++ x) with ((b0 :: t) ++ x). set (l := b0 :: t).
    change (b0 :: t ++ x) with (l ++ x).
    destruct (Nat.ltb (length l) (N.to_nat RTCM_HEADER_BYTES)) eqn:E1; [congruence|]. apply Nat.ltb_ge in E1.
    assert (H3 : (3 <= length l)%nat) by exact E1.
    assert (Hx : Nat.ltb (length (l ++ x)) (N.to_nat RTCM_HEADER_BYTES) = false)
      by (apply Nat.ltb_ge; rewrite app_length; lia).
    rewrite Hx. rewrite !nth_app_l by lia.
    set (size := Nat.add (N.to_nat (rtcm_len (nth 1 l 0) (nth 2 l 0))) RTCM_OVERHEAD).
    destruct ((cap <? N.of_nat size) || (RTCM_HEADER_BYTES + RTCM_MAX_PAYLOAD + RTCM_CRC_BYTES <? N.of_nat size)); [reflexivity|].
    destruct (Nat.ltb (length l) size) eqn:E2; [congruence|]. apply Nat.ltb_ge in E2.
    assert (Hx2 : Nat.ltb (length (l ++ x)) size = false) by (apply Nat.ltb_ge; rewrite app_length; lia).
    rewrite Hx2. intros _.
    rewrite firstn_app_le by lia. rewrite sub_app_l; [reflexivity|].
    assert (6 <= size)%nat by (subst size; unfold RTCM_OVERHEAD; cbn; lia).
    change (N.to_nat RTCM_CRC_BYTES) with 3%nat. lia.
  - intros l n. destruct l as [|b0 t]; [cbn; congruence|].
    unfold judge_rtcm. set (l := b0 :: t).
    destruct (negb (N.eqb b0 RTCM_PREAMBLE)); [discriminate|].
    destruct (Nat.ltb (length l) (N.to_nat RTCM_HEADER_BYTES)); [discriminate|].
    set (size := Nat.add (N.to_nat (rtcm_len (nth 1 l 0) (nth 2 l 0))) RTCM_OVERHEAD).
    destruct ((cap <? N.of_nat size) || (RTCM_HEADER_BYTES + RTCM_MAX_PAYLOAD + RTCM_CRC_BYTES <? N.of_nat size)); [discriminate|].
    destruct (Nat.ltb (length l) size) eqn:E2; [discriminate|]. apply Nat.ltb_ge in E2.
    destruct (N.eqb (crc24q _) _); [|discriminate].
    intros H. apply Accept_inj0 in H. subst n. split; [|exact E2]. subst size. unfold RTCM_OVERHEAD. cbn. lia.
Qed.

Theorem judge_rtcm_local cap : JudgeLocal (judge_rtcm cap).
Proof.
  intros l n. destruct l as [|b0 t]; [cbn; congruence|].
  unfold judge_rtcm at 1. set (l := b0 :: t).
  destruct (negb (N.eqb b0 RTCM_PREAMBLE)) eqn:E0; [discriminate|].
  destruct (Nat.ltb (length l) (N.to_nat RTCM_HEADER_BYTES)) eqn:E1; [discriminate|]. apply Nat.ltb_ge in E1.
  assert (H3 : (3 <= length l)%nat) by exact E1.
  set (size := Nat.add (N.to_nat (rtcm_len (nth 1 l 0) (nth 2 l 0))) RTCM_OVERHEAD).
  destruct ((cap <? N.of_nat size) || (RTCM_HEADER_BYTES + RTCM_MAX_PAYLOAD + RTCM_CRC_BYTES <? N.of_nat size)) eqn:E3; [discriminate|].
  destruct (Nat.ltb (length l) size) eqn:E2; [discriminate|]. apply Nat.ltb_ge in E2.
  destruct (N.eqb (crc24q _) _) eqn:E4; [|discriminate].
  intros H. apply Accept_inj0 in H. subst n.
  assert (H6 : (6 <= size)%nat) by (subst size; unfold RTCM_OVERHEAD; cbn; lia).
  assert (Hl : length (firstn size l) = size) by (apply firstn_length_le; exact E2).
  assert (Hf : firstn size l = b0 :: firstn (pred size) t).
  { unfold l. rewrite <- firstn_cons. f_equal. lia. }
  unfold judge_rtcm. rewrite Hf at 1. rewrite E0.
  rewrite Hl.
  assert (Nat.ltb size (N.to_nat RTCM_HEADER_BYTES) = false) as -> by (apply Nat.ltb_ge; change (N.to_nat RTCM_HEADER_BYTES) with 3%nat; lia).
  assert (Hn1 : nth 1 (firstn size l) 0 = nth 1 l 0).
  { rewrite <- (firstn_skipn size l) at 2. rewrite app_nth1 by lia. reflexivity. }
  assert (Hn2 : nth 2 (firstn size l) 0 = nth 2 l 0).
  { rewrite <- (firstn_skipn size l) at 2. rewrite app_nth1 by lia. reflexivity. }
  rewrite Hn1, Hn2. fold size. rewrite E3, Nat.ltb_irrefl.
  rewrite firstn_firstn, Nat.min_l by lia.
  rewrite sub_firstn by (change (N.to_nat RTCM_CRC_BYTES) with 3%nat; lia).
  rewrite E4. reflexivity.
Qed.

(* what acceptance means, as listed in the property text *)
Theorem judge_rtcm_accept_inv cap l n :
  judge_rtcm cap l = Accept n ->
  nth 0 l 0 = RTCM_PREAMBLE /\ (3 <= length l)%nat /\
  n = Nat.add (N.to_nat (rtcm_len (nth 1 l 0) (nth 2 l 0))) 6 /\ (n <= length l)%nat /\ N.of_nat n <= cap /\
  crc24q (firstn (n - 3) l) = be (sub l (n - 3) 3).
Proof.
  destruct l as [|b0 t]; [cbn; congruence|].
  unfold judge_rtcm. set (l := b0 :: t).
  destruct (N.eqb b0 RTCM_PREAMBLE) eqn:E0; [|discriminate]. cbn [negb].
  destruct (Nat.ltb (length l) (N.to_nat RTCM_HEADER_BYTES)) eqn:E1; [discriminate|]. apply Nat.ltb_ge in E1.
  set (size := Nat.add (N.to_nat (rtcm_len (nth 1 l 0) (nth 2 l 0))) RTCM_OVERHEAD).
  destruct ((cap <? N.of_nat size) || (RTCM_HEADER_BYTES + RTCM_MAX_PAYLOAD + RTCM_CRC_BYTES <? N.of_nat size)) eqn:E3; [discriminate|].
  apply orb_false_iff in E3 as [E3 _].
  destruct (Nat.ltb (length l) size) eqn:E2; [discriminate|]. apply Nat.ltb_ge in E2.
  destruct (N.eqb (crc24q _) _) eqn:E4; [|discriminate].
  intros H. apply Accept_inj0 in H. subst n. apply N.eqb_eq in E0, E4. apply N.ltb_ge in E3.
  repeat split; try assumption.
Qed.
