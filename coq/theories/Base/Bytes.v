(* bytes are N (< 256); little-endian integer fields *)
From Coq Require Import NArith ZArith List Bool Lia.
From FEC Require Import Base.ListX.
Import ListNotations.
Open Scope N_scope.
Ltac Zify.zify_post_hook ::= Z.to_euclidean_division_equations.

Definition byte_ok (b : N) : Prop := b < 256.
Definition bytes_wf (l : list N) : Prop := Forall byte_ok l.

(* little-endian value of a byte string *)
Fixpoint le (l : list N) : N :=
  match l with [] => 0 | b :: t => b + 256 * le t end.

(* little-endian encoding of v in n bytes (v mod 256^n) *)
Fixpoint le_enc (n : nat) (v : N) : list N :=
  match n with O => [] | S k => (v mod 256) :: le_enc k (v / 256) end.

Definition sub (l : list N) (a n : nat) : list N := firstn n (skipn a l).

Lemma le_enc_length n : forall v, length (le_enc n v) = n.
Proof. induction n; intros; cbn [le_enc length]; [reflexivity|]. rewrite IHn. reflexivity. Qed.

Lemma le_enc_wf n : forall v, bytes_wf (le_enc n v).
Proof.
  induction n; intros v; cbn [le_enc]; constructor; [|apply IHn].
  unfold byte_ok. apply N.mod_lt. discriminate.
Qed.

Lemma le_le_enc n : forall v, v < 256 ^ N.of_nat n -> le (le_enc n v) = v.
Proof.
  induction n as [|n IH]; intros v Hv.
  - cbn in *. lia.
  - cbn [le_enc le]. rewrite IH.
    + pose proof (N.div_mod v 256). lia.
    + rewrite Nat2N.inj_succ, N.pow_succ_r' in Hv. apply N.div_lt_upper_bound; lia.
Qed.

Lemma le_bound : forall l, bytes_wf l -> le l < 256 ^ N.of_nat (length l).
Proof.
  induction l as [|b t IH]; intros H.
  - cbn. lia.
  - inversion H as [|? ? Hb Ht]; subst. specialize (IH Ht). cbn [le length].
    rewrite Nat2N.inj_succ, N.pow_succ_r'. unfold byte_ok in Hb. nia.
Qed.

Lemma le_enc_le : forall l, bytes_wf l -> le_enc (length l) (le l) = l.
Proof.
  induction l as [|b t IH]; intros H; [reflexivity|].
  inversion H as [|? ? Hb Ht]; subst. cbn [le length le_enc]. unfold byte_ok in Hb.
  assert ((b + 256 * le t) mod 256 = b) as -> by lia.
  assert ((b + 256 * le t) / 256 = le t) as -> by lia.
  rewrite IH by exact Ht. reflexivity.
Qed.

Lemma sub_app_l l x a n : (a + n <= length l)%nat -> sub (l ++ x) a n = sub l a n.
Proof.
  intros H. unfold sub. rewrite skipn_app, firstn_app, skipn_length.
  replace (n - (length l - a))%nat with 0%nat by lia. cbn [firstn]. rewrite app_nil_r. reflexivity.
Qed.

Lemma sub_length l a n : (a + n <= length l)%nat -> length (sub l a n) = n.
Proof. intros H. unfold sub. rewrite firstn_length, skipn_length. lia. Qed.

Lemma sub_firstn l a n m : (a + n <= m)%nat -> sub (firstn m l) a n = sub l a n.
Proof.
  intros H. unfold sub. rewrite skipn_firstn_comm, firstn_firstn. f_equal. lia.
Qed.

Lemma bytes_wf_sub l a n : bytes_wf l -> bytes_wf (sub l a n).
Proof. intros H. unfold bytes_wf, sub. apply Forall_firstn, Forall_skipn. exact H. Qed.
