(* Byte accounting for the scanner: nothing is lost silently.  Every byte position before the residual
   is either a reachable position at which [judge] said Reject (one skipped byte) or lies inside exactly
   one returned frame; the residual itself starts at a reachable position and is undecided.  Together with
   [scan_exact] (which frames) and [scan_separated] (no overlap) this pins the whole output of a scan. *)
From Coq Require Import List Arith Lia Bool.
From FEC Require Import Base.ListX Base.Scan Base.ScanSpec.
Import ListNotations.

Section ScanCover.
  Context {B : Type}.
  Variable judge : list B -> verdict.
  Hypothesis OK : JudgeOK judge.

  Definition skipped (s : list B) (p : nat) : Prop := reach judge s p /\ judge (skipn p s) = Reject.
  Definition in_frame (fs : list (nat * list B)) (p : nat) : Prop :=
    exists o bs, In (o, bs) fs /\ o <= p < o + length bs.

  Lemma scan_aux_cover : forall f s off fs off' r,
    length (skipn off s) < f -> reach judge s off ->
    scan_aux judge f off (skipn off s) = (fs, (off', r)) ->
    reach judge s off' /\ r = skipn off' s /\
    forall p, off <= p < off' -> skipped s p \/ in_frame fs p.
  Proof.
    induction f as [|f IH]; intros s off fs off' r Hf Hr E; [lia|].
    rewrite scan_aux_unfold in E. destruct (judge (skipn off s)) as [n| |] eqn:J.
    - pose proof (j_bound judge OK _ _ J) as Hn.
      rewrite skipn_skipn in E.
      destruct (scan_aux judge f (off + n) (skipn (off + n) s)) as [fs1 [o1 r1]] eqn:E1.
      injection E as <- <- <-.
      assert (Hr' : reach judge s (off + n)) by (apply reach_acc; assumption).
      apply IH in E1; [|rewrite <- skipn_skipn, skipn_length; lia|exact Hr'].
      destruct E1 as (R1 & R2 & R3). split; [exact R1|]. split; [exact R2|].
      intros p Hp. destruct (Nat.lt_ge_cases p (off + n)) as [Hlt|Hge].
      + right. exists off, (firstn n (skipn off s)). split; [left; reflexivity|].
        rewrite firstn_length_le by lia. lia.
      + destruct (R3 p) as [Hs|(o & bs & Hin & Hb)]; [lia|left; exact Hs|].
        right. exists o, bs. split; [right; exact Hin|exact Hb].
    - assert (Hne : skipn off s <> []) by (apply (judge_nonnil judge OK); congruence).
      rewrite (tl_skipn off s) in E.
      assert (Hr' : reach judge s (S off)) by (apply reach_rej; assumption).
      apply IH in E; [| |exact Hr'].
      + destruct E as (R1 & R2 & R3). split; [exact R1|]. split; [exact R2|].
        intros p Hp. destruct (Nat.eq_dec p off) as [->|Hne'].
        * left. split; assumption.
        * apply R3. lia.
      + rewrite <- (tl_skipn off s). destruct (skipn off s); [congruence|]. cbn in *. lia.
    - injection E as <- <- <-. split; [exact Hr|]. split; [reflexivity|]. intros p Hp. lia.
  Qed.

  (* SPEC: byte accounting of a whole scan *)
  Theorem scan_cover s fs off' r :
    scan judge 0 s = (fs, (off', r)) ->
    reach judge s off' /\ r = skipn off' s /\ judge r = More /\
    forall p, p < off' -> skipped s p \/ in_frame fs p.
  Proof.
    intros E. pose proof (scan_resid judge OK _ _ _ _ _ E) as (Hm & _).
    destruct (scan_aux_cover (S (length s)) s 0 fs off' r) as (R1 & R2 & R3).
    - cbn [skipn]. lia.
    - apply reach0.
    - exact E.
    - split; [exact R1|]. split; [exact R2|]. split; [exact Hm|]. intros p Hp. apply R3. lia.
  Qed.

  (* the two cases exclude each other: a skipped byte is in no returned frame *)
  Lemma separated_lo : forall (fs : list (nat * list B)) lo o bs, separated lo fs -> In (o, bs) fs -> lo <= o.
  Proof.
    induction fs as [|[o1 b1] rest IH]; intros lo o bs Hs Hin; [destruct Hin|].
    cbn [separated] in Hs. destruct Hs as (H1 & H2). destruct Hin as [Heq|Hin].
    - injection Heq as <- <-. exact H1.
    - specialize (IH _ _ _ H2 Hin). lia.
  Qed.

  (* a position lies in at most one returned frame *)
  Theorem in_frame_unique : forall (fs : list (nat * list B)) lo p o1 b1 o2 b2, separated lo fs ->
    In (o1, b1) fs -> o1 <= p < o1 + length b1 ->
    In (o2, b2) fs -> o2 <= p < o2 + length b2 -> o1 = o2.
  Proof.
    induction fs as [|[o b] rest IH]; intros lo p o1 b1 o2 b2 Hs H1 P1 H2 P2; [destruct H1|].
    cbn [separated] in Hs. destruct Hs as (Hlo & Hrest).
    destruct H1 as [E1|H1], H2 as [E2|H2].
    - injection E1 as <- <-. injection E2 as <- <-. reflexivity.
    - injection E1 as <- <-. pose proof (separated_lo _ _ _ _ Hrest H2). lia.
    - injection E2 as <- <-. pose proof (separated_lo _ _ _ _ Hrest H1). lia.
    - eapply IH; eassumption.
  Qed.

  (* the same for a streaming decoder: however the bytes are cut into chunks, starting from the empty
     buffer at offset 0, every byte is in one returned frame, skipped at a reachable Reject, or still
     buffered (and then the buffer is exactly the remaining suffix, undecided) *)
  Theorem feed_all_cover chunks fs off' r :
    feed_all judge (0, []) chunks = (fs, (off', r)) ->
    let s := concat chunks in
    reach judge s off' /\ r = skipn off' s /\ judge r = More /\
    forall p, p < off' -> skipped s p \/ in_frame fs p.
  Proof.
    intros E. rewrite (feed_all_concat judge OK) in E by (unfold wf_state; apply (j_nil judge OK)).
    unfold feed in E. cbn [fst snd app] in E. apply scan_cover. exact E.
  Qed.

End ScanCover.

(* instance for the FusionEngine wire format: a scan of any byte string accounts for every byte *)
From FEC Require Import Base.Bytes Base.FEFormat.
Theorem fe_scan_cover eager cr mp s fs off' r :
  scan (judge_fe eager cr mp) 0 s = (fs, (off', r)) ->
  reach (judge_fe eager cr mp) s off' /\ r = skipn off' s /\ judge_fe eager cr mp r = More /\
  forall p, p < off' -> skipped (judge_fe eager cr mp) s p \/ in_frame fs p.
Proof. apply scan_cover. apply judge_fe_ok. Qed.
Print Assumptions fe_scan_cover.

Theorem fe_feed_all_cover eager cr mp chunks fs off' r :
  feed_all (judge_fe eager cr mp) (0, []) chunks = (fs, (off', r)) ->
  let s := concat chunks in
  reach (judge_fe eager cr mp) s off' /\ r = skipn off' s /\ judge_fe eager cr mp r = More /\
  forall p, p < off' -> skipped (judge_fe eager cr mp) s p \/ in_frame fs p.
Proof. apply feed_all_cover. apply judge_fe_ok. Qed.
Print Assumptions fe_feed_all_cover.
