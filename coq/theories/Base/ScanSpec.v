(* Declarative reading of the scanner: the positions a left-to-right scan visits ("reachable": the start,
   one past a rejected position, or the end of an accepted frame) and the theorem that the frames
   [scan] returns are exactly the accepted frames at reachable positions — i.e. "the messages a
   left-to-right scan accepts, not starting inside a previously accepted message". *)
From Coq Require Import List Arith Lia Bool.
From FEC Require Import Base.ListX Base.Scan.
Import ListNotations.

Section ScanSpec.
  Context {B : Type}.
  Variable judge : list B -> verdict.
  Hypothesis OK : JudgeOK judge.

  Inductive reach (s : list B) : nat -> Prop :=
  | reach0 : reach s 0
  | reach_rej p : reach s p -> judge (skipn p s) = Reject -> reach s (S p)
  | reach_acc p n : reach s p -> judge (skipn p s) = Accept n -> reach s (p + n).

  Definition is_frame (s : list B) (p : nat) (bs : list B) : Prop :=
    reach s p /\ exists n, judge (skipn p s) = Accept n /\ bs = firstn n (skipn p s).

  Lemma tl_skipn p (s : list B) : tl (skipn p s) = skipn (S p) s.
  Proof.
    replace (S p) with (p + 1) by lia. rewrite <- skipn_skipn.
    destruct (skipn p s); reflexivity.
  Qed.

  (* one unfolding of scan at a decided position *)
  Lemma scan_at_reject p s : judge (skipn p s) = Reject ->
    scan judge p (skipn p s) = scan judge (S p) (skipn (S p) s).
  Proof.
    intros J. assert (Hne : skipn p s <> []) by (apply (judge_nonnil judge OK); congruence).
    unfold scan at 1. rewrite scan_aux_unfold, J. rewrite tl_skipn.
    symmetry. apply scan_eq_aux; [exact OK|].
    rewrite <- tl_skipn. destruct (skipn p s); [congruence|]. cbn. lia.
  Qed.

  Lemma scan_at_accept p n s : judge (skipn p s) = Accept n ->
    scan judge p (skipn p s) =
    let '(fs, st) := scan judge (p + n) (skipn (p + n) s) in ((p, firstn n (skipn p s)) :: fs, st).
  Proof.
    intros J. pose proof (j_bound judge OK _ _ J) as Hn.
    unfold scan at 1. rewrite scan_aux_unfold, J. rewrite skipn_skipn.
    rewrite <- (scan_eq_aux judge OK (length (skipn p s))).
    - reflexivity.
    - rewrite <- skipn_skipn, skipn_length. lia.
  Qed.

  (* the scan from the start passes through every reachable position *)
  Lemma reach_visited s p : reach s p ->
    exists fs1, fst (scan judge 0 s) = fs1 ++ fst (scan judge p (skipn p s)) /\
                snd (scan judge 0 s) = snd (scan judge p (skipn p s)) /\
                (forall o bs, In (o, bs) fs1 -> o < p).
  Proof.
    induction 1 as [|p Hr IH J|p n Hr IH J].
    - exists []. cbn [skipn app]. repeat split; auto. intros o bs [].
    - destruct IH as (fs1 & E1 & E2 & E3). exists fs1. rewrite E1, E2, (scan_at_reject p s J).
      repeat split; auto. intros o bs Hin. specialize (E3 _ _ Hin). lia.
    - destruct IH as (fs1 & E1 & E2 & E3).
      pose proof (j_bound judge OK _ _ J) as Hn.
      exists (fs1 ++ [(p, firstn n (skipn p s))]). rewrite E1, E2, (scan_at_accept p n s J).
      destruct (scan judge (p + n) (skipn (p + n) s)) as [fs st]. cbn [fst snd].
      rewrite <- app_assoc. repeat split; auto.
      intros o bs Hin. apply in_app_iff in Hin. destruct Hin as [Hin|[Heq|[]]].
      + specialize (E3 _ _ Hin). lia.
      + injection Heq as <- _. lia.
  Qed.

  (* every frame returned starts at a reachable position and is the accepted frame there *)
  Lemma scan_aux_sound : forall f s off fs st,
    length (skipn off s) < f -> reach s off ->
    scan_aux judge f off (skipn off s) = (fs, st) ->
    forall o bs, In (o, bs) fs -> is_frame s o bs.
  Proof.
    induction f as [|f IH]; intros s off fs st Hf Hr E o bs Hin; [lia|].
    rewrite scan_aux_unfold in E. destruct (judge (skipn off s)) as [n| |] eqn:J.
    - pose proof (j_bound judge OK _ _ J) as Hn.
      rewrite skipn_skipn in E.
      destruct (scan_aux judge f (off + n) (skipn (off + n) s)) as [fs1 st1] eqn:E1. injection E as <- <-.
      destruct Hin as [Heq|Hin].
      + injection Heq as <- <-. split; [exact Hr|]. exists n. split; [exact J|reflexivity].
      + eapply IH; [| |exact E1|exact Hin].
        * rewrite <- skipn_skipn, skipn_length. lia.
        * apply reach_acc; assumption.
    - assert (Hne : skipn off s <> []) by (apply (judge_nonnil judge OK); congruence).
      rewrite tl_skipn in E. eapply IH; [| |exact E|exact Hin].
      + rewrite <- tl_skipn. destruct (skipn off s); [congruence|]. cbn in *. lia.
      + apply reach_rej; assumption.
    - injection E as <- <-. destruct Hin.
  Qed.

  (* SPEC characterisation: the scanner returns exactly the accepted frames at reachable positions *)
  Theorem scan_exact s fs st :
    scan judge 0 s = (fs, st) -> forall o bs, In (o, bs) fs <-> is_frame s o bs.
  Proof.
    intros E o bs. split.
    - intros Hin. eapply (scan_aux_sound (S (length s)) s 0); [cbn [skipn]; lia|apply reach0|exact E|exact Hin].
    - intros (Hr & n & J & ->). destruct (reach_visited _ _ Hr) as (fs1 & E1 & _ & _).
      rewrite E in E1. cbn [fst] in E1. rewrite E1, (scan_at_accept o n s J).
      destruct (scan judge (o + n) (skipn (o + n) s)) as [fs2 st2]. cbn [fst].
      apply in_app_iff. right. left. reflexivity.
  Qed.

  (* frames never start inside a previously accepted frame: offsets strictly increase by at least the
     previous frame's length *)
  Fixpoint separated (lo : nat) (fs : list (nat * list B)) : Prop :=
    match fs with
    | [] => True
    | (o, bs) :: rest => lo <= o /\ separated (o + length bs) rest
    end.

  Lemma frames_ok_separated base stream : forall fs lo, frames_ok judge base stream lo fs -> separated lo fs.
  Proof.
    induction fs as [|[o bs] rest IH]; intros lo H; [exact I|].
    cbn [frames_ok] in H. destruct H as (H1 & _ & _ & _ & H5). cbn [separated]. split; [exact H1|apply IH; exact H5].
  Qed.

  Theorem scan_separated s fs st : scan judge 0 s = (fs, st) -> separated 0 fs.
  Proof. intros E. eapply frames_ok_separated. eapply scan_frames_ok; eassumption. Qed.

End ScanSpec.
