(* CRC-32 (reflected, polynomial from crc.cc): bit-serial SPEC, table-driven MODEL mirroring
   GetCRCTable()/CalculateCRC() of crc.cc, their equality for every buffer and initial value, and
   incremental computation.  zlib.crc32 (Python) is external: tied to [crc32_from] by correspondence. *)
From Coq Require Import NArith List Bool Lia.
From FEC Require Import Generated.FEConsts.
Import ListNotations.
Open Scope N_scope.

(* ---- definitions --------------------------------------------------------------------------- *)
Definition step_bit (c : N) : N :=
  if N.testbit c 0 then N.lxor crc_poly (N.shiftr c 1) else N.shiftr c 1.

Definition step8 (c : N) : N :=
  step_bit (step_bit (step_bit (step_bit (step_bit (step_bit (step_bit (step_bit c))))))).

(* SPEC: consume one byte bit by bit *)
Definition upd_bits (c b : N) : N := step8 (N.lxor c b).

(* MODEL: the table built by the initialisation loop of GetCRCTable(), and the table-driven update *)
Definition range256 : list N := map N.of_nat (seq 0 256).
Definition crc_table : list N := map step8 range256.
Definition table_lookup (i : N) : N := nth (N.to_nat i) crc_table 0.
Definition upd_table (c b : N) : N :=
  N.lxor (table_lookup (N.land (N.lxor c b) 255)) (N.shiftr c 8).

Definition crc_fold (upd : N -> N -> N) (c : N) (l : list N) : N := fold_left upd l c.

(* CalculateCRC(buffer, length, initial_value) / zlib.crc32(data, value) *)
Definition crc32_from_with (upd : N -> N -> N) (init : N) (l : list N) : N :=
  N.lxor (crc_fold upd (N.lxor init crc_xor) l) crc_xor.
Definition crc32_from := crc32_from_with upd_table.      (* as crc.cc computes it *)
Definition crc32_spec_from := crc32_from_with upd_bits.  (* bit-serial definition *)
Definition crc32 (l : list N) : N := crc32_from 0 l.
Definition crc32_spec (l : list N) : N := crc32_spec_from 0 l.

Definition bytes_ok (l : list N) : Prop := Forall (fun b => b < 256) l.
Definition bytes_okb (l : list N) : bool := forallb (fun b => b <? 256) l.

(* ---- table-driven = bit-serial -------------------------------------------------------------- *)
Lemma step_bit_lxor x y : N.testbit y 0 = false ->
  step_bit (N.lxor x y) = N.lxor (step_bit x) (N.shiftr y 1).
Proof.
  intros Hy. unfold step_bit. rewrite N.lxor_spec, Hy, xorb_false_r, N.shiftr_lxor.
  destruct (N.testbit x 0); [rewrite N.lxor_assoc|]; reflexivity.
Qed.

Lemma testbit_shiftr_shiftl8 h k : k < 8 -> N.testbit (N.shiftr (N.shiftl h 8) k) 0 = false.
Proof. intros Hk. rewrite N.shiftr_spec by lia. rewrite N.shiftl_spec_low by lia. reflexivity. Qed.

Lemma shiftr_shiftr1 y k : N.shiftr (N.shiftr y k) 1 = N.shiftr y (k + 1).
Proof. apply N.shiftr_shiftr. Qed.

Lemma step8_split lo h : step8 (N.lxor lo (N.shiftl h 8)) = N.lxor (step8 lo) h.
Proof.
  unfold step8. set (y := N.shiftl h 8).
  assert (H0 : y = N.shiftr y 0) by (rewrite N.shiftr_0_r; reflexivity).
  rewrite H0 at 1.
  do 8 (rewrite step_bit_lxor by (apply testbit_shiftr_shiftl8; lia); rewrite shiftr_shiftr1; cbn [N.add Pos.add Pos.succ]).
  subst y. rewrite N.shiftr_shiftl_l by lia. rewrite N.sub_diag, N.shiftl_0_r. reflexivity.
Qed.

Lemma split_low8 v : v = N.lxor (N.land v 255) (N.shiftl (N.shiftr v 8) 8).
Proof.
  apply N.bits_inj. intros n. rewrite N.lxor_spec, N.land_spec.
  change 255 with (N.ones 8).
  destruct (N.ltb_spec n 8) as [Hn|Hn].
  - rewrite N.ones_spec_low by lia. rewrite N.shiftl_spec_low by lia.
    rewrite andb_true_r, xorb_false_r. reflexivity.
  - rewrite N.ones_spec_high by lia. rewrite N.shiftl_spec_high' by lia. rewrite N.shiftr_spec by lia.
    rewrite andb_false_r, xorb_false_l. f_equal. lia.
Qed.

Lemma table_lookup_spec i : i < 256 -> table_lookup i = step8 i.
Proof.
  intros Hi. unfold table_lookup, crc_table, range256.
  assert (Hn : (N.to_nat i < 256)%nat) by lia.
  rewrite (nth_indep _ 0 (step8 (N.of_nat 0))) by (rewrite !map_length, seq_length; exact Hn).
  rewrite map_map. rewrite (map_nth (fun x => step8 (N.of_nat x))).
  rewrite seq_nth by exact Hn. cbn [Nat.add]. rewrite N2Nat.id. reflexivity.
Qed.

Lemma land255_lt v : N.land v 255 < 256.
Proof.
  change 255 with (N.ones 8). rewrite N.land_ones. apply N.mod_lt. discriminate.
Qed.

Theorem upd_table_eq_bits c b : b < 256 -> upd_table c b = upd_bits c b.
Proof.
  intros Hb. unfold upd_table, upd_bits.
  rewrite table_lookup_spec by apply land255_lt.
  rewrite (split_low8 (N.lxor c b)) at 2. rewrite step8_split. f_equal.
  rewrite N.shiftr_lxor. replace (N.shiftr b 8) with 0; [symmetry; apply N.lxor_0_r|].
  symmetry. apply N.shiftr_eq_0. destruct b as [|p]; [reflexivity|].
  apply N.log2_lt_pow2; [lia|]. exact Hb.
Qed.

Theorem crc_fold_table_eq_bits : forall l c, bytes_ok l -> crc_fold upd_table c l = crc_fold upd_bits c l.
Proof.
  induction l as [|b l IH]; intros c H; [reflexivity|].
  inversion H as [|? ? Hb Hl]; subst. cbn [crc_fold fold_left].
  rewrite upd_table_eq_bits by exact Hb. apply IH. exact Hl.
Qed.

(* the two CRC routines return the same value for every buffer and every initial value *)
Theorem crc32_from_eq_spec init l : bytes_ok l -> crc32_from init l = crc32_spec_from init l.
Proof. intros H. unfold crc32_from, crc32_spec_from, crc32_from_with. rewrite crc_fold_table_eq_bits by exact H. reflexivity. Qed.

(* ---- incremental computation ---------------------------------------------------------------- *)
Lemma lxor_xor_cancel x : N.lxor (N.lxor x crc_xor) crc_xor = x.
Proof. rewrite N.lxor_assoc, N.lxor_nilpotent, N.lxor_0_r. reflexivity. Qed.

Theorem crc32_from_app upd init a b :
  crc32_from_with upd init (a ++ b) = crc32_from_with upd (crc32_from_with upd init a) b.
Proof.
  unfold crc32_from_with, crc_fold. rewrite fold_left_app, lxor_xor_cancel. reflexivity.
Qed.

(* ---- 32-bit range --------------------------------------------------------------------------- *)
Definition u32 (x : N) : Prop := x < 2 ^ 32.

Lemma lt_pow2_bits x n : x < 2 ^ n <-> (forall k, n <= k -> N.testbit x k = false).
Proof.
  split.
  - intros H k Hk. destruct x as [|p]; [apply N.bits_0|].
    apply N.bits_above_log2. apply N.log2_lt_pow2 in H; lia.
  - intros H. destruct x as [|p]; [apply N.neq_0_lt_0, N.pow_nonzero; discriminate|].
    apply N.log2_lt_pow2; [lia|].
    destruct (N.ltb_spec (N.log2 (N.pos p)) n) as [|Hge]; [assumption|].
    specialize (H _ Hge). rewrite N.bit_log2 in H by discriminate. discriminate.
Qed.

Lemma u32_lxor x y : u32 x -> u32 y -> u32 (N.lxor x y).
Proof.
  unfold u32. rewrite !lt_pow2_bits. intros Hx Hy k Hk. rewrite N.lxor_spec, Hx, Hy by assumption. reflexivity.
Qed.

Lemma u32_shiftr x n : u32 x -> u32 (N.shiftr x n).
Proof.
  unfold u32. rewrite !lt_pow2_bits. intros Hx k Hk. rewrite N.shiftr_spec by lia. apply Hx. lia.
Qed.

Lemma u32_poly : u32 crc_poly.  Proof. unfold u32, crc_poly. reflexivity. Qed.
Lemma u32_xor : u32 crc_xor.  Proof. unfold u32, crc_xor. reflexivity. Qed.

Lemma u32_step_bit c : u32 c -> u32 (step_bit c).
Proof.
  intros H. unfold step_bit. destruct (N.testbit c 0).
  - apply u32_lxor; [apply u32_poly|apply u32_shiftr; exact H].
  - apply u32_shiftr; exact H.
Qed.

Lemma u32_upd_bits c b : u32 c -> b < 256 -> u32 (upd_bits c b).
Proof.
  intros Hc Hb. unfold upd_bits, step8. do 8 apply u32_step_bit. apply u32_lxor; [exact Hc|].
  unfold u32. eapply N.lt_trans; [exact Hb|reflexivity].
Qed.

Lemma u32_crc_fold_bits : forall l c, u32 c -> bytes_ok l -> u32 (crc_fold upd_bits c l).
Proof.
  induction l as [|b l IH]; intros c Hc H; [exact Hc|].
  inversion H; subst. cbn [crc_fold fold_left]. apply IH; [apply u32_upd_bits; assumption|assumption].
Qed.

Theorem crc32_from_u32 init l : u32 init -> bytes_ok l -> u32 (crc32_from init l).
Proof.
  intros Hi Hl. rewrite crc32_from_eq_spec by exact Hl. unfold crc32_spec_from, crc32_from_with.
  apply u32_lxor; [|apply u32_xor]. apply u32_crc_fold_bits; [|exact Hl]. apply u32_lxor; [exact Hi|apply u32_xor].
Qed.

(* sanity: the standard check value, CRC-32("123456789") = 0xCBF43926 *)
Example crc32_check_value : crc32 [49;50;51;52;53;54;55;56;57] = 3421780262.
Proof. vm_compute. reflexivity. Qed.
