(* FusionEngine wire format: the 24-byte message header and the acceptance test ("judge") a
   left-to-right scan applies at one position, with proofs that it meets the requirements of Base/Scan.v.
   Layout '<BBHIBBHIII' (checked against the source by translators/gen_fe.py):
     0 sync0  1 sync1  2-3 reserved  4-7 crc  8 protocol_version  9 message_version
     10-11 message_type  12-15 sequence_number  16-19 payload_size_bytes  20-23 source_identifier
   The CRC covers bytes 8 .. 24+payload_size. *)
From Coq Require Import NArith List Bool Lia Arith.
From FEC Require Import Generated.FEConsts Base.ListX Base.Bytes Base.Crc32 Base.Scan.
Import ListNotations.

Record header := mkHeader {
  h_sync0 : N; h_sync1 : N; h_reserved : N; h_crc : N; h_proto : N; h_msgver : N;
  h_type : N; h_seq : N; h_psize : N; h_source : N }.

Definition parse_header (l : list N) : header :=
  {| h_sync0 := le (sub l 0 1); h_sync1 := le (sub l 1 1); h_reserved := le (sub l 2 2);
     h_crc := le (sub l 4 4); h_proto := le (sub l 8 1); h_msgver := le (sub l 9 1);
     h_type := le (sub l 10 2); h_seq := le (sub l 12 4); h_psize := le (sub l 16 4);
     h_source := le (sub l 20 4) |}.

Definition pack_header (h : header) : list N :=
  le_enc 1 (h_sync0 h) ++ le_enc 1 (h_sync1 h) ++ le_enc 2 (h_reserved h) ++ le_enc 4 (h_crc h) ++
  le_enc 1 (h_proto h) ++ le_enc 1 (h_msgver h) ++ le_enc 2 (h_type h) ++ le_enc 4 (h_seq h) ++
  le_enc 4 (h_psize h) ++ le_enc 4 (h_source h).

(* the region the CRC protects, for a message of total size n starting at the head of l *)
Definition crc_region (l : list N) (n : nat) : list N := sub l 8 (n - 8).

(* byte-wise framers reject as soon as a sync byte is wrong *)
Definition sync_mismatch_early (l : list N) : bool :=
  match l with
  | [] => false
  | b0 :: t => if negb (N.eqb b0 SYNC0) then true
               else match t with [] => false | b1 :: _ => negb (N.eqb b1 SYNC1) end
  end.

(* eager: reject on the first wrong sync byte (C++ framer); lazy: wait for 24 bytes (Python decoder, indexer).
   check_reserved: require the reserved field to be 0.  max_payload: largest acceptable payload_size. *)
Definition judge_fe (eager check_reserved : bool) (max_payload : N) (l : list N) : verdict :=
  if eager && sync_mismatch_early l then Reject else
  if Nat.ltb (length l) HEADER_SIZE then More else
  let h := parse_header (firstn HEADER_SIZE l) in
  if negb (N.eqb (h_sync0 h) SYNC0 && N.eqb (h_sync1 h) SYNC1) then Reject else
  if check_reserved && negb (N.eqb (h_reserved h) 0) then Reject else
  if N.ltb max_payload (h_psize h) then Reject else
  let n := (HEADER_SIZE + N.to_nat (h_psize h))%nat in
  if Nat.ltb (length l) n then More else
  if N.eqb (crc32 (crc_region l n)) (h_crc h) then Accept n else Reject.

Lemma Accept_inj a b : Accept a = Accept b -> a = b.
Proof. congruence. Qed.

(* ---- the judge meets the Scan requirements --------------------------------------------------- *)
Lemma sync_mismatch_early_app l x : sync_mismatch_early l = true -> sync_mismatch_early (l ++ x) = true.
Proof.
  destruct l as [|b0 t]; [discriminate|]. cbn [sync_mismatch_early app].
  destruct (negb (N.eqb b0 SYNC0)); [reflexivity|]. destruct t as [|b1 t']; [discriminate|]. cbn [app]. auto.
Qed.

Lemma sync_mismatch_early_24 l x : (HEADER_SIZE <= length l)%nat ->
  sync_mismatch_early (l ++ x) = sync_mismatch_early l.
Proof.
  unfold HEADER_SIZE. intros H. destruct l as [|b0 [|b1 t]]; cbn [length] in H; try lia. reflexivity.
Qed.

Lemma firstn_app_ge (l x : list N) n : (n <= length l)%nat -> firstn n (l ++ x) = firstn n l.
Proof. intros H. rewrite firstn_app. replace (n - length l)%nat with 0%nat by lia. cbn [firstn]. apply app_nil_r. Qed.

Theorem judge_fe_ok eager cr mp : JudgeOK (judge_fe eager cr mp).
Proof.
  constructor.
  - unfold judge_fe. cbn [length sync_mismatch_early]. rewrite andb_false_r. reflexivity.
  - intros l x. unfold judge_fe.
    destruct (eager && sync_mismatch_early l) eqn:E0.
    { intros _. apply andb_true_iff in E0 as [-> E0]. rewrite (sync_mismatch_early_app _ x E0). reflexivity. }
    destruct (Nat.ltb (length l) HEADER_SIZE) eqn:E1; [congruence|]. apply Nat.ltb_ge in E1.
    assert (Hx : Nat.ltb (length (l ++ x)) HEADER_SIZE = false) by (apply Nat.ltb_ge; rewrite app_length; lia).
    rewrite Hx, sync_mismatch_early_24, E0 by exact E1. rewrite firstn_app_ge by exact E1.
    set (h := parse_header (firstn HEADER_SIZE l)).
    destruct (negb (N.eqb (h_sync0 h) SYNC0 && N.eqb (h_sync1 h) SYNC1)); [reflexivity|].
    destruct (cr && negb (N.eqb (h_reserved h) 0)); [reflexivity|].
    destruct (N.ltb mp (h_psize h)); [reflexivity|].
    destruct (Nat.ltb (length l) (HEADER_SIZE + N.to_nat (h_psize h))) eqn:E2; [congruence|]. apply Nat.ltb_ge in E2.
    assert (Hx2 : Nat.ltb (length (l ++ x)) (HEADER_SIZE + N.to_nat (h_psize h)) = false)
      by (apply Nat.ltb_ge; rewrite app_length; lia).
    rewrite Hx2. intros _. unfold crc_region. rewrite sub_app_l by (unfold HEADER_SIZE in *; lia). reflexivity.
  - intros l n. unfold judge_fe.
    destruct (eager && sync_mismatch_early l); [discriminate|].
    destruct (Nat.ltb (length l) HEADER_SIZE); [discriminate|].
    set (h := parse_header (firstn HEADER_SIZE l)).
    destruct (negb (N.eqb (h_sync0 h) SYNC0 && N.eqb (h_sync1 h) SYNC1)); [discriminate|].
    destruct (cr && negb (N.eqb (h_reserved h) 0)); [discriminate|].
    destruct (N.ltb mp (h_psize h)); [discriminate|].
    destruct (Nat.ltb (length l) (HEADER_SIZE + N.to_nat (h_psize h))) eqn:E2; [discriminate|]. apply Nat.ltb_ge in E2.
    destruct (N.eqb (crc32 (crc_region l (HEADER_SIZE + N.to_nat (h_psize h)))) (h_crc h)); [|discriminate].
    intros Heq. apply Accept_inj in Heq. subst n. split; [unfold HEADER_SIZE; lia | exact E2].
Qed.

(* an accepted frame is accepted on its own bytes alone *)
Theorem judge_fe_local eager cr mp : JudgeLocal (judge_fe eager cr mp).
Proof.
  intros l n. unfold judge_fe.
  destruct (eager && sync_mismatch_early l) eqn:E0; [discriminate|].
  destruct (Nat.ltb (length l) HEADER_SIZE) eqn:E1; [discriminate|]. apply Nat.ltb_ge in E1.
  set (h := parse_header (firstn HEADER_SIZE l)).
  destruct (negb (N.eqb (h_sync0 h) SYNC0 && N.eqb (h_sync1 h) SYNC1)) eqn:E3; [discriminate|].
  destruct (cr && negb (N.eqb (h_reserved h) 0)) eqn:E4; [discriminate|].
  destruct (N.ltb mp (h_psize h)) eqn:E5; [discriminate|].
  destruct (Nat.ltb (length l) (HEADER_SIZE + N.to_nat (h_psize h))) eqn:E2; [discriminate|]. apply Nat.ltb_ge in E2.
  destruct (N.eqb (crc32 (crc_region l (HEADER_SIZE + N.to_nat (h_psize h)))) (h_crc h)) eqn:E6; [|discriminate].
  intros Heq. apply Accept_inj in Heq. subst n. set (n := (HEADER_SIZE + N.to_nat (h_psize h))%nat) in *.
  assert (Hn : (HEADER_SIZE <= n)%nat) by (subst n; lia).
  assert (Hlen : length (firstn n l) = n) by (apply firstn_length_le; exact E2).
  assert (Hsm : sync_mismatch_early (firstn n l) = sync_mismatch_early l).
  { rewrite <- (firstn_skipn n l) at 2. symmetry. apply sync_mismatch_early_24. rewrite Hlen. exact Hn. }
  rewrite Hsm, E0, Hlen.
  assert (Nat.ltb n HEADER_SIZE = false) as -> by (apply Nat.ltb_ge; exact Hn).
  rewrite firstn_firstn, Nat.min_l by exact Hn. fold h. rewrite E3, E4, E5. fold n.
  rewrite Nat.ltb_irrefl.
  assert (crc_region (firstn n l) n = crc_region l n) as ->.
  { unfold crc_region. apply sub_firstn. unfold HEADER_SIZE in *. lia. }
  rewrite E6. reflexivity.
Qed.

(* acceptance implies what the property text lists *)
Theorem judge_fe_accept_inv eager cr mp l n :
  judge_fe eager cr mp l = Accept n ->
  let h := parse_header (firstn HEADER_SIZE l) in
  (HEADER_SIZE <= length l)%nat /\ h_sync0 h = SYNC0 /\ h_sync1 h = SYNC1 /\
  (cr = true -> h_reserved h = 0%N) /\ (h_psize h <= mp)%N /\
  n = (HEADER_SIZE + N.to_nat (h_psize h))%nat /\ (n <= length l)%nat /\
  crc32 (crc_region l n) = h_crc h.
Proof.
  unfold judge_fe.
  destruct (eager && sync_mismatch_early l); [discriminate|].
  destruct (Nat.ltb (length l) HEADER_SIZE) eqn:E1; [discriminate|]. apply Nat.ltb_ge in E1.
  set (h := parse_header (firstn HEADER_SIZE l)).
  destruct (N.eqb (h_sync0 h) SYNC0) eqn:S0; [|discriminate].
  destruct (N.eqb (h_sync1 h) SYNC1) eqn:S1; [|discriminate]. cbn [andb negb].
  destruct (cr && negb (N.eqb (h_reserved h) 0)) eqn:E4; [discriminate|].
  destruct (N.ltb mp (h_psize h)) eqn:E5; [discriminate|].
  destruct (Nat.ltb (length l) (HEADER_SIZE + N.to_nat (h_psize h))) eqn:E2; [discriminate|]. apply Nat.ltb_ge in E2.
  destruct (N.eqb (crc32 (crc_region l (HEADER_SIZE + N.to_nat (h_psize h)))) (h_crc h)) eqn:E6; [|discriminate].
  intros Heq. apply Accept_inj in Heq. subst n. apply N.eqb_eq in S0, S1, E6. apply N.ltb_ge in E5.
  repeat split; try assumption.
  intros ->. cbn [andb] in E4. apply negb_false_iff, N.eqb_eq in E4. exact E4.
Qed.
