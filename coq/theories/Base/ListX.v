(* small list toolkit missing from the 8.16 standard library *)
From Coq Require Import List Arith Lia.
Import ListNotations.

Lemma skipn_skipn {A} : forall n m (l : list A), skipn n (skipn m l) = skipn (m + n) l.
Proof.
  intros n m. revert n. induction m as [|m IH]; intros n l; [reflexivity|].
  destruct l as [|a l]; [rewrite !skipn_nil; reflexivity|]. cbn [skipn Nat.add]. apply IH.
Qed.

Lemma firstn_skipn_app {A} n (l : list A) : firstn n l ++ skipn n l = l.
Proof. apply firstn_skipn. Qed.

Lemma skipn_app_exact {A} (a b : list A) : skipn (length a) (a ++ b) = b.
Proof. rewrite skipn_app, skipn_all, Nat.sub_diag. reflexivity. Qed.

Lemma firstn_app_exact {A} (a b : list A) : firstn (length a) (a ++ b) = a.
Proof. rewrite firstn_app, firstn_all, Nat.sub_diag. cbn. apply app_nil_r. Qed.

Lemma nth_error_skipn {A} : forall n i (l : list A), nth_error (skipn n l) i = nth_error l (n + i).
Proof.
  induction n as [|n IH]; intros i l; [reflexivity|].
  destruct l as [|a l]; [destruct i; reflexivity|]. cbn [skipn Nat.add nth_error]. apply IH.
Qed.

Lemma nth_error_firstn {A} : forall n i (l : list A), i < n -> nth_error (firstn n l) i = nth_error l i.
Proof.
  induction n as [|n IH]; intros i l H; [lia|].
  destruct l as [|a l]; [reflexivity|]. destruct i as [|i]; [reflexivity|]. cbn. apply IH. lia.
Qed.

Lemma In_firstn {A} : forall n (l : list A) x, In x (firstn n l) -> In x l.
Proof.
  induction n as [|n IH]; intros l x H; [destruct H|].
  destruct l as [|a l]; [destruct H|]. cbn in H. destruct H as [->|H]; [left; reflexivity|right; apply IH; exact H].
Qed.

Lemma In_skipn' {A} : forall n (l : list A) x, In x (skipn n l) -> In x l.
Proof.
  induction n as [|n IH]; intros l x H; [exact H|].
  destruct l as [|a l]; [destruct H|]. cbn in H. right. apply IH. exact H.
Qed.

Lemma Forall_firstn {A} (P : A -> Prop) n l : Forall P l -> Forall P (firstn n l).
Proof. rewrite !Forall_forall. intros H x Hx. apply H. eapply In_firstn. exact Hx. Qed.

Lemma Forall_skipn {A} (P : A -> Prop) n l : Forall P l -> Forall P (skipn n l).
Proof. rewrite !Forall_forall. intros H x Hx. apply H. eapply In_skipn'. exact Hx. Qed.
