(* Generic framing theory: a left-to-right scanner driven by a verdict function, its incremental
   (chunk-fed) form, and the theorems every framing property (C04, C05, C07, C08, C14, C18) reduces to.

   judge l looks at the bytes from the current position to the end of what is available:
     Accept n  — a valid frame of n bytes starts here;   Reject — no frame starts here (skip 1 byte);
     More      — cannot be decided yet.
   Requirements on judge (class [JudgeOK]): a decided verdict is unchanged by appending bytes, an
   accepted length is positive and within the bytes seen, and nothing is decided on no bytes. *)
From Coq Require Import List Arith Lia Bool.
From FEC Require Import Base.ListX.
Import ListNotations.

Inductive verdict := Accept (n : nat) | Reject | More.

Section Scan.
  Context {B : Type}.

  Variable judge : list B -> verdict.

  Record JudgeOK : Prop := {
    j_nil : judge [] = More;
    j_stable : forall l x, judge l <> More -> judge (l ++ x) = judge l;
    j_bound : forall l n, judge l = Accept n -> 0 < n <= length l;
  }.

  (* a frame: absolute offset and raw bytes *)
  Definition frame := (nat * list B)%type.
  (* scanner state between calls: absolute offset of the first buffered byte, buffered bytes *)
  Definition sstate := (nat * list B)%type.

  Fixpoint scan_aux (fuel : nat) (off : nat) (l : list B) : list frame * sstate :=
    match fuel with
    | O => ([], (off, l))
    | S f =>
        match judge l with
        | More => ([], (off, l))
        | Reject => scan_aux f (S off) (tl l)
        | Accept n => let '(fs, st) := scan_aux f (off + n) (skipn n l) in
                      ((off, firstn n l) :: fs, st)
        end
    end.

  Definition scan (off : nat) (l : list B) : list frame * sstate := scan_aux (S (length l)) off l.

  (* incremental form: what a streaming decoder does on each call *)
  Definition feed (st : sstate) (chunk : list B) : list frame * sstate :=
    scan (fst st) (snd st ++ chunk).

  Fixpoint feed_all (st : sstate) (chunks : list (list B)) : list frame * sstate :=
    match chunks with
    | [] => ([], st)
    | c :: cs => let '(fs, st1) := feed st c in
                 let '(fs2, st2) := feed_all st1 cs in (fs ++ fs2, st2)
    end.

  Hypothesis OK : JudgeOK.

  Lemma scan_aux_unfold f off l :
    scan_aux (S f) off l =
    match judge l with
    | More => ([], (off, l))
    | Reject => scan_aux f (S off) (tl l)
    | Accept n => let '(fs, st) := scan_aux f (off + n) (skipn n l) in ((off, firstn n l) :: fs, st)
    end.
  Proof. reflexivity. Qed.

  Lemma judge_nonnil l : judge l <> More -> l <> [].
  Proof. intros H ->. apply H. apply (j_nil OK). Qed.

  (* more fuel than the length changes nothing *)
  Lemma scan_aux_fuel : forall f1 f2 off l,
    length l < f1 -> length l < f2 -> scan_aux f1 off l = scan_aux f2 off l.
  Proof.
    induction f1 as [|f1 IH]; intros f2 off l H1 H2; [lia|].
    destruct f2 as [|f2]; [lia|]. rewrite !scan_aux_unfold.
    destruct (judge l) as [n| |] eqn:J; [| |reflexivity].
    - pose proof (j_bound OK _ _ J) as Hn.
      assert (Hs : length (skipn n l) < length l) by (rewrite skipn_length; lia).
      rewrite (IH f2) by lia. reflexivity.
    - assert (l <> []) by (apply judge_nonnil; congruence).
      destruct l as [|b t]; [congruence|]. cbn [tl length] in *. apply IH; lia.
  Qed.

  Lemma scan_eq_aux f off l : length l < f -> scan off l = scan_aux f off l.
  Proof. intros. unfold scan. apply scan_aux_fuel; lia. Qed.

  (* the residual is undecided, is a suffix, and the offsets add up (byte conservation) *)
  Lemma scan_aux_resid : forall f off l fs off' r,
    length l < f -> scan_aux f off l = (fs, (off', r)) ->
    judge r = More /\ (exists p, l = p ++ r /\ off' = off + length p).
  Proof.
    induction f as [|f IH]; intros off l fs off' r Hf E; [lia|].
    rewrite scan_aux_unfold in E. destruct (judge l) as [n| |] eqn:J.
    - pose proof (j_bound OK _ _ J) as Hn.
      destruct (scan_aux f (off + n) (skipn n l)) as [fs1 [o1 r1]] eqn:E1.
      injection E as <- <- <-.
      apply IH in E1; [|rewrite skipn_length; lia].
      destruct E1 as (Hm & p & Hp & Ho). split; [exact Hm|].
      exists (firstn n l ++ p). rewrite <- app_assoc, <- Hp, firstn_skipn. split; [reflexivity|].
      rewrite app_length, firstn_length_le by lia. lia.
    - assert (l <> []) by (apply judge_nonnil; congruence).
      destruct l as [|b t]; [congruence|]. cbn [tl length] in *.
      apply IH in E; [|lia]. destruct E as (Hm & p & Hp & Ho). split; [exact Hm|].
      exists (b :: p). cbn [app length]. rewrite <- Hp. split; [reflexivity|lia].
    - injection E as <- <- <-. split; [exact J|]. exists []. cbn. split; [reflexivity|lia].
  Qed.

  Lemma scan_resid off l fs off' r :
    scan off l = (fs, (off', r)) ->
    judge r = More /\ (exists p, l = p ++ r /\ off' = off + length p).
  Proof. apply scan_aux_resid. lia. Qed.

  Lemma scan_conserve off l fs off' r :
    scan off l = (fs, (off', r)) -> off' + length r = off + length l.
  Proof.
    intros E. apply scan_resid in E. destruct E as (_ & p & -> & ->). rewrite app_length. lia.
  Qed.

  (* scanning an undecided buffer does nothing *)
  Lemma scan_more off r : judge r = More -> scan off r = ([], (off, r)).
  Proof. intros J. unfold scan. rewrite scan_aux_unfold, J. reflexivity. Qed.

  (* KEY: scanning l ++ x = scanning l, then scanning residual ++ x *)
  Lemma scan_aux_app : forall f off l x fs st,
    length l < f -> scan_aux f off l = (fs, st) ->
    scan off (l ++ x) = let '(fs2, st2) := scan (fst st) (snd st ++ x) in (fs ++ fs2, st2).
  Proof.
    induction f as [|f IH]; intros off l x fs st Hf E; [lia|].
    rewrite scan_aux_unfold in E. destruct (judge l) as [n| |] eqn:J.
    - pose proof (j_bound OK _ _ J) as Hn.
      destruct (scan_aux f (off + n) (skipn n l)) as [fs1 st1] eqn:E1. injection E as <- <-.
      assert (Hs : length (skipn n l) < f) by (rewrite skipn_length; lia).
      pose proof (IH _ _ x _ _ Hs E1) as IH1.
      rewrite (scan_eq_aux (S (length (l ++ x)))) by lia.
      rewrite scan_aux_unfold, (j_stable OK) by congruence. rewrite J.
      rewrite skipn_app, firstn_app.
      replace (n - length l) with 0 by lia. cbn [skipn firstn]. rewrite app_nil_r.
      rewrite <- (scan_eq_aux (length (l ++ x))) by (rewrite !app_length, skipn_length; lia).
      rewrite IH1. destruct (scan (fst st1) (snd st1 ++ x)) as [fs2 st2]. reflexivity.
    - assert (Hl : l <> []) by (apply judge_nonnil; congruence).
      destruct l as [|b t]; [congruence|]. cbn [tl length] in *.
      assert (Hs : length t < f) by lia.
      pose proof (IH _ _ x _ _ Hs E) as IH1.
      rewrite (scan_eq_aux (S (length ((b :: t) ++ x)))) by lia.
      rewrite scan_aux_unfold, (j_stable OK) by congruence. rewrite J.
      cbn [app tl]. rewrite <- (scan_eq_aux (length ((b :: t) ++ x))) by (cbn [app length]; lia).
      exact IH1.
    - injection E as <- <-. cbn [fst snd app]. destruct (scan off (l ++ x)) as [fs2 st2]. reflexivity.
  Qed.

  Theorem scan_app off l x :
    scan off (l ++ x) =
    let '(fs, st) := scan off l in
    let '(fs2, st2) := scan (fst st) (snd st ++ x) in (fs ++ fs2, st2).
  Proof.
    destruct (scan off l) as [fs st] eqn:E. unfold scan in E.
    apply (scan_aux_app _ _ _ x) in E; [exact E|lia].
  Qed.

  (* state reached after feeding a list of chunks: a buffer equal to the residual of one scan *)
  Definition wf_state (st : sstate) : Prop := judge (snd st) = More.

  Lemma feed_wf st c fs st' : feed st c = (fs, st') -> wf_state st'.
  Proof. unfold feed. destruct st' as [o r]. intros E. apply scan_resid in E. apply E. Qed.

  (* feeding a then b = feeding a ++ b : the basis of chunk independence *)
  Theorem feed_app st a b :
    feed st (a ++ b) =
    let '(fs, st1) := feed st a in
    let '(fs2, st2) := feed st1 b in (fs ++ fs2, st2).
  Proof. unfold feed. rewrite app_assoc. apply scan_app. Qed.

  Lemma feed_nil st : wf_state st -> feed st [] = ([], st).
  Proof. intros H. unfold feed. rewrite app_nil_r. destruct st as [o r]. apply scan_more. exact H. Qed.

  (* any chunking of the same bytes gives the same frames and the same final state *)
  Theorem feed_all_concat : forall chunks st,
    wf_state st -> feed_all st chunks = feed st (concat chunks).
  Proof.
    induction chunks as [|c cs IH]; intros st Hst.
    - cbn [feed_all concat]. rewrite feed_nil by assumption. reflexivity.
    - cbn [feed_all concat]. rewrite feed_app.
      destruct (feed st c) as [fs st1] eqn:E1. rewrite IH by (eapply feed_wf; eassumption).
      reflexivity.
  Qed.

  Corollary chunking_independent chunks1 chunks2 st :
    wf_state st -> concat chunks1 = concat chunks2 -> feed_all st chunks1 = feed_all st chunks2.
  Proof. intros H E. rewrite !feed_all_concat by assumption. rewrite E. reflexivity. Qed.

  (* ---- properties of the frames ------------------------------------------------------------- *)

  (* every reported frame is the stream content at its offset, was accepted there, and frames are
     in order and do not overlap *)
  Fixpoint frames_ok (base : nat) (stream : list B) (lo : nat) (fs : list frame) : Prop :=
    match fs with
    | [] => True
    | (o, bs) :: rest =>
        lo <= o /\ base <= o /\
        judge (skipn (o - base) stream) = Accept (length bs) /\
        bs = firstn (length bs) (skipn (o - base) stream) /\
        frames_ok base stream (o + length bs) rest
    end.

  Lemma scan_aux_frames_ok : forall f base stream off l fs st,
    length l < f -> base <= off -> l = skipn (off - base) stream ->
    scan_aux f off l = (fs, st) -> frames_ok base stream off fs.
  Proof.
    induction f as [|f IH]; intros base stream off l fs st Hf Hb Hl E; [lia|].
    rewrite scan_aux_unfold in E. destruct (judge l) as [n| |] eqn:J.
    - pose proof (j_bound OK _ _ J) as Hn.
      destruct (scan_aux f (off + n) (skipn n l)) as [fs1 st1] eqn:E1. injection E as <- <-.
      cbn [frames_ok]. rewrite firstn_length_le by lia. rewrite <- Hl. repeat split; try lia; try assumption.
      eapply IH; [| |  | exact E1].
      + rewrite skipn_length. lia.
      + lia.
      + rewrite Hl, skipn_skipn. f_equal. lia.
    - assert (Hl0 : l <> []) by (apply judge_nonnil; congruence).
      destruct l as [|b t]; [congruence|]. cbn [tl length] in *.
      assert (Hok : frames_ok base stream (S off) fs).
      { eapply IH; [| | | exact E]; [lia|lia|].
        replace (S off - base) with (1 + (off - base)) by lia.
        rewrite Nat.add_comm, <- skipn_skipn, <- Hl. reflexivity. }
      clear - Hok. destruct fs as [|[o bs] rest]; [exact I|]. cbn [frames_ok] in *.
      destruct Hok as (H1 & H2 & H3 & H4 & H5). repeat split; try assumption; lia.
    - injection E as <- <-. exact I.
  Qed.

  Theorem scan_frames_ok stream fs st :
    scan 0 stream = (fs, st) -> frames_ok 0 stream 0 fs.
  Proof.
    intros E. eapply scan_aux_frames_ok; [| | | exact E]; [lia|lia|reflexivity].
  Qed.

  (* completeness: at every position the scan passes over without a frame, the verdict was Reject
     (or the scan stopped there for lack of data).  Stated as: the scan result is determined by the
     verdicts — any function that follows the same rule is this function (uniqueness is by definition
     of [scan_aux]); the useful consequence is the prefix theorem below. *)

  (* frames accepted in a prefix are accepted in the whole stream, in the same order, first *)
  Theorem scan_prefix off l x fs st :
    scan off l = (fs, st) -> exists fs2 st2, scan off (l ++ x) = (fs ++ fs2, st2).
  Proof.
    intros E. rewrite scan_app, E. destruct (scan (fst st) (snd st ++ x)) as [fs2 st2]. eauto.
  Qed.

  (* ---- re-scanning a concatenation of accepted frames (used by C18: extraction is idempotent) --- *)
  Definition JudgeLocal : Prop := forall l n, judge l = Accept n -> judge (firstn n l) = Accept n.

  Definition self_framed (bs : list B) : Prop := judge bs = Accept (length bs).

  Fixpoint rebase (off : nat) (fss : list (list B)) : list frame :=
    match fss with
    | [] => []
    | bs :: rest => (off, bs) :: rebase (off + length bs) rest
    end.

  Lemma scan_step_accept off bs rest :
    self_framed bs ->
    scan off (bs ++ rest) = let '(fs, st) := scan (off + length bs) rest in ((off, bs) :: fs, st).
  Proof.
    intros H. unfold self_framed in H. pose proof (j_bound OK _ _ H) as Hn.
    unfold scan at 1. rewrite scan_aux_unfold, (j_stable OK) by congruence. rewrite H.
    rewrite skipn_app_exact, firstn_app_exact.
    rewrite <- (scan_eq_aux (length (bs ++ rest))) by (rewrite app_length; lia). reflexivity.
  Qed.

  Theorem scan_concat_frames : forall fss off,
    Forall self_framed fss ->
    scan off (concat fss) = (rebase off fss, (off + length (concat fss), [])).
  Proof.
    induction fss as [|bs rest IH]; intros off H.
    - cbn [concat rebase length]. rewrite scan_more by apply (j_nil OK). rewrite Nat.add_0_r. reflexivity.
    - inversion H as [|? ? Hbs Hrest]; subst. cbn [concat rebase].
      rewrite scan_step_accept by assumption. rewrite IH by assumption.
      rewrite app_length. f_equal. f_equal. lia.
  Qed.

  Lemma frames_ok_self_framed : JudgeLocal -> forall base stream lo fs,
    frames_ok base stream lo fs -> Forall self_framed (map snd fs).
  Proof.
    intros HL base stream lo fs. revert lo. induction fs as [|[o bs] rest IH]; intros lo H; [constructor|].
    cbn [frames_ok] in H. destruct H as (_ & _ & HJ & Hbs & Hrest). cbn [map snd]. constructor.
    - unfold self_framed. rewrite Hbs at 1. apply HL. exact HJ.
    - eapply IH. exact Hrest.
  Qed.

  (* the frames of any scan, concatenated and scanned again, come back unchanged (re-based to 0..) *)
  Theorem rescan_idempotent : JudgeLocal -> forall stream fs st,
    scan 0 stream = (fs, st) ->
    scan 0 (concat (map snd fs)) = (rebase 0 (map snd fs), (length (concat (map snd fs)), [])).
  Proof.
    intros HL stream fs st E. apply scan_frames_ok in E.
    apply (frames_ok_self_framed HL) in E. rewrite scan_concat_frames by assumption. reflexivity.
  Qed.

End Scan.

