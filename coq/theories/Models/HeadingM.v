(* C19 — exact SPEC of the yaw/heading conversions over the rationals (every finite binary64 is a rational).
   Definitions only.  H is the half turn in the unit used (180 for degrees, pi for radians). *)
From Coq Require Import ZArith QArith Qround.
Open Scope Q_scope.

(* the representative of x modulo P in [0, P) *)
Definition Heading_wrap0 (P x : Q) : Q := x - P * inject_Z (Qfloor (x / P)).
(* the representative of x modulo 2H in [-H, H) *)
Definition Heading_wrapc (H x : Q) : Q := Heading_wrap0 (2 * H) (x + H) - H.

(* README: heading = 90 - yaw, yaw measured counter-clockwise from east; a quarter turn is H/2. *)
Definition Heading_heading (H yaw : Q) : Q := Heading_wrap0 (2 * H) (H / 2 - yaw).
Definition Heading_yaw (H heading : Q) : Q := Heading_wrapc H (H / 2 - heading).

Definition Heading_wrap360 : Q -> Q := Heading_wrap0 360.
Definition Heading_wrap180 : Q -> Q := Heading_wrapc 180.
Definition Heading_heading_deg (y : Q) : Q := Heading_wrap360 (90 - y).
Definition Heading_yaw_deg (h : Q) : Q := Heading_wrap180 (90 - h).

(* a and b differ by a whole number of periods P *)
Definition Heading_congr (P a b : Q) : Prop := exists k : Z, a == b + inject_Z k * P.

(* executable forms used by the extracted SPEC runner: reduced fractions *)
Definition Heading_spec_heading (H y : Q) : Q := Qred (Heading_heading H y).
Definition Heading_spec_yaw (H h : Q) : Q := Qred (Heading_yaw H h).
