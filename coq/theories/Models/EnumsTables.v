(* C03 — the comparison functions applied to the tables regenerated from /repo (definitions only). *)
From Coq Require Import ZArith List String.
From FEC Require Import Generated.EnumsCpp Generated.EnumsPy Generated.EnumsExc Models.EnumsM.

Definition c03_enum_mismatches : list mismatch :=
  enums_mismatches enum_pairing exc_cpp_only exc_py_only exc_renamed cpp_enums py_enums.
Definition c03_classification_mismatches : list mismatch :=
  classification_mismatches cpp_classification py_classification py_command_messages py_response_messages.
Definition c03_registry_mismatches : list mismatch :=
  registry_mismatches cpp_messages py_classes py_registry.

(* the same comparisons on the tables read again after the library has been used in the same interpreter *)
Definition c03_enum_mismatches_after : list mismatch :=
  enums_mismatches enum_pairing exc_cpp_only exc_py_only exc_renamed cpp_enums py_enums_after.
Definition c03_classification_mismatches_after : list mismatch :=
  classification_mismatches cpp_classification py_classification_after py_command_messages_after py_response_messages_after.
Definition c03_registry_mismatches_after : list mismatch :=
  registry_mismatches cpp_messages py_classes_after py_registry_after.

(* ... and on the tables read in an interpreter that imported only the public package (the way a user / the decoder does) *)
Definition c03_enum_mismatches_public : list mismatch :=
  enums_mismatches enum_pairing exc_cpp_only exc_py_only exc_renamed cpp_enums py_enums_public.
Definition c03_classification_mismatches_public : list mismatch :=
  classification_mismatches cpp_classification py_classification_public py_command_messages_public py_response_messages_public.
Definition c03_registry_mismatches_public : list mismatch :=
  registry_mismatches cpp_messages py_classes_public py_registry_public.
