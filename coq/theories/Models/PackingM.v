(* C02 — the packing rule the README states for the canonical C++ structs (definitions only).

   "packed": no implicit padding between members: every member starts where the previous one ends;
   "aligned(4)": the size of the struct is padded at the end to a multiple of 4 and its alignment is 4;
   in addition the definitions manually keep floating point members on 4-byte boundaries. *)
From Coq Require Import Arith List String Bool.
Import ListNotations.

(* what the compilers report about one top-level member's type *)
Record ctype := mkCtype {
  ct_size : nat;          (* sizeof the member (whole array for arrays) *)
  ct_elem : nat;          (* sizeof one element *)
  ct_nalign : nat;        (* natural (unpacked) alignment of the element's arithmetic type *)
  ct_float : bool;        (* element type is float / double *)
  ct_reserved : bool      (* the member is named reserved / reservedN: manual padding *)
}.

Record member := mkMember {
  m_name : string;
  m_off : nat;            (* offsetof, as laid out by the compilers *)
  m_type : ctype;
  m_nested : string       (* name of the P1_ALIGNAS(4) struct this member (or its elements) is, "" if arithmetic/enum *)
}.

Record cstruct := mkStruct {
  s_name : string;
  s_size : nat;           (* sizeof *)
  s_align : nat;          (* alignof *)
  s_members : list member
}.

(* the README's rule: running sum of the sizes, starting at 0, nothing in between *)
Fixpoint layout_packed_from (off : nat) (l : list ctype) : list (nat * nat) :=
  match l with
  | [] => []
  | c :: t => (off, ct_size c) :: layout_packed_from (off + ct_size c) t
  end.
Definition layout_packed (l : list ctype) : list (nat * nat) := layout_packed_from 0 l.

Definition total_size (l : list ctype) : nat := fold_right (fun c acc => ct_size c + acc) 0 l.
Definition round_up4 (n : nat) : nat := 4 * ((n + 3) / 4).
Definition packed_sizeof (l : list ctype) : nat := round_up4 (total_size l).

Definition dumped (s : cstruct) : list (nat * nat) := map (fun m => (m_off m, ct_size (m_type m))) (s_members s).

Definition pair_eqb (a b : nat * nat) : bool := Nat.eqb (fst a) (fst b) && Nat.eqb (snd a) (snd b).
Fixpoint list_eqb {A : Type} (eq : A -> A -> bool) (l1 l2 : list A) : bool :=
  match l1, l2 with
  | [], [] => true
  | a :: t1, b :: t2 => eq a b && list_eqb eq t1 t2
  | _, _ => false
  end.

(* claim 1, for one struct: the compilers' layout IS the packed layout, the size is the sum rounded up to 4, align 4 *)
Definition follows_readme (s : cstruct) : bool :=
  list_eqb pair_eqb (layout_packed (map m_type (s_members s))) (dumped s) &&
  Nat.eqb (s_size s) (packed_sizeof (map m_type (s_members s))) &&
  Nat.eqb (s_align s) 4.

(* claim 2, for one struct: every floating point member, and every member that is itself a 4-aligned struct,
   starts on a 4-byte boundary *)
Definition needs_align4 (m : member) : bool :=
  ct_float (m_type m) || negb (String.eqb (m_nested m) "").
Definition floats_aligned4 (s : cstruct) : bool :=
  forallb (fun m => implb (needs_align4 m) (Nat.eqb (Nat.modulo (m_off m) 4) 0)) (s_members s).
