(* The part of the two C++ framers that is textually the same in rtcm_framer.cc and
   fusion_engine_framer.cc, transcribed once and parametrised by what differs:
     St / sync_st     the parser-state enumeration and its first member (State::SYNC / State::SYNC0)
     X  / reset_x     counters that only the RTCM framer has (error_count_, decoded_msg_count_)
     sync_byte        RTCM3_PREAMBLE / MessageHeader::SYNC0
     skip_dup         Resync() skips a sync byte that is directly followed by another sync byte
                      (FusionEngine framer after the repair; false = code without that test)
     min_cap/recheck  SetBuffer(): minimum capacity; whether it is tested again after alignment
     on_byte          the framer's own OnByte()
   SetBuffer / Reset / OnData / Resync follow the .cc files statement by statement.
   The working buffer is a list whose length is capacity_bytes_; every access goes through the CHECKED
   accessors below, which return an explicit error outcome when the index is outside the buffer, so
   "never reads or writes outside its buffer" is a statement about this model (see the no_oob theorems),
   not an artefact of a defaulting nth.  uint32_t arithmetic is written with the wrap ([u32]). *)
From Coq Require Import NArith ZArith List Bool.
Import ListNotations.
Open Scope N_scope.

Inductive outcome (A : Type) : Type :=
| Ok (a : A)
| OobRead (index len : N)      (* a read at [index] of a buffer of [len] bytes *)
| OobWrite (index len : N)
| OutOfFuel.
Arguments Ok {A} a.
Arguments OobRead {A} index len.
Arguments OobWrite {A} index len.
Arguments OutOfFuel {A}.

Definition bind {A B} (o : outcome A) (f : A -> outcome B) : outcome B :=
  match o with
  | Ok a => f a
  | OobRead i n => OobRead i n
  | OobWrite i n => OobWrite i n
  | OutOfFuel => OutOfFuel
  end.
Notation "x <- e ; f" := (bind e (fun x => f)) (at level 61, e at next level, right associativity).

Definition u32 (x : N) : N := x mod 4294967296.

Definition blen (buf : list N) : N := N.of_nat (length buf).

(* buffer_[i] as an rvalue *)
Definition rd (buf : list N) (i : N) : outcome N :=
  match nth_error buf (N.to_nat i) with
  | Some v => Ok v
  | None => OobRead i (blen buf)
  end.

Fixpoint upd (buf : list N) (i : nat) (v : N) : option (list N) :=
  match buf, i with
  | [], _ => None
  | _ :: t, O => Some (v :: t)
  | h :: t, S k => match upd t k v with Some t' => Some (h :: t') | None => None end
  end.

(* buffer_[i] = v *)
Definition wr (buf : list N) (i v : N) : outcome (list N) :=
  match upd buf (N.to_nat i) v with
  | Some b => Ok b
  | None => OobWrite i (blen buf)
  end.

(* the n bytes at buffer_ + a, all of which the callee reads *)
Definition rd_range (buf : list N) (a n : N) : outcome (list N) :=
  if a + n <=? blen buf then Ok (firstn (N.to_nat n) (skipn (N.to_nat a) buf))
  else OobRead (a + n - 1) (blen buf).

(* std::memmove(buffer_, buffer_ + off, n) *)
Definition memmove0 (buf : list N) (off n : N) : outcome (list N) :=
  if off + n <=? blen buf
  then Ok (firstn (N.to_nat n) (skipn (N.to_nat off) buf) ++ skipn (N.to_nat n) buf)
  else OobRead (off + n - 1) (blen buf).

(* what a callback receives: (message number, the bytes at buffer_[0 .. size)) — for the FusionEngine
   framer the number is 0 and the bytes are header ++ payload *)
Definition event := (N * list N)%type.

Section Core.
  Variable St : Type.
  Variable X : Type.

  Record core := mkCore {
    c_buf : list N;        (* the bytes at buffer_[0 .. capacity_bytes_) *)
    c_cap : N;             (* capacity_bytes_ *)
    c_state : St;          (* state_ *)
    c_next : N;            (* next_byte_index_ *)
    c_size : N;            (* current_message_size_ *)
    c_x : X }.

  Definition set_buf c b := mkCore b (c_cap c) (c_state c) (c_next c) (c_size c) (c_x c).
  Definition set_state c s := mkCore (c_buf c) (c_cap c) s (c_next c) (c_size c) (c_x c).
  Definition set_next c n := mkCore (c_buf c) (c_cap c) (c_state c) n (c_size c) (c_x c).
  Definition set_size c n := mkCore (c_buf c) (c_cap c) (c_state c) (c_next c) n (c_x c).
  Definition set_x c x := mkCore (c_buf c) (c_cap c) (c_state c) (c_next c) (c_size c) x.

  Record framer := mkFramer {
    f_has : bool;          (* buffer_ != nullptr *)
    f_managed : bool;      (* is_buffer_managed_ *)
    f_core : core }.

  Variable sync_st : St.
  Variable is_sync : St -> bool.          (* state_ == State::SYNC(0) *)
  Variable reset_x : X -> X.
  Variable sync_byte : N.
  Variable skip_dup : bool.
  Variable min_cap : N.
  Variable recheck : bool.
  Variable clamp : N.                      (* 0x7FFFFFFF *)
  Variable align_mask : N.                 (* 3 *)
  Variable on_byte : bool -> core -> outcome (core * Z * list event).

  (* ---- Reset() ---- *)
  Definition reset_core (c : core) : core :=
    set_x (set_size (set_next (set_state c sync_st) 0) 0) (reset_x (c_x c)).
  Definition reset (f : framer) : framer := mkFramer (f_has f) (f_managed f) (reset_core (f_core f)).

  (* ---- SetBuffer(buffer, capacity_bytes) ----
     user = Some a : a caller-supplied buffer whose address is a (only a mod 4 matters);
     user = None   : nullptr, the framer allocates; alloc_addr = the address operator new[] returns.
     mem = the contents of the capacity_bytes bytes at that address (arbitrary). *)
  Definition set_buffer (f : framer) (user : option N) (alloc_addr : N) (capacity : N) (mem : list N) : framer :=
    if capacity <? min_cap then f                                   (* LOG(ERROR); return; *)
    else
      let capacity := if clamp <? capacity then clamp else capacity in
      (* ClearManagedBuffer() *)
      let cleared := f_managed f && f_has f in
      let managed := if cleared then false else f_managed f in
      let addr := match user with Some a => a | None => alloc_addr end in
      let managed := match user with Some _ => managed | None => true end in
      (* buffer_ = (addr + 3) & ~3 ; capacity_bytes_ = capacity - (buffer_ - buffer_unaligned) *)
      let aligned := (addr + align_mask) - ((addr + align_mask) mod (align_mask + 1)) in
      let shift := aligned - addr in
      let cap_bytes := u32 (capacity - shift) in
      let c := f_core f in
      if recheck && (cap_bytes <? min_cap) then
        (* repaired code: ClearManagedBuffer(); buffer_ = nullptr; capacity_bytes_ = 0; Reset(); *)
        mkFramer false false (reset_core (mkCore [] 0 (c_state c) (c_next c) (c_size c) (c_x c)))
      else
        let buf := firstn (N.to_nat cap_bytes) (skipn (N.to_nat shift) mem) in
        mkFramer true managed (reset_core (mkCore buf cap_bytes (c_state c) (c_next c) (c_size c) (c_x c))).

  (* ---- Resync() ---- *)
  Record lstate := mkL {
    l_c : core; l_off : N; l_avail : N; l_total : N; l_evs : list event }.

  (* one pass through the body of  for (offset = 1; offset < available_bytes; ++offset) { ... },
     including the ++offset that follows it *)
  Definition resync_body (s : lstate) : outcome lstate :=
    let c := l_c s in
    let offset := l_off s in
    let avail := l_avail s in
    current_byte <- rd (c_buf c) offset ;
    (* if (state_ == SYNC) { if (current_byte == sync) { shift } else { continue; } } *)
    pre <-
      (if is_sync (c_state c) then
         if N.eqb current_byte sync_byte then
           dup <- (if skip_dup && (offset + 1 <? avail)
                   then nb <- rd (c_buf c) (offset + 1) ; Ok (N.eqb nb sync_byte)
                   else Ok false) ;
           if dup then Ok None
           else
             let avail' := u32 (avail - offset) in
             buf' <- memmove0 (c_buf c) offset avail' ;
             Ok (Some (set_buf c buf', 0, avail'))
         else Ok None
       else Ok (Some (c, offset, avail))) ;
    match pre with
    | None => Ok (mkL c (u32 (offset + 1)) avail (l_total s) (l_evs s))          (* continue *)
    | Some (c, offset, avail) =>
        (* next_byte_index_ = offset + 1; message_size = OnByte(true); *)
        r <- on_byte true (set_next c (u32 (offset + 1))) ;
        let '(c, message_size, evs) := r in
        if is_sync (c_state c) then
          let total := if (0 <? message_size)%Z then u32 (l_total s + Z.to_N message_size) else l_total s in
          let offset := if (0 <? message_size)%Z then u32 (Z.to_N message_size - 1) else 0 in
          Ok (mkL (set_next c 0) (u32 (offset + 1)) avail total (l_evs s ++ evs))
        else
          Ok (mkL c (u32 (offset + 1)) avail (l_total s) (l_evs s ++ evs))
    end.

  (* the for loop; fuel fa * fb iterations, held as two small unary numbers *)
  Fixpoint resync_inner (fb : nat) (s : lstate) : outcome (lstate * bool) :=
    match fb with
    | O => Ok (s, false)
    | S fb' =>
        if l_off s <? l_avail s
        then s' <- resync_body s ; resync_inner fb' s'
        else Ok (s, true)
    end.

  Fixpoint resync_outer (fa fb : nat) (s : lstate) : outcome lstate :=
    match fa with
    | O => OutOfFuel
    | S fa' =>
        r <- resync_inner fb s ;
        let '(s', fin) := r in
        if fin then Ok s' else resync_outer fa' fb s'
    end.

  Definition resync_fuel (avail : N) : nat := S (S (N.to_nat avail)).

  Definition resync (c : core) : outcome (core * N * list event) :=
    let available_bytes := c_next c in
    let c := set_next (set_state c sync_st) 0 in
    s <- resync_outer (resync_fuel available_bytes) (resync_fuel available_bytes)
                      (mkL c 1 available_bytes 0 []) ;
    Ok (l_c s, l_total s, l_evs s).

  (* ---- OnData(buffer, length_bytes): the for loop over the caller's bytes ---- *)
  Fixpoint on_data_loop (c : core) (data : list N) (total : N) (evs : list event)
    : outcome (core * N * list event) :=
    match data with
    | [] => Ok (c, total, evs)
    | byte :: rest =>
        (* buffer_[next_byte_index_++] = byte; *)
        buf' <- wr (c_buf c) (c_next c) byte ;
        let c := set_next (set_buf c buf') (u32 (c_next c + 1)) in
        r <- on_byte false c ;
        let '(c, dispatched, e) := r in
        if (dispatched =? 0)%Z then on_data_loop c rest total (evs ++ e)
        else if (0 <? dispatched)%Z then
          on_data_loop (set_next c 0) rest (total + Z.to_N dispatched) (evs ++ e)
        else if 0 <? c_next c then
          r2 <- resync c ;
          let '(c, t, e2) := r2 in
          on_data_loop c rest (total + t) (evs ++ e ++ e2)
        else on_data_loop c rest total (evs ++ e)
    end.

  Definition on_data (f : framer) (data : list N) : outcome (framer * N * list event) :=
    if f_has f then
      r <- on_data_loop (f_core f) data 0 [] ;
      let '(c, total, evs) := r in
      Ok (mkFramer (f_has f) (f_managed f) c, total, evs)
    else Ok (f, 0, []).

End Core.

Arguments mkCore {St X}.
Arguments c_buf {St X}.
Arguments c_cap {St X}.
Arguments c_state {St X}.
Arguments c_next {St X}.
Arguments c_size {St X}.
Arguments c_x {St X}.
Arguments set_buf {St X}.
Arguments set_state {St X}.
Arguments set_next {St X}.
Arguments set_size {St X}.
Arguments set_x {St X}.
Arguments mkFramer {St X}.
Arguments f_has {St X}.
Arguments f_managed {St X}.
Arguments f_core {St X}.
Arguments mkL {St X}.
Arguments l_c {St X}.
Arguments l_off {St X}.
Arguments l_avail {St X}.
Arguments l_total {St X}.
Arguments l_evs {St X}.
