(* C01 — Timestamp.unpack / pack (and TimestampAdapter._decode / _encode) with Coq's primitive binary64 floats,
   operation by operation.  Definitions only.

     unpack:  seconds = int_part + (frac_part_ns * 1e-9)           int -> float conversions are exact (< 2^53)
     pack:    int_part = int(seconds)
              frac_part_ns = int(round((seconds - int_part) * 1e9))  round(): nearest integer, ties to even
              if frac_part_ns >= 1000000000: int_part += 1; frac_part_ns -= 1000000000
              struct.pack('<II', ...) raises unless both are in [0, 2^32)

   [+], [-], [*] are the IEEE-754 binary64 round-to-nearest-even operations of PrimFloat.  int() and round() are
   computed exactly from the mantissa/exponent decomposition (Prim2SF).  The integer-only model of the same code is
   Models/CodecTs.v; both are compared with the implementation on generated cases, evaluated by vm_compute
   (Generated/CodecTsCases.v) — that comparison is an evaluation, not a proof. *)
From Coq Require Import ZArith Bool List Uint63 PrimFloat FloatOps SpecFloat.
From FEC Require Import Generated.CodecConsts Models.CodecTs.
Open Scope Z_scope.

Definition TsF_of_Z (z : Z) : float := of_uint63 (Uint63.of_Z z).          (* exact for 0 <= z < 2^53 *)
Definition TsF_of_bits (bits : Z) : float :=
  let (m, e) := Codec_of_bits bits in
  match m with Zpos p => SF2Prim (S754_finite false p e) | _ => zero end.
Definition TsF_c_dec : float := TsF_of_bits ts_dec_factor_bits.
Definition TsF_c_enc : float := TsF_of_bits ts_enc_factor_bits.

(* non-negative finite float -> (m, e) *)
Definition TsF_sf (f : float) : option Codec_sf :=
  match Prim2SF f with
  | S754_zero _ => Some (0, 0)
  | S754_finite false m e => Some (Zpos m, e)
  | _ => None
  end.
Definition TsF_bits (f : float) : option Z := option_map Codec_to_bits (TsF_sf f).

Definition TsF_dec (sec ns : Z) : Codec_fval :=
  if (sec =? ts_invalid) || (ns =? ts_invalid) then FNaN
  else match TsF_bits (TsF_of_Z sec + TsF_of_Z ns * TsF_c_dec)%float with Some b => FInt b | None => FNaN end.

Definition TsF_enc (s : float) : option (Z * Z) :=
  match TsF_sf s with
  | None => None
  | Some x =>
      let int_part := Codec_floor x in
      match TsF_sf ((s - TsF_of_Z int_part) * TsF_c_enc)%float with
      | None => None
      | Some y =>
          let ns0 := Codec_round_int y in
          let '(sec, ns) := if ts_carry_at <=? ns0 then (int_part + 1, ns0 - ts_carry_at) else (int_part, ns0) in
          if (sec <? 2 ^ 32) && (0 <=? ns) && (ns <? 2 ^ 32) then Some (sec, ns) else None
      end
  end.

(* one generated case: a stamp and what the implementation did with it
   (dec = -1: NaN; enc_sec = -1: pack raised) *)
Record TsF_case := { tc_sec : Z; tc_ns : Z; tc_dec_bits : Z; tc_enc_sec : Z; tc_enc_ns : Z }.

Definition TsF_fval_code (v : Codec_fval) : Z := match v with FInt b => b | FNaN => -1 | FBytes _ => -2 end.
Definition TsF_pair_eqb (o : option (Z * Z)) (s n : Z) : bool :=
  match o with Some (a, b) => (a =? s) && (b =? n) | None => s =? -1 end.

(* implementation = integer model = primitive-float model, for decode and for the re-encode of the decoded value *)
Definition TsF_case_agree (c : TsF_case) : bool :=
  let z := Codec_ts_join c.(tc_sec) c.(tc_ns) in
  let vz := Codec_ts_dec z in
  let vf := TsF_dec c.(tc_sec) c.(tc_ns) in
  (TsF_fval_code vz =? c.(tc_dec_bits)) && (TsF_fval_code vf =? c.(tc_dec_bits)) &&
  TsF_pair_eqb (match Codec_ts_enc vz with Some z' => Some (Codec_ts_sec z', Codec_ts_ns z') | None => None end) c.(tc_enc_sec) c.(tc_enc_ns) &&
  match vf with
  | FBytes _ => false
  | FNaN => (c.(tc_enc_sec) =? ts_invalid) && (c.(tc_enc_ns) =? ts_invalid)
  | FInt b => TsF_pair_eqb (TsF_enc (TsF_of_bits b)) c.(tc_enc_sec) c.(tc_enc_ns)
  end.

(* the projection law on one stamp of the domain, evaluated on the integer model *)
Definition TsF_case_projects (c : TsF_case) : bool :=
  let z := Codec_ts_join c.(tc_sec) c.(tc_ns) in
  negb (Codec_ts_dom z) ||
  match Codec_ts_enc (Codec_ts_dec z) with
  | Some z' => (0 <=? z') && (z' <? 2 ^ 64) &&
               (TsF_fval_code (Codec_ts_dec z') =? TsF_fval_code (Codec_ts_dec z))
  | None => false
  end.
