(* C06 MODEL (definitions only): FusionEngineEncoder.encode_message, MessageHeader.pack / calculate_crc /
   validate_crc (python), CalculateCRC (both overloads) / IsValid (crc.cc, crc.h), and the error patterns the
   detection theorems speak about.

   Transcription notes
   * Python ints are unbounded: fields are N; struct.pack('<BBHIBBHIII') raises struct.error when a field does
     not fit its width -> [Encoder_struct_pack] returns None.  Negative values are outside the model (N).
   * zlib.crc32(data, value) is external: modelled as the bit-serial CRC-32 definition [crc32_spec_from]
     (Base/Crc32.v); crc.cc is the table-driven [crc32_from].  Their equality is a theorem, not a definition.
   * C++ reads through raw pointers: every read the code performs beyond the supplied buffer is an explicit
     [None] (out of bounds) in the model, and the theorems exclude it.
   * size_t arithmetic in crc.h / crc.cc is written with its wrap (CPP_SIZE_T_BITS from the compiler).
   * every length comparison is done in N before any conversion to nat, so the extracted model never builds a
     unary number from an attacker-controlled 32-bit size field. *)
From Coq Require Import NArith List Bool Arith.
From FEC Require Import Generated.FEConsts Generated.EncoderConsts Base.ListX Base.Bytes Base.Crc32 Base.Scan Base.FEFormat.
Import ListNotations.
Open Scope N_scope.

(* ---- header field updates ------------------------------------------------------------------- *)
Definition Encoder_set_reserved (h : header) (v : N) : header :=
  mkHeader (h_sync0 h) (h_sync1 h) v (h_crc h) (h_proto h) (h_msgver h) (h_type h) (h_seq h) (h_psize h) (h_source h).
Definition Encoder_set_crc (h : header) (v : N) : header :=
  mkHeader (h_sync0 h) (h_sync1 h) (h_reserved h) v (h_proto h) (h_msgver h) (h_type h) (h_seq h) (h_psize h) (h_source h).
Definition Encoder_set_psize (h : header) (v : N) : header :=
  mkHeader (h_sync0 h) (h_sync1 h) (h_reserved h) (h_crc h) (h_proto h) (h_msgver h) (h_type h) (h_seq h) v (h_source h).

(* ---- external: struct.pack range check, zlib.crc32, Python slicing ---------------------------- *)
Definition Encoder_fits (h : header) : bool :=
  (h_sync0 h <? 256) && (h_sync1 h <? 256) && (h_reserved h <? 65536) && (h_crc h <? 4294967296) &&
  (h_proto h <? 256) && (h_msgver h <? 256) && (h_type h <? 65536) && (h_seq h <? 4294967296) &&
  (h_psize h <? 4294967296) && (h_source h <? 4294967296).

(* struct.pack(MessageHeader._FORMAT, SYNC0, SYNC1, reserved, crc, ...): None = struct.error *)
Definition Encoder_struct_pack (h : header) : option (list N) :=
  if Encoder_fits h then Some (pack_header h) else None.

(* zlib.crc32(data, value) *)
Definition Encoder_zlib_crc32 (data : list N) (value : N) : N := crc32_spec_from value data.

(* l[a:b] for 0 <= a, 0 <= b (clamped to the length, empty when b <= a) *)
Definition Encoder_py_slice (l : list N) (a b : N) : list N :=
  let n := N.of_nat (length l) in
  let a' := N.min a n in let b' := N.min b n in
  firstn (N.to_nat (b' - a')) (skipn (N.to_nat a') l).

(* ---- MessageHeader.pack / calculate_crc ------------------------------------------------------- *)
(* pack() with payload=None: clears reserved, packs the current fields; returns the updated header and bytes *)
Definition Encoder_pack_plain (h : header) : option (header * list N) :=
  let h0 := Encoder_set_reserved h 0 in
  match Encoder_struct_pack h0 with None => None | Some b => Some (h0, b) end.

Definition Encoder_calculate_crc (h : header) (payload : list N) : option header :=
  let h1 := Encoder_set_psize h (N.of_nat (length payload)) in
  match Encoder_pack_plain h1 with
  | None => None
  | Some (h2, header_buffer) =>
      let c1 := Encoder_zlib_crc32 (skipn PY_CALC_CRC_START header_buffer) 0 in
      let c2 := Encoder_zlib_crc32 payload c1 in
      Some (Encoder_set_crc h2 c2)
  end.

(* pack(payload=...) with buffer=None: returns the updated header and header bytes + payload *)
Definition Encoder_pack_payload (h : header) (payload : list N) : option (header * list N) :=
  let h0 := Encoder_set_reserved h 0 in
  match Encoder_calculate_crc h0 payload with
  | None => None
  | Some h3 => match Encoder_struct_pack h3 with
               | None => None
               | Some b => Some (h3, b ++ payload)
               end
  end.

(* ---- FusionEngineEncoder ---------------------------------------------------------------------- *)
(* MessageHeader(message_type) *)
Definition Encoder_new_header (mtype : N) : header :=
  mkHeader SYNC0 SYNC1 0 0 PROTOCOL_VERSION 0 mtype 0 0 INVALID_SOURCE_ID.

(* how self.sequence_number advances (ENC_SEQ_MODULUS regenerated from encoder.py; 0 = never reduced) *)
Definition Encoder_next_seq (s : N) : N :=
  if ENC_SEQ_MODULUS =? 0 then s + 1 else (s + 1) mod ENC_SEQ_MODULUS.
Definition Encoder_next_seq_legacy (s : N) : N := s + 1.

(* a payload object is what encode_message uses of it: get_type(), get_version(), pack() *)
Record Encoder_payload := mkPayload { p_type : N; p_version : N; p_bytes : list N }.

(* encode_message(message, source_identifier) in encoder state seq: (result or struct.error, new state).
   The counter is advanced before the header is packed, so it advances even when packing raises. *)
Definition Encoder_encode_with (next : N -> N) (seq : N) (m : Encoder_payload) (source : N) : option (list N) * N :=
  let h := Encoder_new_header (p_type m) in
  let h := mkHeader (h_sync0 h) (h_sync1 h) (h_reserved h) (h_crc h) (h_proto h) (p_version m) (h_type h) seq (h_psize h) source in
  let seq' := next seq in
  (match Encoder_pack_payload h (p_bytes m) with None => None | Some (_, b) => Some b end, seq').

Definition Encoder_encode := Encoder_encode_with Encoder_next_seq.
Definition Encoder_encode_legacy := Encoder_encode_with Encoder_next_seq_legacy.

(* a history of calls on one encoder instance *)
Fixpoint Encoder_run_with (next : N -> N) (seq : N) (calls : list (Encoder_payload * N)) : list (option (list N)) * N :=
  match calls with
  | [] => ([], seq)
  | (m, src) :: t => let '(o, s1) := Encoder_encode_with next seq m src in
                     let '(os, s2) := Encoder_run_with next s1 t in (o :: os, s2)
  end.
Definition Encoder_run := Encoder_run_with Encoder_next_seq.
Definition Encoder_run_legacy := Encoder_run_with Encoder_next_seq_legacy.

(* states an encoder can be in: constructed (0), then any number of encode_message calls *)
Inductive Encoder_reachable_with (next : N -> N) : N -> Prop :=
| Enc_init : Encoder_reachable_with next 0
| Enc_step s : Encoder_reachable_with next s -> Encoder_reachable_with next (next s).
Definition Encoder_reachable := Encoder_reachable_with Encoder_next_seq.
Definition Encoder_reachable_legacy := Encoder_reachable_with Encoder_next_seq_legacy.

(* ---- MessageHeader.validate_crc / unpack(validate_crc=True) ------------------------------------ *)
Inductive Encoder_vc := VcOk | VcTooBig | VcNotEnough | VcMismatch.

Definition Encoder_validate_crc (h : header) (buffer : list N) (offset : N) : Encoder_vc :=
  if MAX_EXPECTED_SIZE_BYTES <? h_psize h then VcTooBig else
  let message_size_bytes := N.of_nat HEADER_SIZE + h_psize h in
  if N.of_nat (length buffer) <? offset + message_size_bytes then VcNotEnough else
  let crc := Encoder_zlib_crc32 (Encoder_py_slice buffer (offset + N.of_nat PY_VALIDATE_CRC_START) (offset + message_size_bytes)) 0 in
  if crc =? h_crc h then VcOk else VcMismatch.

(* header = MessageHeader(); header.unpack(buffer, validate_crc=True): None = struct.error (fewer than 24 bytes) *)
Definition Encoder_unpack_validate (buffer : list N) : option (header * Encoder_vc) :=
  if Nat.ltb (length buffer) HEADER_SIZE then None else
  let h := parse_header (firstn HEADER_SIZE buffer) in
  Some (h, Encoder_validate_crc h buffer 0).

(* header.unpack(buffer, validate_crc=True) on an EXISTING header object: struct.unpack_from assigns every field but
   message_type before the CRC is validated; message_type is assigned only after validation succeeded, so after a
   failed validation the object keeps its old type.  The object does not store the sync bytes (pack() always writes
   the constants).  None = struct.error (fewer than 24 bytes), object untouched. *)
Definition Encoder_unpack_into (old : header) (buffer : list N) : option (header * Encoder_vc) :=
  match Encoder_unpack_validate buffer with
  | None => None
  | Some (h, v) =>
      let ty := match v with VcOk => h_type h | _ => h_type old end in
      Some (mkHeader SYNC0 SYNC1 (h_reserved h) (h_crc h) (h_proto h) (h_msgver h) ty (h_seq h) (h_psize h) (h_source h), v)
  end.

(* ---- crc.cc / crc.h ---------------------------------------------------------------------------- *)
Definition Encoder_size_t (x : N) : N := x mod 2 ^ CPP_SIZE_T_BITS.

(* CalculateCRC(buffer, length, initial_value); None = the loop reads beyond the supplied bytes *)
Definition Encoder_cpp_crc3 (buf : list N) (len : N) (init : N) : option N :=
  if N.of_nat (length buf) <? len then None else Some (crc32_from (init mod 4294967296) (firstn (N.to_nat len) buf)).

(* fields read through the MessageHeader reference (little-endian target, checked by the translator) *)
Definition Encoder_cpp_psize (buf : list N) : N := le (sub buf CPP_OFF_PSIZE 4).
Definition Encoder_cpp_stored_crc (buf : list N) : N := le (sub buf CPP_OFF_CRC 4).

(* CalculateCRC(const void* buffer) *)
Definition Encoder_cpp_crc1 (buf : list N) : option N :=
  if Nat.ltb (length buf) CPP_HEADER_SIZE then None else
  let size_bytes := Encoder_size_t (N.of_nat (CPP_HEADER_SIZE - CPP_CRC_OFFSET) + Encoder_cpp_psize buf) in
  if N.of_nat (length buf) <? N.of_nat CPP_CRC_OFFSET + size_bytes then None else
  Encoder_cpp_crc3 (skipn CPP_CRC_OFFSET buf) size_bytes 0.

(* IsValid(const void* buffer) *)
Definition Encoder_cpp_is_valid (buf : list N) : option bool :=
  if Nat.ltb (length buf) CPP_HEADER_SIZE then None else
  if CPP_MAX_MESSAGE_SIZE_BYTES <? Encoder_size_t (N.of_nat CPP_HEADER_SIZE + Encoder_cpp_psize buf) then Some false else
  match Encoder_cpp_crc1 buf with
  | None => None
  | Some c => Some (Encoder_cpp_stored_crc buf =? c)
  end.

(* ---- the acceptance test of Base/FEFormat.v with the length tests done in N ---------------------- *)
(* equal to judge_fe (theorem Encoder_judge_eq); used by the extracted runner so that a corrupted size field
   never becomes a unary number *)
Definition Encoder_judge (eager check_reserved : bool) (max_payload : N) (l : list N) : verdict :=
  if eager && sync_mismatch_early l then Reject else
  if Nat.ltb (length l) HEADER_SIZE then More else
  let h := parse_header (firstn HEADER_SIZE l) in
  if negb (N.eqb (h_sync0 h) SYNC0 && N.eqb (h_sync1 h) SYNC1) then Reject else
  if check_reserved && negb (N.eqb (h_reserved h) 0) then Reject else
  if N.ltb max_payload (h_psize h) then Reject else
  if N.of_nat (length l) <? N.of_nat HEADER_SIZE + h_psize h then More else
  let n := (HEADER_SIZE + N.to_nat (h_psize h))%nat in
  if N.eqb (crc32 (crc_region l n)) (h_crc h) then Accept n else Reject.

(* ---- corruption --------------------------------------------------------------------------------- *)
(* the received bytes: message xor error pattern, byte by byte (patterns have the message's length) *)
Fixpoint Encoder_xor_bytes (m e : list N) : list N :=
  match m, e with
  | a :: m', b :: e' => N.lxor a b :: Encoder_xor_bytes m' e'
  | _, _ => []
  end.

(* the bits of a byte string in the order the CRC register consumes them: byte by byte, least significant first *)
Definition Encoder_byte_bits (b : N) : list bool :=
  [N.testbit b 0; N.testbit b 1; N.testbit b 2; N.testbit b 3; N.testbit b 4; N.testbit b 5; N.testbit b 6; N.testbit b 7].
Definition Encoder_bits (l : list N) : list bool := flat_map Encoder_byte_bits l.

(* error patterns over a whole message of n bytes: nothing | CRC field (4 bytes at 4) | protected region (from 8) *)
Definition Encoder_err (eC eR : list N) : list N := repeat 0 4 ++ eC ++ eR.

(* the register, bit by bit *)
Definition Encoder_feed_bit (c : N) (t : bool) : N := step_bit (N.lxor c (N.b2n t)).
Definition Encoder_feed_bits (c : N) (ts : list bool) : N := fold_left Encoder_feed_bit ts c.
(* value of a bit string, first bit least significant *)
Fixpoint Encoder_bits_val (ts : list bool) : N :=
  match ts with [] => 0 | t :: r => N.b2n t + 2 * Encoder_bits_val r end.

(* step_bit iterated; its inverse on 32-bit words *)
Definition Encoder_steps (n : N) (x : N) : N := N.iter n step_bit x.
Definition Encoder_unstep (y : N) : N :=
  if N.testbit y 31 then N.succ_double (N.lxor y crc_poly) else N.double y.

(* 32x32 bit matrices over GF(2): row j is the image of the word 2^j *)
Fixpoint Encoder_mapply (M : list N) (v : N) : N :=
  match M with
  | [] => 0
  | r :: t => N.lxor (if N.odd v then r else 0) (Encoder_mapply t (N.div2 v))
  end.
Definition Encoder_mat_of (g : N -> N) : list N := map (fun j => g (2 ^ N.of_nat j)) (seq 0 32).
Definition Encoder_mmul (A B : list N) : list N := map (Encoder_mapply A) B.
Fixpoint Encoder_mpow (M : list N) (p : positive) : list N :=
  match p with
  | xH => M
  | xO q => let H := Encoder_mpow M q in Encoder_mmul H H
  | xI q => let H := Encoder_mpow M q in Encoder_mmul M (Encoder_mmul H H)
  end.
(* step_bit^p (1), computed by repeated squaring *)
Definition Encoder_steps1_fast (p : positive) : N := hd 0 (Encoder_mpow (Encoder_mat_of step_bit) p).
