(* MODEL of python/fusion_engine_client/parsers/decoder.py (FusionEngineDecoder.on_data) together with
   MessageHeader.unpack / validate_crc of messages/defs.py, and the SPEC it is compared with.
   Definitions only (proofs: Proofs/PyDecoderP.v; property theorems: Properties/C04.v, C05.v).

   Everything is parametric in
     parse_payload : message type -> bytes handed to the payload parser -> option P
                     (cls().unpack(...) of the registered class, or bytes(...) for an unknown type; None = it raised),
     maxp          : max_payload_len_bytes given to the constructor,
     maxe          : MessageHeader._MAX_EXPECTED_SIZE_BYTES (instantiated with the generated constant in Properties/),
     rb, ro        : return_bytes / return_offset,
     legacy        : true = the pre-repair code, which handed the parser the whole remaining buffer from offset 24
                     (decoder.py before the fix for DESIGN 21 #3); false = the repaired code (the message slice).
   Lengths and offsets the code keeps as Python ints are N (unbounded); list lengths are nat. *)
From Coq Require Import NArith List Bool Arith.
From FEC Require Import Generated.FEConsts Base.ListX Base.Bytes Base.Crc32 Base.Scan Base.FEFormat.
Import ListNotations.

(* len(l) < n, decided without walking more than n elements (equal to Nat.ltb (length l) n: PyDecoderP.shorter_ltb); the
   extracted model evaluates this test once per scanned byte, on buffers of tens of kilobytes *)
Fixpoint PyDecoder_shorter (l : list N) (n : nat) : bool :=
  match n with
  | O => false
  | S k => match l with [] => true | _ :: t => PyDecoder_shorter t k end
  end.

Section PyDecoder.
  Context {P : Type}.
  Variable parse_payload : N -> list N -> option P.
  Variable maxp maxe : N.
  Variable rb ro : bool.
  Variable legacy : bool.

  (* ---- SPEC --------------------------------------------------------------------------------------
     The acceptance test of the property text, as the decoder's configuration instantiates it: at a
     position with at least 24 bytes: sync bytes, zero reserved field, payload size <= configured maximum;
     with the whole claimed message present: payload size <= the library's sanity limit maxe (validate_crc),
     CRC-32 over bytes 8.. equals the crc field.  For maxp <= maxe (the default is maxp = maxe) this is
     literally Base.FEFormat.judge_fe false true maxp (PyDecoderP.judge_py_eq_fe); for maxp > maxe the
     accepted set is that of min maxp maxe, but a header claiming a size in (maxe, maxp] is only rejected
     once that many bytes have arrived (this is what the code does: validate_crc runs after the wait). *)
  Definition PyDecoder_judge (l : list N) : verdict :=
    if PyDecoder_shorter l HEADER_SIZE then More else
    let h := parse_header (firstn HEADER_SIZE l) in
    if negb (N.eqb (h_sync0 h) SYNC0 && N.eqb (h_sync1 h) SYNC1) then Reject else
    if negb (N.eqb (h_reserved h) 0) then Reject else
    if N.ltb maxp (h_psize h) then Reject else
    if N.ltb (N.of_nat (length l)) (N.of_nat HEADER_SIZE + h_psize h) then More else
    if N.ltb maxe (h_psize h) then Reject else
    let n := (HEADER_SIZE + N.to_nat (h_psize h))%nat in
    if N.eqb (crc32 (crc_region l n)) (h_crc h) then Accept n else Reject.

  (* The same test with the additional requirement the code imposes and the property text does not:
     the payload parser must succeed on the message's payload bytes.  The decoder refines the scan of THIS
     judge unconditionally; it coincides with PyDecoder_judge exactly when the parser never fails on a
     CRC-valid message (DESIGN 21 #14). *)
  Definition PyDecoder_judge_dec (l : list N) : verdict :=
    match PyDecoder_judge l with
    | Accept n =>
        match parse_payload (h_type (parse_header (firstn HEADER_SIZE l))) (sub l HEADER_SIZE (n - HEADER_SIZE)) with
        | Some _ => Accept n
        | None => Reject
        end
    | v => v
    end.

  (* ---- MODEL ------------------------------------------------------------------------------------- *)
  Record PyDecoder_state := mkPyDecoderState {
    pd_buf : list N;               (* self._buffer *)
    pd_hdr : option header;        (* self._header *)
    pd_msg_len : N;                (* self._msg_len *)
    pd_processed : N;              (* self._bytes_processed *)
    pd_last_seq : option N         (* self._last_sequence_number *)
  }.

  Definition PyDecoder_init : PyDecoder_state :=
    {| pd_buf := []; pd_hdr := None; pd_msg_len := 0; pd_processed := 0; pd_last_seq := None |}.

  (* one entry of the returned list: [header, contents] (+ raw bytes if return_bytes) (+ offset if return_offset) *)
  Record PyDecoder_result := mkPyDecoderResult {
    pr_hdr : header; pr_payload : P; pr_bytes : option (list N); pr_off : option N }.

  (* self._buffer.pop(0); self._bytes_processed += 1   (the header / msg_len updates differ per site) *)
  Definition PyDecoder_pop (st : PyDecoder_state) (h : option header) (ml : N) : PyDecoder_state :=
    {| pd_buf := tl (pd_buf st); pd_hdr := h; pd_msg_len := ml;
       pd_processed := (pd_processed st + 1)%N; pd_last_seq := pd_last_seq st |}.

  (* MessageHeader.validate_crc(self._buffer): False = it raised *)
  Definition PyDecoder_validate_crc (h : header) (b : list N) : bool :=
    if N.ltb maxe (h_psize h) then false                                          (* sanity limit *)
    else if N.ltb (N.of_nat (length b)) (N.of_nat HEADER_SIZE + h_psize h) then false  (* "Not enough data to validate CRC" *)
    else N.eqb (crc32 (sub b 8 (HEADER_SIZE + N.to_nat (h_psize h) - 8))) (h_crc h).

  Inductive PyDecoder_step_res :=
  | PdBreak (st : PyDecoder_state)
  | PdContinue (st : PyDecoder_state)
  | PdEmit (r : PyDecoder_result) (st : PyDecoder_state)
  | PdRaise.                                   (* an exception would escape on_data (IndexError / AttributeError) *)

  (* lines 201-308: a header is cached in st *)
  Definition PyDecoder_complete (st : PyDecoder_state) (h : header) : PyDecoder_step_res :=
    (* if len(self._buffer) < self._msg_len: break *)
    if N.ltb (N.of_nat (length (pd_buf st))) (pd_msg_len st) then PdBreak st else
    (* try: self._header.validate_crc(self._buffer)  except: header=None, msg_len=0, pop, continue *)
    if negb (PyDecoder_validate_crc h (pd_buf st)) then PdContinue (PyDecoder_pop st None 0) else
    (* self._last_sequence_number = self._header.sequence_number   (the gap test only logs) *)
    let st2 := {| pd_buf := pd_buf st; pd_hdr := pd_hdr st; pd_msg_len := pd_msg_len st;
                  pd_processed := pd_processed st; pd_last_seq := Some (h_seq h) |} in
    let n := N.to_nat (pd_msg_len st2) in
    (* contents = cls(); contents.unpack(...)   |   contents = bytes(self._buffer[24:self._msg_len]) *)
    let handed := if legacy then skipn HEADER_SIZE (pd_buf st2) else sub (pd_buf st2) HEADER_SIZE (n - HEADER_SIZE) in
    match parse_payload (h_type h) handed with
    | None => PdContinue (PyDecoder_pop st2 None 0)
    | Some c =>
        PdEmit {| pr_hdr := h; pr_payload := c;
                  pr_bytes := if rb then Some (firstn n (pd_buf st2)) else None;
                  pr_off := if ro then Some (pd_processed st2) else None |}
               {| pd_buf := skipn n (pd_buf st2); pd_hdr := None; pd_msg_len := 0;
                  pd_processed := (pd_processed st2 + pd_msg_len st2)%N; pd_last_seq := pd_last_seq st2 |}
    end.

  (* one iteration of `while self._buffer:` (the buffer is known to be non-empty) *)
  Definition PyDecoder_step (st : PyDecoder_state) : PyDecoder_step_res :=
    (* if len(self._buffer) < MessageHeader.calcsize(): break *)
    if PyDecoder_shorter (pd_buf st) HEADER_SIZE then PdBreak st else
    match pd_hdr st with
    | Some h => PyDecoder_complete st h
    | None =>
        (* elif self._header is None: *)
        match pd_buf st with
        | b0 :: b1 :: _ =>
            if negb (N.eqb b0 SYNC0) then PdContinue (PyDecoder_pop st None (pd_msg_len st))
            else if negb (N.eqb b1 SYNC1) then PdContinue (PyDecoder_pop st None (pd_msg_len st))
            else
              (* self._header = MessageHeader(); self._header.unpack(self._buffer); self._msg_len = size + 24 *)
              let h := parse_header (firstn HEADER_SIZE (pd_buf st)) in
              let st1 := {| pd_buf := pd_buf st; pd_hdr := Some h;
                            pd_msg_len := (h_psize h + N.of_nat HEADER_SIZE)%N;
                            pd_processed := pd_processed st; pd_last_seq := pd_last_seq st |} in
              let drop_candidate :=
                if negb (N.eqb (h_reserved h) 0) then true
                else if N.ltb maxp (h_psize h) then true else false in
              (* if drop_candidate: header=None (msg_len keeps its value), pop, continue *)
              if drop_candidate then PdContinue (PyDecoder_pop st1 None (pd_msg_len st1))
              else PyDecoder_complete st1 h
        | _ => PdRaise      (* self._buffer[0] / [1]: IndexError *)
        end
    end.

  Inductive PyDecoder_outcome :=
  | PdDone (rs : list PyDecoder_result) (st : PyDecoder_state)
  | PdRaised
  | PdOutOfFuel.

  Fixpoint PyDecoder_loop (fuel : nat) (st : PyDecoder_state) : PyDecoder_outcome :=
    match fuel with
    | O => PdOutOfFuel
    | S f =>
        match pd_buf st with
        | [] => PdDone [] st                               (* while self._buffer: *)
        | _ :: _ =>
            match PyDecoder_step st with
            | PdBreak st' => PdDone [] st'
            | PdContinue st' => PyDecoder_loop f st'
            | PdEmit r st' =>
                match PyDecoder_loop f st' with
                | PdDone rs st'' => PdDone (r :: rs) st''
                | o => o
                end
            | PdRaise => PdRaised
            end
        end
    end.

  (* on_data(data) *)
  Definition PyDecoder_on_data (st : PyDecoder_state) (data : list N) : PyDecoder_outcome :=
    match data with
    | [] => PdDone [] st                                   (* if len(data) == 0: return [] *)
    | _ :: _ =>
        let st1 := {| pd_buf := pd_buf st ++ data; pd_hdr := pd_hdr st; pd_msg_len := pd_msg_len st;
                      pd_processed := pd_processed st; pd_last_seq := pd_last_seq st |} in
        PyDecoder_loop (S (length (pd_buf st1))) st1
    end.

  (* successive calls; the results of each call are kept separate *)
  Inductive PyDecoder_run_outcome :=
  | PdRunDone (per_call : list (list PyDecoder_result)) (st : PyDecoder_state)
  | PdRunFailed.

  Fixpoint PyDecoder_run (st : PyDecoder_state) (chunks : list (list N)) : PyDecoder_run_outcome :=
    match chunks with
    | [] => PdRunDone [] st
    | c :: cs =>
        match PyDecoder_on_data st c with
        | PdDone rs st1 =>
            match PyDecoder_run st1 cs with
            | PdRunDone rss st2 => PdRunDone (rs :: rss) st2
            | PdRunFailed => PdRunFailed
            end
        | _ => PdRunFailed
        end
    end.

  (* ---- link between the two ---------------------------------------------------------------------- *)
  (* what the decoder's state means to the reference scanner *)
  Definition PyDecoder_abs (st : PyDecoder_state) : sstate (B := N) := (N.to_nat (pd_processed st), pd_buf st).

  (* the list entry the decoder is expected to return for a frame (offset, raw bytes) of the scan *)
  Definition PyDecoder_result_of (f : frame (B := N)) : option PyDecoder_result :=
    let '(o, bs) := f in
    let h := parse_header (firstn HEADER_SIZE bs) in
    match parse_payload (h_type h) (skipn HEADER_SIZE bs) with
    | Some c => Some {| pr_hdr := h; pr_payload := c;
                        pr_bytes := if rb then Some bs else None;
                        pr_off := if ro then Some (N.of_nat o) else None |}
    | None => None
    end.

  (* the part of the decoder state that can influence later calls *)
  Definition PyDecoder_obs (st : PyDecoder_state) : list N * N * option header * N :=
    (pd_buf st, pd_processed st, pd_hdr st, match pd_hdr st with Some _ => pd_msg_len st | None => 0%N end).
End PyDecoder.
