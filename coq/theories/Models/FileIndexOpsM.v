(* C10 / C11 — model of the filtering operations of python/fusion_engine_client/parsers/file_index.py
   (FileIndex.__init__ t0 rule, get_time_range, __getitem__) and of utils/numpy_utils.find_first.
   Definitions only.

   Units.  Index times are whole seconds ([e_time : option Z], None = NaN): the indexer stores
   int(p1_time.seconds).  Range bounds, preset t0 and message times are in EIGHTHS of a second (Z), so
   that the binary64 arithmetic of the implementation is exact on the generated inputs and
   np.floor(x) = x / 8 (floor division), "time >= stop" = 8 * time >= stop8.

   Every function that differs between the code as first read (with the defects recorded in
   DESIGN.md section 21 and found by the C10/C11 checks) and the repaired code takes a [fixes] record;
   [fixed] is the working tree after the fix: commits, [legacy] the tree before them. *)
From Coq Require Import ZArith List Bool Lia.
Import ListNotations.
Open Scope Z_scope.

Record fixes := mkFx {
  fx_payload : bool;      (* _read_next binds payload when it is not needed (was: UnboundLocalError) *)
  fx_after_log : bool;    (* get_time_range: no entry at/after start => empty (was: start_idx = 0) *)
  fx_time_first : bool;   (* constructor: original[time_range][types] (was: [types][time_range]) *)
  fx_remove_nans : bool;  (* get_time_range(hint) without bounds honours the hint; remove-untimed relocates *)
  fx_last_off : bool;     (* reader remembers the offset of the last entry consumed (was: re-derived from index) *)
  fx_populate_rewind : bool; (* source-id discovery samples every type from the start of the file (was: from where the previous type ended) *)
  fx_srcs_as_requested : bool (* the requested source ids are applied as given (was: intersected with the ids seen in the sample) *)
}.
Definition fixed : fixes := mkFx true true true true true true true.
Definition legacy : fixes := mkFx false false false false false false false.

Inductive err := IndexError | ValueError | UnboundLocalError | Unsupported | InternalError.
Inductive res (A : Type) := Ok (a : A) | Err (e : err).
Arguments Ok {A} a.
Arguments Err {A} e.

Record entry := mkE { e_time : option Z; e_type : Z; e_off : Z; e_idx : Z }.
(* FileIndex: _data and t0 (whole seconds; None = no t0) *)
Record findex := mkFI { fi_data : list entry; fi_t0 : option Z }.

Definition zlen {A} (l : list A) : Z := Z.of_nat (length l).

(* numpy_utils.find_first: index of the first True, -1 if none (also for the empty array) *)
Fixpoint find_first_from (l : list bool) (i : Z) : Z :=
  match l with
  | [] => -1
  | b :: t => if b then i else find_first_from t (i + 1)
  end.
Definition find_first (l : list bool) : Z := find_first_from l 0.

(* np.argmax on a boolean array: first True, 0 when there is none *)
Definition argmax_bool (l : list bool) : Z := let i := find_first l in if i <? 0 then 0 else i.

Fixpoint first_time (l : list entry) : option Z :=
  match l with
  | [] => None
  | e :: t => match e_time e with Some x => Some x | None => first_time t end
  end.

(* FileIndex.__init__(data=..., t0=...): t0 given, else first non-NaN time (None for empty / all-NaN) *)
Definition mk_index (data : list entry) (t0 : option Z) : findex :=
  mkFI data (match t0 with Some x => Some x | None => first_time data end).

(* a[s:e] for 0 <= s, 0 <= e (numpy clips at the length) *)
Definition slice_nn {A} (l : list A) (s e : Z) : list A := firstn (Z.to_nat (e - s)) (skipn (Z.to_nat s) l).

Fixpoint filter_i_from {A} (f : Z -> A -> bool) (i : Z) (l : list A) : list A :=
  match l with
  | [] => []
  | x :: t => if f i x then x :: filter_i_from f (i + 1) t else filter_i_from f (i + 1) t
  end.
Definition filter_i {A} (f : Z -> A -> bool) (l : list A) : list A := filter_i_from f 0 l.

Definition is_nan (e : entry) : bool := match e_time e with None => true | Some _ => false end.
(* time >= s (seconds); a NaN compares False *)
Definition time_ge_s (s : Z) (e : entry) : bool := match e_time e with Some t => s <=? t | None => false end.
(* time >= x8/8 *)
Definition time_ge_8 (x8 : Z) (e : entry) : bool := match e_time e with Some t => x8 <=? 8 * t | None => false end.

(* a bound handed to get_time_range: None, a NaN Timestamp (t0 unknown + relative bound), or a value in eighths *)
Inductive bnd := BNone | BNaN | BVal (x8 : Z).
Definition bnd_is_none (b : bnd) : bool := match b with BNone => true | _ => false end.

Inductive hint := IncludeNans | AllNans | RemoveNans.
Definition hint_is_include (h : hint) : bool := match h with IncludeNans => true | _ => false end.

(* TimeRange object state after its own normalisation (C13): start/end/p1_t0 in eighths *)
Record trange := mkTR { tr_start : option Z; tr_end : option Z; tr_abs : bool; tr_t0 : option Z }.

Definition bnd_add (t0 : option Z) (x : option Z) : bnd :=
  match x with
  | None => BNone
  | Some v => match t0 with Some t => BVal (t + v) | None => BNaN end
  end.
Definition bnd_of (x : option Z) : bnd := match x with None => BNone | Some v => BVal v end.

(* get_time_range lines 314-331: start/stop from a TimeRange *)
Definition resolve_range (fi : findex) (R : trange) : bnd * bnd :=
  if tr_abs R then (bnd_of (tr_start R), bnd_of (tr_end R))
  else
    let p1_t0 := match tr_t0 R with
                 | Some t => Some t
                 | None => match fi_t0 fi with Some s => Some (8 * s) | None => None end
                 end in
    (bnd_add p1_t0 (tr_start R), bnd_add p1_t0 (tr_end R)).

(* get_time_range lines 333-373 *)
Definition get_time_range_b (fx : fixes) (fi : findex) (start stop : bnd) (h : hint) : res findex :=
  let data := fi_data fi in
  let n := zlen data in
  if n =? 0 then Ok (mk_index data (fi_t0 fi))
  else if bnd_is_none start && bnd_is_none stop && (if fx_remove_nans fx then hint_is_include h else true)
       then Ok (mk_index data (fi_t0 fi))
  else match fi_t0 fi with
  | None =>
      if fx_remove_nans fx && bnd_is_none start && bnd_is_none stop
      then Ok (mk_index (filter (fun e => match h with RemoveNans => negb (is_nan e) | _ => true end) data) None)
      else Err IndexError
  | Some _ =>
      let start_idx := match start with
                       | BNone => 0
                       | BNaN => find_first (map (fun _ => false) data)
                       | BVal s => find_first (map (time_ge_s (s / 8)) data)
                       end in
      let end_idx := match stop with
                     | BNone => n
                     | BNaN => find_first (map (fun _ => false) data)
                     | BVal s => find_first (map (time_ge_8 s) data)
                     end in
      let start_idx := if start_idx <? 0 then (if fx_after_log fx then n else 0) else start_idx in
      let end_idx := if end_idx <? 0 then n else end_idx in
      match h with
      | IncludeNans => Ok (mk_index (slice_nn data start_idx end_idx) (fi_t0 fi))
      | AllNans => Ok (mk_index (filter_i (fun i e => ((start_idx <=? i) && (i <? end_idx)) || is_nan e) data) (fi_t0 fi))
      | RemoveNans => Ok (mk_index (filter_i (fun i e => ((start_idx <=? i) && (i <? end_idx)) && negb (is_nan e)) data) (fi_t0 fi))
      end
  end.

Definition get_time_range_R (fx : fixes) (fi : findex) (R : trange) (h : hint) : res findex :=
  let '(s, e) := resolve_range fi R in get_time_range_b fx fi s e h.

(* keys accepted by __getitem__ that the reader passes through filter_in_place *)
Inductive key :=
| KNone
| KTypes (ts : list Z)                         (* one MessageType, or a set/list/tuple of them (possibly empty) *)
| KTimeSlice (start stop : option Z) (h : option hint)  (* slice of floats / Timestamps: absolute P1 seconds, in eighths *)
| KTimeRange (R : trange)
| KIdxSlice (start stop step : option Z).      (* slice of ints *)

Definition memZ (x : Z) (l : list Z) : bool := existsb (Z.eqb x) l.

(* Python slice.indices for a positive step *)
Definition norm_idx (n : Z) (x : option Z) (dflt : Z) : Z :=
  match x with
  | None => dflt
  | Some a => if a <? 0 then Z.max (a + n) 0 else Z.min a n
  end.
Definition py_slice {A} (l : list A) (a b : option Z) (step : Z) : list A :=
  let n := zlen l in
  let s := norm_idx n a 0 in
  let e := norm_idx n b n in
  filter_i (fun i _ => (i mod step) =? 0) (slice_nn l s e).

Definition getitem (fx : fixes) (fi : findex) (k : key) : res findex :=
  match k with
  | KNone => Ok fi                                            (* copy.copy(self) *)
  | _ =>
    if zlen (fi_data fi) =? 0 then Ok (mkFI [] None)          (* FileIndex() *)
    else match k with
    | KNone => Ok fi
    | KTypes ts => Ok (mk_index (filter (fun e => memZ (e_type e) ts) (fi_data fi)) (fi_t0 fi))
    | KTimeSlice s e h =>
        match s, e, h with
        | None, None, None => Err Unsupported                 (* slice(None, None): not a time slice, outside the modelled keys *)
        | None, None, Some x =>                               (* index[::'hint'] is a time slice since the fix *)
            if fx_remove_nans fx then get_time_range_b fx fi BNone BNone x else Err Unsupported
        | _, _, _ => get_time_range_b fx fi (bnd_of s) (bnd_of e) (match h with Some x => x | None => IncludeNans end)
        end
    | KTimeRange R => get_time_range_R fx fi R IncludeNans
    | KIdxSlice a b st =>
        let step := match st with Some s => s | None => 1 end in
        if step =? 0 then Err ValueError                      (* numpy: slice step cannot be zero *)
        else if step <? 0 then Err Unsupported                (* reversing slices are outside the model *)
        else Ok (mk_index (py_slice (fi_data fi) a b step) (fi_t0 fi))
    end
  end.

(* ------------------------------------------------------------------------------------------------ *)
(* SPEC: what a key *means* on an entry list, stated by position (shared by C10 and C11).

   A timed entry is inside the window [lo, hi) iff its own (index-resolution) time is: lo <= t and
   8 t < hi8.  An untimed entry takes the verdict of its position among the timed entries of the SAME
   list: inside iff (there is no lower bound, or some timed entry at/after the lower bound precedes
   it) and no timed entry at/after the upper bound precedes it. *)
Definition started_before (lo : Z) (pre : list entry) : bool := existsb (time_ge_s lo) pre.
Definition ended_before (hi8 : Z) (pre : list entry) : bool := existsb (time_ge_8 hi8) pre.

Definition window_ok (lo : option Z) (hi8 : option Z) (pre : list entry) (e : entry) : bool :=
  match e_time e with
  | Some t => (match lo with None => true | Some s => s <=? t end) &&
              (match hi8 with None => true | Some h => negb (h <=? 8 * t) end)
  | None => (match lo with None => true | Some s => started_before s pre end) &&
            (match hi8 with None => true | Some h => negb (ended_before h pre) end)
  end.

Definition window_hint (h : hint) (lo hi8 : option Z) (pre : list entry) (e : entry) : bool :=
  match h with
  | IncludeNans => window_ok lo hi8 pre e
  | AllNans => is_nan e || window_ok lo hi8 pre e
  | RemoveNans => negb (is_nan e) && window_ok lo hi8 pre e
  end.

(* keep the elements e of l with f (elements before e) e *)
Fixpoint filter_pos_from (f : list entry -> entry -> bool) (pre : list entry) (l : list entry) : list entry :=
  match l with
  | [] => []
  | e :: t => if f pre e then e :: filter_pos_from f (pre ++ [e]) t else filter_pos_from f (pre ++ [e]) t
  end.
Definition filter_pos (f : list entry -> entry -> bool) (l : list entry) : list entry := filter_pos_from f [] l.

Definition bnd_val (b : bnd) : option Z := match b with BVal x => Some x | _ => None end.

Definition spec_time (fi : findex) (start stop : bnd) (h : hint) : res findex :=
  if zlen (fi_data fi) =? 0 then Ok (mk_index (fi_data fi) (fi_t0 fi))
  else if bnd_is_none start && bnd_is_none stop then
    Ok (mk_index (filter_pos (window_hint h None None) (fi_data fi)) (fi_t0 fi))
  else match fi_t0 fi with
  | None => Err IndexError           (* no P1 time anywhere: a time bound cannot be applied *)
  | Some _ =>
      Ok (mk_index (filter_pos (window_hint h (option_map (fun s => s / 8) (bnd_val start)) (bnd_val stop)) (fi_data fi))
                   (fi_t0 fi))
  end.

Definition spec_getitem (fi : findex) (k : key) : res findex :=
  match k with
  | KNone => Ok fi
  | _ =>
    if zlen (fi_data fi) =? 0 then Ok (mkFI [] None)
    else match k with
    | KNone => Ok fi
    | KTypes ts => Ok (mk_index (filter (fun e => memZ (e_type e) ts) (fi_data fi)) (fi_t0 fi))
    | KTimeSlice None None None => Err Unsupported
    | KTimeSlice s e h => spec_time fi (bnd_of s) (bnd_of e) (match h with Some x => x | None => IncludeNans end)
    | KTimeRange R => let '(s, e) := resolve_range fi R in spec_time fi s e IncludeNans
    | KIdxSlice a b st =>
        let step := match st with Some s => s | None => 1 end in
        if step =? 0 then Err ValueError
        else if step <? 0 then Err Unsupported
        else Ok (mk_index (py_slice (fi_data fi) a b step) (fi_t0 fi))
    end
  end.
