(* C02 — the comparison applied to the tables regenerated from /repo (definitions only). *)
From Coq Require Import Arith List String.
From FEC Require Import Models.PackingM Models.LayoutM Models.LayoutValuesM Generated.LayoutCpp Generated.LayoutPyProbe Generated.LayoutExc Generated.LayoutValues.

Definition c02_layout_mismatches : list (string * row) :=
  paths_mismatches cpp_layouts layout_exceptions cpp_layouts py_layouts py_layout_paths.
Definition c02_readme_violations : list string :=
  map s_name (filter (fun s => negb (follows_readme s)) cpp_layouts).
Definition c02_float_violations : list string :=
  map s_name (filter (fun s => negb (floats_aligned4 s)) cpp_layouts).
Definition c02_value_mismatches : list vrow := value_mismatches value_rows.
