(* C20 — model of src/point_one/fusion_engine/messages/data_version.{h,cc}.
   Definitions only (no proofs) so the model keeps running when a proof breaks.

   A C string is modelled as the list of its bytes before the terminator (each 1..255, as unsigned char).
   Index [length s] is the terminator (reads 0); any larger index is outside the allocation: the checked
   read [rd] returns None there, and the model turns that into the explicit outcome [OutOfBounds], so
   "never reads beyond the terminator" is a statement about the model, not an artefact of a default. *)
From Coq Require Import ZArith List Bool Lia.
From FEC Require Import Generated.DataVersionConsts.
Import ListNotations.
Open Scope Z_scope.

Inductive res := Ver (maj min : Z) | Invalid | OutOfBounds.

Definition is_digit (c : Z) : bool := (48 <=? c) && (c <=? 57).
(* isspace() in the C locale: \t \n \v \f \r and space *)
Definition is_space (c : Z) : bool := ((9 <=? c) && (c <=? 13)) || (c =? 32).

Definition LONG_MAX : Z := 9223372036854775807.
Definition LONG_MIN : Z := -9223372036854775808.

(* digits of the longest digit prefix: (value, count) *)
Fixpoint digits_pref (l : list Z) (acc : Z) (n : nat) : Z * nat :=
  match l with
  | c :: t => if is_digit c then digits_pref t (strtol_base * acc + (c - 48)) (S n) else (acc, n)
  | [] => (acc, n)
  end.

Fixpoint skip_spaces (l : list Z) (n : nat) : list Z * nat :=
  match l with
  | c :: t => if is_space c then skip_spaces t (S n) else (l, n)
  | [] => (l, n)
  end.

(* glibc strtol(p, &end, 10) on the bytes from p up to the terminator: (result, end - p).
   No conversion => (0, 0) (end = p, even when blanks or a sign were skipped). *)
Definition strtol10 (l : list Z) : Z * nat :=
  let '(l1, nsp) := skip_spaces l 0%nat in
  let '(neg, l2, nsg) := match l1 with
                         | c :: t => if c =? 45 then (true, t, 1%nat)
                                     else if c =? 43 then (false, t, 1%nat) else (false, l1, 0%nat)
                         | [] => (false, l1, 0%nat)
                         end in
  let '(v, nd) := digits_pref l2 0 0%nat in
  match nd with
  | O => (0, O)
  | _ => let v' := if neg then Z.max (- v) LONG_MIN else Z.min v LONG_MAX in
         (v', (nsp + nsg + nd)%nat)
  end.

Definition rd (s : list Z) (i : nat) : option Z :=
  if Nat.ltb i (length s) then Some (nth i s 0)
  else if Nat.eqb i (length s) then Some 0 else None.

Definition strtol_at (s : list Z) (i : nat) : option (Z * nat) :=
  if Nat.leb i (length s) then (let '(v, n) := strtol10 (skipn i s) in Some (v, (i + n)%nat)) else None.

(* FromString on a C string, as in the working tree (after the fix: commit that validates the first
   character of each field, the separator and the terminator). *)
Definition from_string (s : list Z) : res :=
  match rd s 0 with None => OutOfBounds | Some c0 =>
  if negb (is_digit c0) then Invalid else
  match strtol_at s 0 with None => OutOfBounds | Some (tmp, e) =>
  match rd s e with None => OutOfBounds | Some ce =>
  if (e =? 0)%nat || (tmp >? major_max) || (tmp <? 0) || negb (ce =? 46) then Invalid else
  let m := S e in
  match rd s m with None => OutOfBounds | Some cm =>
  if negb (is_digit cm) then Invalid else
  match strtol_at s m with None => OutOfBounds | Some (tmp2, e2) =>
  match rd s e2 with None => OutOfBounds | Some ce2 =>
  if (e2 =? m)%nat || (tmp2 >? minor_max) || (tmp2 <? 0) || negb (ce2 =? 0) then Invalid
  else Ver tmp tmp2
  end end end end end end.

(* The code as it stood before the fix (kept to carry the refutation witnesses that motivated it). *)
Definition from_string_legacy (s : list Z) : res :=
  match strtol_at s 0 with None => OutOfBounds | Some (tmp, e) =>
  if (e =? 0)%nat || (tmp >? major_max) || (tmp <? 0) then Invalid else
  let m := S e in
  match strtol_at s m with None => OutOfBounds | Some (tmp2, e2) =>
  if (e2 =? m)%nat || (tmp2 >? minor_max) || (tmp2 <? 0) then Invalid else Ver tmp tmp2
  end end.

(* std::to_string on a non-negative integer: fuel = number of digits available. *)
Fixpoint digits (fuel : nat) (n : Z) : list Z :=
  match fuel with
  | O => [48 + n mod 10]
  | S f => if n <? 10 then [48 + n] else digits f (n / 10) ++ [48 + n mod 10]
  end.

Definition is_valid (maj min : Z) : bool := negb ((maj =? major_max) && (min =? minor_max)).

(* ToString: None stands for the text "<invalid>" *)
Definition to_string (maj min : Z) : list Z :=
  if is_valid maj min then digits 5 maj ++ [46] ++ digits 5 min
  else [60; 105; 110; 118; 97; 108; 105; 100; 62].

(* comparison operators of data_version.h, transcribed *)
Definition v_eq (a b : Z * Z) : bool := (fst a =? fst b) && (snd a =? snd b).
Definition v_ne a b := negb (v_eq a b).
Definition v_lt (a b : Z * Z) : bool := (fst a <? fst b) || ((fst a =? fst b) && (snd a <? snd b)).
Definition v_gt a b := v_lt b a.
Definition v_le a b := negb (v_gt a b).
Definition v_ge a b := negb (v_lt a b).

(* ---- SPEC: "<0-255>.<0-65535>" ------------------------------------------------------------- *)
Fixpoint split_dot (l : list Z) : option (list Z * list Z) :=
  match l with
  | [] => None
  | c :: t => if c =? 46 then Some ([], t)
              else match split_dot t with Some (a, b) => Some (c :: a, b) | None => None end
  end.

Definition dec_value (l : list Z) : Z := fold_left (fun a c => 10 * a + (c - 48)) l 0.
Definition numeral (l : list Z) : bool := negb (Nat.eqb (length l) 0) && forallb is_digit l.

Definition spec_from_string (s : list Z) : res :=
  match split_dot s with
  | Some (a, b) =>
      if numeral a && numeral b && (dec_value a <=? 255) && (dec_value b <=? 65535)
      then Ver (dec_value a) (dec_value b) else Invalid
  | None => Invalid
  end.

Definition wf_cstr (s : list Z) : Prop := Forall (fun c => 0 < c < 256) s.
Definition wf_cstrb (s : list Z) : bool := forallb (fun c => (0 <? c) && (c <? 256)) s.
