(* C02 — value rows: does a number written at a C++ member's offset mean the same in Python, and back (definitions only).

   One row per leaf element of a C++ struct, per test value, per direction:
     unpack: raw was written little-endian at the element's C++ offset into an otherwise zero buffer; obs is the exact
             value found at the element's Python path; it must be raw * scale (scale from the committed table:
             fixed-point factors, cm -> m, ...), up to 2^-40 relative (Python computes the product in binary64);
     pack:   the Python value raw * scale was set and the object packed; obs is the number found at the element's C++
             offset (scale is 1 on these rows); for "pack array given as ..." rows the whole array attribute was set in
             that memory layout with pairwise distinct elements. *)
From Coq Require Import ZArith List String Bool.
Import ListNotations.
Open Scope Z_scope.

Record vrow := mkVrow {
  v_struct : string; v_leaf : string; v_how : string;
  v_raw_num : Z; v_raw_den : Z;
  v_scale_num : Z; v_scale_den : Z;
  v_obs_num : Z; v_obs_den : Z
}.

(* the generated table is grouped by struct and leaf, and the "how" label is an index, only to keep the file small *)
Definition ventry := (nat * Z * Z * Z * Z * Z * Z)%type.
Definition flatten_values (hows : list string) (t : list (string * list (string * list ventry))) : list vrow :=
  flat_map (fun sg => flat_map (fun lg =>
      map (fun e : ventry => match e with (h, rn, rd, sn, sd, on, od) =>
                               mkVrow (fst sg) (fst lg) (nth h hows "?"%string) rn rd sn sd on od end) (snd lg)) (snd sg)) t.

Definition tolerance : Z := 2 ^ 40.

(* scale 1 (same quantity on both sides): obs = raw EXACTLY (bit for bit for floats: a double squeezed through binary32 fails);
   otherwise |obs - raw*scale| * 2^40 <= |raw*scale| (Python computes the product in binary64).
   All denominators positive, and raw <> 0 (a zero would prove nothing). *)
Definition value_ok (r : vrow) : bool :=
  let en := v_raw_num r * v_scale_num r in
  let ed := v_raw_den r * v_scale_den r in
  (0 <? v_obs_den r) && (0 <? ed) && negb (en =? 0) &&
  (if (v_scale_num r =? 1) && (v_scale_den r =? 1)
   then v_obs_num r * ed =? en * v_obs_den r
   else Z.abs (v_obs_num r * ed - en * v_obs_den r) * tolerance <=? Z.abs (en * v_obs_den r)).

Definition value_mismatches (rows : list vrow) : list vrow := filter (fun r => negb (value_ok r)) rows.

Definition value_agrees (r : vrow) : Prop :=
  0 < v_obs_den r /\ 0 < v_raw_den r * v_scale_den r /\ v_raw_num r * v_scale_num r <> 0 /\
  if (v_scale_num r =? 1) && (v_scale_den r =? 1)
  then v_obs_num r * (v_raw_den r * v_scale_den r) = v_raw_num r * v_scale_num r * v_obs_den r
  else Z.abs (v_obs_num r * (v_raw_den r * v_scale_den r) - v_raw_num r * v_scale_num r * v_obs_den r) * tolerance
         <= Z.abs (v_raw_num r * v_scale_num r * v_obs_den r).
