(* C02 — comparison of the C++ record layouts with what probing the Python pack/unpack code observed
   (definitions only).

   C++ side: [cstruct] rows (Models/PackingM.v) produced by the compilers.
   Python side: one [pstruct] per struct: for every byte of the fixed part (and 8 bytes after it) the set of
   attributes that changed when that byte was perturbed before unpack(), whether unpack raised, and which bytes
   of pack() output changed when the changed attributes were set on the baseline object.
   The comparison knows nothing about Python formats: it only relates byte ranges. *)
From Coq Require Import Arith List String Bool.
From FEC Require Import Models.PackingM.
Import ListNotations.
Open Scope string_scope.

Record pbyte := mkPbyte {
  pb_fixed : list string;     (* attributes that changed on unpack and do not draw on bytes after the struct *)
  pb_var : list string;       (* attributes that changed and draw on the bytes after the struct (variable part, consumed length) *)
  pb_raised : bool;           (* some perturbation of this byte made unpack raise *)
  pb_observed : nat;          (* perturbations of this byte that unpacked *)
  pb_pack : list nat;         (* bytes (< sizeof) of pack() output that changed when the changed attributes were set *)
  pb_pack_err : bool          (* some pack() of the perturbed attributes raised *)
}.

Record pstruct := mkPstruct {
  p_cpp : string;             (* C++ struct it is the counterpart of *)
  p_py : string;              (* Python class / codec *)
  p_min_size : option nat;    (* smallest buffer that unpacks = fixed-part size as Python sees it; None: none found *)
  p_consumed : option nat;    (* return value of unpack on a buffer of exactly sizeof bytes; None: not reported *)
  p_packed_len : option nat;  (* length of pack() of the baseline object; None: pack raised *)
  p_attrs : list string;      (* attribute names of the unpacked object *)
  p_bytes : list pbyte
}.

Record exceptions := mkExc {
  e_merge : list (string * list string);          (* struct, adjacent members Python represents by one attribute *)
  e_dead : list (string * string * nat * nat);    (* struct, member, first byte, length: bytes Python ignores by design *)
  e_rename : list (string * string * string);     (* struct, member, Python attribute name *)
  e_ignore : list (string * string)               (* struct, derived Python attribute left out of the comparison *)
}.

(* ---- small helpers ------------------------------------------------------------------------------------ *)
Definition mem_s (s : string) (l : list string) : bool := existsb (String.eqb s) l.
Definition mem_n (n : nat) (l : list nat) : bool := existsb (Nat.eqb n) l.
Definition incl_n (l1 l2 : list nat) : bool := forallb (fun x => mem_n x l2) l1.
Definition is_nil {A : Type} (l : list A) : bool := match l with [] => true | _ => false end.
Fixpoint dedup (l : list string) : list string :=
  match l with [] => [] | x :: t => if mem_s x t then dedup t else x :: dedup t end.
Definition opt_nat_eqb (o : option nat) (n : nat) : bool := match o with Some k => Nat.eqb k n | None => false end.

Fixpoint find_struct (T : list cstruct) (n : string) : option cstruct :=
  match T with
  | [] => None
  | s :: t => if String.eqb (s_name s) n then Some s else find_struct t n
  end.

(* reserved bytes of a struct, those of nested structs included (fuel = nesting depth allowed) *)
Fixpoint dead_offs (fuel : nat) (T : list cstruct) (s : cstruct) : list nat :=
  match fuel with
  | 0 => []
  | S f =>
    flat_map (fun m =>
      if ct_reserved (m_type m) then seq (m_off m) (ct_size (m_type m))
      else if String.eqb (m_nested m) "" then []
      else match find_struct T (m_nested m) with
           | None => []
           | Some ns =>
             flat_map (fun i => map (fun d => m_off m + i * ct_elem (m_type m) + d) (dead_offs f T ns))
                      (seq 0 (ct_size (m_type m) / ct_elem (m_type m)))
           end) (s_members s)
  end.
Definition nesting_fuel : nat := 6.

(* every nested struct name resolves and nesting is shallower than the fuel (so dead_offs is not cut short) *)
Fixpoint nesting_depth (fuel : nat) (T : list cstruct) (s : cstruct) : option nat :=
  match fuel with
  | 0 => None
  | S f =>
    fold_right (fun m acc =>
      match acc with
      | None => None
      | Some d =>
        if String.eqb (m_nested m) "" then Some d
        else match find_struct T (m_nested m) with
             | None => None
             | Some ns => match nesting_depth f T ns with None => None | Some k => Some (Nat.max d (S k)) end
             end
      end) (Some 0) (s_members s)
  end.
Definition nesting_ok (T : list cstruct) (s : cstruct) : bool :=
  match nesting_depth nesting_fuel T s with Some _ => true | None => false end.

Definition m_range (m : member) : list nat := seq (m_off m) (ct_size (m_type m)).

Section Compare.
  Variable T : list cstruct.
  Variable E : exceptions.
  Variable cs : cstruct.
  Variable ps : pstruct.

  Definition exc_dead : list nat :=
    flat_map (fun r => match r with (s, _, st, ln) => if String.eqb s (s_name cs) then seq st ln else [] end) (e_dead E).
  Definition struct_dead : list nat := dead_offs nesting_fuel T cs ++ exc_dead.
  Definition m_dead (m : member) : list nat := let d := struct_dead in filter (fun b => mem_n b d) (m_range m).
  Definition m_live (m : member) : list nat := let d := struct_dead in filter (fun b => negb (mem_n b d)) (m_range m).

  Definition group_of (mn : string) : list string :=
    match find (fun g => String.eqb (fst g) (s_name cs) && mem_s mn (snd g)) (e_merge E) with
    | Some g => snd g
    | None => [mn]
    end.
  (* bytes of the member, or of all members merged with it *)
  Definition hull (m : member) : list nat :=
    flat_map m_range (filter (fun m' => mem_s (m_name m') (group_of (m_name m))) (s_members cs)).

  Definition ignored (a : string) : bool :=
    existsb (fun q => String.eqb (fst q) (s_name cs) && String.eqb (snd q) a) (e_ignore E).
  Definition fx (pb : pbyte) : list string := filter (fun a => negb (ignored a)) (pb_fixed pb).
  Definition vr (pb : pbyte) : list string := filter (fun a => negb (ignored a)) (pb_var pb).

  (* checked access: a byte the probe has no row for fails every test *)
  Definition on_byte (b : nat) (f : pbyte -> bool) : bool :=
    match nth_error (p_bytes ps) b with Some pb => f pb | None => false end.

  (* the name the member's Python attribute is expected to carry: the committed rename row, else the member's own name
     when the Python object has an attribute of that name *)
  Definition expected_name (m : member) : option string :=
    match find (fun r => String.eqb (fst (fst r)) (s_name cs) && String.eqb (snd (fst r)) (m_name m)) (e_rename E) with
    | Some r => Some (snd r)
    | None => if mem_s (m_name m) (p_attrs ps) then Some (m_name m) else None
    end.

  (* the Python attributes observed on the live bytes of a member, and the one the member is compared with: the
     expected one when it is among them (further attributes derived from the same bytes are tolerated; they cannot be
     another member's attribute, see [confined]), else the first *)
  Definition m_attrs (m : member) : list string :=
    dedup (flat_map (fun b => match nth_error (p_bytes ps) b with Some pb => fx pb | None => [] end) (m_live m)).
  Definition expected_seen (m : member) : bool :=
    match expected_name m with Some n => mem_s n (m_attrs m) | None => false end.
  Definition m_attr (m : member) : option string :=
    match expected_name m with
    | Some n => if mem_s n (m_attrs m) then Some n else hd_error (m_attrs m)
    | None => hd_error (m_attrs m)
    end.

  Definition is_single (a : string) (l : list string) : bool :=
    match l with [x] => String.eqb x a | _ => false end.

  (* a live byte either feeds the member's attribute, or is read without a fixed attribute of its own:
     perturbing it makes unpack raise (strict enum, length check) or changes a variable-part attribute / the
     consumed length (count and length members) *)
  Definition live_byte_ok (a : option string) (pb : pbyte) : bool :=
    let implicit := is_nil (fx pb) && (pb_raised pb || negb (is_nil (vr pb))) in
    match a with
    | Some a => mem_s a (fx pb) || implicit
    | None => implicit
    end.
  (* padding (a reserved member, nested reserved bytes, bytes Python ignores by design): nothing depends on it, except
     that a reserved member may be kept in an attribute of the same name *)
  Definition dead_byte_ok (m : member) (pb : pbyte) : bool :=
    (if ct_reserved (m_type m) then forallb (String.eqb (m_name m)) (fx pb) else is_nil (fx pb)) && is_nil (vr pb).

  (* attribute [a] depends on no byte of the fixed part outside the member (or its merge group) *)
  Definition confined (m : member) (a : string) : bool :=
    let h := hull m in
    forallb (fun b => implb (on_byte b (fun pb => mem_s a (fx pb))) (mem_n b h)) (seq 0 (s_size cs)).

  Definition live_ok (m : member) : bool := let a := m_attr m in forallb (fun b => on_byte b (live_byte_ok a)) (m_live m).
  Definition dead_ok (m : member) : bool := forallb (fun b => on_byte b (dead_byte_ok m)) (m_dead m).
  Definition unique_ok (m : member) : bool := Nat.leb (List.length (m_attrs m)) 1 || expected_seen m.
  Definition confined_ok (m : member) : bool := match m_attr m with Some a => confined m a | None => true end.
  (* members whose names coincide on both sides (or are tabulated as renamed) must match by name *)
  Definition name_ok (m : member) : bool :=
    match expected_name m with
    | None => true
    | Some n => (match m_attr m with Some a => String.eqb a n | None => true end) && confined m n
    end.
  (* pack direction: setting the attribute changes bytes of this member only — and possibly of members that have no
     attribute of their own (lengths / counts that pack() derives from the variable part) — and every live byte that
     maps to the attribute is written (where pack() of the perturbed value did not raise) *)
  Definition implicit_bytes : list nat :=
    flat_map m_range (filter (fun m' => negb (ct_reserved (m_type m')) && match m_attr m' with None => true | Some _ => false end) (s_members cs)).
  Definition pack_written (m : member) : list nat :=
    flat_map (fun b => match nth_error (p_bytes ps) b with Some pb => pb_pack pb | None => [] end) (m_range m).
  Definition pack_ok (m : member) : bool :=
    let w := pack_written m in
    incl_n w (hull m ++ implicit_bytes) &&
    match m_attr m with
    | None => true
    | Some a => forallb (fun b => implb (on_byte b (fun pb => mem_s a (fx pb) && negb (pb_pack_err pb))) (mem_n b w)) (m_live m)
    end.

  Definition member_checks (m : member) : list (string * bool) :=
    [("bytes-of-member-not-read-by-python", live_ok m);
     ("padding-bytes-read-by-python", dead_ok m);
     ("member-spread-over-several-attributes", unique_ok m);
     ("attribute-depends-on-bytes-outside-member", confined_ok m);
     ("attribute-name-mismatch", name_ok m);
     ("pack-writes-other-bytes-or-not-all", pack_ok m)].
  Definition member_ok (m : member) : bool := forallb snd (member_checks m).

  (* struct level: same fixed-part size three ways, nothing fixed depends on the 8 bytes after the struct *)
  Definition size_ok : bool :=
    opt_nat_eqb (p_min_size ps) (s_size cs) &&
    (match p_consumed ps with None => true | Some k => Nat.eqb k (s_size cs) end) &&
    opt_nat_eqb (p_packed_len ps) (s_size cs).
  Definition tail_ok : bool :=
    Nat.eqb (List.length (p_bytes ps)) (s_size cs + 8) &&
    forallb (fun b => on_byte b (fun pb => is_nil (fx pb))) (seq (s_size cs) 8).

  Definition row := (string * string * string * nat * nat)%type.      (* kind, struct, member, offset, size *)

  Definition struct_mismatches : list row :=
    (if String.eqb (s_name cs) (p_cpp ps) then [] else [("probe-row-for-another-struct", s_name cs, p_cpp ps, 0, 0)]) ++
    (if nesting_ok T cs then [] else [("nested-struct-unknown-or-too-deep", s_name cs, "", 0, 0)]) ++
    (if size_ok then [] else [("fixed-part-size-differs", s_name cs, "",
                               match p_min_size ps with Some k => k | None => 0 end, s_size cs)]) ++
    (if tail_ok then [] else [("python-attribute-depends-on-bytes-after-the-struct", s_name cs, "", s_size cs, 8)]) ++
    flat_map (fun m => map (fun c => (fst c, s_name cs, m_name m, m_off m, ct_size (m_type m)))
                           (filter (fun c => negb (snd c)) (member_checks m))) (s_members cs).

  Definition struct_agree : bool := is_nil struct_mismatches.
End Compare.

Fixpoint forallb2 {A B : Type} (f : A -> B -> bool) (l1 : list A) (l2 : list B) : bool :=
  match l1, l2 with
  | [], [] => true
  | a :: t1, b :: t2 => f a b && forallb2 f t1 t2
  | _, _ => false
  end.

Definition layout_mismatches (T : list cstruct) (E : exceptions) (cpp : list cstruct) (py : list pstruct) : list row :=
  (if Nat.eqb (List.length cpp) (List.length py) then [] else [("struct-lists-differ-in-length", "", "", List.length cpp, List.length py)]) ++
  flat_map (fun cp => struct_mismatches T E (fst cp) (snd cp)) (combine cpp py).

(* ---- several ways of reading the same payload (explicit version, default version, through the decoder) ---------- *)
(* two probe rows of the same struct name the same fixed attributes on every byte that could be observed on both paths
   (a byte whose every perturbation raised on one path has no attribute observation there) *)
Definition byte_same_fixed (a b : pbyte) : bool :=
  Nat.eqb (pb_observed a) 0 || Nat.eqb (pb_observed b) 0 || list_eqb String.eqb (pb_fixed a) (pb_fixed b).
Definition same_fixed (p q : pstruct) : bool :=
  String.eqb (p_cpp p) (p_cpp q) && list_eqb byte_same_fixed (p_bytes p) (p_bytes q).

Definition paths_mismatches (T : list cstruct) (E : exceptions) (cpp : list cstruct) (ref : list pstruct)
           (paths : list (string * list pstruct)) : list (string * row) :=
  flat_map (fun pt : string * list pstruct =>
      (map (fun r : row => (fst pt, r)) (layout_mismatches T E cpp (snd pt)) ++
       (if Nat.eqb (List.length ref) (List.length (snd pt)) then []
        else [(fst pt, ("probe-tables-differ-in-length", "", "", 0, 0) : row)]) ++
       map (fun pq : pstruct * pstruct => (fst pt, ("call-paths-observe-different-attributes", p_cpp (fst pq), "", 0, 0) : row))
           (filter (fun pq : pstruct * pstruct => negb (same_fixed (fst pq) (snd pq))) (combine ref (snd pt))))%list)
    paths.

Definition paths_agree (T : list cstruct) (E : exceptions) (cpp : list cstruct) (ref : list pstruct)
           (paths : list (string * list pstruct)) : bool :=
  forallb (fun pt => forallb2 (struct_agree T E) cpp (snd pt) && forallb2 same_fixed ref (snd pt)) paths.

(* ---- the statement, per struct and per member --------------------------------------------------------- *)
Definition layouts_agree_spec (T : list cstruct) (E : exceptions) (cpp : list cstruct) (py : list pstruct) : Prop :=
  List.length cpp = List.length py /\
  forall cs ps, In (cs, ps) (combine cpp py) ->
    s_name cs = p_cpp ps /\
    (* same total fixed-part size: smallest buffer Python unpacks = what unpack consumes = what pack produces = sizeof *)
    size_ok cs ps = true /\ tail_ok E cs ps = true /\
    forall m, In m (s_members cs) ->
      (* same offset and width: every byte of the member that is not padding is read by Python, into one and the same
         attribute (or observed only through an exception / the variable part), padding is not read ... *)
      (forall b, In b (m_live T E cs m) -> on_byte ps b (live_byte_ok E cs (m_attr T E cs ps m)) = true) /\
      (forall b, In b (m_dead T E cs m) -> on_byte ps b (dead_byte_ok E cs m) = true) /\
      unique_ok T E cs ps m = true /\
      (* ... that attribute depends on no byte outside the member, carries the expected name ... *)
      confined_ok T E cs ps m = true /\ name_ok T E cs ps m = true /\
      (* ... and pack writes it to exactly these bytes *)
      pack_ok T E cs ps m = true.
