(* C09 — the .p1i index file: FileIndex.save / FileIndex.load / the open path of fast_generate_index,
   transcribed from python/fusion_engine_client/parsers/file_index.py and fast_indexer.py.

   An index file is a byte string of REC_SIZE-byte little-endian records (u4 time, u2 type, u8 offset). *)
From Coq Require Import NArith List Bool Arith.
From FEC Require Import Generated.FEConsts Generated.FileIndexConsts Base.ListX Base.Bytes Base.Crc32 Base.Scan Base.FEFormat
  Models.FileScanM.
Import ListNotations.

Definition REC_SIZE : nat := REC_TIME_BYTES + REC_TYPE_BYTES + REC_OFF_BYTES.

(* ndarray.tofile of one record / np.fromfile of one record *)
Definition enc_rentry (r : rentry) : list N :=
  le_enc REC_TIME_BYTES (r_time r) ++ le_enc REC_TYPE_BYTES (r_type r) ++ le_enc REC_OFF_BYTES (r_off r).
Definition dec_rentry (l : list N) : rentry :=
  mkR (le (sub l 0 REC_TIME_BYTES)) (le (sub l REC_TIME_BYTES REC_TYPE_BYTES))
      (le (sub l (REC_TIME_BYTES + REC_TYPE_BYTES) REC_OFF_BYTES)).

Definition enc_records (rs : list rentry) : list N := concat (map enc_rentry rs).

(* np.fromfile(path, dtype=_RAW_DTYPE): as many whole records as the file holds; a partial record at the
   end is ignored *)
Fixpoint parse_records_aux (n : nat) (l : list N) : list rentry :=
  match n with
  | O => []
  | S k => dec_rentry (firstn REC_SIZE l) :: parse_records_aux k (skipn REC_SIZE l)
  end.
Definition parse_records (l : list N) : list rentry := parse_records_aux (Nat.div (length l) REC_SIZE) l.

(* checked "last element" (data[-1] raises IndexError on an empty array) *)
Fixpoint last_opt {A} (l : list A) : option A :=
  match l with [] => None | [x] => Some x | _ :: t => last_opt t end.

Definition is_invalid_type (e : ientry) : bool := N.eqb (i_type e) TYPE_INVALID.

(* the EOF marker: (nan, INVALID, data file size, _INVALID_INDEX) *)
Definition eof_marker (data_size : N) : ientry := mkI None TYPE_INVALID data_size.

(* FileIndex.save(index_path, data_path): None = nothing is written (and an existing file is left alone);
   Some b = the index file is replaced by b *)
Definition save (es : list ientry) (data_size : N) : option (list N) :=
  match last_opt es with
  | None => None                                            (* len(self._data) == 0 *)
  | Some e =>
      let data := if is_invalid_type e then es else es ++ [eof_marker data_size] in
      Some (enc_records (map to_raw data))
  end.

(* FileIndex.load(index_path, data_path, delete_on_error=True) for an existing index file and an existing
   data file.  Accepted i: load returns, self._data = i.  Rebuild del: ValueError (del = the index file was
   removed first).  Crash: IndexError (not a ValueError: not caught by fast_generate_index). *)
Inductive outcome := Accepted (i : list ientry) | Rebuild (deleted : bool) | Crash.

Definition is_nil {A} (l : list A) : bool := match l with [] => true | _ => false end.

Definition header_psize_at (d : list N) (off : nat) : N := h_psize (parse_header (sub d off HEADER_SIZE)).

Definition load_legacy (idx d : list N) : outcome :=
  let data := map from_raw (parse_records idx) in
  let size := N.of_nat (length d) in
  if N.eqb size 0 && negb (is_nil data) then Rebuild true        (* "Data file empty but index populated" *)
  else if negb (N.eqb size 0) && is_nil data then Rebuild true   (* "Index file empty but data file not 0 length" *)
  else match last_opt data with
  | None => Crash                                                (* self.type[-1] on an empty array *)
  | Some e =>
      if is_invalid_type e then
        (* marker: expected size = its offset; the marker is dropped *)
        if N.eqb size (i_off e) then Accepted (removelast data) else Rebuild false
      else
        (* last_offset > data_file_size - 24  (Python int arithmetic: the right side may be negative) *)
        if N.ltb size (i_off e + N.of_nat HEADER_SIZE) then Rebuild true
        else
          let expected := (i_off e + N.of_nat HEADER_SIZE + header_psize_at d (N.to_nat (i_off e)))%N in
          if negb (N.eqb expected size) then Rebuild true else Accepted data
  end.

(* the loader after the two repairs: (1) an index without entries for an empty data file is consistent and is
   accepted as the empty index (before: self.type[-1] raised IndexError); (2) the marker-mismatch branch deletes
   the index file like every other mismatch branch (before: the stale file stayed when re-indexing found nothing) *)
Definition load (idx d : list N) : outcome :=
  let data := map from_raw (parse_records idx) in
  let size := N.of_nat (length d) in
  if N.eqb size 0 && negb (is_nil data) then Rebuild true
  else if negb (N.eqb size 0) && is_nil data then Rebuild true
  else match last_opt data with
  | None => Accepted []                                          (* elif len(self) == 0: return *)
  | Some e =>
      if is_invalid_type e then
        if N.eqb size (i_off e) then Accepted (removelast data) else Rebuild true
      else
        if N.ltb size (i_off e + N.of_nat HEADER_SIZE) then Rebuild true
        else
          let expected := (i_off e + N.of_nat HEADER_SIZE + header_psize_at d (N.to_nat (i_off e)))%N in
          if negb (N.eqb expected size) then Rebuild true else Accepted data
  end.

(* ---- opening a log: fast_generate_index(input_path, force_reindex=ignore_index, save_index=True) followed by
   reading every message through the resulting index (MixedLogReader) ------------------------------------- *)
Record opened := mkO { o_msgs : list (nat * list N);      (* what iterating the reader returns: offset, bytes *)
                       o_p1i : option (list N) }.         (* the .p1i on disk afterwards *)
Inductive openres := Opened (o : opened) | OpenCrash.

Section Open.
  Variable p1 : list N -> option N.
  Variable loader : list N -> list N -> outcome.

  (* the indexing branch: index = fresh index; index.save(index_path, input_path) *)
  Definition regenerate (d : list N) (cur : option (list N)) : opened :=
    let i := fresh p1 d in
    mkO (read_all d (index_offsets i))
        (match save i (N.of_nat (length d)) with Some b => Some b | None => cur end).

  Definition open_log (p1i : option (list N)) (d : list N) (ignore_index : bool) : openres :=
    match (if ignore_index then None else p1i) with
    | None => Opened (regenerate d p1i)
    | Some idx =>
        match loader idx d with
        | Accepted i => Opened (mkO (read_all d (index_offsets i)) p1i)
        | Rebuild del => Opened (regenerate d (if del then None else p1i))   (* except ValueError: fall through *)
        | Crash => OpenCrash                                                   (* any other exception propagates *)
        end
    end.

  (* ---- opening with a byte limit: MixedLogReader(path, max_bytes=n) ---------------------------------------
     fast_generate_index(max_bytes=n): when n < file size, only the blocks that start below n are searched and
     save_index is switched off (a partial index must never reach the disk); an existing index is still loaded
     and validated as usual (and deleted when stale).  The reader stops at the first message that does not end
     at or before n.  With n >= file size the limit has no effect. *)
  Fixpoint take_within (n : nat) (fs : list (nat * list N)) : list (nat * list N) :=
    match fs with
    | [] => []
    | (o, bs) :: rest => if Nat.leb (o + length bs) n then (o, bs) :: take_within n rest else []
    end.

  Definition open_log_max (p1i : option (list N)) (d : list N) (ignore_index : bool) (n : nat) : openres :=
    if Nat.leb (length d) n then open_log p1i d ignore_index else
    match (if ignore_index then None else p1i) with
    | None => Opened (mkO (take_within n (read_all d (index_offsets (fresh p1 d)))) p1i)
    | Some idx =>
        match loader idx d with
        | Accepted i => Opened (mkO (take_within n (read_all d (index_offsets i))) p1i)
        | Rebuild del => Opened (mkO (take_within n (read_all d (index_offsets (fresh p1 d)))) (if del then None else p1i))
        | Crash => OpenCrash
        end
    end.
End Open.
