(* MODEL of src/point_one/rtcm/rtcm_framer.cc: RTCMFramer::OnByte() transcribed statement by statement;
   SetBuffer / Reset / OnData / Resync are the shared transcription of Models/FramerCoreM.v instantiated
   with the RTCM constants (single sync byte, no duplicate-sync handling, minimum capacity 6, no capacity
   test after alignment).  The extra state X is (error_count_, decoded_msg_count_). *)
From Coq Require Import NArith ZArith List Bool.
From FEC Require Import Generated.RtcmConsts Generated.Crc24qTable Base.Scan Models.FramerCoreM Models.FramerSpecM Models.RtcmFormatM.
Import ListNotations.
Open Scope N_scope.

Inductive rstate := RS_SYNC | RS_HEADER | RS_DATA.

Definition r_is_sync (s : rstate) : bool := match s with RS_SYNC => true | _ => false end.

Definition rx := (N * N)%type.                   (* error_count_, decoded_msg_count_ *)
Definition rcore := core rstate rx.
Definition rframer := framer rstate rx.

Definition RTCM_OVERHEAD_BYTES : N := RTCM_HEADER_BYTES + RTCM_CRC_BYTES.
Definition RTCM_MAX_SIZE_BYTES : N := RTCM_HEADER_BYTES + RTCM_MAX_PAYLOAD + RTCM_CRC_BYTES.

Definition inc_err (c : rcore) : rcore := set_x c (u32 (fst (c_x c) + 1), snd (c_x c)).
Definition inc_dec (c : rcore) : rcore := set_x c (fst (c_x c), u32 (snd (c_x c) + 1)).

(* EndianSwap16(buffer_ + a) *)
Definition swap16 (buf : list N) (a : N) : outcome N :=
  b0 <- rd buf a ; b1 <- rd buf (a + 1) ; Ok (N.lor (N.shiftl b0 8) b1 mod 65536).
(* EndianSwap24(buffer_ + a) *)
Definition swap24 (buf : list N) (a : N) : outcome N :=
  b0 <- rd buf a ; b1 <- rd buf (a + 1) ; b2 <- rd buf (a + 2) ;
  Ok (N.lor (N.lor (N.shiftl b0 16) (N.shiftl b1 8)) b2).

(* the "if (crc_check_needed)" block *)
Definition r_crc_check (c : rcore) : outcome (rcore * Z * list event) :=
  let check_size := c_size c - RTCM_CRC_BYTES in
  header_byte_3_4 <- swap16 (c_buf c) RTCM_HEADER_BYTES ;
  let message_type := N.shiftr header_byte_3_4 RTCM_TYPE_SHIFT in
  covered <- rd_range (c_buf c) 0 check_size ;
  let calculated_crc := crc24_hash covered in
  crc_expected <- swap24 (c_buf c) check_size ;
  if N.eqb calculated_crc crc_expected then
    let c := inc_dec c in
    (* callback_(message_type, buffer_, current_message_size_) *)
    frame <- rd_range (c_buf c) 0 (c_size c) ;
    Ok (set_state c RS_SYNC, Z.of_N (c_size c), [(message_type, frame)])
  else
    Ok (set_state (inc_err c) RS_SYNC, (-1)%Z, []).

(* int32_t RTCMFramer::OnByte(bool quiet)   (quiet only selects the log level) *)
Definition r_on_byte (quiet : bool) (c : rcore) : outcome (rcore * Z * list event) :=
  if c_next c =? 0 then Ok (c, 0%Z, [])                       (* "Byte not found in buffer." *)
  else
    byte <- rd (c_buf c) (c_next c - 1) ;
    match c_state c with
    | RS_SYNC =>
        if N.eqb byte RTCM_PREAMBLE then Ok (set_state c RS_HEADER, 0%Z, [])
        else Ok (set_next c (u32 (c_next c - 1)), 0%Z, [])
    | RS_HEADER =>
        if c_next c =? RTCM_HEADER_BYTES then
          header_byte_1_2 <- swap16 (c_buf c) 1 ;
          let payload_size_bytes := N.land header_byte_1_2 RTCM_LEN_MASK in
          let c := set_size c (payload_size_bytes + RTCM_OVERHEAD_BYTES) in
          if (c_size c <=? c_cap c) && (c_size c <=? RTCM_MAX_SIZE_BYTES) then
            Ok (set_state c RS_DATA, 0%Z, [])
          else
            Ok (set_state (inc_err c) RS_SYNC, (-1)%Z, [])
        else Ok (c, 0%Z, [])
    | RS_DATA =>
        if c_next c =? c_size c then r_crc_check c else Ok (c, 0%Z, [])
    end.

Definition r_reset_x (x : rx) : rx := (0, 0).

Definition rtcm_on_data := on_data rstate rx RS_SYNC r_is_sync RTCM_PREAMBLE false r_on_byte.
Definition rtcm_resync := resync rstate rx RS_SYNC r_is_sync RTCM_PREAMBLE false r_on_byte.
Definition rtcm_reset := reset rstate rx RS_SYNC r_reset_x.
Definition rtcm_set_buffer :=
  set_buffer rstate rx RS_SYNC r_reset_x RTCM_OVERHEAD_BYTES false RTCM_CLAMP RTCM_ALIGN_MASK.

(* RTCMFramer() = default: no buffer *)
Definition rtcm_default : rframer :=
  mkFramer false false (mkCore [] 0 RS_SYNC 0 0 (0, 0)).

(* RTCMFramer(void* buffer, size_t capacity_bytes) *)
Definition rtcm_construct (user : option N) (alloc_addr capacity : N) (mem : list N) : rframer :=
  match user with
  | None => rtcm_set_buffer rtcm_default None alloc_addr (capacity + RTCM_MANAGED_EXTRA) mem
  | Some a => rtcm_set_buffer rtcm_default (Some a) alloc_addr capacity mem
  end.

Definition rtcm_decoded (f : rframer) : N := snd (c_x (f_core f)).   (* GetNumDecodedMessages() *)
Definition rtcm_errors (f : rframer) : N := fst (c_x (f_core f)).    (* GetNumErrors() *)

(* one operation of a test / theorem history *)
Definition rtcm_op (f : rframer) (o : op) : outcome (rframer * N * list event) :=
  match o with
  | OpData chunk => rtcm_on_data f chunk
  | OpReset => Ok (rtcm_reset f, 0, [])
  | OpSetBuffer user alloc_addr capacity mem => Ok (rtcm_set_buffer f user alloc_addr capacity mem, 0, [])
  end.

(* ---- SPEC of a history: frames of the left-to-right scan with judge_rtcm at the usable capacity ---- *)
Definition rtcm_event_of (f : nat * list N) : event := (rtcm_msg_number (snd f), snd f).
Definition rtcm_spec_op := spec_op judge_rtcm RTCM_OVERHEAD_BYTES RTCM_CLAMP.
Definition rtcm_spec_construct (user : option N) (alloc_addr capacity : N) : spst :=
  fst (rtcm_spec_op spec_init
         (OpSetBuffer user alloc_addr (match user with None => capacity + RTCM_MANAGED_EXTRA | Some _ => capacity end) [])).
