(* C15 — MODEL and SPEC of DataLoader.time_align_data (python/fusion_engine_client/analysis/data_loader.py).
   Definitions only.

   A message is (float(m.p1_time), id): the time as an integer (finite, non-NaN doubles embed in an
   order-preserving way; NaN has no representation here and is excluded), and an id standing for the
   identity of the Python object.  The data dict is the list of its entries in insertion order. *)
From Coq Require Import ZArith List Bool Sorted.
Import ListNotations.
Open Scope Z_scope.

Definition ta_msg := (Z * nat)%type.

(* An element of an output list: the very input object, or a freshly constructed `cls()` whose only
   modification is `default.p1_time = t`. *)
Inductive ta_item := Kept (m : ta_msg) | Fresh (t : Z).
(* `data[type].messages` after the call: the same list object as before, or a newly built list. *)
Inductive ta_outcome := Untouched | Replaced (l : list ta_item).
Inductive ta_mode := NONE | DROP | INSERT.
Record ta_entry := { e_type : nat;          (* entry.message_type *)
                     e_has_p1 : bool;       (* entry.message_class is not None and 'p1_time' in entry.message_class().__dict__ *)
                     e_msgs : list ta_msg }.
Inductive ta_result := Ok (o : list ta_outcome) | IndexErr.

Definition ta_time (i : ta_item) : Z := match i with Kept m => fst m | Fresh t => t end.
Definition ta_times (e : ta_entry) : list Z := map fst (e_msgs e).

(* ---------------------------------------------------------------------------------------------- *)
(* numpy, as far as it is used here (trusted re-implementation, held by correspondence)            *)
(* ---------------------------------------------------------------------------------------------- *)

(* np.unique(a): sorted, duplicates removed *)
Fixpoint insert_u (x : Z) (l : list Z) : list Z :=
  match l with
  | [] => [x]
  | y :: r => if x <? y then x :: l else if x =? y then l else y :: insert_u x r
  end.
Definition np_unique (a : list Z) : list Z := fold_right insert_u [] a.

Definition memZ (x : Z) (l : list Z) : bool := existsb (Z.eqb x) l.

(* np.intersect1d(a, b): sorted unique values present in both *)
Definition np_intersect1d (a b : list Z) : list Z :=
  filter (fun v => memZ v (np_unique b)) (np_unique a).

(* np.unique(a, return_index=True) reports the index of the FIRST occurrence of each value.
   Not found => length a, an out-of-range index that every later (checked) access rejects. *)
Fixpoint first_index (v : Z) (a : list Z) : nat :=
  match a with
  | [] => O
  | x :: r => if x =? v then O else S (first_index v r)
  end.

(* np.intersect1d(a, b, return_indices=True) = (values, first indices into a, first indices into b) *)
Definition np_intersect1d_idx (a b : list Z) : list Z * list nat * list nat :=
  let vals := np_intersect1d a b in
  (vals, map (fun v => first_index v a) vals, map (fun v => first_index v b) vals).

(* arr[k] = v with bounds check (numpy raises IndexError) *)
Fixpoint set_nth {A} (l : list A) (k : nat) (v : A) : option (list A) :=
  match l, k with
  | [], _ => None
  | _ :: r, O => Some (v :: r)
  | x :: r, S k' => match set_nth r k' v with Some r' => Some (x :: r') | None => None end
  end.

(* message_indices[all_idx] = idx : element-wise assignment, in order, shapes must agree *)
Fixpoint scatter (base : list Z) (ks : list nat) (vs : list nat) : option (list Z) :=
  match ks, vs with
  | [], [] => Some base
  | k :: ks', v :: vs' =>
      match set_nth base k (Z.of_nat v) with
      | Some b' => scatter b' ks' vs'
      | None => None
      end
  | _, _ => None
  end.

Fixpoint map_opt {A B} (f : A -> option B) (l : list A) : option (list B) :=
  match l with
  | [] => Some []
  | x :: r => match f x with
              | Some y => match map_opt f r with Some ys => Some (y :: ys) | None => None end
              | None => None
              end
  end.

(* ---------------------------------------------------------------------------------------------- *)
(* MODEL: time_align_data transcribed in source order                                             *)
(* ---------------------------------------------------------------------------------------------- *)

(* message_types is None or entry.message_type in message_types *)
Definition ta_selected (mt : option (list nat)) (e : ta_entry) : bool :=
  match mt with None => true | Some l => existsb (Nat.eqb (e_type e)) l end.
(* if entry.message_class is None: continue
   if 'p1_time' in default.__dict__ and (message_types is None or entry.message_type in message_types) *)
Definition ta_is_aligned (mt : option (list nat)) (e : ta_entry) : bool :=
  e_has_p1 e && ta_selected mt e.

(* first loop: for type, entry in data.items(): ... time_set = ... *)
Fixpoint ta_collect (mode : ta_mode) (mt : option (list nat)) (es : list ta_entry)
         (time_set : option (list Z)) : option (list Z) :=
  match es with
  | [] => time_set
  | e :: r =>
      if ta_is_aligned mt e then
        let p1_time := ta_times e in
        let ts' :=
          match mode with
          | DROP => match time_set with None => p1_time | Some ts => np_intersect1d ts p1_time end
          | _ => match time_set with None => p1_time | Some ts => ts ++ p1_time (* np.hstack *) end
          end in
        ta_collect mode mt r (Some ts')
      else ta_collect mode mt r time_set
  end.

(* _get_value(i) *)
Definition ta_get_value (messages : list ta_msg) (time_set : list Z) (message_indices : list Z) (i : nat)
  : option ta_item :=
  match nth_error message_indices i with
  | None => None
  | Some message_idx =>
      if message_idx >=? 0 then
        match nth_error messages (Z.to_nat message_idx) with
        | Some m => Some (Kept m)
        | None => None
        end
      else
        match nth_error time_set i with
        | Some t => Some (Fresh t)
        | None => None
        end
  end.

(* body of the INSERT loop for one entry of info_by_type *)
Definition ta_insert_entry (time_set : list Z) (e : ta_entry) : option (list ta_item) :=
  let '(_, idx, all_idx) := np_intersect1d_idx (ta_times e) time_set in
  match scatter (repeat (-1) (length time_set)) all_idx idx with
  | None => None
  | Some message_indices =>
      map_opt (ta_get_value (e_msgs e) time_set message_indices) (seq 0 (length time_set))
  end.

(* body of the DROP loop for one entry of info_by_type *)
Definition ta_drop_entry (time_set : list Z) (e : ta_entry) : option (list ta_item) :=
  let '(_, idx, _) := np_intersect1d_idx (ta_times e) time_set in
  map_opt (fun i => match nth_error (e_msgs e) i with Some m => Some (Kept m) | None => None end) idx.

(* second loop: positional over the dict (keys of a dict are distinct); entries that are not in
   info_by_type keep their list object *)
Fixpoint ta_second (f : ta_entry -> option (list ta_item)) (mt : option (list nat)) (es : list ta_entry)
  : option (list ta_outcome) :=
  match es with
  | [] => Some []
  | e :: r =>
      if ta_is_aligned mt e then
        match f e with
        | Some l => match ta_second f mt r with Some o => Some (Replaced l :: o) | None => None end
        | None => None
        end
      else match ta_second f mt r with Some o => Some (Untouched :: o) | None => None end
  end.

Definition ta_unwrap (o : option (list ta_outcome)) : ta_result :=
  match o with Some l => Ok l | None => IndexErr end.

Definition ta_align (mode : ta_mode) (mt : option (list nat)) (es : list ta_entry) : ta_result :=
  match mode with
  | NONE => Ok (map (fun _ => Untouched) es)
  | INSERT =>
      let time_set := ta_collect INSERT mt es None in
      (* np.unique(None) is a harmless 1-element object array; it is only used when info_by_type is
         non-empty, in which case time_set is not None *)
      let time_set := match time_set with Some ts => np_unique ts | None => [] end in
      ta_unwrap (ta_second (ta_insert_entry time_set) mt es)
  | DROP =>
      let time_set := ta_collect DROP mt es None in
      let time_set := match time_set with Some ts => ts | None => [] end in
      ta_unwrap (ta_second (ta_drop_entry time_set) mt es)
  end.

(* ---------------------------------------------------------------------------------------------- *)
(* SPEC: what the property says                                                                    *)
(* ---------------------------------------------------------------------------------------------- *)

Definition ta_aligned (mt : option (list nat)) (es : list ta_entry) : list ta_entry :=
  filter (ta_is_aligned mt) es.

(* the first message of a type carrying time t *)
Definition ta_first_with (t : Z) (msgs : list ta_msg) : option ta_msg :=
  find (fun m => fst m =? t) msgs.

(* the message of a type shown at time t: its first message with that time, else a default one *)
Definition ta_pick (msgs : list ta_msg) (t : Z) : ta_item :=
  match ta_first_with t msgs with Some m => Kept m | None => Fresh t end.

(* the common time axis: ascending, no repeats; DROP = times present in all aligned types,
   INSERT = times present in any *)
Definition ta_spec_times (mode : ta_mode) (mt : option (list nat)) (es : list ta_entry) : list Z :=
  match mode with
  | NONE => []
  | DROP => match ta_aligned mt es with
            | [] => []
            | e0 :: r => np_unique (filter (fun t => forallb (fun e => memZ t (ta_times e)) r) (ta_times e0))
            end
  | INSERT => np_unique (concat (map ta_times (ta_aligned mt es)))
  end.

Definition ta_spec (mode : ta_mode) (mt : option (list nat)) (es : list ta_entry) : list ta_outcome :=
  match mode with
  | NONE => map (fun _ => Untouched) es
  | _ => map (fun e => if ta_is_aligned mt e
                       then Replaced (map (ta_pick (e_msgs e)) (ta_spec_times mode mt es))
                       else Untouched) es
  end.

(* ---------------------------------------------------------------------------------------------- *)
(* vocabulary of the property statements                                                           *)
(* ---------------------------------------------------------------------------------------------- *)

(* entry e sits at position i of the dict and its `messages` was replaced by the new list l *)
Definition ta_out_of (es : list ta_entry) (outs : list ta_outcome) (i : nat) (e : ta_entry) (l : list ta_item) : Prop :=
  nth_error es i = Some e /\ nth_error outs i = Some (Replaced l).

(* m is in msgs and no earlier message of msgs carries the same time *)
Definition ta_first_occurrence (m : ta_msg) (msgs : list ta_msg) : Prop :=
  exists l1 l2, msgs = l1 ++ m :: l2 /\ forall m', In m' l1 -> fst m' <> fst m.

Definition ta_ascending (l : list Z) : Prop := StronglySorted Z.lt l.
