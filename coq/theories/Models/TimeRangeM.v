(* C13 — SPEC and MODEL of python/fusion_engine_client/utils/time_range.py (class TimeRange).
   Definitions only (no proofs) so the model keeps running when a proof breaks.

   Time.  A time value is an integer number of grid steps (the harness uses 1/8 s, so every value and every
   sum/difference the code forms is an exact binary64 number and Python's float arithmetic agrees with Z).
   A float bound is [ext] = a grid value or +/-infinity.  Float NaN bounds are outside the model (the
   property's grid is None / 0 / inf / fractions); a NaN *Timestamp* bound is inside it ([ATs None]).
   P1 times of messages and t0 are finite. *)
From Coq Require Import ZArith List Bool Lia.
From FEC Require Import Generated.TimeRangeConsts.
Import ListNotations.
Open Scope Z_scope.

(* ------------------------------------------------------------------------------------------------ *)
(* Values                                                                                           *)
(* ------------------------------------------------------------------------------------------------ *)
Inductive ext := NInf | Fin (z : Z) | PInf.

(* float "<" on non-NaN values *)
Definition ext_ltb (a b : ext) : bool :=
  match a, b with
  | NInf, NInf => false
  | NInf, _ => true
  | Fin x, Fin y => x <? y
  | Fin _, PInf => true
  | Fin _, NInf => false
  | PInf, _ => false
  end.
Definition ext_eqb (a b : ext) : bool :=
  match a, b with
  | NInf, NInf | PInf, PInf => true
  | Fin x, Fin y => x =? y
  | _, _ => false
  end.
(* float + finite float *)
Definition ext_add (a : ext) (z : Z) : ext := match a with Fin x => Fin (x + z) | i => i end.
(* Python max(a, b) / min(a, b): the first argument unless the second is strictly larger / smaller *)
Definition ext_max (a b : ext) : ext := if ext_ltb a b then b else a.
Definition ext_min (a b : ext) : ext := if ext_ltb b a then b else a.
Definition is_inf (a : ext) : bool := match a with Fin _ => false | _ => true end.

(* A message as seen by is_in_range: it carries a valid P1 time or it does not (bytes objects, payloads
   without p1_time, payloads with only system time, payloads whose P1 time is NaN are all [Untimed]). *)
Inductive msg := Untimed | Timed (t : Z).
Definition is_timed (m : msg) : bool := match m with Timed _ => true | Untimed => false end.
Inductive op := Msg (m : msg) | Restart.

(* Constructor argument for start / end: None, a float, or a Timestamp (None inside = NaN Timestamp). *)
Inductive targ := ANone | AFloat (e : ext) | ATs (t : option ext).
Definition is_ts (a : targ) : bool := match a with ATs _ => true | _ => false end.
Record args := mkargs { a_start : targ; a_end : targ; a_abs : option bool; a_t0 : option Z }.

(* comparisons of a finite time c against an optional bound *)
Definition ge_lo (lo : option ext) (c : Z) : bool := match lo with None => true | Some s => negb (ext_ltb (Fin c) s) end.
Definition lt_hi (hi : option ext) (c : Z) : bool := match hi with None => true | Some e => ext_ltb (Fin c) e end.
Definition is_none {A} (o : option A) : bool := match o with None => true | Some _ => false end.

(* ------------------------------------------------------------------------------------------------ *)
(* SPEC — the property text, directly                                                               *)
(* ------------------------------------------------------------------------------------------------ *)
(* An interval description: [lo, hi) with None = open end, absolute or relative to an origin that is
   either supplied ([org = Some z]) or the first P1 time seen. *)
Record iv := mkiv { lo : option ext; hi : option ext; iabs : bool; org : option Z }.

(* (relative) time of a P1 time t, given the origin known so far; with no origin yet, t itself is the
   first P1 time seen and becomes the origin. *)
Definition rel (v : iv) (o : option Z) (t : Z) : Z :=
  if iabs v then t else t - match o with Some z => z | None => t end.
Definition in_iv (v : iv) (c : Z) : bool := ge_lo (lo v) c && lt_hi (hi v) c.
Definition beyond (v : iv) (c : Z) : bool := negb (lt_hi (hi v) c).          (* at or beyond the end *)

(* history = the messages seen so far (since the last restart) with the verdict each one got *)
Definition seen_beyond (v : iv) (o : option Z) (hist : list (msg * bool)) : bool :=
  existsb (fun mb => match fst mb with Timed t => beyond v (rel v o t) | Untimed => false end) hist.
Definition some_accepted (hist : list (msg * bool)) : bool := existsb snd hist.

Definition spec_decide (v : iv) (o : option Z) (hist : list (msg * bool)) (m : msg) : bool :=
  match m with
  | Timed t => in_iv v (rel v o t)
  | Untimed => negb (seen_beyond v o hist) && (is_none (lo v) || some_accepted hist)
  end.

Fixpoint spec_go (v : iv) (o : option Z) (hist : list (msg * bool)) (ops : list op) : list bool :=
  match ops with
  | [] => []
  | Restart :: tl => spec_go v o [] tl
  | Msg m :: tl =>
      let o' := match o, m with None, Timed t => Some t | _, _ => o end in
      let b := spec_decide v o' hist m in
      b :: spec_go v o' ((m, b) :: hist) tl
  end.
Definition spec_run (v : iv) (ops : list op) : list bool := spec_go v (org v) [] ops.

(* The interval a constructor call describes (docstring of __init__ and the comment "Set 0/inf to None"):
   a NaN Timestamp is an omitted bound, an absolute start of 0 is the beginning of time (open), an end of
   +inf is open; absolute defaults to "either bound is a Timestamp". *)
Definition bound (a : targ) : option ext := match a with ANone => None | AFloat e => Some e | ATs o => o end.
Definition describe_abs (a : args) : bool :=
  match a_abs a with Some b => b | None => is_ts (a_start a) || is_ts (a_end a) end.
Definition describe (a : args) : iv :=
  let ab := describe_abs a in
  {| lo := match bound (a_start a) with
           | Some (Fin z) => if (z =? tr_abs_open_start) && ab then None else Some (Fin z)
           | x => x end;
     hi := match bound (a_end a) with Some PInf => None | x => x end;
     iabs := ab; org := a_t0 a |}.
(* the same call read literally as the interval [start, end) — used to state that the normalisation above
   does not change membership of P1 times >= 0 *)
Definition describe_raw (a : args) : iv :=
  {| lo := bound (a_start a); hi := bound (a_end a); iabs := describe_abs a; org := a_t0 a |}.

(* per-segment non-decreasing P1 times (restart() begins a new pass over the data) *)
Fixpoint nondecr (last : option Z) (ops : list op) : bool :=
  match ops with
  | [] => true
  | Restart :: tl => nondecr None tl
  | Msg Untimed :: tl => nondecr last tl
  | Msg (Timed t) :: tl => match last with None => true | Some l => l <=? t end && nondecr (Some t) tl
  end.
Fixpoint first_timed (ops : list op) : option Z :=
  match ops with
  | [] => None
  | Msg (Timed t) :: _ => Some t
  | _ :: tl => first_timed tl
  end.

(* ------------------------------------------------------------------------------------------------ *)
(* MODEL — TimeRange as in the working tree                                                          *)
(* ------------------------------------------------------------------------------------------------ *)
Record tr := mktr {
  start : option ext;          (* self.start            *)
  stop : option ext;           (* self.end              *)
  absolute : bool;             (* self.absolute         *)
  t0 : option Z;               (* self.p1_t0 (None = NaN Timestamp) *)
  specified : bool;            (* self._range_specified *)
  started : bool;              (* self._in_range_started *)
  ended : bool                 (* self._in_range_ended   *)
}.
Definition set_start r x := mktr x (stop r) (absolute r) (t0 r) (specified r) (started r) (ended r).
Definition set_stop r x := mktr (start r) x (absolute r) (t0 r) (specified r) (started r) (ended r).
Definition set_absolute r x := mktr (start r) (stop r) x (t0 r) (specified r) (started r) (ended r).
Definition set_t0 r x := mktr (start r) (stop r) (absolute r) x (specified r) (started r) (ended r).
Definition set_specified r x := mktr (start r) (stop r) (absolute r) (t0 r) x (started r) (ended r).
Definition set_started r x := mktr (start r) (stop r) (absolute r) (t0 r) (specified r) x (ended r).
Definition set_ended r x := mktr (start r) (stop r) (absolute r) (t0 r) (specified r) (started r) x.

(* which of the repairs made in /repo are in effect; [current] is the working tree *)
Record fixes := mkfix { fix_end_latch : bool; fix_make_abs : bool; fix_neg_inf : bool }.
Definition current : fixes := mkfix true true true.
Definition legacy : fixes := mkfix false false false.

(* TimeRange.__init__ *)
Definition init_gen (f : fixes) (a : args) : tr :=
  let absolute := match a_abs a with
                  | None => if is_ts (a_start a) || is_ts (a_end a) then true else false
                  | Some b => b end in
  (* Timestamp -> float; NaN Timestamp -> None *)
  let st := match a_start a with ANone => None | AFloat e => Some e | ATs None => None | ATs (Some e) => Some e end in
  let en := match a_end a with ANone => None | AFloat e => Some e | ATs None => None | ATs (Some e) => Some e end in
  (* if self.start == 0.0 and self.absolute: self.start = None *)
  let st := match st with
            | Some s => if ext_eqb s (Fin tr_abs_open_start) && absolute then None else st
            | None => st end in
  (* if self.end is not None and <end is +inf>: self.end = None   (legacy: math.isinf, either sign) *)
  let en := match en with
            | Some e => if (if fix_neg_inf f then ext_eqb e PInf else is_inf e) then None else en
            | None => en end in
  mktr st en absolute (a_t0 a) (negb (is_none st) || negb (is_none en)) false false.

(* TimeRange.restart *)
Definition restart (r : tr) : tr := set_ended (set_started r false) false.

(* TimeRange.is_in_range(message) (return_timestamps=False) *)
Definition is_in_range_gen (f : fixes) (r : tr) (m : msg) : tr * bool :=
  (* shortcut if no range is specified; note that p1_t0 is not touched on this path *)
  if negb (specified r) then (set_started r true, true) else
  (* if p1_time and not self.p1_t0: self.p1_t0 = p1_time *)
  let r1 := match m with
            | Timed t => match t0 r with None => set_t0 r (Some t) | Some _ => r end
            | Untimed => r end in
  let '(in_range, hit_end) :=
    if ended r1 then (false, false)
    else match m with
         | Untimed => (match start r1 with None => true | Some _ => started r1 end, false)
         | Timed t =>
             let c := if absolute r1 then t
                      else t - match t0 r1 with Some z => z | None => t (* just set above *) end in
             if match start r1 with Some s => ext_ltb (Fin c) s | None => false end then (false, false)
             else if match stop r1 with Some e => negb (ext_ltb (Fin c) e) | None => false end
                  then (false, fix_end_latch f)       (* repaired: self._in_range_ended = True here *)
             else (true, false)
         end in
  let r2 := if hit_end then set_ended r1 true else r1 in
  let r3 := if in_range then set_started r2 true
            else if started r2 && is_timed m then set_ended r2 true
            else r2 in
  (r3, in_range).

Fixpoint run_gen (f : fixes) (r : tr) (ops : list op) : list bool * tr :=
  match ops with
  | [] => ([], r)
  | Restart :: tl => run_gen f (restart r) tl
  | Msg m :: tl => let '(r', b) := is_in_range_gen f r m in
                   let '(bs, r'') := run_gen f r' tl in (b :: bs, r'')
  end.

Inductive result (A : Type) := Ok (x : A) | ValueError.
Arguments Ok {A} x.
Arguments ValueError {A}.

(* TimeRange.make_absolute(p1_t0) in place; [arg] is the p1_t0 argument (None = None or NaN Timestamp) *)
Definition make_absolute_gen (f : fixes) (r : tr) (arg : option Z) : result tr :=
  let r := match arg, t0 r with Some z, None => set_t0 r (Some z) | _, _ => r end in
  if negb (absolute r) then
    match t0 r with
    | None => ValueError
    | Some z =>
        let r := match start r with Some s => set_start r (Some (ext_add s z)) | None => r end in
        let r := match stop r with Some e => set_stop r (Some (ext_add e z)) | None => r end in
        Ok (if fix_make_abs f then set_absolute r true else r)     (* repaired: self.absolute = True *)
    end
  else Ok r.

(* TimeRange.intersect(other) — the value of self afterwards (in_place=False returns the same value as a copy) *)
Definition intersect_gen (f : fixes) (self other : tr) : result tr :=
  let conv :=
    if absolute self && negb (absolute other) then
      match make_absolute_gen f other (t0 self) with Ok o => Ok (self, o) | ValueError => ValueError end
    else if negb (absolute self) && absolute other then
      match make_absolute_gen f self (t0 other) with Ok s => Ok (s, other) | ValueError => ValueError end
    else Ok (self, other) in
  match conv with
  | ValueError => ValueError
  | Ok (self, other) =>
      let st := match start self with
                | None => start other
                | Some a => match start other with Some b => Some (ext_max a b) | None => Some a end end in
      let en := match stop self with
                | None => stop other
                | Some a => match stop other with Some b => Some (ext_min a b) | None => Some a end end in
      let r := set_stop (set_start self st) en in
      let r := set_specified r (negb (is_none st) || negb (is_none en)) in
      Ok (match t0 r with None => set_t0 r (t0 other) | Some _ => r end)
  end.

(* ---- parse ------------------------------------------------------------------------------------ *)
Definition is_digit (c : Z) : bool := (48 <=? c) && (c <=? 57).
Definition list_eqb (a b : list Z) : bool :=
  (Nat.eqb (length a) (length b)) && forallb (fun p => fst p =? snd p) (combine a b).

(* str.split(sep): fields between separators, in order; always at least one field *)
Fixpoint split_aux (cur : list Z) (s : list Z) : list (list Z) :=
  match s with
  | [] => [rev cur]
  | c :: tl => if c =? tr_sep then rev cur :: split_aux [] tl else split_aux (c :: cur) tl
  end.
Definition split (s : list Z) : list (list Z) := split_aux [] s.

(* Python float(str) on the part of its grammar the model covers (trusted re-implementation, held by
   correspondence): "inf" / "+inf" / "-inf", and [+-] digits [. [digits]] or [+-] . digits over the alphabet
   {0-9 + - .}.  A numeral that is not a whole number of grid steps, or any other character (exponents,
   blanks, underscores, "nan", "Infinity", ...), is [FUnsup]: outside the model, never guessed. *)
Inductive fres := FOk (e : ext) | FErr | FUnsup.
Definition grid : Z := 8.      (* grid steps per second *)
Fixpoint digits_val (acc : Z) (s : list Z) : Z :=
  match s with [] => acc | c :: tl => digits_val (10 * acc + (c - 48)) tl end.
Fixpoint span_digits (s : list Z) : list Z * list Z :=
  match s with
  | c :: tl => if is_digit c then let '(d, r) := span_digits tl in (c :: d, r) else ([], s)
  | [] => ([], [])
  end.
Definition in_alphabet (c : Z) : bool := is_digit c || (c =? 43) || (c =? 45) || (c =? 46).
Definition pyfloat (s : list Z) : fres :=
  if list_eqb s [105; 110; 102] || list_eqb s [43; 105; 110; 102] then FOk PInf
  else if list_eqb s [45; 105; 110; 102] then FOk NInf
  else if negb (forallb in_alphabet s) then FUnsup
  else
    let '(neg, body) := match s with
                        | c :: tl => if c =? 45 then (true, tl) else if c =? 43 then (false, tl) else (false, s)
                        | [] => (false, s) end in
    let '(ip, rest) := span_digits body in
    let mk (fp : list Z) :=
      let den := 10 ^ Z.of_nat (length fp) in
      let num := grid * digits_val 0 fp in
      if num mod den =? 0
      then (let v := grid * digits_val 0 ip + num / den in FOk (Fin (if neg then - v else v)))
      else FUnsup in
    match rest with
    | [] => if is_none (hd_error ip) then FErr else mk []
    | c :: r2 =>
        if c =? 46 then
          let '(fp, rest2) := span_digits r2 in
          match rest2 with
          | [] => if is_none (hd_error ip) && is_none (hd_error fp) then FErr else mk fp
          | _ :: _ => FErr
          end
        else FErr
    end.

Inductive pres := POk (r : tr) | PErr | PUnsup.

(* _str_to_time: '' -> None; float(value) < 0 -> None.  Outer option: None = float() raised / unsupported *)
Definition str_to_time (fld : list Z) : option (option ext) * bool (* unsupported? *) :=
  match fld with
  | [] => (Some None, false)
  | _ => match pyfloat fld with
         | FOk e => (Some (if ext_ltb e (Fin 0) then None else Some e), false)
         | FErr => (None, false)
         | FUnsup => (None, true)
         end
  end.

Definition opt_arg (o : option ext) : targ := match o with None => ANone | Some e => AFloat e end.

(* TimeRange.parse(<str>, absolute) *)
Definition parse_gen (f : fixes) (s : list Z) (absarg : option bool) : pres :=
  let flds := split s in
  let n := length flds in
  let st := nth_error flds 0 in
  let en := nth_error flds 1 in
  (* type specifier / field count *)
  let kind : result (option bool) :=
    if Nat.eqb n 3 then
      match nth_error flds 2 with
      | Some k => if list_eqb k tr_kw_abs then Ok (Some true)
                  else if list_eqb k tr_kw_rel then Ok (Some false) else ValueError
      | None => ValueError
      end
    else if Nat.ltb 3 n then ValueError else Ok absarg in
  match kind with
  | ValueError => PErr
  | Ok ab =>
      let conv (x : option (list Z)) := match x with None => (Some None, false) | Some fld => str_to_time fld end in
      (* start is converted first; its ValueError hides anything about end *)
      match conv st with
      | (None, false) => PErr
      | (None, true) => PUnsup
      | (Some a, _) =>
          match conv en with
          | (None, false) => PErr
          | (None, true) => PUnsup
          | (Some b, _) => POk (init_gen f (mkargs (opt_arg a) (opt_arg b) ab None))
          end
      end
  end.

(* TimeRange.parse(<tuple of 2 or 3 items>, absolute): items are passed through unconverted *)
Definition parse_tuple_gen (f : fixes) (a b : targ) (ty : option (list Z)) (absarg : option bool) : result tr :=
  match ty with
  | None => Ok (init_gen f (mkargs a b absarg None))
  | Some k => if list_eqb k tr_kw_abs then Ok (init_gen f (mkargs a b (Some true) None))
              else if list_eqb k tr_kw_rel then Ok (init_gen f (mkargs a b (Some false) None))
              else ValueError
  end.

(* TimeRange.parse(<TimeRange object>, absolute): the object itself, unless the argument contradicts its kind *)
Definition parse_obj (r : tr) (absarg : option bool) : result tr :=
  match absarg with
  | None => Ok r
  | Some b => if Bool.eqb b (absolute r) then Ok r else ValueError
  end.

(* ---- the working tree ------------------------------------------------------------------------- *)
Definition init := init_gen current.
Definition is_in_range := is_in_range_gen current.
Definition run := run_gen current.
Definition make_absolute := make_absolute_gen current.
Definition intersect := intersect_gen current.
Definition parse := parse_gen current.
Definition parse_tuple := parse_tuple_gen current.
Definition accepted (r : tr) (ops : list op) : list bool := fst (run r ops).
(* pointwise conjunction of two verdict sequences = membership in the intersection of the accepted sets *)
Definition and_lists (a b : list bool) : list bool := map (fun p => fst p && snd p) (combine a b).

(* a range on which no message has been tested since construction / restart, with consistent metadata *)
Definition fresh (r : tr) : Prop :=
  started r = false /\ ended r = false /\ specified r = (negb (is_none (start r)) || negb (is_none (stop r))).

(* ---- text of the documented form  [START][:END][:{rel,abs}] ----------------------------------- *)
Inductive shape := S1 (a : list Z) | S2 (a b : list Z) | S3 (a b : list Z) (k : bool).
Definition render (sh : shape) : list Z :=
  match sh with
  | S1 a => a
  | S2 a b => a ++ tr_sep :: b
  | S3 a b k => a ++ tr_sep :: b ++ tr_sep :: (if k then tr_kw_abs else tr_kw_rel)
  end.
Definition no_sep (fld : list Z) : bool := forallb (fun c => negb (c =? tr_sep)) fld.
(* value of a field: empty = omitted; a negative number = omitted; otherwise the number *)
Definition field_value (fld : list Z) (v : option ext) : Prop :=
  (fld = [] /\ v = None) \/
  (fld <> [] /\ exists e, pyfloat fld = FOk e /\ v = if ext_ltb e (Fin 0) then None else Some e).
(* the interval a text describes: [START, END), kind from the text if present else from the argument
   (default relative); relative to the first P1 time seen *)
Definition describe_text (sh : shape) (absarg : option bool) (vs ve : option ext) : args :=
  match sh with
  | S1 _ => mkargs (opt_arg vs) ANone absarg None
  | S2 _ _ => mkargs (opt_arg vs) (opt_arg ve) absarg None
  | S3 _ _ k => mkargs (opt_arg vs) (opt_arg ve) (Some k) None
  end.

(* the fields of a text are free of separators and have the values vs / ve *)
Definition fields_ok (sh : shape) (vs ve : option ext) : Prop :=
  match sh with
  | S1 a => no_sep a = true /\ field_value a vs /\ ve = None
  | S2 a b | S3 a b _ => no_sep a = true /\ no_sep b = true /\ field_value a vs /\ field_value b ve
  end.

(* ---- when intersect may combine two ranges: they must measure relative time from one origin ---- *)
(* [ops] matters only through its first P1 time f (the origin a range without t0 would adopt). *)
Definition origins_agree (A B : tr) (ops : list op) : bool :=
  match first_timed ops with
  | None => true
  | Some f =>
      let eff (r : tr) := match t0 r with Some z => z | None => f end in
      match absolute A, absolute B with
      | true, true => true
      | true, false => negb (is_none (t0 B)) || (eff A =? f)     (* B adopts A's t0 *)
      | false, true => negb (is_none (t0 A)) || (eff B =? f)     (* A adopts B's t0 *)
      | false, false => eff A =? eff B
      end
  end.
