(* C19 — binary64 MODEL of yaw_to_heading / heading_to_yaw (python/fusion_engine_client/messages/defs.py),
   transcribed operation by operation.  Definitions only.

   Arithmetic: Python float / numpy float64 `-`, `+`, `*`, `/` are IEEE-754 binary64 round-to-nearest-even
   operations = Coq's primitive float operations.
   np.fmod on float64 (scalar or array) calls the C library function fmod() once per element
   (numpy/core/src/umath/loops: DOUBLE_fmod -> npy_fmod -> fmod).  C fmod(a, b) is EXACT: it returns
   a - n*b where n = trunc(a / b) computed without rounding, so the result has the SIGN OF THE DIVIDEND a
   (fmod(-30, 360) = -30, not 330) and magnitude < |b|; fmod(+-0, b) = +-0; fmod(a, inf) = a;
   fmod(inf, b) = fmod(a, 0) = NaN.  (np.mod / Python % would instead give the sign of the divisor.) *)
From Coq Require Import ZArith QArith PrimFloat Uint63 FloatOps SpecFloat.
From FEC Require Import Generated.HeadingConsts.   (* Heading_pi : math.pi of the implementation's interpreter *)
Open Scope float_scope.

(* The binary64 value (-1)^s * r * 2^e, for r of at most 53 bits and e >= -1074, in canonical form
   (mantissa shifted left until it has 53 bits or the exponent reaches -1074), so that no rounding is involved. *)
Definition Heading_canon (s : bool) (r : positive) (e : Z) : float :=
  let k := Z.min (prec - Zpos (digits2_pos r)) (e - (3 - emax - prec)) in
  if (k <? 0)%Z then nan                               (* unreachable from Heading_fmod: r has <= 53 bits *)
  else let '(m', e') := shl_align r e (e - k) in SF2Prim (S754_finite s m' e').

(* C fmod, through exact integer arithmetic on mantissa and exponent. *)
Definition Heading_fmod (a b : float) : float :=
  match Prim2SF a, Prim2SF b with
  | S754_nan, _ | _, S754_nan => nan
  | S754_infinity _, _ => nan
  | _, S754_zero _ => nan
  | S754_zero _, _ => a
  | S754_finite _ _ _, S754_infinity _ => a
  | S754_finite sa ma ea, S754_finite _ mb eb =>
      let e := Z.min ea eb in
      let A := (Zpos ma * 2 ^ (ea - e))%Z in          (* |a| = A * 2^e *)
      let B := (Zpos mb * 2 ^ (eb - e))%Z in          (* |b| = B * 2^e *)
      match (A mod B)%Z with                           (* |a| mod |b|, in units of 2^e; sign of a restored *)
      | Z0 => if sa then neg_zero else zero
      | Zpos r => Heading_canon sa r e
      | Zneg _ => nan                                  (* unreachable: A mod B >= 0 for B > 0 *)
      end
  end.

Definition Heading_c90 : float := 90.
Definition Heading_c180 : float := 180.
Definition Heading_c360 : float := 360.

Definition Heading_y2h_deg (yaw : float) : float :=
  let heading_deg := Heading_c90 - yaw in
  Heading_fmod (Heading_fmod heading_deg Heading_c360 + Heading_c360) Heading_c360.
Definition Heading_y2h_rad (yaw : float) : float :=
  let heading_rad := Heading_pi / 2 - yaw in
  Heading_fmod (Heading_fmod heading_rad (2 * Heading_pi) + 2 * Heading_pi) (2 * Heading_pi).
Definition Heading_h2y_deg (heading : float) : float :=
  let yaw_deg := Heading_c90 - heading in
  Heading_fmod (Heading_fmod (yaw_deg + Heading_c180) Heading_c360 + Heading_c360) Heading_c360 - Heading_c180.
Definition Heading_h2y_rad (heading : float) : float :=
  let yaw_rad := Heading_pi / 2 - heading in
  Heading_fmod (Heading_fmod (yaw_rad + Heading_pi) (2 * Heading_pi) + 2 * Heading_pi) (2 * Heading_pi) - Heading_pi.

(* the code before the repair (kept as the record of the finding) *)
Definition Heading_y2h_deg_legacy (yaw : float) : float :=
  Heading_fmod ((Heading_c90 - yaw) + Heading_c180) Heading_c360.
Definition Heading_h2y_deg_legacy (heading : float) : float :=
  Heading_fmod ((Heading_c90 - heading) + Heading_c180) Heading_c360 - Heading_c180.

(* canonical printable form of a binary64 value, used by the correspondence shards:
   (class, mantissa, exponent): 0/1 = +0/-0, 2/3 = +/- finite m * 2^e, 4/5 = +/- infinity, 6 = NaN *)
Definition Heading_show (f : float) : Z * Z * Z :=
  match Prim2SF f with
  | S754_zero s => ((if s then 1 else 0)%Z, 0%Z, 0%Z)
  | S754_finite s m e => ((if s then 3 else 2)%Z, Zpos m, e)
  | S754_infinity s => ((if s then 5 else 4)%Z, 0%Z, 0%Z)
  | S754_nan => (6%Z, 0%Z, 0%Z)
  end.

(* the exact rational value of a finite binary64 (0 for NaN / infinities); links the model to the exact SPEC *)
Definition Heading_dyadQ (z e : Z) : Q :=
  if (0 <=? e)%Z then inject_Z (z * 2 ^ e) else Qmake z (Z.to_pos (2 ^ (- e))).
Definition Heading_F2Q (f : float) : Q :=
  match Prim2SF f with
  | S754_finite s m e => Heading_dyadQ (if s then Zneg m else Zpos m) e
  | _ => 0%Q
  end.
