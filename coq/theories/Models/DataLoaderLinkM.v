(* C12 x C10/C11 — the DataLoader environment whose reader selections are the reader model's functions
   (definitions only; the same definitions are used, and proved correct, in Proofs/DataLoaderLinkP.v, where
   [linked_env_eq] shows they coincide).  Used by the extracted runner's "linked" mode. *)
From Coq Require Import ZArith NArith List Bool.
From FEC Require Import Generated.LogReaderConsts Models.FileIndexOpsM Models.LogReaderM.
From FEC Require Generated.DataLoaderConsts Models.DataLoaderM.
Import ListNotations.
Open Scope Z_scope.


Definition xconv (p1 sy dec : msg -> bool) (i : Z) (m : msg) : DataLoaderM.DLmsg :=
  DataLoaderM.mkMsg (Z.to_N i) (Z.to_N (m_type m)) (Z.to_N (m_src m)) (m_time m) (p1 m) (sy m) (dec m).
Fixpoint xconvs_from (p1 sy dec : msg -> bool) (i : Z) (l : list msg) : list DataLoaderM.DLmsg :=
  match l with [] => [] | m :: t => xconv p1 sy dec i m :: xconvs_from p1 sy dec (i + 1) t end.
Definition xtr_link (tr : DataLoaderM.trange) : trange := mkTR (DataLoaderM.tr_start tr) (DataLoaderM.tr_end tr) (DataLoaderM.tr_abs tr) None.
Definition xsel_range (f : file) (tr : DataLoaderM.trange) : list entry :=
  match getitem fixed (index_of_file f None) (KTimeRange (xtr_link tr)) with Ok i => fi_data i | Err _ => [] end.
Definition xby_entries (S : list entry) (l : list DataLoaderM.DLmsg) : list DataLoaderM.DLmsg :=
  filter (fun d => memZ (Z.of_N (DataLoaderM.m_ord d)) (map e_idx S)) l.
Definition linked_env (p1 sy dec : msg -> bool)
           (al : N -> option (list N) -> list (N * DataLoaderM.data) -> list (N * DataLoaderM.data)) (f : file) (avail : list N) : DataLoaderM.env :=
  DataLoaderM.mkEnv (xconvs_from p1 sy dec 0 (f_msgs f)) avail
           (fun tr l => xby_entries (xsel_range f tr) l)
           (filter (fun d => DataLoaderM.is_some (DataLoaderM.m_time d)))
           al.

(* the runner's instance: payload facts decided by the message type (the generated logs hold decodable messages of
   types for which "has a P1 / system time attribute" is membership in the generated tables) *)
Definition runner_env (f : file) (avail : list N) : DataLoaderM.env :=
  linked_env (fun m => memZ (m_type m) (map Z.of_N DataLoaderConsts.p1_types))
             (fun m => memZ (m_type m) (map Z.of_N DataLoaderConsts.sys_types))
             (fun _ => true) DataLoaderM.align_impl f avail.
