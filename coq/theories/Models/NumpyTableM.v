(* C16 — checks over the generated key -> source table (Generated/NumpyTables.v).  Definitions only. *)
From Coq Require Import Bool String List.
From FEC Require Import Generated.NumpyTables.
Import ListNotations.

Fixpoint np_path_eqb (a b : list string) : bool :=
  match a, b with
  | [], [] => true
  | x :: a', y :: b' => String.eqb x y && np_path_eqb a' b'
  | _, _ => false
  end.

Definition np_mem (s : string) (l : list string) : bool := existsb (String.eqb s) l.

(* the attribute path a key must be read from when it is named like a field: [key], or [details; key] for the
   rows merged in from the embedded measurement details *)
Definition np_expected_path (r : np_row) : list string := r_prefix r ++ [r_key r].

(* an output named like a field of the message (or of its embedded details) is filled from that field *)
Definition np_row_ok (r : np_row) : bool :=
  implb (np_mem (r_key r) (r_fields r))
        (match r_src r with
         | Opaque => true
         | Each p => np_path_eqb p (np_expected_path r)
         | First p => np_path_eqb p (np_expected_path r)
         end).

(* for the rows whose source the translator is sure of: declared time-independent <-> written as
   `messages[0].x if len(messages) > 0 else ...`; Opaque rows make no claim *)
Definition np_row_ntd_ok (r : np_row) : bool :=
  match r_src r with
  | First _ => r_ntd r
  | Each _ => negb (r_ntd r)
  | Opaque => true
  end.

(* every key a class declares not_time_dependent is one of its outputs *)
Definition np_declared_ok (d : string * list string) : bool :=
  forallb (fun k => existsb (fun r => String.eqb (r_class r) (fst d) && String.eqb (r_key r) k) np_rows) (snd d).

Definition np_bad_rows : list np_row := filter (fun r => negb (np_row_ok r && np_row_ntd_ok r)) np_rows.
Definition np_opaque_same_named : list np_row :=
  filter (fun r => np_mem (r_key r) (r_fields r) && match r_src r with Opaque => true | _ => false end) np_rows.
