(* C17 — model of python/fusion_engine_client/utils/enum_utils.py (DynamicEnumMeta, IntEnum, enum_bitmask)
   and of the enum wrapper in utils/construct_utils.py (EnumAdapter).  Definitions only.

   An enumeration class is process-global mutable state.  Its state is modelled as two ordered lists of
   (name, value) entries: [defined] (the _member_map_ items written in the class body, aliases included, in
   definition order) and [extra] (what aenum.extend_enum appended at run time).  Their concatenation is
   _member_map_ in insertion order.  The member object an entry denotes is the *canonical* entry for its value
   (the first entry with that value): that is what _value2member_map_[value] and _member_map_[alias] return,
   and _member_names_ lists exactly the canonical entries.  A member is shown as the pair (name, value).

   Python ints are unbounded: Z.  Names are ASCII strings (the translator refuses anything else);
   str.upper/str.lower are the ASCII case maps.

   External, re-implemented here for the behaviour actually used (trusted base):
   * enum.EnumMeta.__call__(cls, int)  = _value2member_map_ lookup, ValueError when absent;
     EnumMeta.__getitem__(cls, name)   = _member_map_ lookup, KeyError when absent;
     EnumMeta.__iter__ / __reversed__  = members named by _member_names_, in / against definition order;
   * aenum.extend_enum(cls, name, v)   = TypeError when the name is already in _member_map_, else append
     (an entry whose value already exists becomes an alias of the canonical member);
   * inspect.getmembers                = attributes sorted by name;
   * int <<, |, & on unbounded ints    = Z.shiftl, Z.lor, Z.land; a negative shift count raises ValueError. *)
From Coq Require Import ZArith NArith List Bool String Ascii DecimalString DecimalZ.
From FEC Require Import Generated.DynEnumTables.
Import ListNotations.
Open Scope Z_scope.

Definition member : Type := (string * Z)%type.

Inductive err := ValueError | KeyError | TypeError | AttributeError.

(* ---------------------------------------------------------------------------------------------------------- *)
(* strings *)

(* str.startswith *)
Fixpoint starts_with (p s : string) : bool :=
  match p with
  | EmptyString => true
  | String a p' => match s with
                   | EmptyString => false
                   | String b s' => Ascii.eqb a b && starts_with p' s'
                   end
  end.

Definition upper_ascii (c : ascii) : ascii :=
  let n := N_of_ascii c in if (N.leb 97 n && N.leb n 122)%bool then ascii_of_N (n - 32) else c.
Definition lower_ascii (c : ascii) : ascii :=
  let n := N_of_ascii c in if (N.leb 65 n && N.leb n 90)%bool then ascii_of_N (n + 32) else c.
Fixpoint smap (f : ascii -> ascii) (s : string) : string :=
  match s with EmptyString => EmptyString | String c t => String (f c) (smap f t) end.
Definition upper : string -> string := smap upper_ascii.
Definition lower : string -> string := smap lower_ascii.

(* f'{int(value)}': the decimal text of the integer, whatever int-valued object was passed (after ce11434) *)
Definition dec (v : Z) : string := NilZero.string_of_int (Z.to_int v).

(* f'{cls.UNRECOGNIZED_PREFIX}_{int(value)}' *)
Definition hidden_name (v : Z) : string := (unrecognized_prefix ++ hidden_sep ++ dec v)%string.

(* member.name.startswith(cls.UNRECOGNIZED_PREFIX) — also IntEnum.is_unrecognized() *)
Definition is_hidden (m : member) : bool := starts_with unrecognized_prefix (fst m).

(* ---------------------------------------------------------------------------------------------------------- *)
(* the enumeration class *)

Record enum_state := mkState { defined : list member; extra : list member }.

Definition init (d : list member) : enum_state := mkState d [].

(* _member_map_.items() in insertion order *)
Definition entries (st : enum_state) : list member := defined st ++ extra st.

Definition name_is (s : string) (e : member) : bool := String.eqb (fst e) s.
Definition value_is (v : Z) (e : member) : bool := snd e =? v.

(* _value2member_map_[v]: the canonical member with that value *)
Definition by_value (l : list member) (v : Z) : option member := find (value_is v) l.

(* _member_map_[s]: an alias denotes the canonical member of its value *)
Definition by_name (l : list member) (s : string) : option member :=
  match find (name_is s) l with
  | Some e => by_value l (snd e)
  | None => None
  end.

(* _member_names_: entries that are not aliases of an earlier entry *)
Fixpoint canonical_from (seen : list Z) (l : list member) : list member :=
  match l with
  | [] => []
  | e :: t => if existsb (Z.eqb (snd e)) seen then canonical_from seen t
              else e :: canonical_from (snd e :: seen) t
  end.
Definition canonical (l : list member) : list member := canonical_from [] l.

(* aenum.extend_enum(cls, name, value) *)
Definition extend_enum (st : enum_state) (name : string) (value : Z) : enum_state + err :=
  if existsb (name_is name) (entries st) then inr TypeError
  else inl (mkState (defined st) (extra st ++ [(name, value)])).

(* EnumMeta.__call__(cls, value) for an int (Python 3.12: a class without members refuses to be called) *)
Definition super_call (st : enum_state) (v : Z) : member + err :=
  match entries st with
  | [] => inr TypeError
  | _ => match by_value (entries st) v with
         | Some m => inl m
         | None => inr ValueError
         end
  end.

Inductive outcome :=
| OMember (m : member)
| OErr (e : err)
| OList (l : list member)
| OLen (n : nat).

(* DynamicEnumMeta.__iter__ *)
Definition iter (st : enum_state) : list member :=
  filter (fun m => negb (is_hidden m)) (canonical (entries st)).

(* DynamicEnumMeta.__len__ *)
Definition len (st : enum_state) : nat := List.length (iter st).

(* DynamicEnumMeta.__reversed__ (added by the repair; the metaclass used to inherit EnumMeta.__reversed__,
   see [reversed_legacy]) *)
Definition reversed (st : enum_state) : list member :=
  filter (fun m => negb (is_hidden m)) (rev (canonical (entries st))).
Definition reversed_legacy (st : enum_state) : list member := rev (canonical (entries st)).

(* DynamicEnumMeta.__call__, integer branch (lines 42-55) *)
Definition call (st : enum_state) (v : Z) (strict : bool) : enum_state * outcome :=
  match super_call st v with
  | inl m =>
      if strict && is_hidden m then (st, OErr ValueError)        (* raised inside try, re-raised by the handler *)
      else (st, OMember m)
  | inr ValueError =>
      if strict then (st, OErr ValueError)
      else match extend_enum st (hidden_name v) v with
           | inr e => (st, OErr e)
           | inl st' => match super_call st' v with
                        | inl m => (st', OMember m)
                        | inr e => (st', OErr e)
                        end
           end
  | inr e => (st, OErr e)                                        (* not a ValueError: not handled *)
  end.

(* DynamicEnumMeta.from_string(name, case_insensitive=False) (lines 63-68) *)
Definition from_string (st : enum_state) (s : string) : member + err :=
  match by_name (entries st) s with
  | Some m => inl m
  | None => match by_name (entries st) (upper s) with
            | Some m => inl m
            | None => inr KeyError
            end
  end.

(* DynamicEnumMeta.from_string(name, case_insensitive=True) (lines 58-61): a dict comprehension over
   _member_map_.items(), so of several names equal up to case the last one wins *)
Definition from_string_ci (st : enum_state) (s : string) : member + err :=
  match find (fun e => String.eqb (lower (fst e)) (lower s)) (rev (entries st)) with
  | Some e => match by_value (entries st) (snd e) with
              | Some m => inl m
              | None => inr KeyError
              end
  | None => inr KeyError
  end.

(* min(min(used_values), 0) - 1 over the values of the visible members (line 37-38); None when there are none
   (min() of an empty set raises ValueError) *)
Definition unused_value (st : enum_state) : option Z :=
  match iter st with
  | [] => None
  | m0 :: ms => Some (Z.min (fold_left Z.min (map snd ms) (snd m0)) 0 - 1)
  end.

(* DynamicEnumMeta.__call__, string branch (lines 25-40) *)
Definition call_name (st : enum_state) (s : string) (strict : bool) : enum_state * outcome :=
  match from_string st s with
  | inl m =>
      if strict && is_hidden m then (st, OErr KeyError)
      else (st, OMember m)
  | inr _ =>
      if strict then (st, OErr KeyError)
      else match unused_value st with
           | None => (st, OErr ValueError)
           | Some u => match extend_enum st s u with
                       | inr e => (st, OErr e)
                       | inl st' => match from_string st' s with
                                    | inl m => (st', OMember m)
                                    | inr e => (st', OErr e)
                                    end
                       end
           end
  end.

Definition of_result (st : enum_state) (r : member + err) : enum_state * outcome :=
  match r with inl m => (st, OMember m) | inr e => (st, OErr e) end.

(* DynamicEnumMeta.__getitem__ (lines 70-80) *)
Definition getitem_name (st : enum_state) (s : string) : enum_state * outcome := of_result st (from_string st s).
Definition getitem_int (st : enum_state) (v : Z) : enum_state * outcome := call st v true.

(* EnumAdapter._decode (construct_utils.py:210-211): enum_cls(int(obj), raise_on_unrecognized=flag);
   EnumAdapter._encode returns the member, which the integer subcon serialises as int(member). *)
Definition adapter_decode (st : enum_state) (raise_on_unrecognized : bool) (v : Z) : enum_state * outcome :=
  call st v raise_on_unrecognized.
Definition adapter_encode (m : member) : Z := snd m.

(* ---------------------------------------------------------------------------------------------------------- *)
(* histories *)

Inductive op :=
| OpCall (v : Z) (strict : bool)
| OpCallName (s : string) (strict : bool)
| OpGetName (s : string)
| OpGetInt (v : Z)
| OpFromStringCI (s : string)
| OpIter
| OpLen
| OpReversed
| OpIterDuring (vs : list Z)        (* it = iter(cls); next(it); lenient conversions of vs; drain it *)
| OpReversedDuring (vs : list Z).   (* the same with reversed(cls) *)

(* lenient conversions in sequence *)
Definition call_all (st : enum_state) (vs : list Z) : enum_state :=
  fold_left (fun s v => fst (call s v false)) vs st.

Definition step (st : enum_state) (o : op) : enum_state * outcome :=
  match o with
  | OpCall v strict => call st v strict
  | OpCallName s strict => call_name st s strict
  | OpGetName s => getitem_name st s
  | OpGetInt v => getitem_int st v
  | OpFromStringCI s => of_result st (from_string_ci st s)
  | OpIter => (st, OList (iter st))
  | OpLen => (st, OLen (len st))
  | OpReversed => (st, OList (reversed st))
  (* an iteration that is open while unknown values are first encountered.  EnumMeta.__iter__ walks the live
     _member_names_ list, which extend_enum only appends to: the open iterator goes on to visit the appended names,
     so it yields the visible members of the list as it is when the iterator is drained.  reversed() takes its
     positions from the end of the list as it was when the iterator was created: appended names are not visited. *)
  | OpIterDuring vs => let st1 := call_all st vs in (st1, OList (iter st1))
  | OpReversedDuring vs => let st1 := call_all st vs in (st1, OList (reversed st))
  end.

Definition run (st : enum_state) (ops : list op) : enum_state * list outcome :=
  fold_left (fun acc o => let '(s, outs) := acc in let '(s', r) := step s o in (s', (outs ++ [r])%list)) ops (st, []).

(* ---------------------------------------------------------------------------------------------------------- *)
(* SPEC: what the property text says, as functions of the class body [d] and the operation alone *)

Inductive sout :=
| SMember (name : string) (v : Z)      (* a defined member, recognised *)
| SUnrecognised (v : Z)                (* a member that carries v and reports itself as unrecognised *)
| SRefused
| SList (l : list member)
| SLen (n : nat).

Definition spec_value (d : list member) (v : Z) (strict : bool) : sout :=
  match by_value d v with
  | Some m => SMember (fst m) v
  | None => if strict then SRefused else SUnrecognised v
  end.

Definition spec_name (d : list member) (s : string) : sout :=
  match by_name d s with
  | Some m => SMember (fst m) (snd m)
  | None => match by_name d (upper s) with
            | Some m => SMember (fst m) (snd m)
            | None => SRefused
            end
  end.

Definition spec_name_ci (d : list member) (s : string) : sout :=
  match find (fun e => String.eqb (lower (fst e)) (lower s)) (rev d) with
  | Some e => match by_value d (snd e) with Some m => SMember (fst m) (snd m) | None => SRefused end
  | None => SRefused
  end.

Definition spec (d : list member) (o : op) : sout :=
  match o with
  | OpCall v strict => spec_value d v strict
  | OpGetInt v => spec_value d v true
  | OpCallName s _ => spec_name d s
  | OpGetName s => spec_name d s
  | OpFromStringCI s => spec_name_ci d s
  | OpIter => SList (canonical d)
  | OpLen => SLen (List.length (canonical d))
  | OpReversed => SList (rev (canonical d))
  | OpIterDuring _ => SList (canonical d)
  | OpReversedDuring _ => SList (rev (canonical d))
  end.

(* the public view of a model outcome *)
Definition abstract (o : outcome) : sout :=
  match o with
  | OMember m => if is_hidden m then SUnrecognised (snd m) else SMember (fst m) (snd m)
  | OErr _ => SRefused
  | OList l => SList l
  | OLen n => SLen n
  end.

(* names reserved for the library's hidden members: a lookup by such a name is not a "name lookup of the
   enumeration" in the sense of the property (the lookup tries the name as given and its upper-case form;
   the case-insensitive lookup compares lower-case forms) *)
Definition hidden_ns (s : string) : bool :=
  starts_with unrecognized_prefix s || starts_with unrecognized_prefix (upper s).
Definition hidden_ns_ci (s : string) : bool := starts_with (lower unrecognized_prefix) (lower s).

(* histories the property quantifies over: any integer conversions (strict or lenient), any strict conversion
   of a name, lookups of names outside the hidden namespace, iteration, length — and lenient conversion of a
   name only when the name resolves among the defined members (a lenient conversion of an unknown *name*
   defines a new visible member on purpose: see C17_lenient_unknown_name_refuted) *)
Definition allowed (d : list member) (o : op) : bool :=
  match o with
  | OpCall _ _ | OpGetInt _ | OpIter | OpLen | OpReversed | OpIterDuring _ | OpReversedDuring _ => true
  | OpCallName s true => true
  | OpCallName s false => match from_string (init d) s with inl _ => true | inr _ => false end
  | OpGetName s => negb (hidden_ns s)
  | OpFromStringCI s => negb (hidden_ns_ci s)
  end.

(* what must hold of a class body for the library's naming convention to work: no defined member carries the
   reserved prefix, there is at least one member (Python 3.12 refuses to call a class without members), and the
   prefix is its own upper-case form (checked for every generated table) *)
Definition table_ok (d : list member) : bool :=
  match d with [] => false | _ => forallb (fun e => negb (starts_with unrecognized_prefix (fst e))) d end.
Definition prefix_ok : bool := String.eqb (upper unrecognized_prefix) unrecognized_prefix.

(* ---------------------------------------------------------------------------------------------------------- *)
(* enum_bitmask *)

Record mask_cls := mkMask { m_offset : Z; m_values : list member; m_entries : list member }.

(* 1 << (int(value) - cls._enum_offset) *)
Definition bit_of (off v : Z) : Z + err :=
  if v - off <? 0 then inr ValueError else inl (Z.shiftl 1 (v - off)).

Inductive item := IVal (v : Z) | IName (s : string).

(* WrappedCls.to_bitmask (lines 159-173); getattr(cls, NAME) is looked up among the mask class's members *)
Definition to_bitmask_step (m : mask_cls) (acc : Z + err) (it : item) : Z + err :=
  match acc with
  | inr e => inr e
  | inl mask =>
      match it with
      | IName s => match by_name (m_entries m) (upper s) with
                   | Some e => inl (Z.lor mask (snd e))
                   | None => inr AttributeError
                   end
      | IVal v => match bit_of (m_offset m) v with
                  | inl b => inl (Z.lor mask b)
                  | inr e => inr e
                  end
      end
  end.
Definition to_bitmask (m : mask_cls) (items : list item) : Z + err :=
  fold_left (to_bitmask_step m) items (inl 0).

(* WrappedCls.to_values (lines 176-188) *)
Fixpoint to_values_from (off mask : Z) (vals : list member) : list member + err :=
  match vals with
  | [] => inl []
  | e :: t => match bit_of off (snd e) with
              | inr er => inr er
              | inl b => match to_values_from off mask t with
                         | inr er => inr er
                         | inl r => inl (if Z.land mask b =? 0 then r else e :: r)
                         end
              end
  end.
Definition to_values (m : mask_cls) (mask : Z) : list member + err :=
  to_values_from (m_offset m) mask (m_values m).

(* inspect.getmembers order: sorted by attribute name (code-point order) *)
Definition name_leb (a b : member) : bool :=
  match String.compare (fst a) (fst b) with Gt => false | _ => true end.
Fixpoint insert_by_name (e : member) (l : list member) : list member :=
  match l with
  | [] => [e]
  | h :: t => if name_leb e h then e :: l else h :: insert_by_name e t
  end.
Definition sort_by_name (l : list member) : list member := fold_right insert_by_name [] l.

(* _is_enum_entry (lines 213-214) *)
Definition is_enum_entry (e : member) : bool :=
  negb (existsb (String.eqb (fst e)) enum_internals) && negb (starts_with "_" (fst e)).

Definition extend_list (acc : list member + err) (name : string) (value : Z) : list member + err :=
  match acc with
  | inr e => inr e
  | inl l => if existsb (name_is name) l then inr TypeError else inl (l ++ [(name, value)])
  end.

(* the decorator body (lines 204-233), applied to the enumeration in state [st]; [base] are the members written in
   the template class *)
Definition make_mask (st : enum_state) (off : Z) (define_bits : bool) (pred : member -> bool)
           (base : list member) : mask_cls + err :=
  let values := filter pred (iter st) in
  let ents0 := fold_left (fun acc e => if is_enum_entry e then extend_list acc (fst e) (snd e) else acc)
                         (sort_by_name base) (inl []) in
  let ents1 :=
    if define_bits then
      fold_left (fun acc e =>
                   match acc with
                   | inr er => inr er
                   | inl _ => if is_enum_entry e && pred e then
                                match bit_of off (snd e) with
                                | inr er => inr er
                                | inl b => extend_list acc (fst e) b
                                end
                              else acc
                   end)
                (sort_by_name (canonical (entries st))) ents0
    else ents0 in
  match ents1 with
  | inr e => inr e
  | inl ents => inl (mkMask off values ents)
  end.

(* SPEC for the mask helpers: the members whose value is in the given collection, in definition order *)
Definition spec_roundtrip (members : list member) (S : list Z) : list member :=
  filter (fun m => existsb (Z.eqb (snd m)) S) members.

(* ... the same when the collection mixes values and (case-insensitive upper-cased) member names *)
Definition item_selects (m : member) (it : item) : bool :=
  match it with
  | IVal v => snd m =? v
  | IName s => String.eqb (fst m) (upper s)
  end.
Definition spec_roundtrip_items (members : list member) (items : list item) : list member :=
  filter (fun m => existsb (item_selects m) items) members.

(* to_values (to_bitmask items) *)
Definition roundtrip (m : mask_cls) (items : list item) : list member + err :=
  match to_bitmask m items with
  | inl z => to_values m z
  | inr e => inr e
  end.

(* when the round trip is defined: every member the helper knows and every selected value is at or above the
   offset (the shift count is not negative); a name must be that of a member the helper knows, and the mask class
   must define that member's bit under that name; member names and values are not repeated *)
Fixpoint nodupb {A} (eqb : A -> A -> bool) (l : list A) : bool :=
  match l with [] => true | a :: t => negb (existsb (eqb a) t) && nodupb eqb t end.
Definition name_bit_ok (m : mask_cls) (e : member) : bool :=
  match by_name (m_entries m) (fst e), bit_of (m_offset m) (snd e) with
  | Some x, inl b => snd x =? b
  | _, _ => false
  end.
Definition item_ok (m : mask_cls) (it : item) : bool :=
  match it with
  | IVal v => m_offset m <=? v
  | IName s => existsb (fun e => String.eqb (fst e) (upper s) && name_bit_ok m e) (m_values m)
  end.
Definition rt_pre (m : mask_cls) (items : list item) : bool :=
  forallb (fun e => m_offset m <=? snd e) (m_values m) && forallb (item_ok m) items
  && nodupb Z.eqb (map snd (m_values m)) && nodupb String.eqb (map fst (m_values m)).

(* lookup of a generated table *)
Definition table_of (name : string) : option (list member) :=
  match find (fun t => String.eqb (fst t) name) enum_tables with
  | Some t => Some (snd t)
  | None => None
  end.

(* the enum_bitmask helpers of the package, rebuilt by the model of the decorator from the generated enum table *)
Definition real_mask (name : string) : option (mask_cls + err) :=
  match find (fun t => String.eqb (fst (fst (fst (fst t)))) name) mask_tables with
  | Some (_, en, off, base, _) =>
      match table_of en with
      | Some t => Some (make_mask (init t) off true (fun _ => true) base)
      | None => None
      end
  | None => None
  end.
Definition real_mask_enum (name : string) : option string :=
  match find (fun t => String.eqb (fst (fst (fst (fst t)))) name) mask_tables with
  | Some (_, en, _, _, _) => Some en
  | None => None
  end.
