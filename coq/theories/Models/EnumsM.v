(* C03 — enumerations / classification / registry tables: executable comparison functions (definitions only).

   Every comparison returns the LIST OF MISMATCHING ROWS; "the tables agree" is "that list is empty".
   The same functions are extracted and run by the check to name the failing rows, so the rows the
   check reports are the rows the theorem is about. *)
From Coq Require Import ZArith List String Bool.
Import ListNotations.
Open Scope string_scope.

Definition enum_rows := list (string * Z).
Definition enum_table := list (string * enum_rows).

(* (kind, subject, name, a, b) — subject is the enum / struct / class, name the enumerator / member *)
Definition mismatch := (string * string * string * Z * Z)%type.
Definition mm (k s n : string) (a b : Z) : mismatch := (k, s, n, a, b).

Fixpoint assoc {A : Type} (k : string) (l : list (string * A)) : option A :=
  match l with
  | [] => None
  | (k', a) :: t => if String.eqb k k' then Some a else assoc k t
  end.

Definition mem_str (s : string) (l : list string) : bool := existsb (String.eqb s) l.
Definition mem_z (v : Z) (l : list Z) : bool := existsb (Z.eqb v) l.
Definition mem_pair (p : string * string) (l : list (string * string)) : bool :=
  existsb (fun q => String.eqb (fst p) (fst q) && String.eqb (snd p) (snd q)) l.

Fixpoint nodup_str (l : list string) : bool :=
  match l with [] => true | x :: t => negb (mem_str x t) && nodup_str t end.
Fixpoint nodup_z (l : list Z) : bool :=
  match l with [] => true | x :: t => negb (mem_z x t) && nodup_z t end.

(* has n v rows: the row (n, v) is present *)
Definition has (n : string) (v : Z) (rows : enum_rows) : bool :=
  existsb (fun q => String.eqb (fst q) n && Z.eqb (snd q) v) rows.

(* spelling differences: (enum, C++ enumerator, Python member) *)
Definition py_name (ren : list (string * string * string)) (e n : string) : string :=
  match find (fun r => String.eqb (fst (fst r)) e && String.eqb (snd (fst r)) n) ren with
  | Some r => snd r
  | None => n
  end.

Section Enums.
  Variable pairing : list (string * string).        (* C++ enum -> Python enum *)
  Variable co po : list (string * string).          (* (C++ enum, name) excepted on the C++ / Python side *)
  Variable ren : list (string * string * string).

  (* A C++ enumerator is fine when the Python enum has the same (renamed) name with the same number;
     an excepted one (range sentinel) must be an alias of a compared enumerator, i.e. no wire value of its own. *)
  Definition cpp_row_ok (e : string) (rows prows : enum_rows) (r : string * Z) : bool :=
    if mem_pair (e, fst r) co
    then existsb (fun q => negb (String.eqb (fst q) (fst r)) && negb (mem_pair (e, fst q) co) && Z.eqb (snd q) (snd r)) rows
    else has (py_name ren e (fst r)) (snd r) prows.

  (* A Python member is fine when some compared C++ enumerator maps to its name with the same number;
     an excepted one must carry a number that C++ does not define at all. *)
  Definition py_row_ok (e : string) (rows prows : enum_rows) (r : string * Z) : bool :=
    if mem_pair (e, fst r) po
    then negb (existsb (fun q => Z.eqb (snd q) (snd r)) rows)
    else existsb (fun q => Z.eqb (snd q) (snd r) && negb (mem_pair (e, fst q) co) && String.eqb (py_name ren e (fst q)) (fst r)) rows.

  Definition enum_mismatches (py : enum_table) (ce : string * enum_rows) : list mismatch :=
    let e := fst ce in let rows := snd ce in
    match assoc e pairing with
    | None => [mm "no-python-enum" e "" 0 0]
    | Some pk =>
      match assoc pk py with
      | None => [mm "no-python-enum" e pk 0 0]
      | Some prows =>
        (if nodup_str (map fst rows) then [] else [mm "duplicate-name-cpp" e "" 0 0]) ++
        (if nodup_str (map fst prows) then [] else [mm "duplicate-name-python" e pk 0 0]) ++
        map (fun r => mm (if mem_pair (e, fst r) co then "cpp-sentinel-not-an-alias" else "cpp-enumerator-not-in-python") e (fst r) (snd r) 0)
            (filter (fun r => negb (cpp_row_ok e rows prows r)) rows) ++
        map (fun r => mm (if mem_pair (e, fst r) po then "python-sentinel-value-defined-in-cpp" else "python-member-not-in-cpp") e (fst r) (snd r) 0)
            (filter (fun r => negb (py_row_ok e rows prows r)) prows)
      end
    end.

  Definition enums_mismatches (cpp py : enum_table) : list mismatch :=
    (if nodup_str (map fst cpp) then [] else [mm "duplicate-enum-cpp" "" "" 0 0]) ++
    (if nodup_str (map snd pairing) then [] else [mm "python-enum-paired-twice" "" "" 0 0]) ++
    flat_map (enum_mismatches py) cpp.
End Enums.

(* ---- command / response classification ------------------------------------------------------------- *)
Definition b2z (b : bool) : Z := if b then 1%Z else 0%Z.

Definition crow := (string * Z * bool * bool)%type.      (* C++: name, value, IsCommand, IsResponse *)
Definition prow := (Z * bool * bool)%type.               (* Python: value, is_command, is_response *)

Definition prow_eqb (a b : prow) : bool :=
  Z.eqb (fst (fst a)) (fst (fst b)) && Bool.eqb (snd (fst a)) (snd (fst b)) && Bool.eqb (snd a) (snd b).

Definition crow_ok (pc : list prow) (r : crow) : bool :=
  match r with (n, v, c, rr) => existsb (prow_eqb (v, c, rr)) pc && negb (c && rr) end.
Definition prow_ok (pcmd presp : list Z) (r : prow) : bool :=
  match r with (v, c, rr) => Bool.eqb c (mem_z v pcmd) && Bool.eqb rr (mem_z v presp) && negb (c && rr) end.
Definition set_member_ok (cc : list crow) (v : Z) : bool :=
  existsb (fun r : crow => Z.eqb (snd (fst (fst r))) v) cc.

Definition classification_mismatches (cc : list crow) (pc : list prow) (pcmd presp : list Z) : list mismatch :=
  map (fun r : crow => match r with (n, v, c, rr) => mm "classification-differs" "MessageType" n v (b2z c + 2 * b2z rr) end)
      (filter (fun r => negb (crow_ok pc r)) cc) ++
  map (fun r : prow => match r with (v, c, rr) => mm "python-function-vs-set" "MessageType" "" v (b2z c + 2 * b2z rr) end)
      (filter (fun r => negb (prow_ok pcmd presp r)) pc) ++
  (if nodup_z (map (fun r : prow => fst (fst r)) pc) then [] else [mm "duplicate-python-message-type" "MessageType" "" 0 0]) ++
  map (fun v => mm "command-and-response" "MessageType" "" v 0) (filter (fun v => mem_z v presp) pcmd) ++
  map (fun v => mm "python-set-member-not-a-cpp-type" "MessageType" "" v 0)
      (filter (fun v => negb (set_member_ok cc v)) (pcmd ++ presp)).

(* ---- registry ------------------------------------------------------------------------------------- *)
Definition mrow := (string * Z * Z)%type.                (* struct or class, MESSAGE_TYPE, MESSAGE_VERSION *)
Definition m_name (r : mrow) := fst (fst r).
Definition m_type (r : mrow) := snd (fst r).
Definition m_ver (r : mrow) := snd r.

Definition reg_has (reg : list (Z * string)) (t : Z) (c : string) : bool :=
  existsb (fun q => Z.eqb (fst q) t && String.eqb (snd q) c) reg.

(* the Python class (if any) registered for / declaring a type *)
Definition classes_of (t : Z) (l : list mrow) : list mrow := filter (fun r => Z.eqb (m_type r) t) l.

Definition cpp_msg_ok (pcl : list mrow) (reg : list (Z * string)) (r : mrow) : bool :=
  existsb (fun p => Z.eqb (m_type p) (m_type r) && Z.eqb (m_ver p) (m_ver r) && reg_has reg (m_type r) (m_name p)) pcl.
Definition py_class_ok (cm : list mrow) (r : mrow) : bool :=
  existsb (fun s => Z.eqb (m_type s) (m_type r) && Z.eqb (m_ver s) (m_ver r)) cm.
Definition reg_row_ok (pcl : list mrow) (q : Z * string) : bool :=
  existsb (fun p => Z.eqb (m_type p) (fst q) && String.eqb (m_name p) (snd q)) pcl.

(* version found on the other side for the same type, for the message (or -1) *)
Definition other_version (t : Z) (l : list mrow) : Z :=
  match classes_of t l with r :: _ => m_ver r | [] => (-1)%Z end.

Definition registry_mismatches (cm pcl : list mrow) (reg : list (Z * string)) : list mismatch :=
  (if nodup_z (map m_type cm) then [] else [mm "duplicate-type-cpp" "" "" 0 0]) ++
  (if nodup_z (map m_type pcl) then [] else [mm "duplicate-type-python" "" "" 0 0]) ++
  (if nodup_z (map fst reg) then [] else [mm "duplicate-type-registry" "" "" 0 0]) ++
  map (fun r => mm "cpp-struct-without-python-class-of-same-type-and-version" (m_name r) "" (m_type r) (m_ver r))
      (filter (fun r => negb (cpp_msg_ok pcl reg r)) cm) ++
  map (fun r => mm "python-class-without-cpp-struct-of-same-type-and-version" (m_name r) "" (m_type r) (m_ver r))
      (filter (fun r => negb (py_class_ok cm r)) pcl) ++
  map (fun q => mm "registry-entry-without-class" (snd q) "" (fst q) 0)
      (filter (fun q => negb (reg_row_ok pcl q)) reg).

(* ---- what the property says, as propositions over the tables ------------------------------------------ *)

(* Every C++ enum class is compared with exactly one Python enum; every enumerator that is not an excepted
   range sentinel exists in Python under the same (or the tabulated) name with the same number; every Python
   member that is not excepted comes from such an enumerator.  An excepted C++ sentinel must be an alias of a
   compared enumerator; an excepted Python member must carry a number C++ does not define. *)
Definition enums_agree_spec (pairing co po : list (string * string)) (ren : list (string * string * string))
           (cpp py : enum_table) : Prop :=
  NoDup (map fst cpp) /\ NoDup (map snd pairing) /\
  forall e rows, In (e, rows) cpp ->
    exists pk prows, In (e, pk) pairing /\ In (pk, prows) py /\
      NoDup (map fst rows) /\ NoDup (map fst prows) /\
      (forall n v, In (n, v) rows ->
         if mem_pair (e, n) co
         then exists n', n' <> n /\ mem_pair (e, n') co = false /\ In (n', v) rows
         else In (py_name ren e n, v) prows) /\
      (forall m v, In (m, v) prows ->
         if mem_pair (e, m) po
         then forall n, ~ In (n, v) rows
         else exists n, In (n, v) rows /\ mem_pair (e, n) co = false /\ py_name ren e n = m).

Definition classification_agrees_spec (cc : list crow) (pc : list prow) (pcmd presp : list Z) : Prop :=
  (* for every C++ MessageType: Python's is_command / is_response answer what IsCommand / IsResponse answer *)
  (forall n v c r, In (n, v, c, r) cc -> In (v, c, r) pc /\ ~ (c = true /\ r = true)) /\
  (* Python's answers are a function of the value and are exactly membership in the two sets *)
  NoDup (map (fun r : prow => fst (fst r)) pc) /\
  (forall v c r, In (v, c, r) pc -> (c = true <-> In v pcmd) /\ (r = true <-> In v presp)) /\
  (* the sets are disjoint and contain nothing but C++ message types *)
  (forall v, In v pcmd -> ~ In v presp) /\
  (forall v, In v pcmd \/ In v presp -> exists n c r, In (n, v, c, r) cc).

Definition registry_bijective_spec (cm pcl : list mrow) (reg : list (Z * string)) : Prop :=
  NoDup (map m_type cm) /\ NoDup (map m_type pcl) /\ NoDup (map fst reg) /\
  (forall s t ver, In (s, t, ver) cm -> exists c, In (c, t, ver) pcl /\ In (t, c) reg) /\
  (forall c t ver, In (c, t, ver) pcl -> exists s, In (s, t, ver) cm) /\
  (forall t c, In (t, c) reg -> exists ver, In (c, t, ver) pcl).
