(* SPEC of a framer history (shared by C07 and C14): the operations a caller can perform and what a
   left-to-right scan (Base/Scan.v) delivers for each of them.
   The usable capacity is what is left of the caller's buffer from the first 4-byte-aligned address on;
   a buffer whose usable part cannot hold the fixed overhead of one message frames nothing. *)
From Coq Require Import NArith List Bool.
From FEC Require Import Base.Scan Models.FramerCoreM.
Import ListNotations.
Open Scope N_scope.

Inductive op :=
| OpData (chunk : list N)                                         (* OnData(chunk) *)
| OpReset                                                         (* Reset() *)
| OpSetBuffer (user : option N) (alloc_addr capacity : N) (mem : list N).
   (* SetBuffer(): user = Some address of the caller's buffer | None = nullptr (allocate, operator new[]
      returning alloc_addr); mem = the bytes found there (never part of the SPEC) *)

Record spst := mkSp {
  sp_cap : option N;        (* usable capacity; None = no usable buffer *)
  sp_off : nat;             (* stream offset of the first undecided byte *)
  sp_res : list N }.        (* undecided bytes *)

Definition spec_init : spst := mkSp None 0 [].

Section Spec.
  Variable judge_of_cap : N -> list N -> verdict.
  Variable min_cap : N.
  Variable clamp : N.

  Definition spec_eff_capacity (user : option N) (alloc_addr capacity : N) : option N :=
    let capacity := N.min capacity clamp in
    let a := match user with Some a => a | None => alloc_addr end in
    let shift := (4 - a mod 4) mod 4 in
    if capacity - shift <? min_cap then None else Some (capacity - shift).

  Definition spec_op (s : spst) (o : op) : spst * list (nat * list N) :=
    match o with
    | OpData chunk =>
        match sp_cap s with
        | None => (mkSp None (sp_off s + length (sp_res s) + length chunk) [], [])
        | Some cap =>
            let '(fs, st) := feed (judge_of_cap cap) (sp_off s, sp_res s) chunk in
            (mkSp (Some cap) (fst st) (snd st), fs)
        end
    | OpReset => (mkSp (sp_cap s) (sp_off s + length (sp_res s)) [], [])
    | OpSetBuffer user alloc_addr capacity _ =>
        if capacity <? min_cap then (s, [])
        else (mkSp (spec_eff_capacity user alloc_addr capacity) (sp_off s + length (sp_res s)) [], [])
    end.

  Fixpoint spec_run (s : spst) (ops : list op) : list (list (nat * list N)) :=
    match ops with
    | [] => []
    | o :: rest => let '(s', fs) := spec_op s o in fs :: spec_run s' rest
    end.
End Spec.

Definition frames_total (fs : list (nat * list N)) : N :=
  fold_right (fun f a => N.of_nat (length (snd f)) + a) 0 fs.

(* running a history on a framer model: per operation the value returned and the callbacks made *)
Section Run.
  Variable F : Type.
  Variable step : F -> op -> outcome (F * N * list event).
  Fixpoint run_ops (f : F) (ops : list op) : outcome (list (N * list event) * F) :=
    match ops with
    | [] => Ok ([], f)
    | o :: rest =>
        r <- step f o ;
        let '(f', ret, evs) := r in
        r2 <- run_ops f' rest ;
        let '(outs, ff) := r2 in Ok ((ret, evs) :: outs, ff)
    end.
End Run.
