(* C12 — MODEL of fusion_engine_client.analysis.data_loader.DataLoader.read()/_read() and MessageData.to_numpy(),
   transcribed in source order.  Definitions only (proofs are in Proofs/DataLoaderP.v).

   What is abstract (an [env]): the log as the reader's index sees it (one record per message), the reader's
   FileIndex[TimeRange] selection ([e_tfilter], owned by C10/C13) and its removal of entries without P1 time
   ([e_nonnan], reader.filter_out_invalid_p1_times()), the source identifiers the reader discovered
   ([e_avail]) and DataLoader.time_align_data ([e_align], owned by C15).  Every theorem quantifies over all
   environments.  The extracted runner instantiates them with [concrete_env] (time selections and available source
   ids supplied by the implementation's reader, time alignment by the small re-implementation [align_impl]).

   What is not modelled: max_bytes (always None here), show_progress/quiet (logging only), t0/system_t0 (not
   observable through read()), and the "establishing t0" branch of _read(): after open() on an indexed log both
   _need_t0 and _need_system_t0 are False and nothing sets them back, so the branch is dead; the model keeps the two
   flags in its state and answers [OutUnmodelled] if the branch would be entered (excluded by [read_never_unmodelled]). *)
From Coq Require Import ZArith NArith List Bool.
From FEC Require Import Generated.DataLoaderConsts.
Import ListNotations.

(* ------------------------------------------------------------------------------------------------ *)
(** * Small list / set toolkit (Python set(), slices, deque) *)

Definition memN (x : N) (l : list N) : bool := existsb (N.eqb x) l.
Definition is_some {A} (o : option A) : bool := match o with Some _ => true | None => false end.

Fixpoint insertZ (x : Z) (l : list Z) : list Z :=
  match l with
  | [] => [x]
  | y :: l' => if (x <=? y)%Z then x :: l else y :: insertZ x l'
  end.
Definition sortZ (l : list Z) : list Z := fold_right insertZ [] l.
Fixpoint dedupZ (l : list Z) : list Z :=
  match l with
  | [] => []
  | x :: l' => match l' with
               | [] => [x]
               | y :: _ => if (x =? y)%Z then dedupZ l' else x :: dedupZ l'
               end
  end.
(* np.unique of integers: sorted, duplicate-free *)
Definition norm_setZ (l : list Z) : list Z := dedupZ (sortZ l).
(* the canonical form of a Python set of integers: sorted, duplicate-free *)
Fixpoint insertN (x : N) (l : list N) : list N :=
  match l with
  | [] => [x]
  | y :: l' => if (x <=? y)%N then x :: l else y :: insertN x l'
  end.
Definition sortN (l : list N) : list N := fold_right insertN [] l.
Definition norm_set (l : list N) : list N := nodup N.eq_dec (sortN l).

(* l[-n:] *)
Definition lastn {A} (n : nat) (l : list A) : list A := skipn (length l - n) l.
(* collections.deque(maxlen=n).append *)
Definition deque_push {A} (n : nat) (dq : list A) (x : A) : list A := lastn n (dq ++ [x]).

(* ------------------------------------------------------------------------------------------------ *)
(** * Messages, arguments, cache key *)

(* one message of the log as the reader sees it *)
Record DLmsg := mkMsg {
  m_ord : N;              (* 0-based ordinal in the file = FileIndex.message_index *)
  m_type : N;             (* header.message_type *)
  m_src : N;              (* header.source_identifier *)
  m_time : option Z;      (* index time / float(payload.p1_time); None = NaN (no or invalid P1 time) *)
  m_p1_some : bool;       (* payload.get_p1_time() is not None *)
  m_sys_some : bool;      (* payload.get_system_time_ns() is not None *)
  m_decodes : bool        (* payload class exists and unpack() succeeds *)
}.

(* a message as returned to the caller: read from the file, or default-constructed by time alignment *)
Inductive rmsg := RFile (m : DLmsg) | RDefault (ty : N) (t : option Z).
Definition rm_time (r : rmsg) : option Z := match r with RFile m => m_time m | RDefault _ t => t end.

(* TimeRange as compared by TimeRange.__eq__: start, end, absolute *)
Record trange := mkTr { tr_start : option Z; tr_end : option Z; tr_abs : bool }.

(* read() arguments *)
Record args := mkArgs {
  a_types : option (list N);     (* message_types: None, or a list of MessageType values *)
  a_tr : trange;
  a_src : option (list N);       (* source_ids *)
  a_ignore : bool;               (* ignore_cache *)
  a_max : option Z;              (* max_messages *)
  a_p1 : bool; a_sys : bool;     (* require_p1_time, require_system_time *)
  a_order : bool;                (* return_in_order *)
  a_bytes : bool; a_idx : bool;  (* return_bytes, return_message_index *)
  a_numpy : bool; a_keep : bool; a_nan : bool;   (* return_numpy, keep_messages, remove_nan_times *)
  a_align : N;                   (* time_align: TimeAlignmentMode value *)
  a_atypes : option (list N)     (* aligned_message_types *)
}.

(* the `params` dictionary stored with each cache entry.  Fields of keys that the source does not put into the
   dictionary are blanked by [key_of], so they cannot distinguish two requests. *)
Record params := mkParams {
  p_tr : trange; p_max : option Z; p_p1 : bool; p_sys : bool; p_bytes : bool; p_idx : bool; p_nan : bool;
  p_src : option (list N);                           (* None: no source filter; set: sorted, duplicate-free *)
  p_types : option (list N);                         (* 'message_types' (set) *)
  p_numpy : bool; p_keep : bool; p_align : N; p_atypes : option (list N)
}.

(* which version of the code is modelled *)
Record variant := mkVariant {
  v_key_types : bool; v_key_numpy : bool; v_key_keep : bool; v_key_align : bool; v_key_atypes : bool;
  v_reread_all : bool;        (* any cache miss => every requested type is read again *)
  v_break_guarded : bool;     (* the "maximum reached" break does not fire while the last-N deque is in use *)
  v_preslice_guarded : bool   (* no index pre-slice when a source filter or require_p1_time is active *)
}.
(* the code as it is now: key fields and the break guard regenerated from the source on every run; the re-read rule
   is hand-transcribed control flow (held by correspondence) *)
Definition current : variant :=
  mkVariant key_has_message_types key_has_return_numpy key_has_keep_messages key_has_time_align
            key_has_aligned_message_types true break_guarded_by_deque preslice_guarded_by_read_time_tests.
(* the code before the C12 repairs *)
Definition legacy : variant := mkVariant false false false false false false false false.

Definition key_of (v : variant) (p : params) : params :=
  mkParams (p_tr p) (p_max p) (p_p1 p) (p_sys p) (p_bytes p) (p_idx p) (p_nan p) (p_src p)
           (if v_key_types v then p_types p else None)
           (if v_key_numpy v then p_numpy p else false)
           (if v_key_keep v then p_keep p else false)
           (if v_key_align v then p_align p else 0%N)
           (if v_key_atypes v then p_atypes p else None).

Definition optZ_eq_dec : forall a b : option Z, {a = b} + {a <> b}.
Proof. decide equality. apply Z.eq_dec. Defined.
Definition listN_eq_dec : forall a b : list N, {a = b} + {a <> b}.
Proof. apply list_eq_dec. apply N.eq_dec. Defined.
Definition optlistN_eq_dec : forall a b : option (list N), {a = b} + {a <> b}.
Proof. decide equality. apply listN_eq_dec. Defined.
Definition trange_eq_dec : forall a b : trange, {a = b} + {a <> b}.
Proof. decide equality. apply bool_dec. apply optZ_eq_dec. apply optZ_eq_dec. Defined.
(* dict equality `self.data[t].params != params` *)
Definition params_eq_dec : forall a b : params, {a = b} + {a <> b}.
Proof.
  decide equality; try apply bool_dec; try apply optlistN_eq_dec; try apply N.eq_dec;
    try apply optZ_eq_dec; try apply trange_eq_dec.
Defined.

(* ------------------------------------------------------------------------------------------------ *)
(** * MessageData *)

Record data := mkData {
  d_msgs : list rmsg;           (* .messages *)
  d_np : option (list rmsg);    (* None: no numpy members; Some rows: the arrays hold one column per row *)
  d_idx : list N;               (* .message_index *)
  d_idx_arr : bool;             (* .message_index is an ndarray (after conversion) rather than a list *)
  d_bytes : list N;             (* .message_bytes, each element identified by the ordinal of its message *)
  d_bytes_arr : bool
}.
Definition empty_data : data := mkData [] None [] false [] false.

(* MessageData.add_message *)
Definition add_message (rb ri : bool) (d : data) (m : DLmsg) : data :=
  mkData (d_msgs d ++ [RFile m]) (d_np d)
         (if ri then d_idx d ++ [m_ord m] else d_idx d) (d_idx_arr d)
         (if rb then d_bytes d ++ [m_ord m] else d_bytes d) (d_bytes_arr d).

(* x != y on floats where None is NaN *)
Definition time_neq (a b : option Z) : bool :=
  match a, b with Some x, Some y => negb (x =? y)%Z | _, _ => true end.

(* value[keep_idx] for a 1-D array whose length equals the time vector's; other lengths are left alone *)
Fixpoint mask_filter {A} (mask : list bool) (l : list A) : list A :=
  match mask, l with
  | b :: mask', x :: l' => if b then x :: mask_filter mask' l' else mask_filter mask' l'
  | _, _ => []
  end.
Definition mask_same_len {A} (mask : list bool) (l : list A) : list A :=
  if Nat.eqb (length l) (length mask) then mask_filter mask l else l.

(* MessageData.to_numpy(remove_nan_times, keep_messages, keep_message_bytes, keep_message_index) for type [ty];
   DataLoader.to_numpy swallows the ValueError raised when the type has no class *)
Definition entry_to_numpy (nan keep keepb keepi : bool) (ty : N) (d : data) : data :=
  if negb (memN ty all_types) then d
  else
    let have_cached := is_some (d_np d) && memN ty np_p1_types in       (* 'p1_time' in self.__dict__ *)
    let do_conversion :=
      if have_cached then
        match d_msgs d, d_np d with
        | [], _ => false
        | m0 :: _, Some rows =>
            negb (Nat.eqb (length (d_msgs d)) (length rows))
            || match hd_error rows with Some r0 => time_neq (rm_time m0) (rm_time r0) | None => true end
            || match hd_error (rev (d_msgs d)), hd_error (rev rows) with
               | Some ml, Some rl => time_neq (rm_time ml) (rm_time rl) | _, _ => true end
        | _, None => true
        end
      else true in
    if do_conversion && negb (Nat.eqb (length (d_bytes d)) 0) then
      (* np.array(self.message_bytes, dtype=np.uint64) on a non-empty list of bytes objects raises ValueError right
         after self.__dict__.update(...): the arrays are there, nothing else happened; DataLoader.to_numpy swallows it *)
      mkData (d_msgs d) (Some (d_msgs d)) (d_idx d) (d_idx_arr d) (d_bytes d) (d_bytes_arr d)
    else
    let d1 :=
      if do_conversion then
        let rows := d_msgs d in
        if nan && memN ty np_p1_types then
          let mask := map (fun r => is_some (rm_time r)) rows in          (* ~isnan(p1_time) *)
          mkData (d_msgs d) (Some (mask_filter mask rows))
                 (mask_same_len mask (d_idx d)) true (mask_same_len mask (d_bytes d)) true
        else mkData (d_msgs d) (Some rows) (d_idx d) true (d_bytes d) true
      else d in
    mkData (if keep then d_msgs d1 else []) (d_np d1)
           (if keepi then d_idx d1 else []) (if keepi then d_idx_arr d1 else false)
           (if keepb then d_bytes d1 else []) (if keepb then d_bytes_arr d1 else false).

(* ------------------------------------------------------------------------------------------------ *)
(** * Environment, loader state, outcomes *)

Record env := mkEnv {
  e_log : list DLmsg;                                       (* the original index, file order *)
  e_avail : list N;                                         (* reader.get_available_source_ids() *)
  e_tfilter : trange -> list DLmsg -> list DLmsg;           (* FileIndex[TimeRange] *)
  e_nonnan : list DLmsg -> list DLmsg;                      (* FileIndex.get_time_range(hint='remove_nans'), no bounds *)
  e_align : N -> option (list N) -> list (N * data) -> list (N * data)   (* DataLoader.time_align_data *)
}.

Definition entry := (params * data)%type.
Record state := mkState {
  s_cache : N -> option entry;      (* self.data *)
  s_need_t0 : bool; s_need_sys_t0 : bool
}.
(* a loader just opened on an indexed log *)
Definition init_state : state := mkState (fun _ => None) false false.

Inductive outcome :=
| OutDict (r : list (N * data))      (* dict keyed by message type; listed in ascending type order *)
| OutOrder (d : data)                (* return_in_order: one MessageData *)
| OutUnmodelled.                     (* the establishing-t0 branch (never reached, see above) *)

Definition cache_set (c : N -> option entry) (t : N) (e : entry) : N -> option entry :=
  fun t' => if N.eqb t' t then Some e else c t'.

(* ------------------------------------------------------------------------------------------------ *)
(** * The reader as the loader drives it *)

(* reader.filter_in_place(time_range); (message_types); filter_out_invalid_p1_times() *)
Definition index_select (e : env) (p : params) (types : list N) (sys_requested : bool) : list DLmsg :=
  let i1 := e_tfilter e (p_tr p) (e_log e) in
  let i2 := filter (fun m => memN (m_type m) types) i1 in
  if p_p1 p && negb sys_requested then e_nonnan e i2 else i2.

(* the max-messages pre-slice: slice(None, N) / slice(N, None) on the filtered index *)
Definition pre_slice (n : Z) (l : list DLmsg) : list DLmsg :=
  if (0 <=? n)%Z then firstn (Z.to_nat n) l else lastn (Z.to_nat (- n)) l.

(* what read_next() hands to the loop and the loop does not skip: source test (none when no source_ids were given), payload
   decoded, then `if require_p1_time and get_p1_time() is None: skip  elif require_system_time and
   get_system_time_ns() is None: skip` (either test skips) *)
Definition read_pass (e : env) (p : params) (m : DLmsg) : bool :=
  (match p_src p with
   | None => true                                              (* reader.requested_source_ids = None *)
   | Some s => memN (m_src m) s                                (* requested, ∩ available when the reader does so *)
               && (negb reader_intersects_sampled_sources || memN (m_src m) (e_avail e))
   end) && m_decodes m &&
  (if p_p1 p then m_p1_some m else true) && (if p_sys p then m_sys_some m else true).

(* the `while True:` loop.  count = message_count; acc = messages stored by type / in order; dq = newest_messages *)
Fixpoint read_loop (v : variant) (maxm : option Z) (use_deque : bool) (pass : DLmsg -> bool)
         (l : list DLmsg) (count : Z) (acc dq : list DLmsg) : list DLmsg * list DLmsg :=
  match l with
  | [] => (acc, dq)                                                       (* StopIteration *)
  | m :: l' =>
      if negb (pass m) then read_loop v maxm use_deque pass l' count acc dq
      else
        let count' := (count + 1)%Z in
        let acc' := if use_deque then acc
                    else match maxm with
                         | None => acc ++ [m]
                         | Some n => if (count' <=? Z.abs n)%Z then acc ++ [m] else acc
                         end in
        let dq' := if use_deque then
                     match maxm with Some n => deque_push (Z.to_nat (Z.abs n)) dq m | None => dq end
                   else dq in
        let stop := match maxm with
                    | Some n => (count' =? Z.abs n)%Z && (negb (v_break_guarded v) || negb use_deque)
                    | None => false
                    end in
        if stop then (acc', dq') else read_loop v maxm use_deque pass l' count' acc' dq'
  end.

(* `max_messages is not None and have_index() and source_ids is None and not require_p1_time and
    not (require_system_time and system_time_messages_requested)` *)
Definition preslice_applied (v : variant) (p : params) (sys_requested : bool) : bool :=
  is_some (p_max p) && negb (p_sys p && sys_requested)
  && (if v_preslice_guarded v then negb (is_some (p_src p)) && negb (p_p1 p) else true).

(* everything between "Reset the filter criteria" and "Time-align the data": the messages stored, in storage order *)
Definition read_messages (v : variant) (e : env) (p : params) (types needed : list N) : list DLmsg :=
  let sys_requested := existsb (fun t => memN t sys_types) needed in
  let idx := index_select e p types sys_requested in
  let applied := preslice_applied v p sys_requested in                           (* reader_max_messages_applied *)
  let idx' := match p_max p with Some n => if applied then pre_slice n idx else idx | None => idx end in
  let use_deque := match p_max p with Some n => (n <? 0)%Z && negb applied | None => false end in
  let '(acc, dq) := read_loop v (p_max p) use_deque (read_pass e p) idx' 0%Z [] [] in
  acc ++ dq.

(* ------------------------------------------------------------------------------------------------ *)
(** * _read *)

Definition of_type (t : N) (l : list DLmsg) : list DLmsg := filter (fun m => N.eqb (m_type m) t) l.

(* needed types after "Decode not supported" and the require_p1_time / require_system_time type tests *)
Definition reduce_needed (p : params) (needed : list N) : list N :=
  let supported := filter (fun t => memN t all_types) needed in
  if p_p1 p && p_sys p then filter (fun t => memN t p1_types || memN t sys_types) supported
  else if p_p1 p then filter (fun t => memN t p1_types) supported
  else if p_sys p then filter (fun t => memN t sys_types) supported
  else supported.

Definition norm_args (e : env) (a : args) : params * list N * bool :=
  let src := match a_src a with
             | None => if none_sources_sampled then Some (norm_set (e_avail e)) else None
             | Some s => Some (norm_set s)
             end in
  let ignore := a_order a || a_ignore a in
  let numpy := if a_order a then false else a_numpy a in
  let align := if a_order a then align_none else a_align a in
  let types := match a_types a with
               | None | Some [] => norm_set all_types
               | Some l => norm_set l
               end in
  (mkParams (a_tr a) (a_max a) (a_p1 a) (a_sys a) (a_bytes a) (a_idx a) (a_nan a) src
            (Some types) numpy (a_keep a) align (a_atypes a), types, ignore).

Definition post_process (e : env) (p : params) (r : list (N * data)) : list (N * data) :=
  let r1 := if N.eqb (p_align p) align_none then r else e_align e (p_align p) (p_atypes p) r in
  if p_numpy p then map (fun td => (fst td, entry_to_numpy (p_nan p) (p_keep p) (p_bytes p) (p_idx p) (fst td) (snd td))) r1
  else r1.

Definition lookup_data (t : N) (r : list (N * data)) : option data :=
  match find (fun td => N.eqb (fst td) t) r with Some td => Some (snd td) | None => None end.

(* need_t0 or need_system_t0 *)
Definition needs_t0 (st : state) (needed' : list N) : bool :=
  s_need_t0 st && existsb (fun t => memN t p1_types) needed'
  || s_need_sys_t0 st && existsb (fun t => memN t sys_types) needed'.

(* data_cache[header.message_type].add_message(...) for every stored message, in storage order *)
Definition fill (p : params) (msgs : list DLmsg) (r : list (N * data)) : list (N * data) :=
  map (fun td => (fst td, fold_left (add_message (p_bytes p) (p_idx p)) (of_type (fst td) msgs) (snd td))) r.

(* the MessageData objects in the result are the cached objects: post-processing is visible in the cache *)
Definition write_back (types : list N) (c : N -> option entry) (r : list (N * data)) : N -> option entry :=
  fold_left (fun c t => match lookup_data t r, c t with
                        | Some d, Some (k, _) => cache_set c t (k, d)
                        | _, _ => c end) types c.

Definition with_cache (st : state) (c : N -> option entry) : state := mkState c (s_need_t0 st) (s_need_sys_t0 st).

Definition read_gen (v : variant) (e : env) (st : state) (a : args) : state * outcome :=
  let '(p, types, ignore) := norm_args e a in
  let key := key_of v p in
  (* "If any of the requested types were already read ... skip them" *)
  let missing := filter (fun t => match s_cache st t with
                                  | Some (k, _) => if params_eq_dec k key then false else true
                                  | None => true end) types in
  let needed := if ignore then types
                else if v_reread_all v then (match missing with [] => [] | _ => types end) else missing in
  (* data_cache = {} if ignore_cache else self.data; a fresh MessageData for every needed type *)
  let base : N -> option entry := if ignore then (fun _ => None) else s_cache st in
  let cache1 := if a_order a then base else fold_left (fun c t => cache_set c t (key, empty_data)) needed base in
  let needed' := reduce_needed p needed in
  if a_order a then
    match needed' with
    | [] => (st, OutOrder empty_data)
    | _ => if needs_t0 st needed' then (st, OutUnmodelled)
           else (st, OutOrder (fold_left (add_message (p_bytes p) (p_idx p)) (read_messages v e p types needed') empty_data))
    end
  else
    (* result = {t: data_cache[t] for t in message_types}: every requested type has an entry here (cached or new) *)
    let result0 := map (fun t => (t, match cache1 t with Some (_, d) => d | None => empty_data end)) types in
    match needed' with
    | [] => (if ignore then st else with_cache st cache1, OutDict result0)            (* "Nothing to read." *)
    | _ => if needs_t0 st needed' then (st, OutUnmodelled)
           else
             let result2 := post_process e p (fill p (read_messages v e p types needed') result0) in
             (if ignore then st else with_cache st (write_back types cache1 result2), OutDict result2)
    end.

Definition read := read_gen current.
Definition read_legacy := read_gen legacy.

(* DataLoader.open(path) on a loader that is already open: close(), the cache emptied (self.data = {}), a new reader
   with an index, so both need flags are False again.  [clears] = the source assigns {} to self.data in open() *)
Definition reopen_gen (clears : bool) (st : state) : state := if clears then init_state else mkState (s_cache st) false false.
Definition reopen := reopen_gen open_clears_cache.

(* a history of read() calls on one loader *)
Definition run_gen (v : variant) (e : env) (st : state) (h : list args) : state :=
  fold_left (fun s a => fst (read_gen v e s a)) h st.
Definition run := run_gen current.
(* the same call on a freshly opened loader: the oracle of the property *)
Definition fresh (e : env) (a : args) : outcome := snd (read e init_state a).

(* ------------------------------------------------------------------------------------------------ *)
(** * SPEC: what the property text says a read returns *)

(* The property text: "the returned messages are those of the log reader under the same filters, limited to the
   first N (or last N for negative N) across all requested types in file order".  The reader's filters are the
   reader's (C10): index selection by time range, requested types and, when P1 time is required, entries with P1
   time; then the read-time tests (source id requested and available, payload decodes, P1 / system time present). *)
Definition spec_pass (e : env) (a : args) (p : params) (all_sources : bool) (m : DLmsg) : bool :=
  if all_sources then
    (match a_src a with None => true | Some s => memN (m_src m) s end)
    && m_decodes m
    && (if p_p1 p then m_p1_some m else true) && (if p_sys p then m_sys_some m else true)
  else read_pass e p m.
(* [all_sources]: the reader's own notion of available sources (false), or every source present in the log (true) *)
Definition spec_selected (e : env) (a : args) (all_sources : bool) : list DLmsg :=
  let '(p, types, _) := norm_args e a in
  let needed := reduce_needed p types in
  match needed with
  | [] => []
  | _ => filter (spec_pass e a p all_sources)
                (index_select e p types (existsb (fun t => memN t sys_types) needed))
  end.
(* first N, or last N for negative N *)
Definition limit (n : option Z) (l : list DLmsg) : list DLmsg :=
  match n with None => l | Some n => if (0 <=? n)%Z then firstn (Z.to_nat n) l else lastn (Z.to_nat (- n)) l end.
(* the messages a read must return, in file order across all requested types *)
Definition spec_messages (e : env) (a : args) (all_sources : bool) : list DLmsg :=
  limit (a_max a) (spec_selected e a all_sources).

(* diagnostic for the runner: (the index pre-slice is applied, number of index entries the read-time tests drop) *)
Definition diag (e : env) (a : args) : bool * nat :=
  let '(p, types, _) := norm_args e a in
  let needed := reduce_needed p types in
  let sys_requested := existsb (fun t => memN t sys_types) needed in
  (preslice_applied current p sys_requested,
   length (filter (fun m => negb (read_pass e p m)) (index_select e p types sys_requested))).

(* ------------------------------------------------------------------------------------------------ *)
(** * Concrete environment of the extracted runner *)

Definition trange_eqb (a b : trange) : bool := if trange_eq_dec a b then true else false.

(* FileIndex[TimeRange] given as a table {time range -> ordinals selected} taken from the implementation's reader
   (C10/C13 own its semantics); the selection keeps index order *)
Definition tfilter_table (tab : list (trange * list N)) (tr : trange) (l : list DLmsg) : list DLmsg :=
  match find (fun e => trange_eqb (fst e) tr) tab with
  | Some (_, ords) => filter (fun m => memN (m_ord m) ords) l
  | None => []
  end.

(* DataLoader.time_align_data, the behaviour used here: np.intersect1d / np.unique on float(m.p1_time), NaN = None *)
Definition participating (atypes : option (list N)) (ty : N) : bool :=
  memN ty dict_p1_types && match atypes with None => true | Some l => memN ty l end.
Fixpoint somes {A} (l : list (option A)) : list A :=
  match l with [] => [] | Some x :: l' => x :: somes l' | None :: l' => somes l' end.
Definition times_of (d : data) : list Z := somes (map rm_time (d_msgs d)).
Definition memZ (x : Z) (l : list Z) : bool := existsb (Z.eqb x) l.
Definition first_at (t : Z) (msgs : list rmsg) : option rmsg :=
  find (fun r => match rm_time r with Some x => (x =? t)%Z | None => false end) msgs.
Definition set_msgs (d : data) (ms : list rmsg) : data :=
  mkData ms (d_np d) (d_idx d) (d_idx_arr d) (d_bytes d) (d_bytes_arr d).
Definition align_impl (mode : N) (atypes : option (list N)) (r : list (N * data)) : list (N * data) :=
  let part := filter (fun td => participating atypes (fst td)) r in
  if N.eqb mode align_drop then
    match part with
    | [] => r
    | td0 :: rest =>
        let common := fold_left (fun acc td => filter (fun t => memZ t (times_of (snd td))) acc) rest
                                (norm_setZ (times_of (snd td0))) in
        map (fun td => if participating atypes (fst td)
                       then (fst td, set_msgs (snd td) (flat_map (fun t => match first_at t (d_msgs (snd td)) with
                                                                          | Some m => [m] | None => [] end) common))
                       else td) r
    end
  else if N.eqb mode align_insert then
    match part with
    | [] => r
    | _ =>
        let all := norm_setZ (flat_map (fun td => times_of (snd td)) part) in
        let has_nan := existsb (fun td => existsb (fun m => negb (is_some (rm_time m))) (d_msgs (snd td))) part in
        let time_set := map Some all ++ (if has_nan then [None] else []) in
        map (fun td => if participating atypes (fst td)
                       then (fst td, set_msgs (snd td)
                               (map (fun ot => match ot with
                                               | Some t => match first_at t (d_msgs (snd td)) with
                                                           | Some m => m | None => RDefault (fst td) (Some t) end
                                               | None => RDefault (fst td) None end) time_set))
                       else td) r
    end
  else r.

Definition concrete_env (log : list DLmsg) (avail : list N) (tab : list (trange * list N)) (nonnan : list N) : env :=
  mkEnv log avail (tfilter_table tab) (filter (fun m => memN (m_ord m) nonnan)) align_impl.
