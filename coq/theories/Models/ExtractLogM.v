(* C18 — extract_fusion_engine_log(input_path, output_path) of python/fusion_engine_client/utils/log.py,
   with FileIndexBuilder (parsers/file_index.py), transcribed.

     index_builder = FileIndexBuilder()
     reader = MixedLogReader(in_fd, save_index=False, return_header/payload/bytes=True)   (* indexes the input: C08 *)
     for header, payload, data in reader:
         index_builder.append(header.message_type, out.tell(), payload.get_p1_time() if payload else None)
         out.write(data)
     if reader.valid_count == 0: os.remove(output_path)
     index_builder.save(index_path(output_path), output_path)
     return reader.valid_count [, reader.message_counts]

   Preconditions recorded in the evidence: the output path is explicit and different from the input, and no
   stale <input>.p1i lies next to the input (the reader would load it: that is C09). *)
From Coq Require Import NArith List Bool Arith.
From FEC Require Import Generated.FEConsts Generated.FileIndexConsts Base.ListX Base.Bytes Base.Crc32 Base.Scan Base.FEFormat
  Models.FileScanM Models.FileIndexIOM.
Import ListNotations.

(* reader.message_counts: a dict (insertion ordered) message type -> count *)
Fixpoint bump (ty : N) (c : list (N * N)) : list (N * N) :=
  match c with
  | [] => [(ty, 1%N)]
  | (k, v) :: rest => if N.eqb k ty then (k, (v + 1)%N) :: rest else (k, v) :: bump ty rest
  end.

Fixpoint lookup (ty : N) (c : list (N * N)) : option N :=
  match c with
  | [] => None
  | (k, v) :: rest => if N.eqb k ty then Some v else lookup ty rest
  end.

Record xstate := mkX { x_out : list N; x_entries : list ientry; x_count : N; x_counts : list (N * N) }.

Record xresult := mkXR {
  xr_output : option (list N);     (* content of the output file; None = the file was removed *)
  xr_index : option (list N);      (* content of the output's .p1i; None = not written *)
  xr_count : N;                    (* return value *)
  xr_counts : list (N * N) }.      (* second return value with return_counts=True *)

Section Extract.
  Variable p1 : list N -> option N.

  Definition x_init : xstate := mkX [] [] 0 [].

  (* one iteration of the for loop body, on the bytes the reader yielded *)
  Definition x_step (st : xstate) (data : list N) : xstate :=
    mkX (x_out st ++ data)
        (x_entries st ++ [mkI (p1 data) (frame_type data) (N.of_nat (length (x_out st)))])
        (x_count st + 1) (bump (frame_type data) (x_counts st)).

  (* the reader's iteration over the index entries of the input, driving the loop body *)
  Fixpoint x_loop (d : list N) (offs : list nat) (st : xstate) : xstate :=
    match offs with
    | [] => st
    | o :: rest => match read_at d o with
                   | RStop => st
                   | RSkip => x_loop d rest st
                   | RYield data => x_loop d rest (x_step st data)
                   end
    end.

  Definition extract (d : list N) : xresult :=
    let st := x_loop d (index_offsets (fresh p1 d)) x_init in
    mkXR (if N.eqb (x_count st) 0 then None else Some (x_out st))
         (save (x_entries st) (N.of_nat (length (x_out st))))
         (x_count st) (x_counts st).

  (* the output location before and after: (content of the .p1log, content of its .p1i), None = absent.
     open(output_path, 'wb') truncates whatever was there, os.remove deletes it when nothing was found;
     FileIndex.save replaces the .p1i only when it writes one (save_index=True and at least one message). *)
  Definition location := (option (list N) * option (list N))%type.
  Definition extract_over (save_index : bool) (prior : location) (d : list N) : location * N :=
    let r := extract d in
    ((xr_output r, if save_index then match xr_index r with Some b => Some b | None => snd prior end else snd prior),
     xr_count r).

  (* SPEC: the property text *)
  Definition spec_output (d : list N) : list N := concat (map snd (file_frames d)).
  Definition spec_count (d : list N) : N := N.of_nat (length (file_frames d)).
  Definition spec_type_count (ty : N) (d : list N) : N :=
    N.of_nat (length (filter (fun f => N.eqb (frame_type (snd f)) ty) (file_frames d))).
  (* what indexing a file afresh and saving that index writes *)
  Definition fresh_saved (d : list N) : option (list N) := save (fresh p1 d) (N.of_nat (length d)).
End Extract.
