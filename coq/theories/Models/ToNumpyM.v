(* C16 — MODEL and SPEC of numeric array conversion: columns, the generic _message_to_numpy path and the
   NaN-time removal of MessageData.to_numpy (python/fusion_engine_client/analysis/data_loader.py).
   Definitions only. *)
From Coq Require Import Bool Arith String List.
Import ListNotations.

Section Columns.
  Context {M V : Type}.

  (* np.array([<field of m> for m in messages]): one entry per message, in message order *)
  Definition np_column (get : M -> V) (ms : list M) : list V := map get ms.

  (* messages[0].<field> if len(messages) > 0 else <default>: a time-independent output *)
  Definition np_first (get : M -> V) (dflt : V) (ms : list M) : V :=
    match ms with [] => dflt | m :: _ => get m end.

  (* MessagePayload._message_to_numpy(messages) with fields = sorted(instance.__dict__.keys()):
     one column per instance field (for no messages: one empty array per field) *)
  Definition np_generic (fields : list string) (get : string -> M -> V) (ms : list M)
    : list (string * list V) :=
    map (fun f => (f, np_column (get f) ms)) fields.
End Columns.

Section RemoveNan.
  Context {V : Type}.

  (* a numpy array as far as MessageData.to_numpy looks at it *)
  Inductive np_arr :=
  | A1 (d : list V)                       (* ndim 1 *)
  | A2 (cols : nat) (d : list (list V))   (* ndim 2: the rows, each of length cols (= shape[1]) *)
  | AH (d : list (list V))                (* ndim >= 3: the blocks along the first axis *)
  | A0.                                   (* not an ndarray (scalar, dict, list): never touched *)

  (* value[keep_idx] with a boolean mask of the same length *)
  Fixpoint np_compress {A} (keep : list bool) (d : list A) : list A :=
    match keep, d with
    | k :: ks, x :: xs => if k then x :: np_compress ks xs else np_compress ks xs
    | _, _ => []
    end.

  Definition np_count (keep : list bool) : nat := length (filter (fun b => b) keep).

  Definition np_skipped_keys : list string := ["message_type"; "message_class"; "params"; "messages"]%string.

  (* the body of `for key, value in self.__dict__.items()` — current (repaired) code *)
  Definition np_filter_entry (is_nan : list bool) (ntd : list string) (kv : string * np_arr) : string * np_arr :=
    let '(key, value) := kv in
    let n := length is_nan in
    let keep_idx := map negb is_nan in
    if existsb (String.eqb key) np_skipped_keys then kv
    else if existsb (String.eqb key) ntd then kv        (* declared not_time_dependent *)
    else match value with
         | A1 d => if length d =? n then (key, A1 (np_compress keep_idx d)) else kv
         | A2 cols d =>
             if cols =? n then (key, A2 (np_count keep_idx) (map (np_compress keep_idx) d))   (* value[:, keep_idx] *)
             else if length d =? n then (key, A2 cols (np_compress keep_idx d))               (* value[keep_idx, :] *)
             else kv
         | AH d => if length d =? n then (key, AH (np_compress keep_idx d)) else kv           (* value[keep_idx, ...] *)
         | A0 => kv
         end.

  (* the code before the repair: arrays with more than two dimensions were left alone *)
  Definition np_filter_entry_legacy (is_nan : list bool) (ntd : list string) (kv : string * np_arr) : string * np_arr :=
    match snd kv with AH _ => kv | _ => np_filter_entry is_nan ntd kv end.

  (* if remove_nan_times and 'p1_time' in self.__dict__: is_nan = np.isnan(self.p1_time); if np.any(is_nan): ... *)
  Definition np_remove_nan (is_nan : list bool) (ntd : list string) (entries : list (string * np_arr))
    : list (string * np_arr) :=
    if existsb (fun b => b) is_nan then map (np_filter_entry is_nan ntd) entries else entries.
  Definition np_remove_nan_legacy (is_nan : list bool) (ntd : list string) (entries : list (string * np_arr))
    : list (string * np_arr) :=
    if existsb (fun b => b) is_nan then map (np_filter_entry_legacy is_nan ntd) entries else entries.

  (* ------------------------------------------------------------------------------------------------ *)
  (* SPEC                                                                                              *)
  (* ------------------------------------------------------------------------------------------------ *)

  (* the positions that stay: indices of the valid (non-NaN) P1 times, ascending *)
  Fixpoint np_positions_from (i : nat) (is_nan : list bool) : list nat :=
    match is_nan with
    | [] => []
    | b :: r => if b then np_positions_from (S i) r else i :: np_positions_from (S i) r
    end.
  Definition np_positions (is_nan : list bool) : list nat := np_positions_from 0 is_nan.

  (* pick the given positions of a list (a position outside the list contributes nothing) *)
  Definition np_select {A} (pos : list nat) (d : list A) : list A :=
    flat_map (fun i => match nth_error d i with Some x => [x] | None => [] end) pos.

  (* where the time axis of an array is, by the conventions of this code base: N, AxN, NxA (A <> N), Nx...  *)
  Inductive np_time_axis := TimeIs1D | TimeIsColumns | TimeIsRows | TimeIsFirstOfMany.
  Definition np_has_time_axis (n : nat) (v : np_arr) (ax : np_time_axis) : Prop :=
    match v, ax with
    | A1 d, TimeIs1D => length d = n
    | A2 cols d, TimeIsColumns => cols = n
    | A2 cols d, TimeIsRows => cols <> n /\ length d = n
    | AH d, TimeIsFirstOfMany => length d = n
    | _, _ => False
    end.

  (* keep exactly the given time positions of an array along its time axis *)
  Definition np_select_time (pos : list nat) (v : np_arr) (ax : np_time_axis) : np_arr :=
    match v, ax with
    | A1 d, _ => A1 (np_select pos d)
    | A2 cols d, TimeIsColumns => A2 (length pos) (map (np_select pos) d)
    | A2 cols d, _ => A2 cols (np_select pos d)
    | AH d, _ => AH (np_select pos d)
    | A0, _ => A0
    end.

  Definition np_is_skipped (ntd : list string) (key : string) : bool :=
    existsb (String.eqb key) np_skipped_keys || existsb (String.eqb key) ntd.
End RemoveNan.
Arguments np_arr : clear implicits.
