(* C01 — wire-description language and its generic decode / encode / sizeof interpreters.  Definitions only.

   One description ([Codec_desc]) is generated per payload class by translators/gen_c01.py
   (Generated/LayoutPy.v).  The interpreters below are the MODEL of what
   cls().unpack(buffer) / obj.pack() / obj.calcsize() do for a class with that layout:

     struct.unpack_from / construct FormatField   -> [Codec_kdec] (little-endian, two's complement)
     struct 'x', construct Padding, bytes that unpack ignores and pack writes as a constant -> [IPad]
     value conversions on top of the wire integer  -> [Codec_adapter]
     construct Array(this.n, ...) / Bytes(this.n) / Bytes(k) / GreedyBytes, `for i in range(num_svs)` -> WCounted / WBytes

   Values: integers; floats are carried as their raw bit patterns (so equality is bit equality, every NaN
   of a 32-bit float after the quieting the float<->double conversion performs); "NaN because the wire
   value is the sentinel" is [FNaN].  The Timestamp adapter is in Models/CodecTs.v. *)
From Coq Require Import ZArith NArith List Bool.
From FEC Require Export Models.CodecTs.
Import ListNotations.
Open Scope Z_scope.

Inductive Codec_kind := U8 | U16 | U32 | U40 | U64 | S8 | S16 | S32 | S64 | F32 | F64.

Definition Codec_ksize (k : Codec_kind) : nat :=
  match k with U8 | S8 => 1 | U16 | S16 => 2 | U32 | S32 | F32 => 4 | U40 => 5 | U64 | S64 | F64 => 8 end%nat.
Definition Codec_ksigned (k : Codec_kind) : bool :=
  match k with S8 | S16 | S32 | S64 => true | _ => false end.
Definition Codec_kbits (k : Codec_kind) : Z := 8 * Z.of_nat (Codec_ksize k).

Definition Codec_byte_ok (b : Z) : bool := (0 <=? b) && (b <? 256).
Definition Codec_bytes_ok (l : list Z) : bool := forallb Codec_byte_ok l.

Fixpoint Codec_le_dec (l : list Z) : Z :=
  match l with [] => 0 | b :: r => b + 256 * Codec_le_dec r end.
Fixpoint Codec_le_enc (n : nat) (z : Z) : list Z :=
  match n with O => [] | S m => (z mod 256) :: Codec_le_enc m (z / 256) end.

Definition Codec_kdec (k : Codec_kind) (l : list Z) : Z :=
  let u := Codec_le_dec l in
  if Codec_ksigned k && (2 ^ (Codec_kbits k - 1) <=? u) then u - 2 ^ Codec_kbits k else u.
Definition Codec_krange (k : Codec_kind) (z : Z) : bool :=
  if Codec_ksigned k then (- 2 ^ (Codec_kbits k - 1) <=? z) && (z <? 2 ^ (Codec_kbits k - 1))
  else (0 <=? z) && (z <? 2 ^ Codec_kbits k).
Definition Codec_kenc (k : Codec_kind) (z : Z) : list Z :=
  Codec_le_enc (Codec_ksize k) (if z <? 0 then z + 2 ^ Codec_kbits k else z).

(* ---- adapters ------------------------------------------------------------------------------------ *)
Inductive Codec_adapter :=
| AId                       (* plain integer, lenient enum (value kept whatever it is), raw binary64 bits *)
| ABool                     (* struct '?' / construct Flag: non-zero -> True, True -> 1 *)
| AQuiet32                  (* binary32 bits: a signalling NaN comes back quiet from the float <-> double conversions *)
| AStrict (members : list Z)   (* IntEnum(x) with raise_on_unrecognized: unknown value -> the parse raises *)
| ASentinel (inv : Z)       (* wire value inv decodes to NaN, NaN encodes to inv *)
| ACount (target : N)       (* length of a later counted part; pack writes len(target) *)
| ATimestamp.               (* 8 bytes (sec, ns) <-> float seconds, Models/CodecTs.v *)

Definition Codec_quiet32 (z : Z) : Z :=
  if ((z / 2 ^ 23) mod 256 =? 255) && negb (z mod 2 ^ 23 =? 0) && ((z / 2 ^ 22) mod 2 =? 0) then z + 2 ^ 22 else z.

Definition Codec_adec (a : Codec_adapter) (z : Z) : option Codec_fval :=
  match a with
  | AId => Some (FInt z)
  | ABool => Some (FInt (if z =? 0 then 0 else 1))
  | AQuiet32 => Some (FInt (Codec_quiet32 z))
  | AStrict ms => if existsb (Z.eqb z) ms then Some (FInt z) else None
  | ASentinel inv => Some (if z =? inv then FNaN else FInt z)
  | ACount _ => Some (FInt z)
  | ATimestamp => Some (Codec_ts_dec z)
  end.
(* None = pack raises *)
Definition Codec_aenc (a : Codec_adapter) (v : Codec_fval) : option Z :=
  match a, v with
  | ABool, FInt z => Some (if z =? 0 then 0 else 1)
  | ASentinel inv, FNaN => Some inv
  | ATimestamp, _ => Codec_ts_enc v
  | _, FInt z => Some z
  | _, FNaN => None
  end.
(* the wire values on which the projection law dec (enc (dec z)) = dec z is claimed *)
Definition Codec_adom (a : Codec_adapter) (z : Z) : bool :=
  match a with ATimestamp => Codec_ts_dom z | _ => true end.
Definition Codec_adec_dom (a : Codec_adapter) (z : Z) : option Codec_fval :=
  if Codec_adom a z then Codec_adec a z else None.

(* ---- descriptions ---------------------------------------------------------------------------------- *)
Inductive Codec_item :=
| IField (id : N) (k : Codec_kind) (a : Codec_adapter)
| IPad (bs : list Z).          (* skipped by decode, written by encode *)
Inductive Codec_blen := LFixed (n : nat) | LCount (cnt : N) | LGreedy.
Inductive Codec_wire :=
| WItem (i : Codec_item)
| WCounted (id cnt : N) (body : list Codec_item)     (* `cnt` records of `body` *)
| WBytes (id : N) (l : Codec_blen).
Definition Codec_desc := list Codec_wire.

Definition Codec_rec := list (N * Codec_fval).
Inductive Codec_value := VF (v : Codec_fval) | VBytes (l : list Z) | VRecs (rs : list Codec_rec).
Definition Codec_env := list (N * Codec_value).

Definition Codec_take (n : nat) (b : list Z) : option (list Z * list Z) :=
  if (length b <? n)%nat then None else Some (firstn n b, skipn n b).

Definition Codec_lookup (e : Codec_env) (id : N) : option Codec_value :=
  match find (fun p => N.eqb (fst p) id) e with Some p => Some (snd p) | None => None end.
Definition Codec_lookup_int (e : Codec_env) (id : N) : option Z :=
  match Codec_lookup e id with Some (VF (FInt z)) => Some z | _ => None end.
Definition Codec_len_of (e : Codec_env) (id : N) : option Z :=
  match Codec_lookup e id with
  | Some (VBytes l) => Some (Z.of_nat (length l))
  | Some (VRecs rs) => Some (Z.of_nat (length rs))
  | _ => None
  end.

Definition Codec_item_size (i : Codec_item) : nat :=
  match i with IField _ k _ => Codec_ksize k | IPad bs => length bs end.
Definition Codec_items_size (its : list Codec_item) : nat := fold_right (fun i n => (Codec_item_size i + n)%nat) O its.

Section Decode.
  (* the adapter decode in use: [Codec_adec] (the model of unpack) or [Codec_adec_dom] (same, restricted to
     the inputs of the projection law; used only to state theorems) *)
  Variable AD : Codec_adapter -> Z -> option Codec_fval.

  Fixpoint Codec_dec_items (its : list Codec_item) (b : list Z) : option (Codec_rec * list Z) :=
    match its with
    | [] => Some ([], b)
    | IField id k a :: r =>
        match Codec_take (Codec_ksize k) b with
        | None => None
        | Some (h, t) =>
            match AD a (Codec_kdec k h) with
            | None => None
            | Some v => match Codec_dec_items r t with
                        | None => None
                        | Some (e, rest) => Some ((id, v) :: e, rest)
                        end
            end
        end
    | IPad bs :: r =>
        match Codec_take (length bs) b with
        | None => None
        | Some (_, t) => Codec_dec_items r t
        end
    end.

  Fixpoint Codec_dec_recs (its : list Codec_item) (n : nat) (b : list Z) : option (list Codec_rec * list Z) :=
    match n with
    | O => Some ([], b)
    | S m => match Codec_dec_items its b with
             | None => None
             | Some (r, t) => match Codec_dec_recs its m t with
                              | None => None
                              | Some (rs, rest) => Some (r :: rs, rest)
                              end
             end
    end.

  (* a count larger than the number of bytes left cannot be satisfied (every record / byte takes >= 1 byte);
     testing it first also keeps Z.to_nat small *)
  Definition Codec_count (acc : Codec_env) (cnt : N) (b : list Z) : option nat :=
    match Codec_lookup_int acc cnt with
    | None => None
    | Some c => if (c <? 0) || (Z.of_nat (length b) <? c) then None else Some (Z.to_nat c)
    end.

  Definition Codec_dec_one (w : Codec_wire) (acc : Codec_env) (b : list Z) : option (Codec_env * list Z) :=
    match w with
    | WItem it =>
        match Codec_dec_items [it] b with
        | None => None
        | Some (r, t) => Some (map (fun p => (fst p, VF (snd p))) r, t)
        end
    | WCounted id cnt body =>
        match Codec_count acc cnt b with
        | None => None
        | Some n => match Codec_dec_recs body n b with
                    | None => None
                    | Some (rs, t) => Some ([(id, VRecs rs)], t)
                    end
        end
    | WBytes id (LFixed n) =>
        match Codec_take n b with None => None | Some (h, t) => Some ([(id, VBytes h)], t) end
    | WBytes id (LCount cnt) =>
        match Codec_count acc cnt b with
        | None => None
        | Some n => match Codec_take n b with None => None | Some (h, t) => Some ([(id, VBytes h)], t) end
        end
    | WBytes id LGreedy => Some ([(id, VBytes b)], [])
    end.

  Fixpoint Codec_dec_wire (d : Codec_desc) (acc : Codec_env) (b : list Z) : option (Codec_env * list Z) :=
    match d with
    | [] => Some ([], b)
    | w :: d' =>
        match Codec_dec_one w acc b with
        | None => None
        | Some (ents, b') =>
            match Codec_dec_wire d' (acc ++ ents) b' with
            | None => None
            | Some (e, rest) => Some (ents ++ e, rest)
            end
        end
    end.

  (* cls().unpack(b): field values and the number of bytes consumed *)
  Definition Codec_parse_with (d : Codec_desc) (b : list Z) : option (Codec_env * nat) :=
    match Codec_dec_wire d [] b with
    | Some (e, rest) => Some (e, (length b - length rest)%nat)
    | None => None
    end.
End Decode.

Definition Codec_parse := Codec_parse_with Codec_adec.
Definition Codec_parse_dom := Codec_parse_with Codec_adec_dom.
(* unpack(buffer, offset) *)
Definition Codec_parse_at (d : Codec_desc) (off : nat) (buf : list Z) : option (Codec_env * nat) :=
  if (length buf <? off)%nat then None else Codec_parse d (skipn off buf).

(* ---- encode ------------------------------------------------------------------------------------------ *)
Fixpoint Codec_enc_items (its : list Codec_item) (r : Codec_rec) : option (list Z) :=
  match its with
  | [] => match r with [] => Some [] | _ => None end
  | IPad bs :: its' => match Codec_enc_items its' r with None => None | Some t => Some (bs ++ t) end
  | IField id k a :: its' =>
      match r with
      | (id', v) :: r' =>
          if N.eqb id id' then
            match Codec_aenc a v with
            | None => None
            | Some z => if Codec_krange k z
                        then match Codec_enc_items its' r' with None => None | Some t => Some (Codec_kenc k z ++ t) end
                        else None
            end
          else None
      | [] => None
      end
  end.

Fixpoint Codec_enc_recs (its : list Codec_item) (rs : list Codec_rec) : option (list Z) :=
  match rs with
  | [] => Some []
  | r :: rs' => match Codec_enc_items its r with
                | None => None
                | Some b => match Codec_enc_recs its rs' with None => None | Some t => Some (b ++ t) end
                end
  end.

Definition Codec_len_okb (l : Codec_blen) (bs : list Z) : bool :=
  match l with LFixed n => Nat.eqb (length bs) n | _ => true end.

Definition Codec_enc_one (w : Codec_wire) (full e : Codec_env) : option (list Z * Codec_env) :=
  match w with
  | WItem (IPad bs) => Some (bs, e)
  | WItem (IField id k a) =>
      match e with
      | (id', VF v) :: e' =>
          if N.eqb id id' then
            match (match a with ACount t => Codec_len_of full t | _ => Codec_aenc a v end) with
            | None => None
            | Some z => if Codec_krange k z then Some (Codec_kenc k z, e') else None
            end
          else None
      | _ => None
      end
  | WCounted id cnt body =>
      match e with
      | (id', VRecs rs) :: e' =>
          if N.eqb id id' then match Codec_enc_recs body rs with None => None | Some b => Some (b, e') end else None
      | _ => None
      end
  | WBytes id l =>
      match e with
      | (id', VBytes bs) :: e' =>
          if N.eqb id id' && Codec_bytes_ok bs && Codec_len_okb l bs then Some (bs, e') else None
      | _ => None
      end
  end.

Fixpoint Codec_enc_wire (d : Codec_desc) (full e : Codec_env) : option (list Z) :=
  match d with
  | [] => match e with [] => Some [] | _ => None end
  | w :: d' =>
      match Codec_enc_one w full e with
      | None => None
      | Some (bs, e') => match Codec_enc_wire d' full e' with None => None | Some t => Some (bs ++ t) end
      end
  end.

(* obj.pack() *)
Definition Codec_pack (d : Codec_desc) (e : Codec_env) : option (list Z) := Codec_enc_wire d e e.

(* obj.calcsize(): computed from the layout and the lengths of the variable parts, without serialising *)
Fixpoint Codec_sizeof (d : Codec_desc) (e : Codec_env) : option nat :=
  match d with
  | [] => match e with [] => Some O | _ => None end
  | WItem (IPad bs) :: d' => match Codec_sizeof d' e with None => None | Some n => Some (length bs + n)%nat end
  | WItem (IField _ k _) :: d' =>
      match e with
      | (_, VF _) :: e' => match Codec_sizeof d' e' with None => None | Some n => Some (Codec_ksize k + n)%nat end
      | _ => None
      end
  | WCounted _ _ body :: d' =>
      match e with
      | (_, VRecs rs) :: e' => match Codec_sizeof d' e' with None => None | Some n => Some (length rs * Codec_items_size body + n)%nat end
      | _ => None
      end
  | WBytes _ _ :: d' =>
      match e with
      | (_, VBytes bs) :: e' => match Codec_sizeof d' e' with None => None | Some n => Some (length bs + n)%nat end
      | _ => None
      end
  end.

(* obj.pack(buffer, offset): struct.pack_into / buffer[offset:offset+len] = data on a buffer that is large enough *)
Definition Codec_pack_into (buf : list Z) (off : nat) (b1 : list Z) : option (list Z) :=
  if (length buf <? off + length b1)%nat then None
  else Some (firstn off buf ++ b1 ++ skipn (off + length b1) buf).

(* ---- well-formedness (boolean, evaluated on every generated description) ---------------------------------- *)
Definition Codec_kunsigned (k : Codec_kind) : bool :=
  match k with U8 | U16 | U32 | U40 | U64 => true | _ => false end.

Definition Codec_wf_adapter (top : bool) (k : Codec_kind) (a : Codec_adapter) : bool :=
  match a with
  | AId => true
  | ABool => match k with U8 => true | _ => false end
  | AQuiet32 => match k with F32 => true | _ => false end
  | AStrict ms => forallb (Codec_krange k) ms
  | ASentinel inv => Codec_krange k inv
  | ACount _ => top && Codec_kunsigned k
  | ATimestamp => match k with U64 => true | _ => false end
  end.
Definition Codec_wf_item (top : bool) (i : Codec_item) : bool :=
  match i with
  | IField _ k a => Codec_wf_adapter top k a
  | IPad bs => Codec_bytes_ok bs
  end.

Definition Codec_wire_id (w : Codec_wire) : list N :=
  match w with WItem (IField id _ _) => [id] | WItem (IPad _) => [] | WCounted id _ _ => [id] | WBytes id _ => [id] end.
Definition Codec_ids (d : Codec_desc) : list N := flat_map Codec_wire_id d.

Fixpoint Codec_nodupb (l : list N) : bool :=
  match l with [] => true | x :: r => negb (existsb (N.eqb x) r) && Codec_nodupb r end.

Definition Codec_is_greedy (w : Codec_wire) : bool := match w with WBytes _ LGreedy => true | _ => false end.
Definition Codec_nogreedy (d : Codec_desc) : bool := forallb (fun w => negb (Codec_is_greedy w)) d.

(* (count field id, target id) announced by the fields seen so far *)
Definition Codec_counts_of (d : Codec_desc) : list (N * N) :=
  flat_map (fun w => match w with WItem (IField id _ (ACount t)) => [(id, t)] | _ => [] end) d.
(* (count field id, part id) used by the variable parts *)
Definition Codec_uses_of (d : Codec_desc) : list (N * N) :=
  flat_map (fun w => match w with WCounted id cnt _ => [(cnt, id)] | WBytes id (LCount cnt) => [(cnt, id)] | _ => [] end) d.
Definition Codec_pair_eqb (p q : N * N) : bool := N.eqb (fst p) (fst q) && N.eqb (snd p) (snd q).

(* [seen]: count announcements of the wires already passed *)
Fixpoint Codec_wf_from (d : Codec_desc) (seen : list (N * N)) : bool :=
  match d with
  | [] => true
  | w :: d' =>
      (match w with
       | WItem i => Codec_wf_item true i
       | WCounted id cnt body =>
           forallb (Codec_wf_item false) body && (1 <=? Codec_items_size body)%nat && existsb (Codec_pair_eqb (cnt, id)) seen
       | WBytes id (LCount cnt) => existsb (Codec_pair_eqb (cnt, id)) seen
       | WBytes _ LGreedy => match d' with [] => true | _ => false end
       | WBytes _ (LFixed _) => true
       end)
      && Codec_wf_from d' (match w with WItem (IField id _ (ACount t)) => (id, t) :: seen | _ => seen end)
  end.

Definition Codec_wf (d : Codec_desc) : bool :=
  Codec_nodupb (Codec_ids d)
  && Codec_wf_from d []
  (* every announced count is used by exactly the part it names *)
  && forallb (fun p => existsb (Codec_pair_eqb p) (Codec_uses_of d)) (Codec_counts_of d).

Definition Codec_item_uses_ts (i : Codec_item) : bool := match i with IField _ _ ATimestamp => true | _ => false end.
Definition Codec_uses_ts (d : Codec_desc) : bool :=
  existsb (fun w => match w with WItem i => Codec_item_uses_ts i | WCounted _ _ body => existsb Codec_item_uses_ts body | _ => false end) d.
