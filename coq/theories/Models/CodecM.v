(* C01 — wire-description language and its generic decode / encode / sizeof interpreters.  Definitions only.

   One description ([Codec_desc]) is generated per payload class by translators/gen_c01.py
   (Generated/LayoutPy.v).  The interpreters below are the MODEL of what
   cls().unpack(buffer) / obj.pack() / obj.calcsize() do for a class with that layout:

     struct.unpack_from / construct FormatField   -> [Codec_kdec] (little-endian, two's complement)
     struct 'x', construct Padding, bytes that unpack ignores and pack writes as a constant -> [IPad]
     value conversions on top of the wire integer  -> [Codec_adapter]
     construct Array(this.n, ...) / Bytes(this.n) / Bytes(k) / GreedyBytes, `for i in range(num_svs)` -> WCounted / WBytes

   polymorphic containers (SetConfig / ConfigResponse / FaultControl: a tag field selects the layout of a
   length-prefixed sub-payload) -> WTagged; construct If(tag == v, ...) -> WSwitch; construct PaddedString -> IStr
   (fixed size, NUL padded) / WBytes .. BStr (length-prefixed); EventNotification's "/2" -> ".1" rewrite -> BRewrite.
   The decoders take a flag ST ("strict"): with ST = false they are the MODEL of unpack; with ST = true they
   additionally refuse the inputs that are not in canonical form (declared length longer than the content, NUL-padded
   length-prefixed string, content not understood) - only used to STATE theorems.

   Values: integers; floats are carried as their raw bit patterns (so equality is bit equality, every NaN
   of a 32-bit float after the quieting the float<->double conversion performs); "NaN because the wire
   value is the sentinel" is [FNaN].  The Timestamp adapter is in Models/CodecTs.v. *)
From Coq Require Import ZArith NArith List Bool.
From FEC Require Export Models.CodecTs.
Import ListNotations.
Open Scope Z_scope.

Inductive Codec_kind := U8 | U16 | U32 | U40 | U64 | S8 | S16 | S32 | S64 | F32 | F64.

Definition Codec_ksize (k : Codec_kind) : nat :=
  match k with U8 | S8 => 1 | U16 | S16 => 2 | U32 | S32 | F32 => 4 | U40 => 5 | U64 | S64 | F64 => 8 end%nat.
Definition Codec_ksigned (k : Codec_kind) : bool :=
  match k with S8 | S16 | S32 | S64 => true | _ => false end.
Definition Codec_kbits (k : Codec_kind) : Z := 8 * Z.of_nat (Codec_ksize k).

Definition Codec_byte_ok (b : Z) : bool := (0 <=? b) && (b <? 256).
Definition Codec_bytes_ok (l : list Z) : bool := forallb Codec_byte_ok l.

Fixpoint Codec_le_dec (l : list Z) : Z :=
  match l with [] => 0 | b :: r => b + 256 * Codec_le_dec r end.
Fixpoint Codec_le_enc (n : nat) (z : Z) : list Z :=
  match n with O => [] | S m => (z mod 256) :: Codec_le_enc m (z / 256) end.

Definition Codec_kdec (k : Codec_kind) (l : list Z) : Z :=
  let u := Codec_le_dec l in
  if Codec_ksigned k && (2 ^ (Codec_kbits k - 1) <=? u) then u - 2 ^ Codec_kbits k else u.
Definition Codec_krange (k : Codec_kind) (z : Z) : bool :=
  if Codec_ksigned k then (- 2 ^ (Codec_kbits k - 1) <=? z) && (z <? 2 ^ (Codec_kbits k - 1))
  else (0 <=? z) && (z <? 2 ^ Codec_kbits k).
Definition Codec_kenc (k : Codec_kind) (z : Z) : list Z :=
  Codec_le_enc (Codec_ksize k) (if z <? 0 then z + 2 ^ Codec_kbits k else z).

(* ---- adapters ------------------------------------------------------------------------------------ *)
Inductive Codec_adapter :=
| AId                       (* plain integer, lenient enum (value kept whatever it is), raw binary64 bits *)
| ABool                     (* struct '?' / construct Flag: non-zero -> True, True -> 1 *)
| AQuiet32                  (* binary32 bits: a signalling NaN comes back quiet from the float <-> double conversions *)
| AStrict (members : list Z)   (* IntEnum(x) with raise_on_unrecognized: unknown value -> the parse raises *)
| ASentinel (inv : Z)       (* wire value inv decodes to NaN, NaN encodes to inv *)
| ACount (target : N)       (* length of a later counted part; pack writes len(target) *)
| ATimestamp.               (* 8 bytes (sec, ns) <-> float seconds, Models/CodecTs.v *)

Definition Codec_quiet32 (z : Z) : Z :=
  if ((z / 2 ^ 23) mod 256 =? 255) && negb (z mod 2 ^ 23 =? 0) && ((z / 2 ^ 22) mod 2 =? 0) then z + 2 ^ 22 else z.

Definition Codec_adec (a : Codec_adapter) (z : Z) : option Codec_fval :=
  match a with
  | AId => Some (FInt z)
  | ABool => Some (FInt (if z =? 0 then 0 else 1))
  | AQuiet32 => Some (FInt (Codec_quiet32 z))
  | AStrict ms => if existsb (Z.eqb z) ms then Some (FInt z) else None
  | ASentinel inv => Some (if z =? inv then FNaN else FInt z)
  | ACount _ => Some (FInt z)
  | ATimestamp => Some (Codec_ts_dec z)
  end.
(* None = pack raises *)
Definition Codec_aenc (a : Codec_adapter) (v : Codec_fval) : option Z :=
  match a, v with
  | ABool, FInt z => Some (if z =? 0 then 0 else 1)
  | ASentinel inv, FNaN => Some inv
  | ATimestamp, _ => Codec_ts_enc v
  | _, FInt z => Some z
  | _, FNaN => None
  | _, FBytes _ => None
  end.
(* the wire values on which the projection law dec (enc (dec z)) = dec z is claimed *)
Definition Codec_adom (a : Codec_adapter) (z : Z) : bool :=
  match a with ATimestamp => Codec_ts_dom z | _ => true end.
Definition Codec_adec_dom (a : Codec_adapter) (z : Z) : option Codec_fval :=
  if Codec_adom a z then Codec_adec a z else None.

(* ---- descriptions ---------------------------------------------------------------------------------- *)
Inductive Codec_item :=
| IField (id : N) (k : Codec_kind) (a : Codec_adapter)
| IPad (bs : list Z)           (* skipped by decode, written by encode *)
| IStr (id : N) (n : nat).     (* construct PaddedString(n, 'utf8'): n bytes, trailing NULs stripped, must be UTF-8 *)
Inductive Codec_blen := LFixed (n : nat) | LCount (cnt : N) | LGreedy.
(* what unpack does with a byte string after reading it *)
Inductive Codec_bmode :=
| BRaw
| BStr                                                       (* PaddedString(this.len): strip trailing NULs, must be UTF-8 *)
| BRewrite (tag : N) (vals : list Z) (src dst : list Z).     (* if field `tag` is in vals and the bytes start with src: replace that prefix by dst *)
(* a polymorphic, length-prefixed sub-payload *)
Record Codec_tagspec := {
  tg_tag : N;                                   (* earlier field selecting the layout *)
  tg_len : N;                                   (* earlier field holding the declared length (pack writes len(data)) *)
  tg_skip : option (N * Z);                     (* (flag field, mask): when set the object is not read / written (revert-to-default) *)
  tg_cases : list (Z * list Codec_item);        (* tag value -> object layout *)
  tg_sub : option (Z * list Codec_item * N * list (Z * list Codec_item));
                                                (* (tag value, header layout, sub-tag field of the header, sub-tag value -> object layout) *)
  tg_opaque : bool                              (* unknown tag / content too short: keep the message, object = None (pack then refuses) *)
}.
Inductive Codec_wire :=
| WItem (i : Codec_item)
| WCounted (id cnt : N) (body : list Codec_item)     (* `cnt` records of `body` *)
| WBytes (id : N) (l : Codec_blen) (m : Codec_bmode)
| WSwitch (id tag : N) (cases : list (Z * list Codec_item))   (* If(tag == v, Struct): one record when the tag has a case, nothing otherwise *)
| WTagged (id : N) (s : Codec_tagspec).
Definition Codec_desc := list Codec_wire.

Definition Codec_rec := list (N * Codec_fval).
Inductive Codec_value :=
| VF (v : Codec_fval) | VBytes (l : list Z) | VRecs (rs : list Codec_rec)
| VTag (hdr obj : Codec_rec) (sz : nat)        (* sz = len(data) pack will write: header + object layout sizes *)
| VOpaque.                                     (* container content not understood *)
Definition Codec_env := list (N * Codec_value).

(* ---- strings --------------------------------------------------------------------------------------- *)
Fixpoint Codec_strip (l : list Z) : list Z :=       (* construct NullStripped: drop trailing zero bytes *)
  match l with
  | [] => []
  | x :: r => match Codec_strip r with
              | [] => if x =? 0 then [] else [x]
              | r' => x :: r'
              end
  end.
Definition Codec_cont (b : Z) : bool := (128 <=? b) && (b <=? 191).
(* bytes.decode('utf8') succeeds (strict: no overlong forms, no surrogates, nothing above U+10FFFF) *)
Fixpoint Codec_utf8_ok (l : list Z) : bool :=
  match l with
  | [] => true
  | b0 :: r =>
      if (0 <=? b0) && (b0 <? 128) then Codec_utf8_ok r else
      match r with
      | [] => false
      | b1 :: r1 =>
          if (194 <=? b0) && (b0 <=? 223) then Codec_cont b1 && Codec_utf8_ok r1 else
          match r1 with
          | [] => false
          | b2 :: r2 =>
              if (b0 =? 224) then (160 <=? b1) && (b1 <=? 191) && Codec_cont b2 && Codec_utf8_ok r2
              else if ((225 <=? b0) && (b0 <=? 236)) || (b0 =? 238) || (b0 =? 239) then Codec_cont b1 && Codec_cont b2 && Codec_utf8_ok r2
              else if (b0 =? 237) then (128 <=? b1) && (b1 <=? 159) && Codec_cont b2 && Codec_utf8_ok r2
              else
              match r2 with
              | [] => false
              | b3 :: r3 =>
                  if (b0 =? 240) then (144 <=? b1) && (b1 <=? 191) && Codec_cont b2 && Codec_cont b3 && Codec_utf8_ok r3
                  else if (241 <=? b0) && (b0 <=? 243) then Codec_cont b1 && Codec_cont b2 && Codec_cont b3 && Codec_utf8_ok r3
                  else if (b0 =? 244) then (128 <=? b1) && (b1 <=? 143) && Codec_cont b2 && Codec_cont b3 && Codec_utf8_ok r3
                  else false
              end
          end
      end
  end.
Definition Codec_str_dec (h : list Z) : option (list Z) :=
  let s := Codec_strip h in if Codec_utf8_ok s then Some s else None.

Fixpoint Codec_list_eqb (a b : list Z) : bool :=
  match a, b with
  | [], [] => true
  | x :: a', y :: b' => (x =? y) && Codec_list_eqb a' b'
  | _, _ => false
  end.
Definition Codec_starts (p l : list Z) : bool := Codec_list_eqb (firstn (length p) l) p.
Fixpoint Codec_assoc {A : Type} (t : Z) (cases : list (Z * A)) : option A :=
  match cases with [] => None | (v, x) :: r => if t =? v then Some x else Codec_assoc t r end.
Fixpoint Codec_rec_int (r : Codec_rec) (id : N) : option Z :=
  match r with
  | [] => None
  | (i, v) :: r' => if N.eqb i id then match v with FInt z => Some z | _ => None end else Codec_rec_int r' id
  end.

(* the first n bytes and the rest, or None when fewer than n are left - one pass over n elements, no [length] *)
Fixpoint Codec_take (n : nat) (b : list Z) : option (list Z * list Z) :=
  match n with
  | O => Some ([], b)
  | S m => match b with
           | [] => None
           | x :: r => match Codec_take m r with Some (h, t) => Some (x :: h, t) | None => None end
           end
  end.

Definition Codec_lookup (e : Codec_env) (id : N) : option Codec_value :=
  match find (fun p => N.eqb (fst p) id) e with Some p => Some (snd p) | None => None end.
Definition Codec_lookup_int (e : Codec_env) (id : N) : option Z :=
  match Codec_lookup e id with Some (VF (FInt z)) => Some z | _ => None end.
Definition Codec_len_of (e : Codec_env) (id : N) : option Z :=
  match Codec_lookup e id with
  | Some (VBytes l) => Some (Z.of_nat (length l))
  | Some (VRecs rs) => Some (Z.of_nat (length rs))
  | Some (VTag _ _ sz) => Some (Z.of_nat sz)
  | _ => None
  end.

Definition Codec_item_size (i : Codec_item) : nat :=
  match i with IField _ k _ => Codec_ksize k | IPad bs => length bs | IStr _ n => n end.
Definition Codec_items_size (its : list Codec_item) : nat := fold_right (fun i n => (Codec_item_size i + n)%nat) O its.

Section Decode.
  (* AD: the adapter decode in use: [Codec_adec] (the model of unpack) or a restriction of it;
     ST: strict - additionally refuse inputs that are not in canonical form (only used to state theorems) *)
  Variable AD : Codec_adapter -> Z -> option Codec_fval.
  Variable ST : bool.

  Fixpoint Codec_dec_items (its : list Codec_item) (b : list Z) : option (Codec_rec * list Z) :=
    match its with
    | [] => Some ([], b)
    | IField id k a :: r =>
        match Codec_take (Codec_ksize k) b with
        | None => None
        | Some (h, t) =>
            match AD a (Codec_kdec k h) with
            | None => None
            | Some v => match Codec_dec_items r t with
                        | None => None
                        | Some (e, rest) => Some ((id, v) :: e, rest)
                        end
            end
        end
    | IPad bs :: r =>
        match Codec_take (length bs) b with
        | None => None
        | Some (_, t) => Codec_dec_items r t
        end
    | IStr id n :: r =>
        match Codec_take n b with
        | None => None
        | Some (h, t) =>
            match Codec_str_dec h with
            | None => None
            | Some sv => match Codec_dec_items r t with
                         | None => None
                         | Some (e, rest) => Some ((id, FBytes sv) :: e, rest)
                         end
            end
        end
    end.

  Fixpoint Codec_dec_recs (its : list Codec_item) (n : nat) (b : list Z) : option (list Codec_rec * list Z) :=
    match n with
    | O => Some ([], b)
    | S m => match Codec_dec_items its b with
             | None => None
             | Some (r, t) => match Codec_dec_recs its m t with
                              | None => None
                              | Some (rs, rest) => Some (r :: rs, rest)
                              end
             end
    end.

  (* a count larger than the number of bytes left cannot be satisfied (every record / byte takes >= 1 byte);
     testing it first also keeps Z.to_nat small *)
  Definition Codec_count (acc : Codec_env) (cnt : N) (b : list Z) : option nat :=
    match Codec_lookup_int acc cnt with
    | None => None
    | Some c => if (c <? 0) || (Z.of_nat (length b) <? c) then None else Some (Z.to_nat c)
    end.

  Definition Codec_bdec (acc : Codec_env) (m : Codec_bmode) (h : list Z) : option (list Z) :=
    match m with
    | BRaw => Some h
    | BStr => match Codec_str_dec h with
              | None => None
              | Some sv => if ST && negb (Nat.eqb (length sv) (length h)) then None else Some sv
              end
    | BRewrite tag vals src dst =>
        match Codec_lookup_int acc tag with
        | None => None
        | Some t => Some (if existsb (Z.eqb t) vals && Codec_starts src h then dst ++ skipn (length src) h else h)
        end
    end.

  Definition Codec_skip_flag (s : Codec_tagspec) (env : Codec_env) : option bool :=
    match tg_skip s with
    | None => Some false
    | Some (fid, m) => match Codec_lookup_int env fid with Some f => Some (negb (Z.land f m =? 0)) | None => None end
    end.

  (* the region of `declared length` bytes of a tagged sub-payload *)
  Definition Codec_tag_dec (s : Codec_tagspec) (acc : Codec_env) (R : list Z) : option Codec_value :=
    match Codec_lookup_int acc (tg_tag s), Codec_skip_flag s acc with
    | Some t, Some skip =>
        match (match tg_sub s with
               | Some (tv, hitems, sid, subcases) =>
                   if t =? tv then
                     match Codec_dec_items hitems R with
                     | None => None
                     | Some (rh, R1) => match Codec_rec_int rh sid with
                                        | None => None
                                        | Some sv => Some (hitems, rh, R1, Codec_assoc sv subcases)
                                        end
                     end
                   else Some ([], [], R, Codec_assoc t (tg_cases s))
               | None => Some ([], [], R, Codec_assoc t (tg_cases s))
               end) with
        | None => None
        | Some (hitems, rh, R1, sel) =>
            match sel with
            | None => if tg_opaque s && negb ST then Some VOpaque else None
            | Some oitems =>
                if skip then (if ST && negb (Nat.eqb (length R1) 0) then None else Some (VTag rh [] (Codec_items_size hitems)))
                else if tg_opaque s && (length R1 <? Codec_items_size oitems)%nat then (if ST then None else Some VOpaque)
                else match Codec_dec_items oitems R1 with
                     | None => None
                     | Some (ro, lft) =>
                         if ST && negb (Nat.eqb (length lft) 0) then None
                         else Some (VTag rh ro (Codec_items_size hitems + Codec_items_size oitems))
                     end
            end
        end
    | _, _ => None
    end.

  Definition Codec_dec_one (w : Codec_wire) (acc : Codec_env) (b : list Z) : option (Codec_env * list Z) :=
    match w with
    | WItem it =>
        match Codec_dec_items [it] b with
        | None => None
        | Some (r, t) => Some (map (fun p => (fst p, VF (snd p))) r, t)
        end
    | WCounted id cnt body =>
        match Codec_count acc cnt b with
        | None => None
        | Some n => match Codec_dec_recs body n b with
                    | None => None
                    | Some (rs, t) => Some ([(id, VRecs rs)], t)
                    end
        end
    | WBytes id l m =>
        match (match l with
               | LFixed n => Codec_take n b
               | LCount cnt => match Codec_count acc cnt b with None => None | Some n => Codec_take n b end
               | LGreedy => Some (b, [])
               end) with
        | None => None
        | Some (h, t) => match Codec_bdec acc m h with None => None | Some v => Some ([(id, VBytes v)], t) end
        end
    | WSwitch id tag cases =>
        match Codec_lookup_int acc tag with
        | None => None
        | Some t => match Codec_assoc t cases with
                    | None => Some ([(id, VRecs [])], b)
                    | Some its => match Codec_dec_items its b with
                                  | None => None
                                  | Some (r, rest) => Some ([(id, VRecs [r])], rest)
                                  end
                    end
        end
    | WTagged id s =>
        match Codec_count acc (tg_len s) b with
        | None => None
        | Some n => match Codec_take n b with
                    | None => None
                    | Some (R, t) => match Codec_tag_dec s acc R with None => None | Some v => Some ([(id, v)], t) end
                    end
        end
    end.

  Fixpoint Codec_dec_wire (d : Codec_desc) (acc : Codec_env) (b : list Z) : option (Codec_env * list Z) :=
    match d with
    | [] => Some ([], b)
    | w :: d' =>
        match Codec_dec_one w acc b with
        | None => None
        | Some (ents, b') =>
            match Codec_dec_wire d' (acc ++ ents) b' with
            | None => None
            | Some (e, rest) => Some (ents ++ e, rest)
            end
        end
    end.

  (* cls().unpack(b): field values and the number of bytes consumed *)
  Definition Codec_parse_with (d : Codec_desc) (b : list Z) : option (Codec_env * nat) :=
    match Codec_dec_wire d [] b with
    | Some (e, rest) => Some (e, (length b - length rest)%nat)
    | None => None
    end.
End Decode.

Definition Codec_parse := Codec_parse_with Codec_adec false.
(* the same, restricted to inputs in canonical form whose stamps are in the domain of the Timestamp law *)
Definition Codec_parse_dom := Codec_parse_with Codec_adec_dom true.
(* unpack(buffer, offset) *)
Definition Codec_parse_at (d : Codec_desc) (off : nat) (buf : list Z) : option (Codec_env * nat) :=
  if (length buf <? off)%nat then None else Codec_parse d (skipn off buf).

(* ---- encode ------------------------------------------------------------------------------------------ *)
Fixpoint Codec_enc_items (its : list Codec_item) (r : Codec_rec) : option (list Z) :=
  match its with
  | [] => match r with [] => Some [] | _ => None end
  | IPad bs :: its' => match Codec_enc_items its' r with None => None | Some t => Some (bs ++ t) end
  | IField id k a :: its' =>
      match r with
      | (id', v) :: r' =>
          if N.eqb id id' then
            match Codec_aenc a v with
            | None => None
            | Some z => if Codec_krange k z
                        then match Codec_enc_items its' r' with None => None | Some t => Some (Codec_kenc k z ++ t) end
                        else None
            end
          else None
      | [] => None
      end
  | IStr id n :: its' =>
      match r with
      | (id', FBytes sv) :: r' =>
          if N.eqb id id' && Codec_bytes_ok sv && (length sv <=? n)%nat then
            match Codec_enc_items its' r' with None => None | Some t => Some (sv ++ repeat 0 (n - length sv) ++ t) end
          else None
      | _ => None
      end
  end.

Fixpoint Codec_enc_recs (its : list Codec_item) (rs : list Codec_rec) : option (list Z) :=
  match rs with
  | [] => Some []
  | r :: rs' => match Codec_enc_items its r with
                | None => None
                | Some b => match Codec_enc_recs its rs' with None => None | Some t => Some (b ++ t) end
                end
  end.

Definition Codec_len_okb (l : Codec_blen) (bs : list Z) : bool :=
  match l with LFixed n => Nat.eqb (length bs) n | _ => true end.

Definition Codec_tag_enc (s : Codec_tagspec) (full : Codec_env) (v : Codec_value) : option (list Z) :=
  match v with
  | VTag rh ro sz =>
      match Codec_lookup_int full (tg_tag s), Codec_skip_flag s full with
      | Some t, Some skip =>
          let '(hitems, sel) :=
            match tg_sub s with
            | Some (tv, hitems, sid, subcases) =>
                if t =? tv then (hitems, match Codec_rec_int rh sid with Some sv => Codec_assoc sv subcases | None => None end)
                else ([], Codec_assoc t (tg_cases s))
            | None => ([], Codec_assoc t (tg_cases s))
            end in
          match sel, Codec_enc_items hitems rh with
          | Some oitems, Some bh =>
              match (if skip then (match ro with [] => Some [] | _ => None end) else Codec_enc_items oitems ro) with
              | Some bo => if Nat.eqb (length (bh ++ bo)) sz then Some (bh ++ bo) else None
              | None => None
              end
          | _, _ => None
          end
      | _, _ => None
      end
  | _ => None            (* VOpaque: the container refuses to serialise content it did not understand *)
  end.

Definition Codec_enc_one (w : Codec_wire) (full e : Codec_env) : option (list Z * Codec_env) :=
  match w with
  | WItem (IPad bs) => Some (bs, e)
  | WItem (IField id k a) =>
      match e with
      | (id', VF v) :: e' =>
          if N.eqb id id' then
            match (match a with ACount t => Codec_len_of full t | _ => Codec_aenc a v end) with
            | None => None
            | Some z => if Codec_krange k z then Some (Codec_kenc k z, e') else None
            end
          else None
      | _ => None
      end
  | WItem (IStr id n) =>
      match e with
      | (id', VF v) :: e' =>
          match Codec_enc_items [IStr id n] [(id', v)] with None => None | Some b => Some (b, e') end
      | _ => None
      end
  | WCounted id cnt body =>
      match e with
      | (id', VRecs rs) :: e' =>
          if N.eqb id id' then match Codec_enc_recs body rs with None => None | Some b => Some (b, e') end else None
      | _ => None
      end
  | WBytes id l m =>
      match e with
      | (id', VBytes bs) :: e' =>
          if N.eqb id id' && Codec_bytes_ok bs && Codec_len_okb l bs then Some (bs, e') else None
      | _ => None
      end
  | WSwitch id tag cases =>
      match e with
      | (id', VRecs rs) :: e' =>
          if N.eqb id id' then
            match Codec_lookup_int full tag with
            | None => None
            | Some t => match Codec_assoc t cases, rs with
                        | None, [] => Some ([], e')
                        | Some its, [r] => match Codec_enc_items its r with None => None | Some b => Some (b, e') end
                        | _, _ => None
                        end
            end
          else None
      | _ => None
      end
  | WTagged id s =>
      match e with
      | (id', v) :: e' =>
          if N.eqb id id' then match Codec_tag_enc s full v with None => None | Some b => Some (b, e') end else None
      | _ => None
      end
  end.

Fixpoint Codec_enc_wire (d : Codec_desc) (full e : Codec_env) : option (list Z) :=
  match d with
  | [] => match e with [] => Some [] | _ => None end
  | w :: d' =>
      match Codec_enc_one w full e with
      | None => None
      | Some (bs, e') => match Codec_enc_wire d' full e' with None => None | Some t => Some (bs ++ t) end
      end
  end.

(* obj.pack() *)
Definition Codec_pack (d : Codec_desc) (e : Codec_env) : option (list Z) := Codec_enc_wire d e e.

(* obj.calcsize(): computed from the layout and the lengths of the variable parts, without serialising *)
Definition Codec_size_one (w : Codec_wire) (full e : Codec_env) : option (nat * Codec_env) :=
  match w with
  | WItem (IPad bs) => Some (length bs, e)
  | WItem (IField _ k _) => match e with (_, VF _) :: e' => Some (Codec_ksize k, e') | _ => None end
  | WItem (IStr _ n) => match e with (_, VF _) :: e' => Some (n, e') | _ => None end
  | WCounted _ _ body => match e with (_, VRecs rs) :: e' => Some ((length rs * Codec_items_size body)%nat, e') | _ => None end
  | WBytes _ _ _ => match e with (_, VBytes bs) :: e' => Some (length bs, e') | _ => None end
  | WSwitch _ tag cases =>
      match e with
      | (_, VRecs rs) :: e' =>
          match Codec_lookup_int full tag with
          | None => None
          | Some t => match Codec_assoc t cases with None => Some (O, e') | Some its => Some (Codec_items_size its, e') end
          end
      | _ => None
      end
  | WTagged _ _ => match e with (_, VTag _ _ sz) :: e' => Some (sz, e') | _ => None end
  end.
Fixpoint Codec_sizeof_from (d : Codec_desc) (full e : Codec_env) : option nat :=
  match d with
  | [] => match e with [] => Some O | _ => None end
  | w :: d' => match Codec_size_one w full e with
               | None => None
               | Some (n, e') => match Codec_sizeof_from d' full e' with None => None | Some m => Some (n + m)%nat end
               end
  end.
Definition Codec_sizeof (d : Codec_desc) (e : Codec_env) : option nat := Codec_sizeof_from d e e.

(* obj.pack(buffer, offset): struct.pack_into / buffer[offset:offset+len] = data on a buffer that is large enough *)
Definition Codec_pack_into (buf : list Z) (off : nat) (b1 : list Z) : option (list Z) :=
  if (length buf <? off + length b1)%nat then None
  else Some (firstn off buf ++ b1 ++ skipn (off + length b1) buf).

(* ---- well-formedness (boolean, evaluated on every generated description) ---------------------------------- *)
Definition Codec_kunsigned (k : Codec_kind) : bool :=
  match k with U8 | U16 | U32 | U40 | U64 => true | _ => false end.

Definition Codec_wf_adapter (top : bool) (k : Codec_kind) (a : Codec_adapter) : bool :=
  match a with
  | AId => true
  | ABool => match k with U8 => true | _ => false end
  | AQuiet32 => match k with F32 => true | _ => false end
  | AStrict ms => forallb (Codec_krange k) ms
  | ASentinel inv => Codec_krange k inv
  | ACount _ => top && Codec_kunsigned k
  | ATimestamp => match k with U64 => true | _ => false end
  end.
Definition Codec_wf_item (top : bool) (i : Codec_item) : bool :=
  match i with
  | IField _ k a => Codec_wf_adapter top k a
  | IPad bs => Codec_bytes_ok bs
  | IStr _ _ => true
  end.

Definition Codec_wire_id (w : Codec_wire) : list N :=
  match w with
  | WItem (IField id _ _) => [id] | WItem (IPad _) => [] | WItem (IStr id _) => [id]
  | WCounted id _ _ => [id] | WBytes id _ _ => [id] | WSwitch id _ _ => [id] | WTagged id _ => [id]
  end.
Definition Codec_ids (d : Codec_desc) : list N := flat_map Codec_wire_id d.

Fixpoint Codec_nodupb (l : list N) : bool :=
  match l with [] => true | x :: r => negb (existsb (N.eqb x) r) && Codec_nodupb r end.

Definition Codec_is_greedy (w : Codec_wire) : bool := match w with WBytes _ LGreedy _ => true | _ => false end.
Definition Codec_nogreedy (d : Codec_desc) : bool := forallb (fun w => negb (Codec_is_greedy w)) d.

(* (count field id, target id) announced by the fields seen so far *)
Definition Codec_counts_of (d : Codec_desc) : list (N * N) :=
  flat_map (fun w => match w with WItem (IField id _ (ACount t)) => [(id, t)] | _ => [] end) d.
(* (count field id, part id) used by the variable parts *)
Definition Codec_uses_of (d : Codec_desc) : list (N * N) :=
  flat_map (fun w => match w with WCounted id cnt _ => [(cnt, id)] | WBytes id (LCount cnt) _ => [(cnt, id)]
                            | WTagged id s => [(tg_len s, id)] | _ => [] end) d.
Definition Codec_pair_eqb (p q : N * N) : bool := N.eqb (fst p) (fst q) && N.eqb (snd p) (snd q).

(* [seen]: count announcements of the wires already passed *)
Fixpoint Codec_wf_from (d : Codec_desc) (seen : list (N * N)) : bool :=
  match d with
  | [] => true
  | w :: d' =>
      (match w with
       | WItem i => Codec_wf_item true i
       | WCounted id cnt body =>
           forallb (Codec_wf_item false) body && (1 <=? Codec_items_size body)%nat && existsb (Codec_pair_eqb (cnt, id)) seen
       | WBytes id l m =>
           (match l with
            | LCount cnt => existsb (Codec_pair_eqb (cnt, id)) seen
            | LGreedy => match d' with [] => true | _ => false end
            | LFixed _ => true
            end) &&
           (match m with
            | BRaw => true
            | BStr => match l with LCount _ => true | _ => false end
            | BRewrite _ _ src dst => Nat.eqb (length src) (length dst) && negb (Codec_list_eqb src dst) && Codec_bytes_ok dst
            end)
       | WSwitch _ _ cases => forallb (fun c => forallb (Codec_wf_item false) (snd c)) cases
       | WTagged id s =>
           existsb (Codec_pair_eqb (tg_len s, id)) seen &&
           forallb (fun c => forallb (Codec_wf_item false) (snd c)) (tg_cases s) &&
           match tg_sub s with
           | None => true
           | Some (_, hitems, _, subcases) =>
               forallb (Codec_wf_item false) hitems && forallb (fun c => forallb (Codec_wf_item false) (snd c)) subcases
           end
       end)
      && Codec_wf_from d' (match w with WItem (IField id _ (ACount t)) => (id, t) :: seen | _ => seen end)
  end.

Definition Codec_wf (d : Codec_desc) : bool :=
  Codec_nodupb (Codec_ids d)
  && Codec_wf_from d []
  (* every announced count is used by exactly the part it names *)
  && forallb (fun p => existsb (Codec_pair_eqb p) (Codec_uses_of d)) (Codec_counts_of d).

Definition Codec_item_uses_ts (i : Codec_item) : bool := match i with IField _ _ ATimestamp => true | _ => false end.
Definition Codec_cases_use_ts (cs : list (Z * list Codec_item)) : bool := existsb (fun c => existsb Codec_item_uses_ts (snd c)) cs.
Definition Codec_wire_uses_ts (w : Codec_wire) : bool :=
  match w with
  | WItem i => Codec_item_uses_ts i
  | WCounted _ _ body => existsb Codec_item_uses_ts body
  | WBytes _ _ _ => false
  | WSwitch _ _ cases => Codec_cases_use_ts cases
  | WTagged _ s => Codec_cases_use_ts (tg_cases s) ||
                   match tg_sub s with None => false | Some (_, h, _, sc) => existsb Codec_item_uses_ts h || Codec_cases_use_ts sc end
  end.
Definition Codec_uses_ts (d : Codec_desc) : bool := existsb Codec_wire_uses_ts d.

(* layouts whose parse has no non-canonical inputs: strict and lenient decoding coincide *)
Definition Codec_wire_rigid (w : Codec_wire) : bool :=
  match w with WBytes _ _ BStr => false | WTagged _ _ => false | _ => true end.
Definition Codec_rigid (d : Codec_desc) : bool := forallb Codec_wire_rigid d.
