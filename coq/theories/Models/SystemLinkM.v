(* Link between the fast indexer (C08: Models/FastIndexerM.v) and the consumers of its output: the extraction
   (C18: Models/ExtractLogM.v) and the opening of a log (C09: Models/FileIndexIOM.v).  Definitions only.

   C08 describes a P1 stamp as [ptime type version payload = Some (num, den)] (the binary64 seconds as a fraction);
   C18/C09 observe only its integer part, as a function of the whole frame: [p1_of_ptime]. *)
From Coq Require Import NArith List Bool Arith.
From FEC Require Import Generated.FEConsts Base.ListX Base.Bytes Base.Crc32 Base.Scan Base.FEFormat
  Models.FastIndexerM Models.FileScanM Models.FileIndexIOM Models.ExtractLogM.
Import ListNotations.

Definition p1_of_ptime (ptime : N -> N -> list N -> option (N * N)) (bs : list N) : option N :=
  let h := parse_header (firstn HEADER_SIZE bs) in
  match ptime (h_type h) (h_msgver h) (skipn HEADER_SIZE bs) with
  | None => None
  | Some (num, den) => Some (N.div num den)
  end.

(* an entry of the fast indexer as the reader / extraction see it (message_index is the position) *)
Definition fi_strip (e : fi_entry) : ientry := mkI (e_time e) (e_type e) (e_off e).

(* extract_fusion_engine_log starting from a given index of the input (Models/ExtractLogM.extract is this with the
   abstract fresh index) *)
Definition extract_from (p1 : list N -> option N) (d : list N) (idx : list ientry) : xresult :=
  let st := x_loop p1 d (index_offsets idx) (x_init) in
  mkXR (if N.eqb (x_count st) 0 then None else Some (x_out st))
       (save (x_entries st) (N.of_nat (length (x_out st))))
       (x_count st) (x_counts st).

Section Link.
  Variables READ MAX : N.
  Variable ptime : N -> N -> list N -> option (N * N).
  Variable W : N.                                      (* num_threads *)

  (* the extraction with the index the fast indexer really produces; None = fast_generate_index raised *)
  Definition extract_fi (d : list N) : option xresult :=
    match fi_generate READ MAX fi_cur ptime d W with
    | FOk es => Some (extract_from (p1_of_ptime ptime) d (map fi_strip es))
    | FRaise _ => None
    end.

  (* fast_generate_index's indexing branch with the fast indexer's output, then FileIndex.save *)
  Definition regenerate_fi (d : list N) (cur : option (list N)) : openres :=
    match fi_generate READ MAX fi_cur ptime d W with
    | FOk es => let i := map fi_strip es in
                Opened (mkO (read_all d (index_offsets i))
                            (match save i (N.of_nat (length d)) with Some b => Some b | None => cur end))
    | FRaise _ => OpenCrash
    end.

  Definition open_log_fi (loader : list N -> list N -> outcome) (p1i : option (list N)) (d : list N) (ignore_index : bool) : openres :=
    match (if ignore_index then None else p1i) with
    | None => regenerate_fi d p1i
    | Some idx =>
        match loader idx d with
        | Accepted i => Opened (mkO (read_all d (index_offsets i)) p1i)
        | Rebuild del => regenerate_fi d (if del then None else p1i)
        | Crash => OpenCrash
        end
    end.
End Link.
