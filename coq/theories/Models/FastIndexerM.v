(* C08 — MODEL of python/fusion_engine_client/parsers/fast_indexer.py (fast_generate_index,
   _search_blocks_for_fe) with FileIndex._from_raw, and the SPEC "entries of a sequential scan of the file".
   Definitions only.

   Transcription notes (line numbers of fast_indexer.py at the time of writing):
   * a file is a [list N] of bytes; absolute offsets, sizes and counters are [N] (Python ints / u8);
     lists are walked with N counters ([fi_take]/[fi_drop]/[fi_has]) so nothing is ever converted to a
     unary number except the loop bound of the preamble search (at most READ).
   * READ = _READ_SIZE_BYTES, MAX = _MAX_FE_MSG_SIZE_BYTES are parameters (the theorems hold for all even
     READ >= 2 and 24 <= MAX <= READ; the generated constants are instances).
   * [ptime ty ver payload] is the P1 stamp the payload class of the message type decodes
     (cls().unpack + get_p1_time(): None = no class / no P1 time / unpack raised / NaN; Some (num, den) = the
     binary64 seconds as an exact fraction).  Per-class payload codecs are C01's subject; here it is an
     arbitrary function (the theorems quantify over it) and the check evaluates it with the library itself.
   * outcomes: everything that can escape fast_generate_index as an exception is an explicit [fi_raise].
   * [fi_cfg] selects between the code as it is now ([fi_cur]) and the code as it was before the repairs
     ([fi_legacy]), kept so that the refutation witnesses of the old behaviour stay machine-checked. *)
From Coq Require Import NArith List Bool Arith.
From FEC Require Import Generated.FEConsts Generated.FastIndexerConsts Base.ListX Base.Bytes Base.Crc32 Base.Scan Base.FEFormat.
Import ListNotations.
Open Scope N_scope.

(* ---- list access with binary counters --------------------------------------------------------------- *)
Fixpoint fi_take {A} (n : N) (l : list A) : list A :=
  match l with
  | [] => []
  | a :: t => if n =? 0 then [] else a :: fi_take (N.pred n) t
  end.

Fixpoint fi_drop {A} (n : N) (l : list A) : list A :=
  match l with
  | [] => []
  | _ :: t => if n =? 0 then l else fi_drop (N.pred n) t
  end.

(* len(l) >= n *)
Fixpoint fi_has {A} (n : N) (l : list A) : bool :=
  match l with
  | [] => n =? 0
  | _ :: t => if n =? 0 then true else fi_has (N.pred n) t
  end.

(* len(l), tail recursive (files have 10^5..10^6 bytes) *)
Fixpoint fi_len_acc {A} (l : list A) (acc : N) : N :=
  match l with [] => acc | _ :: t => fi_len_acc t (N.succ acc) end.
Definition fi_len {A} (l : list A) : N := fi_len_acc l 0.

(* ---- configuration: repaired code vs. the code before the repairs ----------------------------------- *)
Record fi_cfg := mkCfg {
  c_lencheck : bool;      (* validate_crc refuses a payload that runs past the end of the buffer *)
  c_timeguard : bool;     (* whole seconds >= 0xFFFFFFFF are stored as "no time" *)
  c_wcclamp : bool;       (* word_count is clamped at 0 (1-byte file) *)
  c_sizewide : bool;      (* the private size column has the generated width (false: the old u2) *)
  c_payslice : bool;      (* the payload class is given exactly the payload bytes *)
  c_reportall : bool      (* workers report every valid candidate, greedy merge (no per-worker skip-ahead) *)
}.

Definition fi_legacy : fi_cfg := mkCfg false false false false false false.

Inductive fi_err := ErrNegativeDim | ErrFromBuffer | ErrTimeOverflow | ErrSizeOverflow | ErrZeroThreads.
Inductive fi_res (A : Type) := FOk (a : A) | FRaise (e : fi_err).
Arguments FOk {A} a.
Arguments FRaise {A} e.

Definition TIME_INVALID : N := FI_TIME_INVALID.   (* Timestamp._INVALID = all ones of the 'int' column (gen_c08.py) *)
Definition SIZE_U2_MAX : N := 65535.            (* the 'size' column before the repair *)

(* raw entry of _RAW_DTYPE_WITH_SIZE: ('int','type','offset','size') *)
Record fi_raw := mkRaw { r_int : N; r_type : N; r_off : N; r_size : N }.
(* entry of FileIndex._DTYPE as observed: time (None = NaN), type, offset, message_index *)
Record fi_entry := mkEntry { e_time : option N; e_type : N; e_off : N; e_idx : N }.

Section Model.
  Variables READ MAX : N.
  Variable cfg : fi_cfg.
  Variable ptime : N -> N -> list N -> option (N * N).

  (* header.unpack(buffer=data, offset=i, validate_crc=True) for l = data[i:]:
     struct.unpack_from needs 24 bytes; validate_crc: payload_size sanity check, (repaired: the whole
     message must be inside the buffer), crc32 of the *slice* data[i+8 : i+size] — a Python slice, which
     stops at the end of the buffer — compared with the header CRC.  Sync bytes are not looked at here
     (validate_sync=False): they were matched by the preamble search. *)
  Definition fi_accept (l : list N) : option header :=
    if negb (fi_has 24 l) then None else
    let h := parse_header (firstn HEADER_SIZE l) in
    if MAX_EXPECTED_SIZE_BYTES <? h_psize h then None else
    let n := 24 + h_psize h in
    if c_lencheck cfg && negb (fi_has n l) then None else
    if crc32 (fi_take (n - 8) (fi_drop 8 l)) =? h_crc h then Some h else None.

  (* p1_time_raw = Timestamp._INVALID if isnan(seconds) else int(seconds)   (repaired: also when >= _INVALID) *)
  Definition fi_time_raw (t : option (N * N)) : N :=
    match t with
    | None => TIME_INVALID
    | Some (num, den) =>
        let s := num / den in
        if c_timeguard cfg && (TIME_INVALID <=? s) then TIME_INVALID else s
    end.

  (* the bytes handed to the payload class: repaired = data[i+24 : i+size]; before = everything from i+24 to
     the end of the block buffer *)
  Definition fi_payload_view (l : list N) (psize : N) : list N :=
    if c_payslice cfg then fi_take psize (fi_drop 24 l) else fi_drop 24 l.

  (* np.where(np_data == _PREAMBLE) over np_data[j] = u16 at byte offset j, j < 2*word_count:
     positions (with the buffer suffix starting there) in ascending order.  [cnt] = 2*word_count - i. *)
  Fixpoint fi_syncs (l : list N) (i : N) (cnt : nat) {struct cnt} : list (N * list N) :=
    match cnt with
    | O => []
    | S c =>
        match l with
        | [] => []
        | b0 :: t =>
            match t with
            | b1 :: _ => if (b0 =? SYNC0) && (b1 =? SYNC1) then (i, l) :: fi_syncs t (N.succ i) c
                         else fi_syncs t (N.succ i) c
            | [] => []
            end
        end
    end.

  (* the loop `for i in sync_matches` of one block; [me] = message_end, carried across the blocks of a worker *)
  Fixpoint fi_process (bo : N) (ms : list (N * list N)) (me : N) : list fi_raw * N :=
    match ms with
    | [] => ([], me)
    | (i, l) :: rest =>
        let abs := bo + i in
        if negb (c_reportall cfg) && (abs <? me) then fi_process bo rest me else
        match fi_accept l with
        | None => fi_process bo rest me
        | Some h =>
            let size := 24 + h_psize h in
            let t := fi_time_raw (ptime (h_type h) (h_msgver h) (fi_payload_view l (h_psize h))) in
            let '(es, me') := fi_process bo rest (abs + size) in
            (mkRaw t (h_type h) abs size :: es, me')
        end
    end.

  (* word_count of one block: WCount n | WBreak | WRaise (np.empty(-2) -> ValueError) *)
  Inductive fi_wc := WCount (n : N) | WBreak | WRaise (e : fi_err).

  Definition fi_word_count (bo len : N) : fi_wc :=
    if len =? READ + MAX then WCount (READ / 2)
    else if (bo =? 0) || (MAX <=? len) then
           (if len / 2 =? 0 then (if c_wcclamp cfg then WCount 0 else WRaise ErrNegativeDim)
            else WCount (len / 2 - 1))
    else WBreak.

  (* fd.seek(block_offset); data = fd.read(READ + MAX) *)
  Definition fi_block_data (file : list N) (bo : N) : list N := fi_take (READ + MAX) (fi_drop bo file).

  (* for i in range(len(block_starts)): … of _search_blocks_for_fe, without the final np.array *)
  Fixpoint fi_blocks (file : list N) (starts : list N) (me : N) : fi_res (list fi_raw) :=
    match starts with
    | [] => FOk []
    | bo :: rest =>
        let data := fi_block_data file bo in
        match fi_word_count bo (fi_len data) with
        | WBreak => FOk []
        | WRaise e => FRaise e
        | WCount wc =>
            (* np.frombuffer(data[1:], dtype=uint16, count=wc) needs 2*wc bytes after the first *)
            if negb (wc =? 0) && negb (fi_has (2 * wc + 1) data) then FRaise ErrFromBuffer else
            let '(es, me') := fi_process bo (fi_syncs data 0 (N.to_nat (2 * wc))) me in
            match fi_blocks file rest me' with
            | FOk es2 => FOk (es ++ es2)
            | FRaise e => FRaise e
            end
        end
    end.

  (* np.array(raw_list, dtype=_RAW_DTYPE_WITH_SIZE): OverflowError for an int that does not fit its column *)
  Definition fi_to_array (es : list fi_raw) : fi_res (list fi_raw) :=
    if existsb (fun e => FI_INT_MAX <? r_int e) es then FRaise ErrTimeOverflow
    else if existsb (fun e => (if c_sizewide cfg then FI_SIZE_MAX else SIZE_U2_MAX) <? r_size e) es then FRaise ErrSizeOverflow
    else FOk es.

  Definition fi_worker (file : list N) (starts : list N) : fi_res (list fi_raw) :=
    match fi_blocks file starts 0 with
    | FOk es => fi_to_array es
    | FRaise e => FRaise e
    end.

  (* block allocation: list(range(byte_offset, byte_offset + blocks*READ, READ)) per thread *)
  Fixpoint fi_range (a : N) (cnt : nat) : list N :=
    match cnt with O => [] | S c => a :: fi_range (a + READ) c end.

  Definition fi_num_blocks (size : N) : N := (size + READ - 1) / READ.   (* math.ceil(size / READ) *)

  Fixpoint fi_alloc (q r : N) (n : nat) (i : N) (byte_offset : N) : list (list N) :=
    match n with
    | O => []
    | S n' =>
        let blocks := q + (if i <? r then 1 else 0) in
        fi_range byte_offset (N.to_nat blocks) :: fi_alloc q r n' (N.succ i) (byte_offset + blocks * READ)
    end.

  Definition fi_block_table (size W : N) : list (list N) :=
    let nb := fi_num_blocks size in
    fi_alloc (nb / W) (nb mod W) (N.to_nat W) 0 0.

  (* Pool.starmap: results in argument order; the first exception is re-raised *)
  Fixpoint fi_gather (rs : list (fi_res (list fi_raw))) : fi_res (list fi_raw) :=
    match rs with
    | [] => FOk []
    | FRaise e :: _ => FRaise e
    | FOk es :: rest => match fi_gather rest with FOk es2 => FOk (es ++ es2) | FRaise e => FRaise e end
    end.

  (* before the repair: np.maximum.accumulate overlap filter — an entry survives iff its offset is >= the
     largest end of *all* earlier entries (kept or not) *)
  Fixpoint fi_overlap_filter (es : list fi_raw) (runmax : N) : list fi_raw :=
    match es with
    | [] => []
    | e :: t =>
        let rm' := N.max runmax (r_off e + r_size e) in
        if runmax <=? r_off e then e :: fi_overlap_filter t rm' else fi_overlap_filter t rm'
    end.

  (* repaired: an entry survives iff its offset is >= the end of the last *kept* entry *)
  Fixpoint fi_greedy (es : list fi_raw) (fin : N) : list fi_raw :=
    match es with
    | [] => []
    | e :: t => if fin <=? r_off e then e :: fi_greedy t (r_off e + r_size e) else fi_greedy t fin
    end.

  (* FileIndex._from_raw: 'int' == _INVALID -> NaN; message_index = arange *)
  Fixpoint fi_from_raw (es : list fi_raw) (k : N) : list fi_entry :=
    match es with
    | [] => []
    | e :: t => mkEntry (if r_int e =? TIME_INVALID then None else Some (r_int e)) (r_type e) (r_off e) k
                :: fi_from_raw t (N.succ k)
    end.

  (* fast_generate_index(path, num_threads=W) on a file that has no index yet *)
  Definition fi_generate (file : list N) (W : N) : fi_res (list fi_entry) :=
    if W =? 0 then FRaise ErrZeroThreads else        (* divmod(num_blocks, 0) *)
    let tbl := fi_block_table (fi_len file) W in
    match fi_gather (map (fi_worker file) tbl) with
    | FRaise e => FRaise e
    | FOk raw =>
        let kept := if c_reportall cfg then fi_greedy raw 0 else fi_overlap_filter raw 0 in
        FOk (fi_from_raw kept 0)
    end.

  (* ---- SPEC ------------------------------------------------------------------------------------------ *)
  (* acceptance test of the index at one position of the *file*: Base judge_fe in its lazy form without the
     reserved-bytes test (the indexer never looks at them — this is the recorded difference from C04), made
     end-of-file aware: a header whose payload runs past the end of the file is not a message, the scan goes
     on one byte further (as MixedLogReader does); with fewer than 24 bytes left nothing more can start. *)
  Definition fi_judge : list N -> verdict := judge_fe false false MAX_EXPECTED_SIZE_BYTES.

  Fixpoint fi_fscan_aux (fuel off : nat) (l : list N) : list (nat * list N) :=
    match fuel with
    | O => []
    | S f =>
        match fi_judge l with
        | Accept n => (off, firstn n l) :: fi_fscan_aux f (off + n) (skipn n l)
        | Reject => fi_fscan_aux f (S off) (tl l)
        | More => match l with [] => [] | _ :: t => fi_fscan_aux f (S off) t end
        end
    end.

  (* frames (offset, raw bytes) a sequential left-to-right scan of the file accepts *)
  Definition fi_spec_frames (file : list N) : list (nat * list N) := fi_fscan_aux (S (length file)) 0 file.

  (* whole-second P1 time: floor of the decoded seconds if it fits the u4 column below 0xFFFFFFFF, else none *)
  Definition fi_spec_time (t : option (N * N)) : option N :=
    match t with
    | None => None
    | Some (num, den) => let s := num / den in if s <? TIME_INVALID then Some s else None
    end.

  Fixpoint fi_spec_entries (fs : list (nat * list N)) (k : N) : list fi_entry :=
    match fs with
    | [] => []
    | (o, bs) :: t =>
        let h := parse_header (firstn HEADER_SIZE bs) in
        mkEntry (fi_spec_time (ptime (h_type h) (h_msgver h) (skipn HEADER_SIZE bs))) (h_type h) (N.of_nat o) k
        :: fi_spec_entries t (N.succ k)
    end.

  Definition fi_spec (file : list N) : list fi_entry := fi_spec_entries (fi_spec_frames file) 0.

  (* ---- executable form of the SPEC (binary offsets, no length computations); Proofs: = fi_spec -------- *)
  Definition fi_sync_at (l : list N) : bool :=
    match l with b0 :: b1 :: _ => (b0 =? SYNC0) && (b1 =? SYNC1) | _ => false end.

  (* full acceptance at the head of a file suffix: sync, 24 bytes, size sanity, whole message present, CRC *)
  Definition fi_valid (l : list N) : option header :=
    if negb (fi_sync_at l) then None else
    if negb (fi_has 24 l) then None else
    let h := parse_header (firstn HEADER_SIZE l) in
    if MAX_EXPECTED_SIZE_BYTES <? h_psize h then None else
    let n := 24 + h_psize h in
    if negb (fi_has n l) then None else
    if crc32 (fi_take (n - 8) (fi_drop 8 l)) =? h_crc h then Some h else None.

  (* the fuel is a list (only its length matters; the file itself is supplied) so that no unary number of the
     size of the file is ever built *)
  Fixpoint fi_xscan (fuel : list N) (off : N) (l : list N) (k : N) : list fi_entry :=
    match fuel with
    | [] => []
    | _ :: f =>
        match l with
        | [] => []
        | _ :: t =>
            match fi_valid l with
            | Some h =>
                let n := 24 + h_psize h in
                mkEntry (fi_spec_time (ptime (h_type h) (h_msgver h) (fi_take (h_psize h) (fi_drop 24 l))))
                        (h_type h) off k
                :: fi_xscan f (off + n) (fi_drop n l) (N.succ k)
            | None => fi_xscan f (N.succ off) t k
            end
        end
    end.

  Definition fi_spec_x (file : list N) : list fi_entry := fi_xscan (0 :: file) 0 file 0.
End Model.

(* the code as it is now *)
Definition fi_cur : fi_cfg := mkCfg true true true true true true.
