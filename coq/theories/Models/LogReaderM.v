(* C10 / C11 — model of python/fusion_engine_client/parsers/mixed_log_reader.py (MixedLogReader with an
   index, which is the only mode the current constructor can reach: fast_generate_index always
   returns a FileIndex).  Definitions only.

   A log file is the list of its scan-accepted messages (what the unfiltered read returns; that the
   indexer finds exactly those is C08) plus its size.  A message: offset, total size (header +
   payload), type, source identifier, P1 time in eighths of a second (None = no / invalid P1 time). *)
From Coq Require Import ZArith List Bool Lia Sorted.
From FEC Require Import Generated.LogReaderConsts Models.FileIndexOpsM.
Import ListNotations.
Open Scope Z_scope.

Record msg := mkM { m_off : Z; m_size : Z; m_type : Z; m_src : Z; m_time : option Z }.
Record file := mkFile { f_msgs : list msg; f_size : Z }.

(* index entry of the message with ordinal i: floor-second time, type, offset, ordinal *)
Definition entry_of (i : Z) (m : msg) : entry :=
  mkE (match m_time m with Some t => Some (t / 8) | None => None end) (m_type m) (m_off m) i.
Fixpoint entries_from (i : Z) (l : list msg) : list entry :=
  match l with [] => [] | m :: t => entry_of i m :: entries_from (i + 1) t end.

(* fast_generate_index(max_bytes): with a truthy max_bytes below the file size only the first
   ceil(max_bytes / _READ_SIZE_BYTES) blocks are searched, i.e. the messages that START below that
   many blocks (each block read extends _MAX_FE_MSG_SIZE_BYTES past its end, or to the end of file). *)
Definition index_limit (f : file) (max_bytes : option Z) : option Z :=
  match max_bytes with
  | Some mb => if mb =? 0 then None
               else if mb <? f_size f then Some (- ((- mb) / read_size_bytes) * read_size_bytes)
               else None
  | None => None
  end.
Definition below (lim : option Z) (x : Z) : bool := match lim with Some l => x <? l | None => true end.
Definition index_of_file (f : file) (max_bytes : option Z) : findex :=
  mk_index (filter (fun e => below (index_limit f max_bytes) (e_off e)) (entries_from 0 (f_msgs f))) None.

(* constructor options that never change afterwards *)
Record cfg := mkCfg {
  c_max_bytes : option Z;     (* None = sys.maxsize *)
  c_hdr : bool; c_pay : bool; c_bytes : bool; c_offset : bool; c_index : bool;   (* return_* *)
  c_has_range : bool          (* self.time_range is not None *)
}.

Record reader := mkR {
  r_orig : findex;            (* _original_index *)
  r_index : findex;           (* index *)
  r_next : Z;                 (* next_index_elem *)
  r_last : Z;                 (* offset of the last index entry consumed, -1 at the start (fix: only) *)
  r_srcs : option (list Z);   (* requested_source_ids *)
  r_avail : list Z            (* available_source_ids *)
}.
Definition set_index (r : reader) (i : findex) : reader := mkR (r_orig r) i (r_next r) (r_last r) (r_srcs r) (r_avail r).
Definition set_cursor (r : reader) (n l : Z) : reader := mkR (r_orig r) (r_index r) n l (r_srcs r) (r_avail r).
Definition set_next (r : reader) (n : Z) : reader := set_cursor r n (r_last r).
Definition set_srcs (r : reader) (s : option (list Z)) : reader := mkR (r_orig r) (r_index r) (r_next r) (r_last r) s (r_avail r).
Definition set_avail (r : reader) (a : list Z) : reader := mkR (r_orig r) (r_index r) (r_next r) (r_last r) (r_srcs r) a.

(* what a yielded list contains, in order; PHeader/PPayload stand for "the header / payload decoded
   from the bytes of message m", PBytes for file[off, off+size) *)
Inductive piece := PHeader (m : msg) | PPayload (m : msg) | PBytes (off size : Z) | POffset (off : Z) | PIndex (i : Z).

Definition assemble (c : cfg) (m : msg) (start_off cmi : Z) : list piece :=
  (if c_hdr c then [PHeader m] else []) ++ (if c_pay c then [PPayload m] else []) ++
  (if c_bytes c then [PBytes start_off (m_size m)] else []) ++
  (if c_offset c then [POffset start_off] else []) ++ (if c_index c then [PIndex cmi] else []).

Definition exceeds (mb : option Z) (x : Z) : bool := match mb with Some b => b <? x | None => false end.
Definition src_ok (s : option (list Z)) (m : msg) : bool := match s with None => true | Some l => memZ (m_src m) l end.
Definition file_at (f : file) (off : Z) : option msg := find (fun m => m_off m =? off) (f_msgs f).

(* one turn of the while-loop of _read_next after _advance_to_next_sync picked entry e *)
Inductive step := SStop | SSkip | SRet (m : msg) | SErr (x : err).
Definition read_entry (fx : fixes) (c : cfg) (srcs : option (list Z)) (f : file) (e : entry) : step :=
  if exceeds (c_max_bytes c) (e_off e + header_size) then SStop               (* line 237 *)
  else match file_at f (e_off e) with
  | None => SSkip                       (* no valid message at the indexed offset: ValueError path, next entry *)
  | Some m =>
      if negb (src_ok srcs m) then SSkip                                       (* line 288 *)
      else if exceeds (c_max_bytes c) (e_off e + m_size m) then SStop         (* line 298 *)
      else if negb (c_pay c || c_has_range c) && negb (fx_payload fx)
           then SErr UnboundLocalError                                         (* line 346, payload never bound *)
      else SRet m
  end.

Inductive outcome := OMsg (m : msg) (ps : list piece) | OStop | OErr (x : err).

(* the loop; next / last are updated by _advance_to_next_sync for every entry consumed *)
Fixpoint read_loop (fx : fixes) (c : cfg) (srcs : option (list Z)) (f : file) (rest : list entry) (next last : Z)
  : outcome * Z * Z :=
  match rest with
  | [] => (OStop, next, last)
  | e :: rest' =>
      match read_entry fx c srcs f e with
      | SStop => (OStop, next + 1, e_off e)
      | SSkip => read_loop fx c srcs f rest' (next + 1) (e_off e)
      | SRet m => (OMsg m (assemble c m (e_off e) (e_idx e)), next + 1, e_off e)
      | SErr x => (OErr x, next + 1, e_off e)
      end
  end.

Definition read_next (fx : fixes) (c : cfg) (f : file) (r : reader) : reader * outcome :=
  let '(o, n, l) := read_loop fx c (r_srcs r) f (skipn (Z.to_nat (r_next r)) (fi_data (r_index r))) (r_next r) (r_last r) in
  (set_cursor r n l, o).

(* filter_in_place lines 594-606 *)
Definition relocate (data : list entry) (prev : Z) : Z :=
  if zlen data =? 0 then 0
  else if prev <? 0 then 0
  else let idx := argmax_bool (map (fun e => prev <? e_off e) data) in
       if (idx =? 0) && (match data with e :: _ => e_off e <=? prev | [] => false end) then zlen data else idx.

(* lines 494-500 (was) / the remembered offset (fix) *)
Definition prev_offset (fx : fixes) (r : reader) : res Z :=
  if fx_last_off fx then Ok (r_last r)
  else if r_next r =? 0 then Ok (-1)
  else match nth_error (fi_data (r_index r)) (Z.to_nat (r_next r - 1)) with
       | Some e => Ok (e_off e)
       | None => Err InternalError     (* numpy IndexError; excluded by the invariant next <= len *)
       end.

Definition set_eqb (a b : list Z) : bool := forallb (fun x => memZ x b) a && forallb (fun x => memZ x a) b.
(* filter_in_place, "Set requested source IDs": the request is kept as given and every message is tested when it
   is read (was: the request was replaced by its intersection with the ids seen in the discovery sample) *)
Definition apply_source_ids (fx : fixes) (r : reader) (s : option (list Z)) : reader :=
  match s with
  | None => r
  | Some ids => set_srcs r (Some (if fx_srcs_as_requested fx then ids
                                  else if set_eqb (r_avail r) ids then ids else filter (fun x => memZ x (r_avail r)) ids))
  end.

(* filter_in_place(key, clear_existing=clear, source_ids=s); an exception from index[key] leaves the
   (possibly cleared) index and the old cursor in place *)
Definition filter_in_place (fx : fixes) (r : reader) (k : key) (clear : bool) (s : option (list Z)) : reader * res unit :=
  match prev_offset fx r with
  | Err x => (r, Err x)
  | Ok prev =>
      let r1 := if clear then set_index r (r_orig r) else r in
      let r2 := apply_source_ids fx r1 s in
      match getitem fx (r_index r2) k with
      | Err x => (r2, Err x)
      | Ok i => (set_next (set_index r2 i) (relocate (fi_data i) prev), Ok tt)
      end
  end.

Definition rewind (r : reader) : reader := set_cursor r 0 (-1).

(* np.unique: sorted, duplicates removed *)
Fixpoint insert_uniq (x : Z) (l : list Z) : list Z :=
  match l with
  | [] => [x]
  | y :: t => if x <? y then x :: l else if x =? y then l else y :: insert_uniq x t
  end.
Definition uniq_sorted (l : list Z) : list Z := fold_right insert_uniq [] l.

(* _populate_available_source_ids: per type, read up to populate_count messages (return_header forced) *)
Fixpoint read_n (fx : fixes) (c : cfg) (f : file) (n : nat) (r : reader) (acc : list Z) : res (reader * list Z) :=
  match n with
  | O => Ok (r, acc)
  | S n' => match read_next fx c f r with
            | (r', OMsg m _) => read_n fx c f n' r' (m_src m :: acc)
            | (r', OStop) => Ok (r', acc)
            | (_, OErr x) => Err x
            end
  end.
Definition with_header (c : cfg) : cfg := mkCfg (c_max_bytes c) true (c_pay c) (c_bytes c) (c_offset c) (c_index c) (c_has_range c).
Fixpoint populate_types (fx : fixes) (c : cfg) (f : file) (tys : list Z) (r : reader) (acc : list Z) : res (reader * list Z) :=
  match tys with
  | [] => Ok (r, acc)
  | ty :: rest =>
      match filter_in_place fx r (KTypes [ty]) false None with
      | (_, Err x) => Err x
      | (r1, Ok _) =>
          match read_n fx (with_header c) f populate_count r1 acc with
          | Err x => Err x
          | Ok (r2, acc2) =>
              match filter_in_place fx r2 KNone true None with
              | (_, Err x) => Err x
              | (r3, Ok _) => populate_types fx c f rest (if fx_populate_rewind fx then rewind r3 else r3) acc2
              end
          end
      end
  end.
Definition populate (fx : fixes) (c : cfg) (f : file) (r : reader) : res reader :=
  match populate_types fx c f (uniq_sorted (map e_type (fi_data (r_index r)))) r [] with
  | Err x => Err x
  | Ok (r', acc) => Ok (rewind (set_avail r' acc))
  end.

Definition norm_types (t : option (list Z)) : option (list Z) := match t with Some [] => None | x => x end.
Definition types_key (t : option (list Z)) : key := match t with Some l => KTypes l | None => KNone end.
Definition range_key (R : option trange) : key := match R with Some x => KTimeRange x | None => KNone end.

Definition bind {A B} (a : res A) (g : A -> res B) : res B := match a with Ok x => g x | Err e => Err e end.

(* __init__ lines 124-138 *)
Definition construct (fx : fixes) (c : cfg) (f : file) (srcs types : option (list Z)) (R : option trange) : res reader :=
  let types := norm_types types in
  let orig := index_of_file f (c_max_bytes c) in
  let r0 := mkR orig orig 0 (-1) srcs [] in
  bind (populate fx c f r0) (fun r1 =>
  match filter_in_place fx r1 KNone false (r_srcs r1) with (_, Err x) => Err x | (r2, Ok _) =>
  match filter_in_place fx r2 (types_key types) false None with (_, Err x) => Err x | (r3, Ok _) =>
  match filter_in_place fx r3 (range_key R) false None with (_, Err x) => Err x | (r4, Ok _) =>
  bind (if fx_time_first fx
        then bind (getitem fx orig (range_key R)) (fun i => getitem fx i (types_key types))
        else bind (getitem fx orig (types_key types)) (fun i => getitem fx i (range_key R)))
       (fun i => Ok (set_index r4 i))
  end end end).

Definition with_range (c : cfg) (R : option trange) : cfg :=
  mkCfg (c_max_bytes c) (c_hdr c) (c_pay c) (c_bytes c) (c_offset c) (c_index c) (match R with Some _ => true | None => false end).

(* for ... in reader: read_next until StopIteration *)
Fixpoint iterate (fx : fixes) (c : cfg) (f : file) (fuel : nat) (r : reader) : res (list (msg * list piece)) :=
  match fuel with
  | O => Err InternalError             (* out of fuel; lemma: length index + 1 suffices *)
  | S k => match read_next fx c f r with
           | (r', OMsg m ps) => bind (iterate fx c f k r') (fun l => Ok ((m, ps) :: l))
           | (_, OStop) => Ok []
           | (_, OErr x) => Err x
           end
  end.

Definition read_log (fx : fixes) (c : cfg) (f : file) (srcs types : option (list Z)) (R : option trange)
  : res (list (msg * list piece)) :=
  let c := with_range c R in
  bind (construct fx c f srcs types R) (fun r => iterate fx c f (S (length (fi_data (r_index r)))) r).

(* after construction: reader.filter_in_place(None, source_ids=s), then read everything (DataLoader's path) *)
Definition read_log_late_sources (fx : fixes) (c : cfg) (f : file) (types : option (list Z)) (R : option trange)
  (s : option (list Z)) : res (list (msg * list piece)) :=
  let c := with_range c R in
  bind (construct fx c f None types R) (fun r =>
  match filter_in_place fx r KNone false s with
  | (_, Err x) => Err x
  | (r', Ok _) => iterate fx c f (S (length (fi_data (r_index r')))) r'
  end).

(* ------------------------------------------------------------------------------------------------ *)
(* C10 SPEC: filter over the unfiltered log; [pre] = ALL messages before m in the file. *)
Definition type_ok (t : option (list Z)) (m : msg) : bool := match t with None => true | Some l => memZ (m_type m) l end.
Definition bytes_ok (mb : option Z) (m : msg) : bool := negb (exceeds mb (m_off m + m_size m)).

Fixpoint first_msg_time (l : list msg) : option Z :=
  match l with [] => None | m :: t => match m_time m with Some x => Some x | None => first_msg_time t end end.

(* window (lower bound in whole seconds, upper bound in eighths) requested by R on this log;
   a relative range is relative to the floor second of the first P1 time unless R carries its own t0 *)
Definition spec_window (msgs : list msg) (R : option trange) : option Z * option Z :=
  match R with
  | None => (None, None)
  | Some R =>
      let t0 := if tr_abs R then 0
                else match tr_t0 R with
                     | Some t => t
                     | None => match first_msg_time msgs with Some t => 8 * (t / 8) | None => 0 end
                     end in
      (match tr_start R with Some s => Some ((t0 + s) / 8) | None => None end,
       match tr_end R with Some e => Some (t0 + e) | None => None end)
  end.

Definition in_time_pos (w : option Z * option Z) (pre : list msg) (m : msg) : bool :=
  window_ok (fst w) (snd w) (map (entry_of 0) pre) (entry_of 0 m).

Fixpoint spec_select_from (keep : list msg -> msg -> bool) (c : cfg) (pre : list msg) (l : list msg) : list (msg * list piece) :=
  match l with
  | [] => []
  | m :: t =>
      let rest := spec_select_from keep c (pre ++ [m]) t in
      if keep pre m then (m, assemble c m (m_off m) (zlen pre)) :: rest else rest
  end.

Definition spec_read (c : cfg) (f : file) (srcs types : option (list Z)) (R : option trange) : list (msg * list piece) :=
  let w := spec_window (f_msgs f) R in
  spec_select_from (fun pre m => type_ok (norm_types types) m && src_ok srcs m && bytes_ok (c_max_bytes c) m && in_time_pos w pre m)
                   c [] (f_msgs f).

(* ------------------------------------------------------------------------------------------------ *)
(* C11 MODEL: operations on a constructed reader *)
Inductive op :=
| OpRead
| OpFilter (k : key)
| OpRemoveUntimed
| OpClear
| OpRewind
| OpSeek (i : Z) (filtered : bool)
| OpSeekEof.

Inductive opres := RMsg (m : msg) (ps : list piece) | RStop | RErr (x : err) | RDone.
Definition of_outcome (o : outcome) : opres := match o with OMsg m ps => RMsg m ps | OStop => RStop | OErr x => RErr x end.
Definition of_unit (u : res unit) : opres := match u with Ok _ => RDone | Err x => RErr x end.

Definition last_off (l : list entry) : option Z := match rev l with e :: _ => Some (e_off e) | [] => None end.

Definition step_op (fx : fixes) (c : cfg) (f : file) (r : reader) (o : op) : reader * opres :=
  match o with
  | OpRead => let '(r', x) := read_next fx c f r in (r', of_outcome x)
  | OpFilter k => let '(r', u) := filter_in_place fx r k false None in (r', of_unit u)
  | OpRemoveUntimed =>
      (* filter_out_invalid_p1_times(clear_existing=False) *)
      if fx_remove_nans fx
      then let '(r', u) := filter_in_place fx r (KTimeSlice None None (Some RemoveNans)) false None in (r', of_unit u)
      else let '(r1, u) := filter_in_place fx r KNone false None in
           match u with
           | Err x => (r1, RErr x)
           | Ok _ => match get_time_range_b fx (r_index r1) BNone BNone RemoveNans with
                     | Ok i => (set_index r1 i, RDone)
                     | Err x => (r1, RErr x)
                     end
           end
  | OpClear => let '(r', u) := filter_in_place fx r KNone true None in (r', of_unit u)
  | OpRewind => (rewind r, RDone)
  | OpSeek i filtered =>
      let max_index := if filtered then zlen (fi_data (r_index r)) else zlen (fi_data (r_orig r)) in
      if (i <? 0) || (max_index <=? i) then (r, RErr ValueError)
      else
        let '(r1, u) := if filtered then (r, Ok tt) else filter_in_place fx r KNone true None in
        match u with
        | Err x => (r1, RErr x)
        | Ok _ =>
            let l := if i =? 0 then -1
                     else match nth_error (fi_data (r_index r1)) (Z.to_nat (i - 1)) with Some e => e_off e | None => -1 end in
            (set_cursor r1 i l, RDone)
        end
  | OpSeekEof =>
      let n := zlen (fi_data (r_index r)) in
      if r_next r =? n then (r, RDone)
      else match last_off (fi_data (r_index r)) with
           | Some o => (set_cursor r n o, RDone)
           | None => (set_next r 0, RDone)
           end
  end.

Fixpoint run_ops (fx : fixes) (c : cfg) (f : file) (r : reader) (ops : list op) : list opres * reader :=
  match ops with
  | [] => ([], r)
  | o :: t => let '(r', x) := step_op fx c f r o in let '(xs, rf) := run_ops fx c f r' t in (x :: xs, rf)
  end.

(* a script on a freshly constructed reader (no constructor filters) *)
Definition run_script (fx : fixes) (c : cfg) (f : file) (srcs : option (list Z)) (ops : list op) : res (list opres) :=
  bind (construct fx c f srcs None None) (fun r => Ok (fst (run_ops fx c f r ops))).

(* ------------------------------------------------------------------------------------------------ *)
(* C11 SPEC: a cursor (S, pos) over the filtered list.  S is defined by applying the meaning of each
   filter operation (FileIndexOpsM.spec_getitem, remove-untimed = keep the timed entries) in sequence;
   pos is the offset of the last entry consumed.  read examines the entries of S beyond pos in order. *)
Record cursor := mkC { cs_orig : findex; cs_cur : findex; cs_pos : Z; cs_srcs : option (list Z) }.

Definition beyond (pos : Z) (l : list entry) : list entry := filter (fun e => pos <? e_off e) l.

(* examine entries in order: each examined entry is consumed (pos moves to it); the byte limit ends
   the iteration; an entry of another source is passed over *)
Fixpoint spec_scan (c : cfg) (srcs : option (list Z)) (f : file) (l : list entry) (pos : Z) : opres * Z :=
  match l with
  | [] => (RStop, pos)
  | e :: t =>
      match read_entry fixed c srcs f e with
      | SStop => (RStop, e_off e)
      | SSkip => spec_scan c srcs f t (e_off e)
      | SRet m => (RMsg m (assemble c m (e_off e) (e_idx e)), e_off e)
      | SErr x => (RErr x, e_off e)
      end
  end.

Definition set_cur (s : cursor) (i : findex) : cursor := mkC (cs_orig s) i (cs_pos s) (cs_srcs s).
Definition set_pos (s : cursor) (p : Z) : cursor := mkC (cs_orig s) (cs_cur s) p (cs_srcs s).

Definition spec_step (c : cfg) (f : file) (s : cursor) (o : op) : cursor * opres :=
  match o with
  | OpRead => let '(x, p) := spec_scan c (cs_srcs s) f (beyond (cs_pos s) (fi_data (cs_cur s))) (cs_pos s) in (set_pos s p, x)
  | OpFilter k => match spec_getitem (cs_cur s) k with Ok i => (set_cur s i, RDone) | Err x => (s, RErr x) end
  | OpRemoveUntimed =>
      if zlen (fi_data (cs_cur s)) =? 0 then (set_cur s (mkFI [] None), RDone)
      else (set_cur s (mk_index (filter (fun e => negb (is_nan e)) (fi_data (cs_cur s))) (fi_t0 (cs_cur s))), RDone)
  | OpClear => (set_cur s (cs_orig s), RDone)
  | OpRewind => (set_pos s (-1), RDone)
  | OpSeek i filtered =>
      let l := if filtered then fi_data (cs_cur s) else fi_data (cs_orig s) in
      if (i <? 0) || (zlen l <=? i) then (s, RErr ValueError)
      else
        let s1 := if filtered then s else set_cur s (cs_orig s) in
        (* the sought entry is the next one examined: the cursor sits on its predecessor *)
        (set_pos s1 (if i =? 0 then -1 else match nth_error l (Z.to_nat (i - 1)) with Some e => e_off e | None => -1 end), RDone)
  | OpSeekEof =>
      match last_off (fi_data (cs_cur s)) with
      | Some o => (set_pos s (Z.max (cs_pos s) o), RDone)
      | None => (s, RDone)
      end
  end.

Fixpoint spec_run (c : cfg) (f : file) (s : cursor) (ops : list op) : list opres :=
  match ops with
  | [] => []
  | o :: t => let '(s', x) := spec_step c f s o in x :: spec_run c f s' t
  end.

Definition spec_script (c : cfg) (f : file) (srcs : option (list Z)) (ops : list op) : list opres :=
  let orig := index_of_file f (c_max_bytes c) in
  spec_run c f (mkC orig orig (-1) srcs) ops.

(* ------------------------------------------------------------------------------------------------ *)
(* Well-formed log (hypothesis of the theorems): the messages lie one after another inside the file,
   offsets are not negative, each message is at least a header long, and P1 times do not decrease
   (the documented assumption of TimeRange / FileIndex). *)
Definition msg_before (a b : msg) : Prop := m_off a + m_size a <= m_off b.
Definition mtle (a b : msg) : Prop :=
  match m_time a, m_time b with Some x, Some y => x <= y | _, _ => True end.
Definition msg_ok (fsize : Z) (m : msg) : Prop :=
  0 <= m_off m /\ header_size <= m_size m /\ m_off m + m_size m <= fsize /\
  match m_time m with Some t => 0 <= t | None => True end.
Definition wf_file (f : file) : Prop :=
  StronglySorted msg_before (f_msgs f) /\ StronglySorted mtle (f_msgs f) /\ Forall (msg_ok (f_size f)) (f_msgs f).
