(* RTCM 3 transport frame: 0xD3, 6 reserved bits + 10-bit length, payload, CRC-24Q (big endian).
   SPEC side of C14: the bit-serial CRC-24Q from its generator polynomial, the table computed from it,
   and the acceptance test [judge_rtcm cap] a left-to-right scan (Base/Scan.v) applies at one position.
   MODEL side: CRC24Hash() of rtcm_framer.cc as written (32-bit unsigned accumulator, table from the
   source, mask at the end). *)
From Coq Require Import NArith List Bool Arith.
From FEC Require Import Generated.RtcmConsts Generated.Crc24qTable Base.ListX Base.Bytes Base.Scan.
Import ListNotations.
Open Scope N_scope.

(* ---- CRC-24Q, definition (not taken from the source): generator 0x1864CFB, MSB first, init 0 ---- *)
Definition crc24q_poly : N := 25578747.  (* 0x1864CFB *)

Definition q_step_bit (c : N) : N :=
  let y := N.shiftl c 1 in
  if N.testbit y 24 then N.lxor y crc24q_poly else y.

Definition q_step8 (c : N) : N :=
  q_step_bit (q_step_bit (q_step_bit (q_step_bit (q_step_bit (q_step_bit (q_step_bit (q_step_bit c))))))).

Definition q_upd_bits (c b : N) : N := q_step8 (N.lxor c (N.shiftl b 16)).

Definition crc24q (l : list N) : N := fold_left q_upd_bits l 0.

(* the table that follows from the polynomial *)
Definition q_range256 : list N := map N.of_nat (seq 0 256).
Definition crc24q_table_computed : list N := map (fun i => q_step8 (N.shiftl i 16)) q_range256.

(* ---- CRC24Hash() as written in rtcm_framer.cc ---- *)
Definition q_lookup (i : N) : N := nth (N.to_nat i) crc24q_table_src 0.

(* crc = (crc << 8) ^ RTCM_CRC24Q[data[i] ^ (unsigned char)(crc >> 16)];   crc is a 32-bit unsigned *)
Definition q_upd_table (crc b : N) : N :=
  N.lxor (N.shiftl crc 8 mod 4294967296) (q_lookup (N.lxor b (N.land (N.shiftr crc 16) 255))).

Definition crc24_hash (l : list N) : N := N.land (fold_left q_upd_table l RTCM_CRC_INIT) RTCM_CRC_MASK.

(* ---- the frame format (RTCM 10403 transport layer; these are SPEC constants, NOT taken from the source:
   the model uses the regenerated ones and the proofs need them to agree) ---- *)
Definition SPEC_PREAMBLE : N := 211.        (* 0xD3 *)
Definition SPEC_HEADER_BYTES : N := 3.
Definition SPEC_CRC_BYTES : N := 3.
Definition SPEC_MAX_PAYLOAD : N := 1023.
Definition SPEC_LEN_MASK : N := 1023.       (* 10-bit length *)
Definition SPEC_TYPE_SHIFT : N := 4.        (* message number = first 12 bits of the payload *)
Definition RTCM_OVERHEAD : nat := N.to_nat (SPEC_HEADER_BYTES + SPEC_CRC_BYTES).

(* (b1 << 8 | b2) & 0x3FF *)
Definition rtcm_len (b1 b2 : N) : N := N.land (N.lor (N.shiftl b1 8) b2) SPEC_LEN_MASK.

(* big-endian value of a byte string *)
Fixpoint be (l : list N) : N :=
  match l with [] => 0 | b :: t => N.lor (N.shiftl b (8 * N.of_nat (length t))) (be t) end.

(* message number: the 12 bits that follow the transport header *)
Definition rtcm_msg_number (l : list N) : N :=
  N.shiftr (N.lor (N.shiftl (nth 3 l 0) 8) (nth 4 l 0)) SPEC_TYPE_SHIFT.

(* what a left-to-right scan decides at one position, given the bytes from there on *)
Definition judge_rtcm (cap : N) (l : list N) : verdict :=
  match l with
  | [] => More
  | b0 :: _ =>
      if negb (N.eqb b0 SPEC_PREAMBLE) then Reject else
      if Nat.ltb (length l) (N.to_nat SPEC_HEADER_BYTES) then More else
      let len := rtcm_len (nth 1 l 0) (nth 2 l 0) in
      let size := (N.to_nat len + RTCM_OVERHEAD)%nat in
      if (cap <? N.of_nat size) || (SPEC_HEADER_BYTES + SPEC_MAX_PAYLOAD + SPEC_CRC_BYTES <? N.of_nat size) then Reject else
      if Nat.ltb (length l) size then More else
      let crcn := N.to_nat SPEC_CRC_BYTES in
      if N.eqb (crc24q (firstn (size - crcn) l)) (be (sub l (size - crcn) crcn)) then Accept size else Reject
  end.
