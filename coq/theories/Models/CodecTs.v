(* C01 — Timestamp adapter, integer ("soft float") model.  Definitions only.

   python/fusion_engine_client/messages/timestamp.py:
     unpack:  if int_part == 0xFFFFFFFF or frac_part_ns == 0xFFFFFFFF: seconds = nan
              else: seconds = int_part + (frac_part_ns * 1e-9)
     pack:    if isnan(seconds): (0xFFFFFFFF, 0xFFFFFFFF)
              else: int_part = int(seconds); frac_part_ns = int(round((seconds - int_part) * 1e9))
                    if frac_part_ns >= 1000000000: int_part += 1; frac_part_ns -= 1000000000
              struct.pack('<II', int_part, frac_part_ns)        (raises unless both are in [0, 2^32))
   (TimestampAdapter._decode/_encode are the same two computations.)

   A finite non-negative binary64 number is carried as a pair (m, e) meaning m * 2^e; products and sums are
   formed exactly in Z and then rounded once to 53 significant bits, round-to-nearest-even — which is what
   the IEEE-754 operations of the interpreter do.  All numbers occurring here are zero or normal and far
   from overflow (1e-9 <= x < 2^33), so subnormals / infinities are not modelled: [Codec_to_bits] of a
   value outside the normal range is not meaningful and the range lemmas exclude it.
   The same computation is written with Coq's primitive floats in Models/TimestampF.v; the two and the
   implementation are compared on generated cases inside coqc (Generated/CodecTsCases.v). *)
From Coq Require Import ZArith Bool List.
From FEC Require Import Generated.CodecConsts.
Open Scope Z_scope.

(* field values: an integer (also: the raw bits of a float), NaN-because-sentinel, or the bytes of a string *)
Inductive Codec_fval := FInt (z : Z) | FNaN | FBytes (l : list Z).

Definition Codec_sf := (Z * Z)%type.       (* m * 2^e, m >= 0 *)

(* round to nearest, ties to even, to at most 53 significant bits *)
Definition Codec_rnd53 (m e : Z) : Codec_sf :=
  if m <=? 0 then (0, 0) else
  let nb := Z.log2 m + 1 in
  if nb <=? 53 then (m, e) else
  let sh := nb - 53 in
  let q := m / 2 ^ sh in
  let r := m mod 2 ^ sh in
  let half := 2 ^ (sh - 1) in
  let q' := if (half <? r) || ((r =? half) && Z.odd q) then q + 1 else q in
  if q' =? 2 ^ 53 then (2 ^ 52, e + sh + 1) else (q', e + sh).      (* the round-up carried into the next binade *)

Definition Codec_fmul (a b : Codec_sf) : Codec_sf := Codec_rnd53 (fst a * fst b) (snd a + snd b).
Definition Codec_fadd (a b : Codec_sf) : Codec_sf :=
  let e := Z.min (snd a) (snd b) in
  Codec_rnd53 (fst a * 2 ^ (snd a - e) + fst b * 2 ^ (snd b - e)) e.

(* bits of a binary64 <-> (m, e); zero and normal numbers only *)
Definition Codec_of_bits (bits : Z) : Codec_sf :=
  let ex := bits / 2 ^ 52 in
  let fr := bits mod 2 ^ 52 in
  if ex =? 0 then (fr, -1074) else (2 ^ 52 + fr, ex - 1075).
Definition Codec_to_bits (x : Codec_sf) : Z :=
  let (m, e) := x in
  if m <=? 0 then 0 else
  let nb := Z.log2 m + 1 in
  let m' := m * 2 ^ (53 - nb) in          (* nb <= 53 after Codec_rnd53 *)
  let e' := e - (53 - nb) in
  (e' + 1075) * 2 ^ 52 + (m' - 2 ^ 52).

Definition Codec_floor (x : Codec_sf) : Z :=
  let (m, e) := x in if 0 <=? e then m * 2 ^ e else m / 2 ^ (- e).
(* Python round(float) -> int: nearest integer, ties to even *)
Definition Codec_round_int (x : Codec_sf) : Z :=
  let (m, e) := x in
  if 0 <=? e then m * 2 ^ e else
  let k := - e in
  let q := m / 2 ^ k in let r := m mod 2 ^ k in let half := 2 ^ (k - 1) in
  if (half <? r) || ((r =? half) && Z.odd q) then q + 1 else q.

Definition Codec_c_dec : Codec_sf := Codec_of_bits ts_dec_factor_bits.     (* 1e-9 *)
Definition Codec_c_enc : Codec_sf := Codec_of_bits ts_enc_factor_bits.     (* 1e9  *)

(* the 8 wire bytes as one little-endian unsigned: seconds in the low 32 bits, nanoseconds in the high 32 *)
Definition Codec_ts_sec (z : Z) : Z := z mod 2 ^ 32.
Definition Codec_ts_ns (z : Z) : Z := z / 2 ^ 32.
Definition Codec_ts_join (sec ns : Z) : Z := sec + ns * 2 ^ 32.

(* value: FNaN, or FInt (the 64 bits of the double `seconds`) *)
Definition Codec_ts_dec (z : Z) : Codec_fval :=
  let sec := Codec_ts_sec z in let ns := Codec_ts_ns z in
  if (sec =? ts_invalid) || (ns =? ts_invalid) then FNaN
  else FInt (Codec_to_bits (Codec_fadd (sec, 0) (Codec_fmul (ns, 0) Codec_c_dec))).

Definition Codec_ts_enc (v : Codec_fval) : option Z :=
  match v with
  | FBytes _ => None
  | FNaN => Some (Codec_ts_join ts_invalid ts_invalid)
  | FInt bits =>
      if (bits <? 0) || (2047 * 2 ^ 52 <=? bits) then None        (* negative, inf or NaN pattern: not produced by decode *)
      else
        let s := Codec_of_bits bits in
        let int_part := Codec_floor s in
        let frac : Codec_sf := if 0 <=? snd s then (0, 0) else (fst s - int_part * 2 ^ (- snd s), snd s) in   (* exact *)
        let ns0 := Codec_round_int (Codec_fmul frac Codec_c_enc) in
        let '(sec, ns) := if ts_carry_at <=? ns0 then (int_part + 1, ns0 - ts_carry_at) else (int_part, ns0) in
        if (sec <? 2 ^ 32) && (0 <=? ns) && (ns <? 2 ^ 32) then Some (Codec_ts_join sec ns) else None   (* struct.error otherwise *)
  end.

(* the code before the repair: truncation, no carry *)
Definition Codec_ts_enc_legacy (v : Codec_fval) : option Z :=
  match v with
  | FBytes _ => None
  | FNaN => Some (Codec_ts_join ts_invalid ts_invalid)
  | FInt bits =>
      if (bits <? 0) || (2047 * 2 ^ 52 <=? bits) then None
      else
        let s := Codec_of_bits bits in
        let int_part := Codec_floor s in
        let frac : Codec_sf := if 0 <=? snd s then (0, 0) else (fst s - int_part * 2 ^ (- snd s), snd s) in
        let ns := Codec_floor (Codec_fmul frac Codec_c_enc) in
        if (int_part <? 2 ^ 32) && (ns <? 2 ^ 32) then Some (Codec_ts_join int_part ns) else None
  end.

(* the stamps a conforming sender produces: "invalid" (either field is the sentinel), or nanoseconds below
   10^9 with seconds small enough that the rounded sum stays below the sentinel *)
Definition Codec_ts_dom (z : Z) : bool :=
  let sec := Codec_ts_sec z in let ns := Codec_ts_ns z in
  (sec =? ts_invalid) || (ns =? ts_invalid) || ((sec <? ts_invalid - 1) && (ns <? ts_carry_at)).
