(* Messages of a *file* (shared by C18 and C09).

   Base/Scan.v's [scan] is the streaming scanner: it stops at the first undecided position (More) because
   more bytes may still arrive.  A file has an end: a header whose claimed payload runs past the end of
   the file is not a message, and the search continues one byte further (the sequential reader raises
   "Not enough data", the indexer's slice/CRC test fails, both move on to the next sync candidate).
   [fscan] is that left-to-right scan to end of file: Accept n -> frame, continue after it;
   Reject -> skip one byte; More -> skip one byte unless nothing is left.

   SPEC of "the messages a sequential scan of the file accepts": [file_frames d]. *)
From Coq Require Import NArith List Bool Arith.
From FEC Require Import Generated.FEConsts Generated.FileIndexConsts Base.ListX Base.Bytes Base.Crc32 Base.Scan Base.FEFormat.
Import ListNotations.

Section FScan.
  Context {B : Type}.
  Variable judge : list B -> verdict.

  Fixpoint fscan_aux (fuel off : nat) (l : list B) : list (nat * list B) :=
    match fuel with
    | O => []
    | S f =>
        match judge l with
        | Accept n => (off, firstn n l) :: fscan_aux f (off + n) (skipn n l)
        | Reject => fscan_aux f (S off) (tl l)
        | More => match l with [] => [] | _ :: t => fscan_aux f (S off) t end
        end
    end.

  Definition fscan (off : nat) (l : list B) : list (nat * list B) := fscan_aux (S (length l)) off l.
End FScan.

(* the acceptance test the index builder and the log reader apply: sync bytes (indexer preamble search),
   complete header, payload_size <= MessageHeader._MAX_EXPECTED_SIZE_BYTES (validate_crc / reader), whole
   message present, CRC.  The reserved field is not tested (neither fast_indexer nor MixedLogReader look
   at it), nothing is decided before 24 bytes are there. *)
Definition judge_file : list N -> verdict := judge_fe false false MAX_EXPECTED_SIZE_BYTES.

Definition file_frames (d : list N) : list (nat * list N) := fscan judge_file 0 d.

(* ---- index entries ---------------------------------------------------------------------------------- *)
(* raw (.p1i) domain: u4 seconds or TIME_INVALID, u2 type, u8 offset *)
Record rentry := mkR { r_time : N; r_type : N; r_off : N }.
(* in-memory (FileIndex._data) domain: time is a binary64 that is NaN or a number of seconds; the only two
   observations the code modelled here makes of it are isnan and the cast to u4, so it is abstracted to
   None (NaN) | Some (integer part).  message_index is the position in the list. *)
Record ientry := mkI { i_time : option N; i_type : N; i_off : N }.

(* FileIndex._from_raw / _to_raw.  _to_raw stores "no time" for NaN and for a time that does not fit below
   TIME_INVALID (the same rule as the indexer); [to_raw_legacy] is the code before that repair: a bare
   astype('<u4'), which wraps modulo 2^32 in numpy's structured cast on x86-64 (undefined in C). *)
Definition u4 (t : N) : N := N.modulo t (2 ^ 32).
Definition clamp_u4 (t : N) : N := if N.leb TIME_INVALID t then TIME_INVALID else t.

Definition from_raw (r : rentry) : ientry :=
  mkI (if N.eqb (r_time r) TIME_INVALID then None else Some (r_time r)) (r_type r) (r_off r).
Definition to_raw (e : ientry) : rentry :=
  mkR (match i_time e with None => TIME_INVALID | Some t => clamp_u4 t end) (i_type e) (i_off e).
Definition to_raw_legacy (e : ientry) : rentry :=
  mkR (match i_time e with None => TIME_INVALID | Some t => u4 t end) (i_type e) (i_off e).

Definition frame_type (bs : list N) : N := h_type (parse_header (firstn HEADER_SIZE bs)).

(* The P1 time of a message is obtained by the payload class of its type (cls().unpack + get_p1_time()):
   that codec is the subject of C01 and is a parameter here: [p1 bs] = None when there is no class, the
   payload does not parse, the class has no P1 time or the stamp is invalid (NaN); Some t = integer part of
   the float seconds. *)
Section Index.
  Variable p1 : list N -> option N.

  (* fast_indexer: p1_time_raw = INVALID if isnan(seconds) or int(seconds) >= INVALID else int(seconds),
     stored in a u4 column (the rule of the C08 repair; before it a stamp >= 2^32 raised OverflowError) *)
  Definition indexer_time (t : option N) : N :=
    match t with None => TIME_INVALID | Some t => clamp_u4 t end.
  Definition indexer_raw (o : nat) (bs : list N) : rentry :=
    mkR (indexer_time (p1 bs)) (frame_type bs) (N.of_nat o).

  (* what fast_generate_index returns for a data file: FileIndex(data=_from_raw(index_raw)) *)
  Definition fresh_raw (d : list N) : list rentry := map (fun f => indexer_raw (fst f) (snd f)) (file_frames d).
  Definition fresh (d : list N) : list ientry := map from_raw (fresh_raw d).
End Index.

(* ---- the log reader's step at one index entry (MixedLogReader._read_next with an index, no filters) ----
   seek to the offset, read 24 bytes (short read: end of iteration), unpack the header (no sync test),
   payload_size > _MAX_EXPECTED_SIZE_BYTES -> ValueError, read the payload (short: ValueError),
   validate_crc over data[8:24+size] (mismatch: ValueError); a ValueError moves on to the next entry. *)
Inductive rstep := RYield (data : list N) | RSkip | RStop.

Definition read_at (d : list N) (off : nat) : rstep :=
  let hdr := sub d off HEADER_SIZE in
  if Nat.ltb (length hdr) HEADER_SIZE then RStop else
  let h := parse_header hdr in
  if N.ltb MAX_EXPECTED_SIZE_BYTES (h_psize h) then RSkip else
  let payload := sub d (off + HEADER_SIZE) (N.to_nat (h_psize h)) in
  if negb (Nat.eqb (length payload) (N.to_nat (h_psize h))) then RSkip else
  let data := hdr ++ payload in
  if N.eqb (crc32 (sub data 8 (HEADER_SIZE + N.to_nat (h_psize h) - 8))) (h_crc h) then RYield data else RSkip.

(* iterating the reader over the (unfiltered) index: the (offset, bytes) it returns *)
Fixpoint read_all (d : list N) (offs : list nat) : list (nat * list N) :=
  match offs with
  | [] => []
  | o :: rest => match read_at d o with
                 | RStop => []
                 | RSkip => read_all d rest
                 | RYield x => (o, x) :: read_all d rest
                 end
  end.

Definition index_offsets (i : list ientry) : list nat := map (fun e => N.to_nat (i_off e)) i.
