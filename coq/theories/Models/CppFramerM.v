(* MODEL of src/point_one/fusion_engine/parsers/fusion_engine_framer.cc (+ CalculateCRC(buffer) of
   messages/crc.cc): FusionEngineFramer::OnByte() transcribed statement by statement; SetBuffer / Reset /
   OnData / Resync are the shared transcription of Models/FramerCoreM.v instantiated with the FusionEngine
   constants.  Two instances:
     fe_*         the repaired code (capacity re-tested after alignment; Resync() skips a SYNC0 that is
                  directly followed by another SYNC0)
     fe_legacy_*  the code before the two repairs (kept for the refutation witnesses)
   Header fields are read through reinterpret_cast<MessageHeader*>(buffer_): little-endian loads at the
   offsets regenerated from defs.h (Generated/CppFramerConsts.v). *)
From Coq Require Import NArith ZArith List Bool.
From FEC Require Import Generated.FEConsts Generated.CppFramerConsts Base.Bytes Base.Crc32 Base.Scan Base.FEFormat Models.FramerCoreM Models.FramerSpecM.
Import ListNotations.
Open Scope N_scope.

Inductive fstate := FS_SYNC0 | FS_SYNC1 | FS_HEADER | FS_DATA.

Definition f_is_sync (s : fstate) : bool := match s with FS_SYNC0 => true | _ => false end.

Definition fcore := core fstate unit.
Definition fframer := framer fstate unit.

(* a little-endian uint32_t member at byte offset a of *reinterpret_cast<MessageHeader*>(buffer_) *)
Definition ld32 (buf : list N) (a : N) : outcome N :=
  bs <- rd_range buf a 4 ; Ok (le bs).

(* static_cast<int32_t>(uint32_t) *)
Definition to_i32 (x : N) : Z := if x <? 2147483648 then Z.of_N x else (Z.of_N x - 4294967296)%Z.

(* the "if (crc_check_needed)" block: CalculateCRC(buffer_) re-reads payload_size_bytes from the header
   and covers (sizeof(MessageHeader) - 8) + payload_size_bytes bytes starting at protocol_version *)
Definition f_crc_check (c : fcore) : outcome (fcore * Z * list event) :=
  payload_size_bytes <- ld32 (c_buf c) FR_OFF_PSIZE ;
  let size_bytes := (FR_HEADER_SIZE - FR_OFF_CRC_START) + payload_size_bytes in
  covered <- rd_range (c_buf c) FR_OFF_CRC_START size_bytes ;
  let crc := crc32 covered in
  header_crc <- ld32 (c_buf c) FR_OFF_CRC ;
  if N.eqb crc header_crc then
    (* callback(header, payload): the header and payload_size_bytes bytes after it *)
    msg <- rd_range (c_buf c) 0 (FR_HEADER_SIZE + payload_size_bytes) ;
    Ok (set_state c FS_SYNC0, to_i32 (c_size c), [(0, msg)])
  else
    Ok (set_state c FS_SYNC0, (-1)%Z, []).

(* int32_t FusionEngineFramer::OnByte(bool quiet)   (quiet only selects the log level) *)
Definition f_on_byte (quiet : bool) (c : fcore) : outcome (fcore * Z * list event) :=
  if c_next c =? 0 then Ok (c, 0%Z, [])                       (* "Byte not found in buffer." *)
  else
    byte <- rd (c_buf c) (c_next c - 1) ;
    match c_state c with
    | FS_SYNC0 =>
        if N.eqb byte CPP_SYNC0 then Ok (set_state c FS_SYNC1, 0%Z, [])
        else Ok (set_next c (u32 (c_next c - 1)), 0%Z, [])
    | FS_SYNC1 =>
        if N.eqb byte CPP_SYNC0 then Ok (set_next (set_state c FS_SYNC1) (u32 (c_next c - 1)), 0%Z, [])
        else if N.eqb byte CPP_SYNC1 then Ok (set_state c FS_HEADER, 0%Z, [])
        else Ok (set_size (set_next (set_state c FS_SYNC0) 0) 0, 0%Z, [])
    | FS_HEADER =>
        if c_next c =? FR_HEADER_SIZE then
          payload_size_bytes <- ld32 (c_buf c) FR_OFF_PSIZE ;
          (* current_message_size_ = sizeof(MessageHeader) + header->payload_size_bytes;   (uint32_t) *)
          let c := set_size c (u32 (FR_HEADER_SIZE + payload_size_bytes)) in
          if c_size c <? payload_size_bytes then Ok (set_state c FS_SYNC0, (-1)%Z, [])
          else
            r0 <- rd (c_buf c) FR_OFF_RESERVED ;
            r1 <- rd (c_buf c) (FR_OFF_RESERVED + 1) ;
            if negb (N.eqb r0 0) || negb (N.eqb r1 0) then Ok (set_state c FS_SYNC0, (-1)%Z, [])
            else if c_cap c <? c_size c then Ok (set_state c FS_SYNC0, (-1)%Z, [])
            else if payload_size_bytes =? 0 then f_crc_check c
            else Ok (set_state c FS_DATA, 0%Z, [])
        else Ok (c, 0%Z, [])
    | FS_DATA =>
        if c_next c =? c_size c then f_crc_check c else Ok (c, 0%Z, [])
    end.

Definition f_reset_x (x : unit) : unit := tt.

Definition fe_on_data := on_data fstate unit FS_SYNC0 f_is_sync CPP_SYNC0 true f_on_byte.
Definition fe_resync := resync fstate unit FS_SYNC0 f_is_sync CPP_SYNC0 true f_on_byte.
Definition fe_reset := reset fstate unit FS_SYNC0 f_reset_x.
Definition fe_set_buffer :=
  set_buffer fstate unit FS_SYNC0 f_reset_x FR_HEADER_SIZE true FR_CLAMP FR_ALIGN_MASK.

Definition fe_legacy_on_data := on_data fstate unit FS_SYNC0 f_is_sync CPP_SYNC0 false f_on_byte.
Definition fe_legacy_set_buffer :=
  set_buffer fstate unit FS_SYNC0 f_reset_x FR_HEADER_SIZE false FR_CLAMP FR_ALIGN_MASK.

(* FusionEngineFramer() = default: no buffer *)
Definition fe_default : fframer :=
  mkFramer false false (mkCore [] 0 FS_SYNC0 0 0 tt).

(* FusionEngineFramer(void* buffer, size_t capacity_bytes) *)
Definition fe_construct_with (sb : fframer -> option N -> N -> N -> list N -> fframer)
    (user : option N) (alloc_addr capacity : N) (mem : list N) : fframer :=
  match user with
  | None => sb fe_default None alloc_addr (capacity + FR_MANAGED_EXTRA) mem
  | Some a => sb fe_default (Some a) alloc_addr capacity mem
  end.
Definition fe_construct := fe_construct_with fe_set_buffer.
Definition fe_legacy_construct := fe_construct_with fe_legacy_set_buffer.

Definition fe_op_with (od : fframer -> list N -> outcome (fframer * N * list event))
    (sb : fframer -> option N -> N -> N -> list N -> fframer) (f : fframer) (o : op)
  : outcome (fframer * N * list event) :=
  match o with
  | OpData chunk => od f chunk
  | OpReset => Ok (fe_reset f, 0, [])
  | OpSetBuffer user alloc_addr capacity mem => Ok (sb f user alloc_addr capacity mem, 0, [])
  end.
Definition fe_op := fe_op_with fe_on_data fe_set_buffer.
Definition fe_legacy_op := fe_op_with fe_legacy_on_data fe_legacy_set_buffer.

(* ---- SPEC of a history: frames of the left-to-right scan with the eager FusionEngine judge, reserved
   bytes required to be zero, payload limited to what fits the usable capacity ---- *)
Definition judge_fe_cap (cap : N) : list N -> verdict := judge_fe true true (cap - FR_HEADER_SIZE).
Definition fe_event_of (f : nat * list N) : event := (0, snd f).
Definition fe_spec_op := spec_op judge_fe_cap FR_HEADER_SIZE FR_CLAMP.
Definition fe_spec_construct (user : option N) (alloc_addr capacity : N) : spst :=
  fst (fe_spec_op spec_init
         (OpSetBuffer user alloc_addr (match user with None => capacity + FR_MANAGED_EXTRA | Some _ => capacity end) [])).
(* the Python decoder's judge with max_payload_len_bytes = cap - 24: looks only once 24 bytes are there *)
Definition judge_py_cap (cap : N) : list N -> verdict := judge_fe false true (cap - FR_HEADER_SIZE).
