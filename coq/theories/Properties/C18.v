(* C18 — extraction of FusionEngine content is byte-exact, indexed and idempotent.
   Property theorems only; each is closed by [exact <lemma>] and followed by Print Assumptions.
   All are for every input file [d] (any list of bytes) and every P1-time decoder [p1]. *)
From Coq Require Import NArith List Bool.
From FEC Require Import Generated.FEConsts Generated.FileIndexConsts Base.Bytes Base.Crc32 Base.Scan Base.FEFormat
  Models.FastIndexerM Proofs.FastIndexerSpecP Proofs.FastIndexerLegacyP
  Models.FileScanM Models.FileIndexIOM Models.ExtractLogM Models.SystemLinkM Proofs.FileScanP Proofs.ExtractLogP Proofs.SystemLinkP.
Import ListNotations.

(* The output file is exactly the concatenation, in order, of the raw bytes of the messages a sequential scan of
   the input accepts; it is removed when there is none. *)
Theorem C18_extract_bytes_exact : forall p1 d,
  xr_output (extract p1 d) = match file_frames d with [] => None | _ => Some (spec_output d) end.
Proof. exact extract_bytes_exact. Qed.
Print Assumptions C18_extract_bytes_exact.

(* The return value is the number of those messages; the per-type counts are the per-type numbers of messages
   (types that do not occur have no key). *)
Theorem C18_extract_count : forall p1 d,
  xr_count (extract p1 d) = spec_count d /\
  forall ty, lookup ty (xr_counts (extract p1 d)) =
             if N.eqb (spec_type_count ty d) 0 then None else Some (spec_type_count ty d).
Proof. exact extract_count. Qed.
Print Assumptions C18_extract_count.

(* The index file written next to the output is byte for byte what indexing the output afresh and saving that
   index writes (entries in the .p1i domain: u4 seconds, type, offset, EOF marker). *)
Theorem C18_extract_index_fresh : forall p1 d out,
  xr_output (extract p1 d) = Some out -> xr_index (extract p1 d) = fresh_saved p1 out.
Proof. exact extract_index_fresh. Qed.
Print Assumptions C18_extract_index_fresh.

(* Extracting the output again reproduces the output, the index, the count and the per-type counts. *)
Theorem C18_extract_idempotent : forall p1 d out,
  xr_output (extract p1 d) = Some out -> extract p1 out = extract p1 d.
Proof. exact extract_idempotent. Qed.
Print Assumptions C18_extract_idempotent.

(* An input without messages leaves no output file (and only such an input does), writes no index, returns 0. *)
Theorem C18_no_messages_no_output : forall p1 d,
  (file_frames d = [] <-> xr_output (extract p1 d) = None) /\
  (file_frames d = [] -> extract p1 d = mkXR None None 0 []).
Proof. intros p1 d. split; [exact (no_messages_no_output p1 d) | exact (no_messages_nothing_written p1 d)]. Qed.
Print Assumptions C18_no_messages_no_output.

(* Extracting over an output location that already holds files (an earlier extraction): the output file afterwards is
   still exactly this input's extraction - in particular it is gone for a message-free input - the count is this input's,
   and with at least one message the .p1i is the fresh index of the new output. *)
Theorem C18_extract_over_existing_output : forall p1 save_index prior d,
  fst (fst (extract_over p1 save_index prior d)) = match file_frames d with [] => None | _ => Some (spec_output d) end /\
  snd (extract_over p1 save_index prior d) = spec_count d /\
  (save_index = true -> file_frames d <> [] -> snd (fst (extract_over p1 save_index prior d)) = fresh_saved p1 (spec_output d)).
Proof. exact extract_over_output. Qed.
Print Assumptions C18_extract_over_existing_output.

(* The model of the code (reader re-validation of every index entry, running output offsets) refines the SPEC-level
   description built from the scan alone. *)
Theorem C18_extract_refines_spec : forall p1 d, extract p1 d = extract_spec p1 d.
Proof. exact extract_refines. Qed.
Print Assumptions C18_extract_refines_spec.

(* Reading a file through its fresh index returns the messages of the sequential scan (used by C18 and C09). *)
Theorem C18_read_fresh_is_scan : forall p1 d, read_all d (index_offsets (fresh p1 d)) = file_frames d.
Proof. exact read_fresh_is_scan. Qed.
Print Assumptions C18_read_fresh_is_scan.

(* ---- link to C08: the index the extraction starts from IS the fast indexer's output --------------------------- *)
(* C08's end-of-file-aware SPEC scan and the scan used here are the same function on every file. *)
Theorem C18_spec_scans_agree : forall file, fi_spec_frames file = file_frames file.
Proof. exact spec_frames_agree. Qed.
Print Assumptions C18_spec_scans_agree.

(* [extract_fi READ MAX ptime W d] is the extraction with the index fi_generate READ MAX fi_cur ptime d W really returns
   (model of fast_generate_index with W worker processes, Models/FastIndexerM.v).  Under C08's precondition (every valid
   candidate of the file is at most MAX bytes; READ even >= 2, 24 <= MAX <= READ - the generated constants are an instance)
   and for every worker count: it never raises; output and count are those of C08's SPEC frames; and if the output again
   meets the precondition, extracting it (any worker count) reproduces the result, and the written .p1i is the saved form
   of the fast indexer's index of the output. *)
Theorem C18_extract_via_fast_index : forall READ MAX : N,
  (2 <= READ)%N -> (READ mod 2 = 0)%N -> (24 <= MAX)%N -> (MAX <= READ)%N ->
  forall (ptime : N -> N -> list N -> option (N * N)) W d, (1 <= W)%N -> fi_small_msgs MAX d ->
  exists r, extract_fi READ MAX ptime W d = Some r /\
    xr_output r = match fi_spec_frames d with [] => None | _ => Some (concat (map snd (fi_spec_frames d))) end /\
    xr_count r = N.of_nat (length (fi_spec_frames d)) /\
    (forall out, xr_output r = Some out -> fi_small_msgs MAX out -> forall W', (1 <= W')%N ->
       extract_fi READ MAX ptime W' out = Some r /\
       exists es, fi_generate READ MAX fi_cur ptime out W' = FOk es /\
                  xr_index r = save (map fi_strip es) (N.of_nat (length out))).
Proof. exact extract_via_fast_index_full. Qed.
Print Assumptions C18_extract_via_fast_index.

(* instance: C08's block-boundary witness file with READ = 64, MAX = 48, three workers *)
Example C18_via_fast_index_nonvacuous :
  fi_small_msgs 48 wit_overlap /\
  exists r, extract_fi 64 48 no_time 3 wit_overlap = Some r /\ xr_count r = 2%N /\
            option_map (@length N) (xr_output r) = Some (length (concat (map snd (fi_spec_frames wit_overlap)))).
Proof.
  split; [exact wit_overlap_small|]. eexists. split; [vm_compute; reflexivity|]. split; vm_compute; reflexivity.
Qed.

(* Non-vacuity: a mixed file (junk, a false sync, two messages, one of them with a P1 stamp that does not fit
   the u4 column) meets the hypotheses above, and the results are the expected ones. *)
Definition ex_body (seq : N) : list N := [2; 0; 16; 39; seq; 0; 0; 0; 3; 0; 0; 0; 0; 0; 0; 0; 1; 2; 3]%N.
Definition ex_msg (seq : N) : list N := [46; 49; 0; 0]%N ++ le_enc 4 (crc32 (ex_body seq)) ++ ex_body seq.
Definition ex_file : list N := [1; 2; 46; 49; 7]%N ++ ex_msg 7 ++ [9]%N ++ ex_msg 8.
Definition ex_p1 (bs : list N) : option N := if N.eqb (nth 12 bs 0%N) 7 then Some 4294967298%N else Some 12%N.

Example C18_nonvacuous :
  map fst (file_frames ex_file) = [5; 33]%nat /\
  xr_output (extract ex_p1 ex_file) = Some (ex_msg 7 ++ ex_msg 8) /\
  xr_count (extract ex_p1 ex_file) = 2%N /\ xr_counts (extract ex_p1 ex_file) = [(10000, 2)]%N /\
  option_map parse_records (xr_index (extract ex_p1 ex_file)) =
    Some [mkR 4294967295 10000 0; mkR 12 10000 27; mkR 4294967295 0 54]%N /\
  extract ex_p1 (ex_msg 7 ++ ex_msg 8) = extract ex_p1 ex_file /\
  xr_output (extract ex_p1 [46; 49; 0; 1; 2]%N) = None.
Proof. vm_compute. repeat split; reflexivity. Qed.

(* The code before the _to_raw repair cast the float seconds with a bare astype('<u4'): a stamp of 2^32+2 s was
   written as 2 s by the extraction while a fresh index of the output has "no time" there. *)
Theorem C18_index_fresh_legacy_refuted :
  map to_raw_legacy (map (entry_of ex_p1) (rebase 0 (map snd (file_frames ex_file)))) <>
  fresh_raw ex_p1 (ex_msg 7 ++ ex_msg 8).
Proof. vm_compute. discriminate. Qed.
Print Assumptions C18_index_fresh_legacy_refuted.
