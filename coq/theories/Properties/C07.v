(* C07 — C++ framer dispatches exactly the valid messages, for any chunking and capacity.
   Property theorems only; each is closed by [exact <lemma>] and followed by Print Assumptions. *)
From Coq Require Import NArith ZArith List Bool.
From FEC Require Import Generated.FEConsts Generated.CppFramerConsts Base.Scan Base.FEFormat Models.FramerCoreM Models.FramerSpecM
  Models.CppFramerM Proofs.CppFramerP.
Import ListNotations.
Open Scope N_scope.

Theorem C07_reset_is_fresh : forall f : fframer,
  let c := f_core (fe_reset f) in
  c_state c = FS_SYNC0 /\ c_next c = 0 /\ c_size c = 0 /\
  c_cap c = c_cap (f_core f) /\ f_has (fe_reset f) = f_has f /\ c_buf c = c_buf (f_core f).
Proof. exact fe_reset_is_fresh. Qed.
Print Assumptions C07_reset_is_fresh.

(* "never writes outside its buffer" is FALSE of the code as it was before the two repairs: two concrete
   histories on which the faithful model of that code writes one byte past capacity_bytes_ (both replayed on
   the implementation under AddressSanitizer: heap-buffer-overflow WRITE in OnData). *)
Theorem C07_framer_no_oob_legacy_refuted :
  (exists user cap mem stream, N.of_nat (length mem) = cap /\ 24 <= cap /\
     exists i n, fe_legacy_on_data (fe_legacy_construct (Some user) 0 cap mem) stream = OobWrite i n) /\
  (let f := fe_legacy_construct (Some 0) 0 64 (repeat 0 64) in
   c_cap (f_core f) = 64 /\ fe_legacy_on_data f w2_stream = OobWrite 64 64).
Proof.
  split.
  - exists 1, 24, (repeat 0 24), w1_header. split; [reflexivity|]. split; [discriminate|].
    exists 21, 21. exact (proj2 (proj2 legacy_oob_after_alignment)).
  - exact legacy_oob_after_sync_run.
Qed.
Print Assumptions C07_framer_no_oob_legacy_refuted.
