(* C07 — C++ framer dispatches exactly the valid messages, for any chunking and capacity.
   Property theorems only; each is closed by [exact <lemma>] and followed by Print Assumptions.
   MODEL: Models/FramerCoreM.v (SetBuffer/Reset/OnData/Resync) + Models/CppFramerM.v (OnByte, CalculateCRC),
   every buffer access through checked accessors (outcomes OobRead / OobWrite), uint32 arithmetic with the
   wrap written in, the Resync loop on explicit fuel (outcome OutOfFuel).
   SPEC: Base/Scan.scan with the eager FusionEngine judge, reserved bytes zero, payload <= usable capacity - 24. *)
From Coq Require Import NArith ZArith List Bool.
From FEC Require Import Generated.FEConsts Generated.CppFramerConsts Base.Bytes Base.Crc32 Base.Scan Base.FEFormat
  Models.FramerCoreM Models.FramerSpecM Models.CppFramerM Proofs.CppFramerP Proofs.FramerCoreP Proofs.CppFramerRefineP.
Import ListNotations.
Open Scope N_scope.

(* The constants regenerated on every run from defs.h / fusion_engine_framer.cc / crc.cc agree with the wire
   format the SPEC judge is written with (sync bytes, header size and field offsets, clamp, alignment). *)
Theorem C07_source_constants :
  CPP_SYNC0 = SYNC0 /\ CPP_SYNC1 = SYNC1 /\ FR_HEADER_SIZE = N.of_nat HEADER_SIZE /\ FR_HEADER_SIZE = 24 /\
  FR_OFF_RESERVED = 2 /\ FR_OFF_CRC = 4 /\ FR_OFF_CRC_START = 8 /\ FR_OFF_PSIZE = 16 /\
  FR_CLAMP = 2147483647 /\ FR_ALIGN_MASK = 3 /\ FR_MANAGED_EXTRA = 3.
Proof. exact fe_consts_agree. Qed.
Print Assumptions C07_source_constants.

(* MAIN: for every buffer (user at any address / managed, any capacity), every initial memory content and
   every history of OnData / Reset / SetBuffer calls on bytes, the model of the repaired code never leaves
   its buffer and never runs out of fuel (the run is [Ok]), and each call returns the total size of, and
   makes callbacks for, exactly the messages the left-to-right scan delivers for that call — in order, once
   each, each passed from buffer index 0 (header followed by the intact payload). *)
Theorem C07_framer_refines_scan : forall user alloc_addr capacity mem ops,
  N.of_nat (length mem) = capacity + match user with None => FR_MANAGED_EXTRA | Some _ => 0 end ->
  Forall op_ok ops ->
  exists ff, run_ops fframer fe_op (fe_construct user alloc_addr capacity mem) ops =
             Ok (map fe_out (spec_run judge_fe_cap FR_HEADER_SIZE FR_CLAMP (fe_spec_construct user alloc_addr capacity) ops), ff).
Proof. exact fe_refines_scan_top. Qed.
Print Assumptions C07_framer_refines_scan.

(* ... in particular it never reads or writes outside its buffer, for all streams, chunkings, capacities and
   alignments (reads of the caller's bytes are by structural recursion over the chunk) *)
Theorem C07_framer_no_oob : forall user alloc_addr capacity mem ops,
  N.of_nat (length mem) = capacity + match user with None => FR_MANAGED_EXTRA | Some _ => 0 end ->
  Forall op_ok ops ->
  match run_ops fframer fe_op (fe_construct user alloc_addr capacity mem) ops with
  | Ok _ => True | OobRead _ _ => False | OobWrite _ _ => False | OutOfFuel => False end.
Proof. exact fe_no_oob_top. Qed.
Print Assumptions C07_framer_no_oob.

(* Any division of a stream into OnData() calls: the callbacks, concatenated, are the messages of ONE scan
   of the whole stream, and the return values add up to their total size. *)
Theorem C07_stream_exact_any_chunking : forall user alloc_addr capacity mem cap chunks,
  N.of_nat (length mem) = capacity + match user with None => FR_MANAGED_EXTRA | Some _ => 0 end ->
  sp_cap (fe_spec_construct user alloc_addr capacity) = Some cap ->
  Forall bytes_lt256 chunks ->
  exists outs ff, run_ops fframer fe_op (fe_construct user alloc_addr capacity mem) (map OpData chunks) = Ok (outs, ff) /\
    concat (map snd outs) = map fe_event_of (fst (scan (judge_fe_cap cap) 0 (concat chunks))) /\
    fold_right N.add 0 (map fst outs) = frames_total (fst (scan (judge_fe_cap cap) 0 (concat chunks))).
Proof. exact fe_stream_exact. Qed.
Print Assumptions C07_stream_exact_any_chunking.

(* "frames the same messages as the Python decoder configured with the equivalent size limit": the eager judge
   of the byte-wise framer and the lazy judge of the Python decoder (C04's SPEC, max_payload_len_bytes =
   capacity - 24) accept the same messages on every stream. *)
Theorem C07_framer_equiv_python : forall cap l,
  map snd (fst (scan (judge_fe_cap cap) 0 l)) = map snd (fst (scan (judge_py_cap cap) 0 l)).
Proof. exact fe_equiv_python_top. Qed.
Print Assumptions C07_framer_equiv_python.

(* What the scan accepts is what the property text lists. *)
Theorem C07_accept_means : forall cap l n, judge_fe_cap cap l = Accept n ->
  let h := parse_header (firstn HEADER_SIZE l) in
  (HEADER_SIZE <= length l)%nat /\ h_sync0 h = SYNC0 /\ h_sync1 h = SYNC1 /\ h_reserved h = 0 /\
  h_psize h <= cap - FR_HEADER_SIZE /\ n = (HEADER_SIZE + N.to_nat (h_psize h))%nat /\ (n <= length l)%nat /\
  crc32 (crc_region l n) = h_crc h.
Proof. exact fe_accept_means. Qed.
Print Assumptions C07_accept_means.

(* The base the model uses is the first 4-byte aligned address of the caller's buffer, and the usable capacity
   of the SPEC is what is left from there; a buffer with fewer than 24 usable bytes frames nothing. *)
Theorem C07_aligned_base_and_usable_capacity : forall a capacity,
  24 <= capacity ->
  (a + (4 - a mod 4) mod 4) mod 4 = 0 /\
  sp_cap (fe_spec_construct (Some a) 0 capacity) =
    (let c := N.min capacity FR_CLAMP - (4 - a mod 4) mod 4 in if c <? 24 then None else Some c).
Proof. exact fe_aligned_base_and_usable_capacity. Qed.
Print Assumptions C07_aligned_base_and_usable_capacity.

Theorem C07_reset_is_fresh : forall f : fframer,
  let c := f_core (fe_reset f) in
  c_state c = FS_SYNC0 /\ c_next c = 0 /\ c_size c = 0 /\
  c_cap c = c_cap (f_core f) /\ f_has (fe_reset f) = f_has f /\ c_buf c = c_buf (f_core f).
Proof. exact fe_reset_is_fresh. Qed.
Print Assumptions C07_reset_is_fresh.

(* "never writes outside its buffer" is FALSE of the code as it was before the two repairs: two concrete
   histories on which the faithful model of that code writes one byte past capacity_bytes_ (both replayed on
   the implementation under AddressSanitizer: heap-buffer-overflow WRITE in OnData; fixed by 780c743 and
   2aa3024).  The same inputs are harmless for the repaired model (Proofs/CppFramerP.v). *)
Theorem C07_framer_no_oob_legacy_refuted :
  (exists user cap mem stream, N.of_nat (length mem) = cap /\ 24 <= cap /\
     exists i n, fe_legacy_on_data (fe_legacy_construct (Some user) 0 cap mem) stream = OobWrite i n) /\
  (let f := fe_legacy_construct (Some 0) 0 64 (repeat 0 64) in
   c_cap (f_core f) = 64 /\ fe_legacy_on_data f w2_stream = OobWrite 64 64).
Proof. exact legacy_no_oob_refuted. Qed.
Print Assumptions C07_framer_no_oob_legacy_refuted.

(* Non-vacuity: a 27-byte user buffer at an address = 3 mod 4 (26 usable bytes), two stray sync bytes, then a
   26-byte message (payload 01 02, CRC 0xA3EDBD67) split over two calls, then Reset: the second call
   dispatches it. *)
Example C07_nonvacuous :
  let ops := [OpData ([46; 46] ++ firstn 10 ex_msg); OpData (skipn 10 ex_msg ++ [46]); OpReset] in
  Forall op_ok ops /\ N.of_nat (length (repeat 0 27)) = 27 /\
  sp_cap (fe_spec_construct (Some 3) 0 27) = Some 26 /\
  exists ff, run_ops fframer fe_op (fe_construct (Some 3) 0 27 (repeat 0 27)) ops =
             Ok ([(0, []); (26, [(0, ex_msg)]); (0, [])], ff).
Proof.
  split; [repeat constructor|]. split; [reflexivity|]. split; [reflexivity|].
  eexists. vm_compute. reflexivity.
Qed.
