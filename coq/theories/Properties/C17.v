(* C17 — floor stub, replaced by the property theorems *)
From Coq Require Import ZArith List Bool String.
From FEC Require Import Generated.DynEnumTables Models.DynEnumM.
Import ListNotations.
Open Scope Z_scope.
Example C17_model_runs : snd (call (init [("A"%string, 1)]) 7 false) = OMember ("_U_7"%string, 7).
Proof. vm_compute. reflexivity. Qed.
