(* C17 — unknown enumeration values are preserved, flagged and history-independent.
   Property theorems only; each is closed by [exact <lemma>] and followed by Print Assumptions.

   [d] is a class body (name, value entries, aliases included); [table_ok d]: at least one member and no member name
   with the reserved prefix — checked by computation for every IntEnum subclass of the package
   (C17_package_enums_ok).  [reachable d st]: st is the state of the class after any list of operations the
   property quantifies over ([allowed]): integer conversions strict or lenient, [] with ints, strict name
   conversions, name lookups outside the hidden namespace, list / len / reversed (also an iteration left open while
   unknown values are first encountered), and lenient conversion of a name
   only when the name resolves among the defined members. *)
From Coq Require Import ZArith List Bool String.
From FEC Require Import Generated.DynEnumTables Models.DynEnumM Proofs.DynEnumP Proofs.DynEnumMaskP Proofs.DynEnumTablesP.
Import ListNotations.
Open Scope Z_scope.

(* Converting any integer with unrecognised values permitted, after any history, yields a member whose integer
   value is that integer ... *)
Theorem C17_lenient_preserves : forall d st v, table_ok d = true -> reachable d st ->
  exists m, snd (call st v false) = OMember m /\ snd m = v /\ reachable d (fst (call st v false)).
Proof. exact lenient_preserves. Qed.
Print Assumptions C17_lenient_preserves.

(* ... which reports itself as unrecognised exactly when the integer is not the value of a defined member ... *)
Theorem C17_unrecognised_iff : forall d st v m, table_ok d = true -> reachable d st ->
  snd (call st v false) = OMember m -> (is_hidden m = true <-> ~ In v (map snd d)).
Proof. exact unrecognised_iff. Qed.
Print Assumptions C17_unrecognised_iff.

(* ... while the strict conversion of the same integer is refused, before and also after it has been seen
   leniently, and leaves the class unchanged. *)
Theorem C17_strict_refuses_unknown : forall d st v, table_ok d = true -> reachable d st -> ~ In v (map snd d) ->
  call st v true = (st, OErr ValueError) /\
  call (fst (call st v false)) v true = (fst (call st v false), OErr ValueError).
Proof. exact strict_refuses_unknown. Qed.
Print Assumptions C17_strict_refuses_unknown.

(* Defined values convert, strictly and leniently, to the defined member, unflagged, in every reachable state. *)
Theorem C17_strict_accepts_known : forall d st v, table_ok d = true -> reachable d st -> In v (map snd d) ->
  exists m, call st v true = (st, OMember m) /\ call st v false = (st, OMember m) /\
            by_value d v = Some m /\ snd m = v /\ is_hidden m = false.
Proof. exact strict_accepts_known. Qed.
Print Assumptions C17_strict_accepts_known.

(* Defined members, iteration order, length, reversed order, name lookups (as given / upper-cased, strict
   conversion of a name, case-insensitive) and lookups by defined value are the same in every reachable state
   as in the initial one.  Names with the reserved prefix are the library's hidden namespace and are excluded. *)
Theorem C17_defined_view_invariant : forall d st, table_ok d = true -> reachable d st ->
  defined st = d /\
  iter st = iter (init d) /\ len st = len (init d) /\ reversed st = reversed (init d) /\
  (forall s, hidden_ns s = false -> from_string st s = from_string (init d) s) /\
  (forall s, hidden_ns s = false -> snd (call_name st s true) = snd (call_name (init d) s true)) /\
  (forall s, hidden_ns_ci s = false -> from_string_ci st s = from_string_ci (init d) s) /\
  (forall v, In v (map snd d) -> by_value (entries st) v = by_value d v /\ super_call st v = super_call (init d) v).
Proof. exact defined_view_invariant. Qed.
Print Assumptions C17_defined_view_invariant.

(* History independence at full strength: along any allowed history, the public view of every answer (value,
   flag, name of a recognised member, refusal, list, length) is the SPEC function of the class body and that one
   operation — nothing that happened before matters. *)
Theorem C17_history_independent : forall d ops, table_ok d = true -> Forall (fun o => allowed d o = true) ops ->
  map abstract (snd (run (init d) ops)) = map (spec d) ops.
Proof. exact history_independent. Qed.
Print Assumptions C17_history_independent.

(* The construct adapter (EnumAdapter/AutoEnum): a wire integer parsed leniently and serialised again is the same
   integer, flagged iff unknown; the strict adapter refuses unknown integers. *)
Theorem C17_adapter_preserves : forall d st v, table_ok d = true -> reachable d st ->
  exists m, snd (adapter_decode st false v) = OMember m /\ adapter_encode m = v /\
            (is_hidden m = true <-> ~ In v (map snd d)) /\
            (~ In v (map snd d) -> snd (adapter_decode st true v) = OErr ValueError).
Proof. exact adapter_preserves. Qed.
Print Assumptions C17_adapter_preserves.

(* Every IntEnum subclass of the package (tables regenerated from /repo) meets the hypotheses. *)
Theorem C17_package_enums_ok : forall n d, table_of n = Some d -> table_ok d = true /\ NoDup (map fst d).
Proof. exact package_enums_ok_lemma. Qed.
Print Assumptions C17_package_enums_ok.

(* Mask helpers: for any offset, any members at or above it and any list S of integers at or above it (members or
   not, repeated or not, any order), to_values (to_bitmask S) is exactly the members whose value is in S, in
   definition order, for unbounded integers. *)
Theorem C17_mask_roundtrip : forall m (S : list Z),
  (forall e, In e (m_values m) -> m_offset m <= snd e) ->
  (forall v, In v S -> m_offset m <= v) ->
  roundtrip m (map IVal S) = inl (spec_roundtrip (m_values m) S).
Proof. exact mask_roundtrip_lemma. Qed.
Print Assumptions C17_mask_roundtrip.

(* "back to the same set": for S a set of member values the result has exactly the values of S. *)
Theorem C17_mask_roundtrip_set : forall m (S : list Z) r,
  (forall e, In e (m_values m) -> m_offset m <= snd e) ->
  (forall v, In v S -> In v (map snd (m_values m))) ->
  roundtrip m (map IVal S) = r ->
  exists l, r = inl l /\ (forall v, In v (map snd l) <-> In v S) /\ (forall e, In e l -> In e (m_values m)).
Proof. exact mask_roundtrip_set_lemma. Qed.
Print Assumptions C17_mask_roundtrip_set.

(* The same with member names mixed in, when [rt_pre] holds (members at or above the offset, names / values not
   repeated, each name is that of a known member whose bit the mask class defines under that name). *)
Theorem C17_mask_roundtrip_items : forall m items, rt_pre m items = true ->
  roundtrip m items = inl (spec_roundtrip_items (m_values m) items).
Proof. exact mask_roundtrip_items_lemma. Qed.
Print Assumptions C17_mask_roundtrip_items.

(* The package's helpers (SatelliteTypeMask, FrequencyBandMask ...): the model of the decorator applied to the
   generated enum table reproduces the helper the interpreter built; every member can be selected by value, by
   name and by lower-case name; every list of such items round-trips. *)
Theorem C17_package_masks_roundtrip : forall k off base vals, In (k, off, base, vals) mask_tables ->
  exists m, real_mask (fst k) = Some (inl m) /\ m_offset m = off /\ m_values m = vals /\
    (forall e, In e vals -> item_ok m (IName (fst e)) = true /\ item_ok m (IName (lower (fst e))) = true /\ item_ok m (IVal (snd e)) = true) /\
    (forall items, forallb (item_ok m) items = true -> roundtrip m items = inl (spec_roundtrip_items vals items)).
Proof. exact package_masks_roundtrip. Qed.
Print Assumptions C17_package_masks_roundtrip.

(* A mask helper whose known members include one below the offset refuses every to_values call (negative shift):
   the hypothesis of the round-trip theorems is necessary. *)
Theorem C17_mask_below_offset_refuses : forall off mask vals, (exists e, In e vals /\ snd e < off) ->
  to_values_from off mask vals = inr ValueError.
Proof. exact to_values_from_err. Qed.
Print Assumptions C17_mask_below_offset_refuses.

(* Finding (recorded as known): a lenient conversion of a name the enumeration does not define is outside [allowed]
   because it changes the view: the name becomes a visible member, its value is accepted strictly afterwards, the
   value depends on the history, and a hidden name taken this way blocks the value it stands for. *)
Theorem C17_lenient_unknown_name_refuted :
  table_ok demo = true /\
  allowed demo (OpCallName "Q" false) = false /\
  let st := fst (call_name (init demo) "Q" false) in
  iter st <> iter (init demo) /\ len st <> len (init demo) /\
  snd (call_name st "Q" true) = OMember ("Q"%string, -1) /\
  snd (call st (-1) true) = OMember ("Q"%string, -1) /\
  snd (call_name (fst (call (init demo) (-1) false)) "Q" false) = OMember (hidden_name (-1), -1) /\
  snd (call (fst (call_name (init demo) (hidden_name 7) false)) 7 false) = OErr TypeError.
Proof. exact lenient_unknown_name_changes_view. Qed.
Print Assumptions C17_lenient_unknown_name_refuted.

(* Record of the repaired defect (90813ad): the inherited reversed() listed hidden members; the repaired one does not. *)
Theorem C17_reversed_legacy_refuted :
  table_ok demo = true /\
  reversed_legacy (fst (call (init demo) 7 false)) <> reversed_legacy (init demo) /\
  reversed (fst (call (init demo) 7 false)) = reversed (init demo).
Proof. exact reversed_legacy_changes. Qed.
Print Assumptions C17_reversed_legacy_refuted.

(* Non-vacuity: a real table meets the hypotheses; a concrete allowed history reaches a state with hidden members;
   the statements above say something about it; the mask hypotheses are met by a helper with an offset. *)
Definition fb : list member := [("UNKNOWN"%string, 0); ("L1"%string, 1); ("L2"%string, 2); ("L5"%string, 5); ("L6"%string, 6)].
Definition h1 : list op := [OpCall 7 false; OpCall (-3) false; OpIter; OpCall 7 true; OpCallName "l1" true;
                            OpCallName (hidden_name 7) true; OpCallName "UNKNOWN" false; OpGetInt 2; OpLen; OpReversed;
                            OpIterDuring [7; 9]; OpReversedDuring [11]].
Example C17_nonvacuous :
  table_of "fusion_engine_client.messages.signal_defs:FrequencyBand" = Some fb /\
  table_ok fb = true /\ Forall (fun o => allowed fb o = true) h1 /\
  extra (fst (run (init fb) h1)) = [(hidden_name 7, 7); (hidden_name (-3), -3); (hidden_name 9, 9); (hidden_name 11, 11)] /\
  snd (run (init fb) h1) =
    [OMember (hidden_name 7, 7); OMember (hidden_name (-3), -3); OList fb; OErr ValueError; OMember ("L1"%string, 1);
     OErr KeyError; OMember ("UNKNOWN"%string, 0); OMember ("L2"%string, 2); OLen 5; OList (rev fb); OList fb; OList (rev fb)] /\
  ~ In 7 (map snd fb) /\ In 5 (map snd fb) /\ hidden_ns "l1" = false /\ hidden_ns (lower (hidden_name 7)) = true /\
  (let m := mkMask 1 [("A"%string, 1); ("B"%string, 2); ("C"%string, 5)] [("A"%string, 1); ("B"%string, 2); ("C"%string, 16)] in
   rt_pre m [IVal 5; IName "a"; IVal 9] = true /\
   roundtrip m [IVal 5; IName "a"; IVal 9] = inl [("A"%string, 1); ("C"%string, 5)] /\
   to_bitmask m [IVal 5; IName "a"; IVal 9] = inl 273).
Proof.
  split; [vm_compute; reflexivity|]. split; [reflexivity|].
  split; [repeat constructor|]. split; [vm_compute; reflexivity|]. split; [vm_compute; reflexivity|].
  split; [cbn; intuition discriminate|]. split; [cbn; auto 10|].
  repeat split; vm_compute; reflexivity.
Qed.
