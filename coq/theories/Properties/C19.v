(* C19 — yaw/heading conversions are mutually inverse and range-normalised.
   Property theorems only; each is closed by [exact <lemma>] and followed by Print Assumptions.
   Part 1: the exact SPEC over the rationals (every finite binary64 is a rational).  H is the half turn in the
           unit used (180 for degrees; the radian variants are the same functions at H = pi).
   Part 2: the binary64 MODEL of the repaired code (Models/HeadingF.v): range for ALL finite inputs, congruence
           to (quarter turn - x) up to explicit rounding terms for ALL finite inputs, and MODEL-vs-SPEC.
           FR f is the real value of the float f (Flocq's B2R (Prim2B f)); u is Flocq's ulp for binary64. *)
From Coq Require Import ZArith QArith Qreals Reals Floats SpecFloat Lra.
From Flocq Require Import Core.Zaux Core.Raux Core.Defs Core.Generic_fmt Core.Ulp IEEE754.BinarySingleNaN IEEE754.PrimFloat.
From FEC Require Import Generated.HeadingConsts Models.HeadingM Proofs.HeadingMP Models.HeadingF Proofs.HeadingFP Proofs.HeadingLinkP Proofs.HeadingInvP.
Open Scope Q_scope.

(* ------------------------------- Part 1: exact SPEC ------------------------------- *)

(* heading lies in [0, 360), yaw in [-180, 180) — for any unit. *)
Theorem C19_heading_range : forall H y, 0 < H -> 0 <= Heading_heading H y /\ Heading_heading H y < 2 * H.
Proof. exact heading_range. Qed.
Print Assumptions C19_heading_range.
Theorem C19_yaw_range : forall H h, 0 < H -> - H <= Heading_yaw H h /\ Heading_yaw H h < H.
Proof. exact yaw_range. Qed.
Print Assumptions C19_yaw_range.

(* each is congruent, modulo a full turn, to a quarter turn minus the argument (README: heading = 90 - yaw) ... *)
Theorem C19_heading_congruent : forall H y, Heading_congr (2 * H) (Heading_heading H y) (H / 2 - y).
Proof. exact heading_congr. Qed.
Print Assumptions C19_heading_congruent.
Theorem C19_yaw_congruent : forall H h, Heading_congr (2 * H) (Heading_yaw H h) (H / 2 - h).
Proof. exact yaw_congr. Qed.
Print Assumptions C19_yaw_congruent.

(* ... and is the only such angle in its range, so range + congruence characterise the functions. *)
Theorem C19_heading_unique : forall H y r, 0 < H -> 0 <= r < 2 * H -> Heading_congr (2 * H) r (H / 2 - y) -> r == Heading_heading H y.
Proof. exact heading_unique. Qed.
Print Assumptions C19_heading_unique.
Theorem C19_yaw_unique : forall H h r, 0 < H -> - H <= r < H -> Heading_congr (2 * H) r (H / 2 - h) -> r == Heading_yaw H h.
Proof. exact yaw_unique. Qed.
Print Assumptions C19_yaw_unique.

(* the two conversions are inverse up to a full turn, and exactly inverse on the canonical ranges. *)
Theorem C19_heading_yaw_inverse : forall H,
  (forall y, Heading_congr (2 * H) (Heading_yaw H (Heading_heading H y)) y) /\
  (forall h, Heading_congr (2 * H) (Heading_heading H (Heading_yaw H h)) h) /\
  (0 < H -> forall y, - H <= y < H -> Heading_yaw H (Heading_heading H y) == y) /\
  (0 < H -> forall h, 0 <= h < 2 * H -> Heading_heading H (Heading_yaw H h) == h).
Proof.
  exact (fun H => conj (yaw_heading_congr H) (conj (heading_yaw_congr H)
        (conj (fun p y => yaw_heading_id H y p) (fun p h => heading_yaw_id H h p)))).
Qed.
Print Assumptions C19_heading_yaw_inverse.

(* the radian variants agree with the degree variants: converting the unit by any factor k > 0 (k = pi/180)
   commutes with both conversions. *)
Theorem C19_unit_change : forall k H x, 0 < k -> 0 < H ->
  Heading_heading (k * H) (k * x) == k * Heading_heading H x /\ Heading_yaw (k * H) (k * x) == k * Heading_yaw H x.
Proof. exact (fun k H x pk pH => conj (heading_scale k H x pk pH) (yaw_scale k H x pk pH)). Qed.
Print Assumptions C19_unit_change.

(* the degree instances as named in the design: wrap360 / wrap180 *)
Theorem C19_degrees : forall x,
  (0 <= Heading_heading_deg x /\ Heading_heading_deg x < 360) /\ (-(180) <= Heading_yaw_deg x /\ Heading_yaw_deg x < 180) /\
  Heading_congr 360 (Heading_heading_deg x) (90 - x) /\ Heading_congr 360 (Heading_yaw_deg x) (90 - x).
Proof. exact degrees_instance. Qed.
Print Assumptions C19_degrees.

(* Non-vacuity: concrete values (including the inputs on which the pre-fix code was wrong). *)
Example C19_nonvacuous :
  Heading_heading_deg 0 == 90 /\ Heading_heading_deg 300 == 150 /\ Heading_yaw_deg 300 == 150 /\
  Heading_heading_deg (-(1#3)) == 271 # 3 /\ Heading_yaw_deg 270 == -(180) /\ Heading_heading_deg 90 == 0 /\
  Heading_yaw 180 (Heading_heading 180 (-(180))) == -(180).
Proof. vm_compute. repeat split. Qed.

(* ------------------------------- Part 2: binary64 MODEL ------------------------------- *)
Close Scope Q_scope.
Local Notation u := (ulp radix2 (fexp prec emax)).

(* C fmod as modelled (Heading_fmod) is exact: for finite a and finite b > 0 the result is finite, equals
   a - n*b for an integer n, has the sign of a and magnitude below b (and not above |a|). *)
Theorem C19_fmod_exact : forall a b, fin a -> fin b -> (0 < FR b)%R ->
  let r := Heading_fmod a b in
  fin r /\ (Rabs (FR r) < FR b)%R /\ ((0 <= FR a)%R -> (0 <= FR r)%R) /\ ((FR a <= 0)%R -> (FR r <= 0)%R) /\
  (exists n : Z, FR r = (FR a - IZR n * FR b)%R) /\ (Rabs (FR r) <= Rabs (FR a))%R.
Proof. exact fmod_R. Qed.
Print Assumptions C19_fmod_exact.

Example C19_nonvacuous_fmod :
  fin (-30)%float /\ fin 360%float /\ (0 < FR 360%float)%R /\
  Heading_show (Heading_fmod (-30) 360) = Heading_show (-30)%float /\       (* sign of the dividend *)
  Heading_show (Heading_fmod 725.5 360) = Heading_show 5.5%float /\
  Heading_show (Heading_fmod (-720) 360) = Heading_show (-0)%float.
Proof. repeat split; try reflexivity. rewrite FR_360. lra. Qed.

(* RANGE, for every finite binary64 input (no magnitude bound): the result is finite and lies in the half-open range,
   stated with the primitive float comparisons. *)
Theorem C19_heading_range_f : forall x, PrimFloat.is_finite x = true ->
  PrimFloat.is_finite (Heading_y2h_deg x) = true /\ (0 <=? Heading_y2h_deg x)%float = true /\ (Heading_y2h_deg x <? 360)%float = true.
Proof. exact heading_range_deg_f. Qed.
Print Assumptions C19_heading_range_f.
Theorem C19_yaw_range_f : forall x, PrimFloat.is_finite x = true ->
  PrimFloat.is_finite (Heading_h2y_deg x) = true /\ (-180 <=? Heading_h2y_deg x)%float = true /\ (Heading_h2y_deg x <? 180)%float = true.
Proof. exact yaw_range_deg_f. Qed.
Print Assumptions C19_yaw_range_f.
(* radians: [0, 2*math.pi) and [-math.pi, math.pi) with the binary64 constants of the source; since the binary64
   math.pi is below pi these are inside [0, 2 pi) and [-pi, pi). *)
Theorem C19_heading_range_rad_f : forall x, PrimFloat.is_finite x = true ->
  PrimFloat.is_finite (Heading_y2h_rad x) = true /\ (0 <=? Heading_y2h_rad x)%float = true /\ (Heading_y2h_rad x <? 2 * Heading_pi)%float = true.
Proof. exact heading_range_rad_f. Qed.
Print Assumptions C19_heading_range_rad_f.
Theorem C19_yaw_range_rad_f : forall x, PrimFloat.is_finite x = true ->
  PrimFloat.is_finite (Heading_h2y_rad x) = true /\ (- Heading_pi <=? Heading_h2y_rad x)%float = true /\ (Heading_h2y_rad x <? Heading_pi)%float = true.
Proof. exact yaw_range_rad_f. Qed.
Print Assumptions C19_yaw_range_rad_f.

(* CONGRUENCE up to rounding, for every finite input: the result differs from 90 - x by a whole number of turns
   plus at most the rounding error of the subtraction 90.0 - x (half an ulp of 90 - x) and of the additions. *)
Theorem C19_heading_congruent_f : forall x, PrimFloat.is_finite x = true ->
  exists n : Z, (Rabs (FR (Heading_y2h_deg x) - (90 - FR x) - 360 * IZR n) <= / 2 * u (90 - FR x) + bpow radix2 (-44))%R.
Proof. exact heading_close_deg_f. Qed.
Print Assumptions C19_heading_congruent_f.
Theorem C19_yaw_congruent_f : forall x, PrimFloat.is_finite x = true ->
  exists n : Z, (Rabs (FR (Heading_h2y_deg x) - (90 - FR x) - 360 * IZR n) <=
     / 2 * u (90 - FR x) + / 2 * u (FR (90 - x)%float + 180) + bpow radix2 (-44) + bpow radix2 (-45))%R.
Proof. exact yaw_close_deg_f. Qed.
Print Assumptions C19_yaw_congruent_f.
Theorem C19_heading_congruent_rad_f : forall x, PrimFloat.is_finite x = true ->
  exists n : Z, (Rabs (FR (Heading_y2h_rad x) - (FR (Heading_pi / 2)%float - FR x) - IZR n * FR (2 * Heading_pi)%float) <=
     / 2 * u (FR (Heading_pi / 2)%float - FR x) + / 2 * u (FR (2 * Heading_pi)%float + FR (2 * Heading_pi)%float))%R.
Proof. exact heading_close_rad_f. Qed.
Print Assumptions C19_heading_congruent_rad_f.
Theorem C19_yaw_congruent_rad_f : forall x, PrimFloat.is_finite x = true ->
  exists n : Z, (Rabs (FR (Heading_h2y_rad x) - (FR (Heading_pi / 2)%float - FR x) - IZR n * FR (2 * Heading_pi)%float) <=
     / 2 * u (FR (Heading_pi / 2)%float - FR x) + / 2 * u (FR (Heading_pi / 2 - x)%float + FR Heading_pi)
     + / 2 * u (FR (2 * Heading_pi)%float + FR (2 * Heading_pi)%float) + / 2 * u (FR (2 * Heading_pi)%float))%R.
Proof. exact yaw_close_rad_f. Qed.
Print Assumptions C19_yaw_congruent_rad_f.

(* INVERSE up to a full turn on the binary64 model (degrees), for every finite input: composing the two conversions
   returns the input modulo 360 up to the rounding of the first subtraction(s) and 2^-41. *)
Theorem C19_heading_yaw_inverse_f : forall x, PrimFloat.is_finite x = true ->
  (exists n : Z, (Rabs (FR (Heading_h2y_deg (Heading_y2h_deg x)) - FR x - 360 * IZR n) <= / 2 * u (90 - FR x) + bpow radix2 (-41))%R) /\
  (exists n : Z, (Rabs (FR (Heading_y2h_deg (Heading_h2y_deg x)) - FR x - 360 * IZR n)
                  <= / 2 * u (90 - FR x) + / 2 * u (FR (90 - x)%float + 180) + bpow radix2 (-41))%R).
Proof. exact (fun x Fx => conj (yaw_heading_inverse_deg_f x Fx) (heading_yaw_inverse_deg_f x Fx)). Qed.
Print Assumptions C19_heading_yaw_inverse_f.

(* MODEL vs SPEC (degrees): with Heading_F2Q x the exact rational value of the input, the model's result and the
   exact SPEC's result differ by a whole number of turns plus the same rounding terms. *)
Theorem C19_model_vs_spec_heading : forall x, PrimFloat.is_finite x = true ->
  exists n : Z, (Rabs (FR (Heading_y2h_deg x) - Q2R (Heading_heading_deg (Heading_F2Q x)) - 360 * IZR n)
                <= / 2 * u (90 - FR x) + bpow radix2 (-44))%R.
Proof. exact heading_model_vs_spec_deg. Qed.
Print Assumptions C19_model_vs_spec_heading.
Theorem C19_model_vs_spec_yaw : forall x, PrimFloat.is_finite x = true ->
  exists n : Z, (Rabs (FR (Heading_h2y_deg x) - Q2R (Heading_yaw_deg (Heading_F2Q x)) - 360 * IZR n)
                <= / 2 * u (90 - FR x) + / 2 * u (FR (90 - x)%float + 180) + bpow radix2 (-44) + bpow radix2 (-45))%R.
Proof. exact yaw_model_vs_spec_deg. Qed.
Print Assumptions C19_model_vs_spec_yaw.
Theorem C19_F2Q_is_value : forall f, Q2R (Heading_F2Q f) = FR f.
Proof. exact Q2R_F2Q. Qed.
Print Assumptions C19_F2Q_is_value.

(* Non-vacuity of the binary64 theorems: finite inputs exist, including the corner case where
   90.0 - x is a tiny negative number and tiny + 360.0 rounds to exactly 360.0 (x = nextafter(90, +inf)). *)
Example C19_nonvacuous_f :
  PrimFloat.is_finite 300 = true /\ PrimFloat.is_finite 0x1.6800000000001p+6 = true /\
  Heading_show (Heading_y2h_deg 0) = Heading_show 90%float /\
  Heading_show (Heading_y2h_deg 300) = Heading_show 150%float /\
  Heading_show (Heading_h2y_deg 300) = Heading_show 150%float /\
  Heading_show (Heading_fmod (90 - 0x1.6800000000001p+6) 360 + 360)%float = Heading_show 360%float /\
  Heading_show (Heading_y2h_deg 0x1.6800000000001p+6) = Heading_show 0%float.
Proof. exact (conj eq_refl (conj eq_refl repaired_values)). Qed.

(* What the pre-fix code computed (the record of the finding that led to the fix). *)
Theorem C19_legacy_refuted :
  (Heading_show (Heading_y2h_deg_legacy 0) = Heading_show 270%float /\
   Heading_show (Heading_y2h_deg_legacy 300) = Heading_show (-30)%float /\
   Heading_show (Heading_h2y_deg_legacy 300) = Heading_show (-210)%float) /\
  ((0 <=? Heading_y2h_deg_legacy 300)%float = false /\ (-180 <=? Heading_h2y_deg_legacy 300)%float = false).
Proof. exact (conj legacy_values legacy_out_of_range). Qed.
Print Assumptions C19_legacy_refuted.
