(* C19 — yaw/heading conversions are mutually inverse and range-normalised.
   Property theorems only; each is closed by [exact <lemma>] and followed by Print Assumptions.
   Part 1: the exact SPEC over the rationals (every finite binary64 is a rational).  H is the half turn in the
   unit used (180 for degrees; the radian variants are the same functions at H = pi).
   Part 2: the binary64 MODEL of the code. *)
From Coq Require Import ZArith QArith PrimFloat.
From FEC Require Import Models.HeadingM Proofs.HeadingMP Models.HeadingF Proofs.HeadingFP.
Open Scope Q_scope.

(* heading lies in [0, 360), yaw in [-180, 180) — for any unit. *)
Theorem C19_heading_range : forall H y, 0 < H -> 0 <= Heading_heading H y /\ Heading_heading H y < 2 * H.
Proof. exact heading_range. Qed.
Print Assumptions C19_heading_range.
Theorem C19_yaw_range : forall H h, 0 < H -> - H <= Heading_yaw H h /\ Heading_yaw H h < H.
Proof. exact yaw_range. Qed.
Print Assumptions C19_yaw_range.

(* each is congruent, modulo a full turn, to a quarter turn minus the argument (README: heading = 90 - yaw) ... *)
Theorem C19_heading_congruent : forall H y, Heading_congr (2 * H) (Heading_heading H y) (H / 2 - y).
Proof. exact heading_congr. Qed.
Print Assumptions C19_heading_congruent.
Theorem C19_yaw_congruent : forall H h, Heading_congr (2 * H) (Heading_yaw H h) (H / 2 - h).
Proof. exact yaw_congr. Qed.
Print Assumptions C19_yaw_congruent.

(* ... and is the only such angle in its range, so range + congruence characterise the functions. *)
Theorem C19_heading_unique : forall H y r, 0 < H -> 0 <= r < 2 * H -> Heading_congr (2 * H) r (H / 2 - y) -> r == Heading_heading H y.
Proof. exact heading_unique. Qed.
Print Assumptions C19_heading_unique.
Theorem C19_yaw_unique : forall H h r, 0 < H -> - H <= r < H -> Heading_congr (2 * H) r (H / 2 - h) -> r == Heading_yaw H h.
Proof. exact yaw_unique. Qed.
Print Assumptions C19_yaw_unique.

(* the two conversions are inverse up to a full turn, and exactly inverse on the canonical ranges. *)
Theorem C19_heading_yaw_inverse : forall H,
  (forall y, Heading_congr (2 * H) (Heading_yaw H (Heading_heading H y)) y) /\
  (forall h, Heading_congr (2 * H) (Heading_heading H (Heading_yaw H h)) h) /\
  (0 < H -> forall y, - H <= y < H -> Heading_yaw H (Heading_heading H y) == y) /\
  (0 < H -> forall h, 0 <= h < 2 * H -> Heading_heading H (Heading_yaw H h) == h).
Proof.
  exact (fun H => conj (yaw_heading_congr H) (conj (heading_yaw_congr H)
        (conj (fun p y => yaw_heading_id H y p) (fun p h => heading_yaw_id H h p)))).
Qed.
Print Assumptions C19_heading_yaw_inverse.

(* the radian variants agree with the degree variants: converting the unit by any factor k > 0 (k = pi/180)
   commutes with both conversions. *)
Theorem C19_unit_change : forall k H x, 0 < k -> 0 < H ->
  Heading_heading (k * H) (k * x) == k * Heading_heading H x /\ Heading_yaw (k * H) (k * x) == k * Heading_yaw H x.
Proof. exact (fun k H x pk pH => conj (heading_scale k H x pk pH) (yaw_scale k H x pk pH)). Qed.
Print Assumptions C19_unit_change.

(* the degree instances as named in the design: wrap360 / wrap180 *)
Theorem C19_degrees : forall x,
  (0 <= Heading_heading_deg x /\ Heading_heading_deg x < 360) /\ (-(180) <= Heading_yaw_deg x /\ Heading_yaw_deg x < 180) /\
  Heading_congr 360 (Heading_heading_deg x) (90 - x) /\ Heading_congr 360 (Heading_yaw_deg x) (90 - x).
Proof. exact degrees_instance. Qed.
Print Assumptions C19_degrees.

(* Non-vacuity: concrete values (including the inputs on which the pre-fix code was wrong). *)
Example C19_nonvacuous :
  Heading_heading_deg 0 == 90 /\ Heading_heading_deg 300 == 150 /\ Heading_yaw_deg 300 == 150 /\
  Heading_heading_deg (-(1#3)) == 271 # 3 /\ Heading_yaw_deg 270 == -(180) /\ Heading_heading_deg 90 == 0 /\
  Heading_yaw 180 (Heading_heading 180 (-(180))) == -(180).
Proof. vm_compute. repeat split. Qed.

(* ---------------- binary64 model ---------------- *)

(* What the pre-fix code computed (the record of the finding that led to the fix), and the repaired code. *)
Theorem C19_legacy_refuted :
  Heading_show (Heading_y2h_deg_legacy 0) = Heading_show 270%float /\
  Heading_show (Heading_y2h_deg_legacy 300) = Heading_show (-30)%float /\
  Heading_show (Heading_h2y_deg_legacy 300) = Heading_show (-210)%float.
Proof. exact legacy_values. Qed.
Print Assumptions C19_legacy_refuted.
