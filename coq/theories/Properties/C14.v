(* C14 — RTCM framer dispatches exactly the CRC-valid RTCM 3 frames.
   Property theorems only; each is closed by [exact <lemma>] and followed by Print Assumptions.
   MODEL: Models/FramerCoreM.v (SetBuffer/Reset/OnData/Resync) + Models/RtcmFramerM.v (OnByte), every
   buffer access through checked accessors (outcome OobRead / OobWrite), the Resync loop on explicit fuel
   (outcome OutOfFuel).  SPEC: Base/Scan.scan with Models/RtcmFormatM.judge_rtcm at the usable capacity. *)
From Coq Require Import NArith ZArith List Bool.
From FEC Require Import Generated.RtcmConsts Generated.Crc24qTable Base.Scan Models.FramerCoreM Models.FramerSpecM
  Models.RtcmFormatM Models.RtcmFramerM Proofs.RtcmFormatP Proofs.RtcmFramerP Proofs.FramerCoreP Proofs.RtcmRefineP.
Import ListNotations.
Open Scope N_scope.

(* The 256-entry table in rtcm_framer.cc (regenerated from the source on every run) is the CRC-24Q table
   of generator polynomial 0x1864CFB; a corrupted entry makes this computation fail. *)
Theorem C14_crc24q_table_correct : crc24q_table_src = crc24q_table_computed.
Proof. exact crc24q_table_correct. Qed.
Print Assumptions C14_crc24q_table_correct.

(* The constants regenerated from rtcm_framer.cc on every run (preamble, header and CRC sizes, 10-bit length
   mask, message-number shift, CRC init/mask, SetBuffer clamp and alignment) are those of the RTCM 3 transport
   layer the SPEC is written with. *)
Theorem C14_source_constants :
  RTCM_PREAMBLE = SPEC_PREAMBLE /\ RTCM_HEADER_BYTES = SPEC_HEADER_BYTES /\ RTCM_CRC_BYTES = SPEC_CRC_BYTES /\
  RTCM_MAX_PAYLOAD = SPEC_MAX_PAYLOAD /\ RTCM_LEN_MASK = SPEC_LEN_MASK /\ RTCM_TYPE_SHIFT = SPEC_TYPE_SHIFT /\
  RTCM_CRC_INIT = 0 /\ RTCM_CRC_MASK = 16777215 /\ RTCM_CLAMP = 2147483647 /\ RTCM_ALIGN_MASK = 3.
Proof. exact rtcm_consts_agree. Qed.
Print Assumptions C14_source_constants.

(* CRC24Hash() as written (32-bit accumulator, table lookup, final mask) is the bit-serial CRC-24Q. *)
Theorem C14_crc24_hash_is_crc24q : forall l, Forall (fun b => b < 256) l -> crc24_hash l = crc24q l.
Proof. exact crc24_hash_eq_spec. Qed.
Print Assumptions C14_crc24_hash_is_crc24q.

(* The acceptance test of the SPEC scan is a legitimate judge (so all of Base/Scan.v applies), and what it
   accepts is what the property text lists. *)
Theorem C14_judge_ok : forall cap, JudgeOK (judge_rtcm cap) /\ JudgeLocal (judge_rtcm cap).
Proof. exact rtcm_judge_ok_local. Qed.
Print Assumptions C14_judge_ok.

Theorem C14_accept_means : forall cap l n, judge_rtcm cap l = Accept n ->
  nth 0 l 0 = SPEC_PREAMBLE /\ (3 <= length l)%nat /\
  n = Nat.add (N.to_nat (rtcm_len (nth 1 l 0) (nth 2 l 0))) 6 /\ (n <= length l)%nat /\ N.of_nat n <= cap /\
  crc24q (firstn (n - 3) l) = be (Bytes.sub l (n - 3) 3).
Proof. exact judge_rtcm_accept_inv. Qed.
Print Assumptions C14_accept_means.

(* MAIN: for every buffer (user at any address / managed, any capacity), every initial memory content and
   every history of OnData / Reset / SetBuffer calls on bytes, the model never leaves its buffer and never
   runs out of fuel (the run is [Ok]), and each call returns the total size of, and makes callbacks for,
   exactly the frames the left-to-right scan delivers for that call — in order, once each, each passed from
   buffer index 0 with its message number and full length. *)
Theorem C14_rtcm_refines_scan : forall user alloc_addr capacity mem ops,
  N.of_nat (length mem) = capacity + match user with None => RTCM_MANAGED_EXTRA | Some _ => 0 end ->
  Forall op_ok ops ->
  exists ff, run_ops rframer rtcm_op (rtcm_construct user alloc_addr capacity mem) ops =
             Ok (map rtcm_out (spec_run judge_rtcm RTCM_OVERHEAD_BYTES RTCM_CLAMP (rtcm_spec_construct user alloc_addr capacity) ops), ff).
Proof. exact rtcm_refines_scan_top. Qed.
Print Assumptions C14_rtcm_refines_scan.

(* ... in particular no read or write outside the buffer, for all streams, chunkings, capacities, alignments *)
Theorem C14_rtcm_no_oob : forall user alloc_addr capacity mem ops,
  N.of_nat (length mem) = capacity + match user with None => RTCM_MANAGED_EXTRA | Some _ => 0 end ->
  Forall op_ok ops ->
  match run_ops rframer rtcm_op (rtcm_construct user alloc_addr capacity mem) ops with
  | Ok _ => True | OobRead _ _ => False | OobWrite _ _ => False | OutOfFuel => False end.
Proof. exact rtcm_no_oob_top. Qed.
Print Assumptions C14_rtcm_no_oob.

(* Any division of a stream into OnData() calls: the callbacks, concatenated, are the frames of ONE scan of
   the whole stream; the return values add up to their total size; GetNumDecodedMessages() equals the number
   of callbacks (the counter is a uint32_t). *)
Theorem C14_stream_exact_any_chunking : forall user alloc_addr capacity mem cap chunks,
  N.of_nat (length mem) = capacity + match user with None => RTCM_MANAGED_EXTRA | Some _ => 0 end ->
  sp_cap (rtcm_spec_construct user alloc_addr capacity) = Some cap ->
  Forall bytes_lt256 chunks ->
  exists outs ff, run_ops rframer rtcm_op (rtcm_construct user alloc_addr capacity mem) (map OpData chunks) = Ok (outs, ff) /\
    concat (map snd outs) = map rtcm_event_of (fst (scan (judge_rtcm cap) 0 (concat chunks))) /\
    fold_right N.add 0 (map fst outs) = frames_total (fst (scan (judge_rtcm cap) 0 (concat chunks))) /\
    u32 (rtcm_decoded ff) = u32 (N.of_nat (length (concat (map snd outs)))).
Proof. exact rtcm_stream_exact. Qed.
Print Assumptions C14_stream_exact_any_chunking.

(* The usable capacity the SPEC uses is what is left of the buffer from the first 4-byte aligned address. *)
Theorem C14_usable_capacity : forall a capacity,
  6 <= capacity ->
  sp_cap (rtcm_spec_construct (Some a) 0 capacity) =
    (let c := N.min capacity RTCM_CLAMP - (4 - a mod 4) mod 4 in if c <? 6 then None else Some c).
Proof. exact rtcm_usable_capacity. Qed.
Print Assumptions C14_usable_capacity.

Theorem C14_reset_is_fresh : forall f : rframer,
  let c := f_core (rtcm_reset f) in
  c_state c = RS_SYNC /\ c_next c = 0 /\ c_size c = 0 /\ c_x c = (0, 0) /\
  c_cap c = c_cap (f_core f) /\ f_has (rtcm_reset f) = f_has f /\ length (c_buf c) = length (c_buf (f_core f)).
Proof. exact rtcm_reset_is_fresh. Qed.
Print Assumptions C14_reset_is_fresh.

(* Non-vacuity: a concrete instance meets the hypotheses and the result is not trivial — a 9-byte user buffer
   at an address = 1 mod 4 (6 usable bytes), a stray 0xD3, then the empty frame D3 00 00 47 EA 4B split over
   two calls, then a Reset. *)
Example C14_nonvacuous :
  let ops := [OpData [211; 211; 0]; OpData [0; 71; 234; 75; 5]; OpReset] in
  Forall op_ok ops /\ N.of_nat (length (repeat 0 9)) = 9 /\
  sp_cap (rtcm_spec_construct (Some 1) 0 9) = Some 6 /\
  exists ff, run_ops rframer rtcm_op (rtcm_construct (Some 1) 0 9 (repeat 0 9)) ops =
             Ok ([(0, []); (6, [(1150, [211; 0; 0; 71; 234; 75])]); (0, [])], ff).
Proof.
  split; [repeat constructor|]. split; [reflexivity|]. split; [reflexivity|].
  eexists. vm_compute. reflexivity.
Qed.
