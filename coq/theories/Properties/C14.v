(* C14 — RTCM framer dispatches exactly the CRC-valid RTCM 3 frames.
   Property theorems only; each is closed by [exact <lemma>] and followed by Print Assumptions. *)
From Coq Require Import NArith ZArith List Bool.
From FEC Require Import Generated.RtcmConsts Generated.Crc24qTable Base.Scan Models.FramerCoreM Models.FramerSpecM
  Models.RtcmFormatM Models.RtcmFramerM Proofs.RtcmFormatP Proofs.RtcmFramerP.
Import ListNotations.
Open Scope N_scope.

(* The 256-entry table in rtcm_framer.cc (regenerated from the source on every run) is the CRC-24Q table
   of generator polynomial 0x1864CFB; a corrupted entry makes this computation fail. *)
Theorem C14_crc24q_table_correct : crc24q_table_src = crc24q_table_computed.
Proof. exact crc24q_table_correct. Qed.
Print Assumptions C14_crc24q_table_correct.

(* The acceptance test of the SPEC scan is a legitimate judge: verdicts are stable under more bytes,
   accepted lengths lie within the bytes seen, and acceptance depends only on the frame's own bytes. *)
Theorem C14_judge_ok : forall cap, JudgeOK (judge_rtcm cap) /\ JudgeLocal (judge_rtcm cap).
Proof. intros cap. split; [exact (judge_rtcm_ok cap) | exact (judge_rtcm_local cap)]. Qed.
Print Assumptions C14_judge_ok.

Theorem C14_reset_is_fresh : forall f : rframer,
  let c := f_core (rtcm_reset f) in
  c_state c = RS_SYNC /\ c_next c = 0 /\ c_size c = 0 /\ c_x c = (0, 0) /\
  c_cap c = c_cap (f_core f) /\ f_has (rtcm_reset f) = f_has f /\ length (c_buf c) = length (c_buf (f_core f)).
Proof. exact rtcm_reset_is_fresh. Qed.
Print Assumptions C14_reset_is_fresh.
