(* C10 — Filtered log reads return exactly the matching messages, in file order.
   Property theorems only; each is closed by [exact <lemma>] and followed by Print Assumptions.

   MODEL: Models/LogReaderM.v [read_log fixed] = MixedLogReader.__init__ (index of the file incl. the
   max_bytes block truncation, source-id discovery, the filter_in_place calls, original[time_range][types])
   followed by iteration with _read_next (re-validation at the indexed offset, source test, the two
   max_bytes tests, result assembly under the five return_* flags); FileIndex operations in
   Models/FileIndexOpsM.v.  SPEC: [spec_read] = the messages m of the unfiltered log with
   type_ok /\ source_ok /\ bytes_ok /\ in_time_pos, where in_time_pos decides a timed message by its own
   (index-resolution) time and an untimed one by its position among ALL timed messages of the log. *)
From Coq Require Import ZArith List Bool Sorted.
From Coq Require Import NArith.
From FEC Require Import Generated.FEConsts Base.Bytes Base.Scan Base.FEFormat
  Models.FastIndexerM Proofs.FastIndexerSpecP Models.FileScanM Models.FileIndexIOM Models.SystemLinkM Proofs.FileIndexIOP.
From FEC Require Import Generated.LogReaderConsts Models.FileIndexOpsM Models.LogReaderM
  Proofs.FileIndexOpsP Proofs.LogReaderP Proofs.LogReaderSpecP Proofs.LogReaderConditionsP Proofs.LogReaderExamplesP
  Proofs.LogReaderLinkP.
Import ListNotations.
Open Scope Z_scope.

(* The full-strength statement: for every well-formed log and every filter / option combination. *)
Definition C10_read_is_filter_full : Prop :=
  forall c f srcs types R, wf_file f -> read_log fixed c f srcs types R = Ok (spec_read c f srcs types R).

(* It is false of the (faithful model of the) code in exactly one way, recorded as a known finding:
   a time bound on a log without any P1 time raises IndexError (explicit library design).  The witness is
   replayed on the implementation by the check (KNOWN-FINDING line). *)
Theorem C10_read_is_filter_full_refuted : ~ C10_read_is_filter_full.
Proof. exact read_is_filter_full_refuted. Qed.
Print Assumptions C10_read_is_filter_full_refuted.

Theorem C10_known_findings_witnesses :
  read_log fixed (cfg_of None false true false true false) ex3_file None None (Some (rel_range None (Some 240))) = Err IndexError /\
  length (spec_read (cfg_of None false true false true false) ex3_file None None (Some (rel_range None (Some 240)))) = 3%nat.
Proof. exact known_findings_witnesses. Qed.
Print Assumptions C10_known_findings_witnesses.

(* What is proved: the same statement modulo that finding — under the single hypothesis
   [range_has_t0]: a time range with a bound needs a P1 time among the indexed messages.
   Everything else is unrestricted: all logs, all type sets, ALL source sets (the request is applied as given
   since the repair of the discovery sampling), ranges (absolute, relative, preset t0, open ends), every max_bytes
   (incl. the block truncation of the index), all 32 return_* options.  The conclusion includes that the
   constructor and the iteration raise nothing. *)
Theorem C10_read_is_filter_partial : forall c f srcs types R,
  wf_file f -> range_has_t0 c f R ->
  read_log fixed c f srcs types R = Ok (spec_read c f srcs types R).
Proof. exact read_is_filter_thm. Qed.
Print Assumptions C10_read_is_filter_partial.

(* The same with the hypothesis in plain terms: a time bound needs some P1-timed message that starts inside the
   indexed blocks (always the case without max_bytes when the log has any P1 time). *)
Theorem C10_read_is_filter_plain_conditions : forall c f srcs types R,
  wf_file f ->
  (bound_free R \/ exists m t, In m (f_msgs f) /\ m_time m = Some t /\ below (index_limit f (c_max_bytes c)) (m_off m) = true) ->
  read_log fixed c f srcs types R = Ok (spec_read c f srcs types R).
Proof. exact read_is_filter_plain. Qed.
Print Assumptions C10_read_is_filter_plain_conditions.

(* With no filter at all every message of the log (hence every source) is returned, in file order. *)
Theorem C10_unfiltered_is_log : forall c f, wf_file f ->
  exists l, read_log fixed (no_limit c) f None None None = Ok l /\ map fst l = f_msgs f.
Proof. exact unfiltered_is_log. Qed.
Print Assumptions C10_unfiltered_is_log.

(* The result of combined filters is the intersection of the results of each filter alone, and a
   subsequence (file order) of the unfiltered read. *)
Theorem C10_combined_is_intersection : forall c f srcs types R,
  wf_file f -> range_has_t0 c f R ->
  exists l lt ls lb lr lu,
    read_log fixed c f srcs types R = Ok l /\
    read_log fixed (no_limit c) f None types None = Ok lt /\
    read_log fixed (no_limit c) f srcs None None = Ok ls /\
    read_log fixed c f None None None = Ok lb /\
    read_log fixed (no_limit c) f None None R = Ok lr /\
    read_log fixed (no_limit c) f None None None = Ok lu /\
    (forall x, In x l <-> In x lt /\ In x ls /\ In x lb /\ In x lr) /\
    subseq l lu /\ map fst lu = f_msgs f.
Proof. exact combined_is_intersection_thm. Qed.
Print Assumptions C10_combined_is_intersection.

(* Time bounds on a P1-timed message (time t in eighths of a second; true_t0 = 0 for an absolute range,
   else the caller's t0, else the first P1 time of the log):
   exact when t0 and both bounds are whole seconds; otherwise nothing 2 s (16 eighths) or more outside the
   requested interval is admitted and nothing 1 s (8 eighths) or more inside it is omitted. *)
Theorem C10_time_bounds : forall msgs r pre m t,
  m_time m = Some t ->
  (whole (true_t0 msgs r) -> whole_o (tr_start r) -> whole_o (tr_end r) ->
     in_time_pos (spec_window msgs (Some r)) pre m = in_interval (true_t0 msgs r) r t) /\
  (in_time_pos (spec_window msgs (Some r)) pre m = true ->
     (match tr_start r with Some s => true_t0 msgs r + s - 16 < t | None => True end) /\
     (match tr_end r with Some e => t < true_t0 msgs r + e + 16 | None => True end)) /\
  ((match tr_start r with Some s => true_t0 msgs r + s + 8 <= t | None => True end) ->
   (match tr_end r with Some e => t < true_t0 msgs r + e - 8 | None => True end) ->
   in_time_pos (spec_window msgs (Some r)) pre m = true).
Proof. exact time_bounds_thm. Qed.
Print Assumptions C10_time_bounds.

(* A range lying entirely after the P1 times of the log, or (with a start) entirely before them, selects nothing. *)
Theorem C10_range_outside_returns_nothing : forall msgs w pre m rest,
  msgs = pre ++ m :: rest ->
  ((exists L, fst w = Some L /\ forall x t, In x msgs -> m_time x = Some t -> t / 8 < L) \/
   (exists L H, fst w = Some L /\ snd w = Some H /\ forall x t, In x msgs -> m_time x = Some t -> H <= 8 * (t / 8))) ->
  in_time_pos w pre m = false.
Proof. exact range_outside_thm. Qed.
Print Assumptions C10_range_outside_returns_nothing.

(* For every combination of the five return_* options (c ranges over all of them) the call succeeds and each
   yielded list consists of the selected pieces in the documented order header, payload, bytes, offset,
   message index: header and payload are those of message m, the bytes are file[m_off, m_off + m_size),
   the offset is m_off and the index is m's ordinal among all messages of the file. *)
Theorem C10_result_pieces_consistent : forall c f srcs types R,
  wf_file f -> range_has_t0 c f R ->
  exists l, read_log fixed c f srcs types R = Ok l /\
    forall m ps, In (m, ps) l ->
      exists pre rest, f_msgs f = pre ++ m :: rest /\
        ps = select5 (flags_of c) [PHeader m; PPayload m; PBytes (m_off m) (m_size m); POffset (m_off m); PIndex (zlen pre)] /\
        length ps = nflags c.
Proof. exact result_pieces_thm. Qed.
Print Assumptions C10_result_pieces_consistent.

(* The index operation behind the time filter: on an index whose P1 times do not decrease, __getitem__
   returns the position-defined selection for every key (shared with C11). *)
Theorem C10_getitem_is_position_filter : forall fi k, times_sorted (fi_data fi) -> getitem fixed fi k = spec_getitem fi k.
Proof. exact getitem_spec. Qed.
Print Assumptions C10_getitem_is_position_filter.

(* Non-vacuity: a concrete log (E P1 E P2 E P3 E U) and filter combination meet every hypothesis, and the model
   returns the one Event between the Pose at 2 s and the Pose at 3 s with all five pieces; on the log with a source
   id first seen after 11 messages of its type the request {1, 2} returns all 12 messages. *)
Example C10_nonvacuous :
  (wf_file ex_file /\ range_has_t0 ex_c ex_file ex_R /\ wf_file ex4_file) /\
  read_log fixed ex_c ex_file (Some [0]) (Some [13004]) ex_R
  = Ok [(mkM 424 48 13004 0 None,
         [PHeader (mkM 424 48 13004 0 None); PPayload (mkM 424 48 13004 0 None); PBytes 424 48; POffset 424; PIndex 4])] /\
  read_log fixed (cfg_of None false true false true false) ex4_file (Some [1; 2]) None None
  = Ok (spec_read (cfg_of None false true false true false) ex4_file (Some [1; 2]) None None) /\
  length (spec_read (cfg_of None false true false true false) ex4_file (Some [1; 2]) None None) = 12%nat.
Proof. exact (conj ex_hypotheses (conj ex_read_result late_source_result)). Qed.

(* What the code did before the five repairs made for this property (each found by the check first). *)
Theorem C10_legacy_refuted :
  read_log legacy (cfg_of None true false false true false) ex_file None None None = Err UnboundLocalError /\
  (exists l, read_log legacy (cfg_of None false true false true false) ex_file None None (Some (abs_range (Some 80) (Some 160))) = Ok l /\ length l = 8%nat) /\
  spec_read (cfg_of None false true false true false) ex_file None None (Some (abs_range (Some 80) (Some 160))) = [] /\
  (exists l, read_log legacy (cfg_of None false true false true false) ex_file None (Some [13004]) (Some (abs_range (Some 16) (Some 24))) = Ok l /\ length l = 4%nat) /\
  length (spec_read (cfg_of None false true false true false) ex_file None (Some [13004]) (Some (abs_range (Some 16) (Some 24)))) = 1%nat /\
  read_log legacy (cfg_of None false true false true false) ex2_file (Some [5]) None None = Ok [] /\
  length (spec_read (cfg_of None false true false true false) ex2_file (Some [5]) None None) = 2%nat /\
  (exists l, read_log (mkFx true true true true true true false) (cfg_of None false true false true false) ex4_file (Some [1; 2]) None None = Ok l /\ length l = 11%nat) /\
  length (spec_read (cfg_of None false true false true false) ex4_file (Some [1; 2]) None None) = 12%nat.
Proof. exact legacy_read_refuted. Qed.
Print Assumptions C10_legacy_refuted.

(* ================================================================================================ *)
(* From FILE BYTES (link to C08 / C09 / C18, Proofs/LogReaderLinkP.v).
   [log_of_file p1 d] is the list of messages of the byte string d: one per frame of the end-of-file aware
   left-to-right scan [file_frames d] (C08: = fi_spec_frames d, what the fast indexer finds for every worker count;
   C09: what opening the log yields), with offset, size, type and source id read from the frame's header bytes and the
   whole-second P1 time given by the payload-time decoder [p1] (a parameter, as in C08 / C09; C01's subject). *)

(* The log of ANY byte string is well formed (non-negative strictly increasing offsets, no overlap, every message at
   least a header long and inside the file) — the only thing not derivable from the bytes is the documented assumption
   that P1 times do not decrease. *)
Theorem C10_file_log_wellformed : forall p1 d, p1_times_sorted p1 d -> wf_file (file_of p1 d).
Proof. exact file_of_wf. Qed.
Print Assumptions C10_file_log_wellformed.

(* Every message of that log IS bytes of the file: file[offset, offset + size) is a CRC-valid FusionEngine message
   (judge_file accepts exactly these bytes), type / source / size are the fields of the header in these bytes, and the
   reader's re-validation at the indexed offset (C09's read_at: header, size limit, length, CRC) yields these bytes. *)
Theorem C10_log_messages_are_file_bytes : forall p1 d m, In m (log_of_file p1 d) ->
  exists o bs, In (o, bs) (file_frames d) /\ m = msg_of_frame p1 (o, bs) /\
    m_off m = Z.of_nat o /\ m_size m = Z.of_nat (length bs) /\
    sub d o (length bs) = bs /\ judge_file bs = Accept (length bs) /\
    m_type m = Z.of_N (h_type (parse_header (firstn HEADER_SIZE bs))) /\
    m_src m = Z.of_N (h_source (parse_header (firstn HEADER_SIZE bs))) /\
    m_size m = Z.of_nat HEADER_SIZE + Z.of_N (h_psize (parse_header (firstn HEADER_SIZE bs))) /\
    FileScanM.read_at d o = RYield bs.
Proof. exact log_message_bytes. Qed.
Print Assumptions C10_log_messages_are_file_bytes.

(* Reading the bytes d of a log file through fast_generate_index — index file absent, present (any cut of an index
   saved for a file of which d is a truncation or an extension: plausible_index) or ignored; re-indexing done by the fast
   indexer with any worker count W — then the constructor filters and the iteration:
   the index the reader holds is the fresh index of d, it is the index the reader MODEL starts from, the messages are
   those of C08's SPEC scan, the read returns exactly the SPEC filter over them, and every yielded piece list is
   consistent with the actual bytes: bytes = d[offset, offset + size), CRC-valid, re-validated by the reader, ordinal =
   position among the scan's frames.
   Visible hypotheses: C08's precondition (every CRC-valid candidate is at most MAX = 16 KiB bytes; READ/MAX arithmetic),
   no max_bytes, non-decreasing P1 times, range_has_t0 (the recorded IndexError finding). *)
Theorem C10_read_from_file_bytes : forall READ MAX : N,
  (2 <= READ)%N -> (READ mod 2 = 0)%N -> (24 <= MAX)%N -> (MAX <= READ)%N ->
  forall (ptime : N -> N -> list N -> option (N * N)) (W : N), (1 <= W)%N ->
  forall p1i d ig c srcs types R,
  fi_small_msgs MAX d -> plausible_index (p1_of_ptime ptime) p1i d ->
  c_max_bytes c = None -> p1_times_sorted (p1_of_ptime ptime) d -> range_has_t0 c (file_of (p1_of_ptime ptime) d) R ->
  exists idx o,
    opened_index READ MAX ptime W load p1i d ig = Some idx /\
    open_log_fi READ MAX ptime W load p1i d ig = Opened o /\ o_msgs o = fi_spec_frames d /\
    findex_of idx = index_of_file (file_of (p1_of_ptime ptime) d) (c_max_bytes c) /\
    log_of_file (p1_of_ptime ptime) d = map (msg_of_frame (p1_of_ptime ptime)) (fi_spec_frames d) /\
    read_log fixed c (file_of (p1_of_ptime ptime) d) srcs types R = Ok (spec_read c (file_of (p1_of_ptime ptime) d) srcs types R) /\
    forall m ps, In (m, ps) (spec_read c (file_of (p1_of_ptime ptime) d) srcs types R) ->
      exists o bs pre rest, In (o, bs) (fi_spec_frames d) /\ m = msg_of_frame (p1_of_ptime ptime) (o, bs) /\
        fi_spec_frames d = pre ++ (o, bs) :: rest /\
        ps = select5 (flags_of c) [PHeader m; PPayload m; PBytes (Z.of_nat o) (Z.of_nat (length bs)); POffset (Z.of_nat o); PIndex (zlen pre)] /\
        sub d o (length bs) = bs /\ judge_file bs = Accept (length bs) /\ FileScanM.read_at d o = RYield bs.
Proof. exact read_through_open. Qed.
Print Assumptions C10_read_from_file_bytes.

(* Non-vacuity at the byte level: a concrete 79-byte file (junk, Pose, another type, junk, Pose) meets every hypothesis;
   with and without its saved index the reader holds the fresh index; types {Pose} + absolute [5 s, 6 s) returns the first
   Pose with all five pieces, and its bytes are the 26 bytes at offset 2. *)
Example C10_file_bytes_nonvacuous :
  (fi_small_msgs 48 lk_log /\ plausible_index lk_p1 None lk_log /\ c_max_bytes lk_cfg = None /\
   p1_times_sorted lk_p1 lk_log /\ range_has_t0 lk_cfg (file_of lk_p1 lk_log) lk_R) /\
  opened_index 64 48 lk_ptime 2 load None lk_log false = Some (fresh lk_p1 lk_log) /\
  opened_index 64 48 lk_ptime 2 load (saved lk_p1 lk_log) lk_log false = Some (fresh lk_p1 lk_log) /\
  read_log fixed lk_cfg (file_of lk_p1 lk_log) None (Some [10000]) lk_R
  = Ok [(mkM 2 26 10000 0 (Some 40),
         [PHeader (mkM 2 26 10000 0 (Some 40)); PPayload (mkM 2 26 10000 0 (Some 40)); PBytes 2 26; POffset 2; PIndex 0])] /\
  sub lk_log 2 26 = lk_msg 16 0 0 [5; 9]%N.
Proof. exact (conj lk_hypotheses lk_result). Qed.
