(* C10 — Filtered log reads return exactly the matching messages, in file order.
   Property theorems only; each is closed by [exact <lemma>] and followed by Print Assumptions.

   MODEL: Models/LogReaderM.v [read_log fixed] = MixedLogReader.__init__ (index of the file incl. the
   max_bytes block truncation, source-id discovery, the filter_in_place calls, original[time_range][types])
   followed by iteration with _read_next (re-validation at the indexed offset, source test, the two
   max_bytes tests, result assembly under the five return_* flags); FileIndex operations in
   Models/FileIndexOpsM.v.  SPEC: [spec_read] = the messages m of the unfiltered log with
   type_ok /\ source_ok /\ bytes_ok /\ in_time_pos, where in_time_pos decides a timed message by its own
   (index-resolution) time and an untimed one by its position among ALL timed messages of the log. *)
From Coq Require Import ZArith List Bool Sorted.
From FEC Require Import Generated.LogReaderConsts Models.FileIndexOpsM Models.LogReaderM
  Proofs.FileIndexOpsP Proofs.LogReaderP Proofs.LogReaderSpecP Proofs.LogReaderConditionsP Proofs.LogReaderExamplesP.
Import ListNotations.
Open Scope Z_scope.

(* The full-strength statement: for every well-formed log and every filter / option combination. *)
Definition C10_read_is_filter_full : Prop :=
  forall c f srcs types R, wf_file f -> read_log fixed c f srcs types R = Ok (spec_read c f srcs types R).

(* It is false of the (faithful model of the) code in exactly one way, recorded as a known finding:
   a time bound on a log without any P1 time raises IndexError (explicit library design).  The witness is
   replayed on the implementation by the check (KNOWN-FINDING line). *)
Theorem C10_read_is_filter_full_refuted : ~ C10_read_is_filter_full.
Proof. exact read_is_filter_full_refuted. Qed.
Print Assumptions C10_read_is_filter_full_refuted.

Theorem C10_known_findings_witnesses :
  read_log fixed (cfg_of None false true false true false) ex3_file None None (Some (rel_range None (Some 240))) = Err IndexError /\
  length (spec_read (cfg_of None false true false true false) ex3_file None None (Some (rel_range None (Some 240)))) = 3%nat.
Proof. exact known_findings_witnesses. Qed.
Print Assumptions C10_known_findings_witnesses.

(* What is proved: the same statement modulo that finding — under the single hypothesis
   [range_has_t0]: a time range with a bound needs a P1 time among the indexed messages.
   Everything else is unrestricted: all logs, all type sets, ALL source sets (the request is applied as given
   since the repair of the discovery sampling), ranges (absolute, relative, preset t0, open ends), every max_bytes
   (incl. the block truncation of the index), all 32 return_* options.  The conclusion includes that the
   constructor and the iteration raise nothing. *)
Theorem C10_read_is_filter_partial : forall c f srcs types R,
  wf_file f -> range_has_t0 c f R ->
  read_log fixed c f srcs types R = Ok (spec_read c f srcs types R).
Proof. exact read_is_filter_thm. Qed.
Print Assumptions C10_read_is_filter_partial.

(* The same with the hypothesis in plain terms: a time bound needs some P1-timed message that starts inside the
   indexed blocks (always the case without max_bytes when the log has any P1 time). *)
Theorem C10_read_is_filter_plain_conditions : forall c f srcs types R,
  wf_file f ->
  (bound_free R \/ exists m t, In m (f_msgs f) /\ m_time m = Some t /\ below (index_limit f (c_max_bytes c)) (m_off m) = true) ->
  read_log fixed c f srcs types R = Ok (spec_read c f srcs types R).
Proof. exact read_is_filter_plain. Qed.
Print Assumptions C10_read_is_filter_plain_conditions.

(* With no filter at all every message of the log (hence every source) is returned, in file order. *)
Theorem C10_unfiltered_is_log : forall c f, wf_file f ->
  exists l, read_log fixed (no_limit c) f None None None = Ok l /\ map fst l = f_msgs f.
Proof. exact unfiltered_is_log. Qed.
Print Assumptions C10_unfiltered_is_log.

(* The result of combined filters is the intersection of the results of each filter alone, and a
   subsequence (file order) of the unfiltered read. *)
Theorem C10_combined_is_intersection : forall c f srcs types R,
  wf_file f -> range_has_t0 c f R ->
  exists l lt ls lb lr lu,
    read_log fixed c f srcs types R = Ok l /\
    read_log fixed (no_limit c) f None types None = Ok lt /\
    read_log fixed (no_limit c) f srcs None None = Ok ls /\
    read_log fixed c f None None None = Ok lb /\
    read_log fixed (no_limit c) f None None R = Ok lr /\
    read_log fixed (no_limit c) f None None None = Ok lu /\
    (forall x, In x l <-> In x lt /\ In x ls /\ In x lb /\ In x lr) /\
    subseq l lu /\ map fst lu = f_msgs f.
Proof. exact combined_is_intersection_thm. Qed.
Print Assumptions C10_combined_is_intersection.

(* Time bounds on a P1-timed message (time t in eighths of a second; true_t0 = 0 for an absolute range,
   else the caller's t0, else the first P1 time of the log):
   exact when t0 and both bounds are whole seconds; otherwise nothing 2 s (16 eighths) or more outside the
   requested interval is admitted and nothing 1 s (8 eighths) or more inside it is omitted. *)
Theorem C10_time_bounds : forall msgs r pre m t,
  m_time m = Some t ->
  (whole (true_t0 msgs r) -> whole_o (tr_start r) -> whole_o (tr_end r) ->
     in_time_pos (spec_window msgs (Some r)) pre m = in_interval (true_t0 msgs r) r t) /\
  (in_time_pos (spec_window msgs (Some r)) pre m = true ->
     (match tr_start r with Some s => true_t0 msgs r + s - 16 < t | None => True end) /\
     (match tr_end r with Some e => t < true_t0 msgs r + e + 16 | None => True end)) /\
  ((match tr_start r with Some s => true_t0 msgs r + s + 8 <= t | None => True end) ->
   (match tr_end r with Some e => t < true_t0 msgs r + e - 8 | None => True end) ->
   in_time_pos (spec_window msgs (Some r)) pre m = true).
Proof. exact time_bounds_thm. Qed.
Print Assumptions C10_time_bounds.

(* A range lying entirely after the P1 times of the log, or (with a start) entirely before them, selects nothing. *)
Theorem C10_range_outside_returns_nothing : forall msgs w pre m rest,
  msgs = pre ++ m :: rest ->
  ((exists L, fst w = Some L /\ forall x t, In x msgs -> m_time x = Some t -> t / 8 < L) \/
   (exists L H, fst w = Some L /\ snd w = Some H /\ forall x t, In x msgs -> m_time x = Some t -> H <= 8 * (t / 8))) ->
  in_time_pos w pre m = false.
Proof. exact range_outside_thm. Qed.
Print Assumptions C10_range_outside_returns_nothing.

(* For every combination of the five return_* options (c ranges over all of them) the call succeeds and each
   yielded list consists of the selected pieces in the documented order header, payload, bytes, offset,
   message index: header and payload are those of message m, the bytes are file[m_off, m_off + m_size),
   the offset is m_off and the index is m's ordinal among all messages of the file. *)
Theorem C10_result_pieces_consistent : forall c f srcs types R,
  wf_file f -> range_has_t0 c f R ->
  exists l, read_log fixed c f srcs types R = Ok l /\
    forall m ps, In (m, ps) l ->
      exists pre rest, f_msgs f = pre ++ m :: rest /\
        ps = select5 (flags_of c) [PHeader m; PPayload m; PBytes (m_off m) (m_size m); POffset (m_off m); PIndex (zlen pre)] /\
        length ps = nflags c.
Proof. exact result_pieces_thm. Qed.
Print Assumptions C10_result_pieces_consistent.

(* The index operation behind the time filter: on an index whose P1 times do not decrease, __getitem__
   returns the position-defined selection for every key (shared with C11). *)
Theorem C10_getitem_is_position_filter : forall fi k, times_sorted (fi_data fi) -> getitem fixed fi k = spec_getitem fi k.
Proof. exact getitem_spec. Qed.
Print Assumptions C10_getitem_is_position_filter.

(* Non-vacuity: a concrete log (E P1 E P2 E P3 E U) and filter combination meet every hypothesis, and the model
   returns the one Event between the Pose at 2 s and the Pose at 3 s with all five pieces; on the log with a source
   id first seen after 11 messages of its type the request {1, 2} returns all 12 messages. *)
Example C10_nonvacuous :
  (wf_file ex_file /\ range_has_t0 ex_c ex_file ex_R /\ wf_file ex4_file) /\
  read_log fixed ex_c ex_file (Some [0]) (Some [13004]) ex_R
  = Ok [(mkM 424 48 13004 0 None,
         [PHeader (mkM 424 48 13004 0 None); PPayload (mkM 424 48 13004 0 None); PBytes 424 48; POffset 424; PIndex 4])] /\
  read_log fixed (cfg_of None false true false true false) ex4_file (Some [1; 2]) None None
  = Ok (spec_read (cfg_of None false true false true false) ex4_file (Some [1; 2]) None None) /\
  length (spec_read (cfg_of None false true false true false) ex4_file (Some [1; 2]) None None) = 12%nat.
Proof. exact (conj ex_hypotheses (conj ex_read_result late_source_result)). Qed.

(* What the code did before the five repairs made for this property (each found by the check first). *)
Theorem C10_legacy_refuted :
  read_log legacy (cfg_of None true false false true false) ex_file None None None = Err UnboundLocalError /\
  (exists l, read_log legacy (cfg_of None false true false true false) ex_file None None (Some (abs_range (Some 80) (Some 160))) = Ok l /\ length l = 8%nat) /\
  spec_read (cfg_of None false true false true false) ex_file None None (Some (abs_range (Some 80) (Some 160))) = [] /\
  (exists l, read_log legacy (cfg_of None false true false true false) ex_file None (Some [13004]) (Some (abs_range (Some 16) (Some 24))) = Ok l /\ length l = 4%nat) /\
  length (spec_read (cfg_of None false true false true false) ex_file None (Some [13004]) (Some (abs_range (Some 16) (Some 24)))) = 1%nat /\
  read_log legacy (cfg_of None false true false true false) ex2_file (Some [5]) None None = Ok [] /\
  length (spec_read (cfg_of None false true false true false) ex2_file (Some [5]) None None) = 2%nat /\
  (exists l, read_log (mkFx true true true true true true false) (cfg_of None false true false true false) ex4_file (Some [1; 2]) None None = Ok l /\ length l = 11%nat) /\
  length (spec_read (cfg_of None false true false true false) ex4_file (Some [1; 2]) None None) = 12%nat.
Proof. exact legacy_read_refuted. Qed.
Print Assumptions C10_legacy_refuted.
