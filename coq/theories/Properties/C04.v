(* C04 — the Python stream decoder returns exactly the valid messages in a byte stream.
   Property theorems only; each is closed by [exact <lemma>] and followed by Print Assumptions.

   SPEC   PyDecoder_judge maxp maxe  : the acceptance test of the property text at one position (sync bytes, zero
          reserved field, payload size <= configured maximum, CRC) with the library's own sanity limit maxe
          (MessageHeader._MAX_EXPECTED_SIZE_BYTES) applied where validate_crc applies it; Base.Scan.scan/feed run it
          left to right.  For maxp <= maxe it is literally Base.FEFormat.judge_fe false true maxp (first theorem).
   MODEL  PyDecoder_on_data / PyDecoder_run : decoder.py's on_data loop, parametric in the payload parser
          (parse_payload), max_payload_len_bytes (maxp), the sanity limit (maxe), return_bytes / return_offset (rb, ro).
   All theorems quantify over every parser, every maxp/maxe, both flags, every stream and every chunking. *)
From Coq Require Import NArith List Bool.
From FEC Require Import Generated.FEConsts Generated.EncoderConsts Base.Scan Base.FEFormat Models.PyDecoderM Proofs.PyDecoderP Proofs.PyDecoderThm
  Models.EncoderM Proofs.EncoderP Proofs.PyDecoderLinkP.
Import ListNotations.

(* The SPEC with the generated sanity limit is the shared FusionEngine judge whenever the configured maximum does not
   exceed that limit (the constructor's default is exactly the limit). *)
Theorem C04_spec_is_base_judge : forall maxp, (maxp <= MAX_EXPECTED_SIZE_BYTES)%N ->
  forall l, PyDecoder_judge maxp MAX_EXPECTED_SIZE_BYTES l = judge_fe false true maxp l.
Proof. exact (fun maxp => judge_py_eq_fe maxp MAX_EXPECTED_SIZE_BYTES). Qed.
Print Assumptions C04_spec_is_base_judge.

(* For any maximum: a position is accepted iff the shared judge with limit min(maxp, maxe) accepts it. *)
Theorem C04_spec_accepts_min : forall maxp maxe l n,
  PyDecoder_judge maxp maxe l = Accept n <-> judge_fe false true (N.min maxp maxe) l = Accept n.
Proof. exact judge_py_accept_iff. Qed.
Print Assumptions C04_spec_accepts_min.

(* REFINEMENT.  In any state the decoder can be in between calls (PyDecoder_Post: a cached header is the parsed,
   plausible header at the head of the buffer; the buffer is undecided; a header is cached iff 24 bytes are buffered),
   one on_data call returns exactly the frames of one feed step of the reference scanner and ends in its state.  The
   judge here (PyDecoder_judge_dec) additionally demands that the payload parser succeeds: that is what the code does. *)
Theorem C04_decoder_refines_feed :
  forall (P : Type) (parse : N -> list N -> option P) maxp maxe rb ro st chunk,
  PyDecoder_Post parse maxp maxe st ->
  exists rs st' fs,
    PyDecoder_on_data parse maxp maxe rb ro false st chunk = PdDone rs st' /\
    PyDecoder_Post parse maxp maxe st' /\
    feed (PyDecoder_judge_dec parse maxp maxe) (PyDecoder_abs st) chunk = (fs, PyDecoder_abs st') /\
    map Some rs = map (PyDecoder_result_of parse rb ro) fs.
Proof. exact (@decoder_refines_feed). Qed.
Print Assumptions C04_decoder_refines_feed.

(* ... hence over any chunk list the concatenated results are the frames of ONE scan of the whole stream. *)
Theorem C04_run_is_scan :
  forall (P : Type) (parse : N -> list N -> option P) maxp maxe rb ro chunks,
  exists rss st' fs,
    PyDecoder_run parse maxp maxe rb ro false PyDecoder_init chunks = PdRunDone rss st' /\
    PyDecoder_Post parse maxp maxe st' /\
    scan (PyDecoder_judge_dec parse maxp maxe) 0 (concat chunks) = (fs, PyDecoder_abs st') /\
    map Some (concat rss) = map (PyDecoder_result_of parse rb ro) fs.
Proof. exact (@run_is_scan). Qed.
Print Assumptions C04_run_is_scan.

(* EXACTNESS, full strength: for every payload parser the results are the frames of the scan with the property's
   own judge: in order, once each, true offsets, exact raw bytes, nothing else. *)
Definition C04_exact_full : Prop :=
  forall (P : Type) (parse : N -> list N -> option P) (maxp maxe : N) (rb ro : bool) (chunks : list (list N)),
  exists rss st',
    PyDecoder_run parse maxp maxe rb ro false PyDecoder_init chunks = PdRunDone rss st' /\
    map Some (concat rss) =
    map (PyDecoder_result_of parse rb ro) (fst (scan (PyDecoder_judge maxp maxe) 0 (concat chunks))).

(* It is false of the code: a CRC-valid message of a registered type whose payload does not unpack (witness: a Pose
   header with a 3-byte payload, 27 bytes) is accepted by the scan and dropped by the decoder (decoder.py, the except
   branch around contents.unpack).  Replayed on the implementation by the check: known finding (DESIGN 21 #14). *)
Theorem C04_exact_refuted : ~ C04_exact_full.
Proof. exact exact_full_refuted. Qed.
Print Assumptions C04_exact_refuted.

(* What is missing from the full statement is exactly the proviso "the payload parser does not fail on a CRC-valid
   message" (parser_total).  With it: the decoder never fails, and the concatenated results over ANY chunking are the
   frames fs of the left-to-right scan of the concatenated stream; frames_ok says each frame is the stream content at
   its offset, was accepted there by the judge, and frames are in increasing order without overlap. *)
Theorem C04_exact_partial :
  forall (P : Type) (parse : N -> list N -> option P) maxp maxe rb ro,
  parser_total parse maxp maxe -> forall chunks,
  exists rss st' fs,
    PyDecoder_run parse maxp maxe rb ro false PyDecoder_init chunks = PdRunDone rss st' /\
    scan (PyDecoder_judge maxp maxe) 0 (concat chunks) = (fs, PyDecoder_abs st') /\
    map Some (concat rss) = map (PyDecoder_result_of parse rb ro) fs /\
    frames_ok (PyDecoder_judge maxp maxe) 0 (concat chunks) 0 fs.
Proof. exact (@exact_partial). Qed.
Print Assumptions C04_exact_partial.

(* The same against the shared judge of Base/FEFormat.v, for configured maxima up to the generated sanity limit. *)
Theorem C04_exact_partial_base :
  forall (P : Type) (parse : N -> list N -> option P) maxp rb ro,
  (maxp <= MAX_EXPECTED_SIZE_BYTES)%N -> parser_total parse maxp MAX_EXPECTED_SIZE_BYTES -> forall chunks,
  exists rss st' fs,
    PyDecoder_run parse maxp MAX_EXPECTED_SIZE_BYTES rb ro false PyDecoder_init chunks = PdRunDone rss st' /\
    scan (judge_fe false true maxp) 0 (concat chunks) = (fs, PyDecoder_abs st') /\
    map Some (concat rss) = map (PyDecoder_result_of parse rb ro) fs /\
    frames_ok (judge_fe false true maxp) 0 (concat chunks) 0 fs.
Proof. exact (fun P parse maxp rb ro => @exact_partial_fe P parse maxp MAX_EXPECTED_SIZE_BYTES rb ro). Qed.
Print Assumptions C04_exact_partial_base.

(* NEVER RAISES: the model's only failing outcomes are an index/attribute error (PdRaised) and fuel exhaustion
   (PdOutOfFuel); neither occurs, from the initial state over any chunk list, and in any between-calls state. *)
Theorem C04_never_raises :
  forall (P : Type) (parse : N -> list N -> option P) maxp maxe rb ro chunks,
  exists rss st', PyDecoder_run parse maxp maxe rb ro false PyDecoder_init chunks = PdRunDone rss st'.
Proof. exact (@never_raises). Qed.
Print Assumptions C04_never_raises.

Theorem C04_on_data_never_raises :
  forall (P : Type) (parse : N -> list N -> option P) maxp maxe rb ro st c,
  PyDecoder_Post parse maxp maxe st ->
  exists rs st', PyDecoder_on_data parse maxp maxe rb ro false st c = PdDone rs st' /\ PyDecoder_Post parse maxp maxe st'.
Proof. exact (@on_data_never_raises). Qed.
Print Assumptions C04_on_data_never_raises.

(* CONSERVATION: consumed + buffered = given, after every sequence of calls. *)
Theorem C04_conservation :
  forall (P : Type) (parse : N -> list N -> option P) maxp maxe rb ro chunks rss st',
  PyDecoder_run parse maxp maxe rb ro false PyDecoder_init chunks = PdRunDone rss st' ->
  (pd_processed st' + N.of_nat (length (pd_buf st')) = N.of_nat (length (concat chunks)))%N.
Proof. exact (@conservation). Qed.
Print Assumptions C04_conservation.

(* BUFFER BOUND: after every sequence of calls fewer than 24 + max_payload bytes are buffered; more precisely either
   fewer than 24 bytes (no header cached), or the buffer starts with a plausible header (sync, reserved = 0,
   size <= maximum: hdr_facts) and holds fewer bytes than that header's message. *)
Theorem C04_buffer_bound :
  forall (P : Type) (parse : N -> list N -> option P) maxp maxe rb ro chunks rss st',
  PyDecoder_run parse maxp maxe rb ro false PyDecoder_init chunks = PdRunDone rss st' ->
  (N.of_nat (length (pd_buf st')) < N.of_nat HEADER_SIZE + maxp)%N /\
  match pd_hdr st' with
  | None => (length (pd_buf st') < HEADER_SIZE)%nat
  | Some h => hdr_facts maxp (pd_buf st') (pd_msg_len st') h /\
              (N.of_nat (length (pd_buf st')) < N.of_nat HEADER_SIZE + h_psize h)%N
  end.
Proof. exact (@buffer_bound). Qed.
Print Assumptions C04_buffer_bound.

(* SYSTEM LEVEL (composition with C06): whatever FusionEngineEncoder produces, the decoder returns.  For every
   encoder state s reachable from construction, every history of encode_message calls within the encoder's domain
   (call_in_domain: type < 2^16, version < 2^8, source id < 2^32, payload of bytes shorter than 2^32), each payload
   within the decoder's limits and accepted by the payload parser (link_call_ok: the C04 known-finding proviso, stated
   per message), and EVERY division of the concatenated encoder outputs into on_data calls:
   the encoder returns the outputs enc_outs s calls; the decoder returns exactly one entry per call, in order; entry k
   carries type / version / source id / payload size of call k, sequence number (s + k) mod 2^32, the parser's value for
   the original payload bytes, raw bytes equal to the k-th encoder output and offset equal to the total length of the
   outputs before it; nothing stays buffered, no header is cached, and every byte is accounted as processed. *)
Theorem C04_decodes_encoder_output :
  forall (P : Type) (parse : N -> list N -> option P) maxp maxe rb ro calls s chunks,
  Encoder_reachable s -> Forall call_in_domain calls -> Forall (link_call_ok parse maxp maxe) calls ->
  concat chunks = concat (enc_outs s calls) ->
  fst (Encoder_run s calls) = map Some (enc_outs s calls) /\
  exists rss st',
    PyDecoder_run parse maxp maxe rb ro false PyDecoder_init chunks = PdRunDone rss st' /\
    map Some (concat rss) = map (PyDecoder_result_of parse rb ro) (rebase 0 (enc_outs s calls)) /\
    length (concat rss) = length calls /\
    pd_buf st' = [] /\ pd_hdr st' = None /\ pd_processed st' = N.of_nat (length (concat chunks)) /\
    forall k m src r, nth_error calls k = Some (m, src) -> nth_error (concat rss) k = Some r ->
      h_type (pr_hdr r) = p_type m /\ h_msgver (pr_hdr r) = p_version m /\ h_source (pr_hdr r) = src /\
      h_seq (pr_hdr r) = ((s + N.of_nat k) mod 4294967296)%N /\
      h_psize (pr_hdr r) = N.of_nat (length (p_bytes m)) /\
      parse (p_type m) (p_bytes m) = Some (pr_payload r) /\
      exists out, nth_error (enc_outs s calls) k = Some out /\
        pr_bytes r = (if rb then Some out else None) /\
        pr_off r = (if ro then Some (N.of_nat (length (concat (firstn k (enc_outs s calls))))) else None).
Proof. exact (@decodes_encoder_output). Qed.
Print Assumptions C04_decodes_encoder_output.

(* The same with junk: before each encoder output any run of bytes none of which is the first sync byte ('.');
   the messages come back in order, each at its true offset (rebase_junk), and nothing stays buffered. *)
Theorem C04_decodes_encoder_output_with_junk :
  forall (P : Type) (parse : N -> list N -> option P) maxp maxe rb ro calls s junks chunks,
  Encoder_reachable s -> Forall call_in_domain calls -> Forall (link_call_ok parse maxp maxe) calls ->
  length junks = length calls -> Forall (Forall (fun b => b <> SYNC0)) junks ->
  concat chunks = interleave junks (enc_outs s calls) ->
  exists rss st',
    PyDecoder_run parse maxp maxe rb ro false PyDecoder_init chunks = PdRunDone rss st' /\
    map Some (concat rss) = map (PyDecoder_result_of parse rb ro) (rebase_junk 0 junks (enc_outs s calls)) /\
    pd_buf st' = [] /\ pd_processed st' = N.of_nat (length (concat chunks)).
Proof. exact (@decodes_encoder_output_with_junk). Qed.
Print Assumptions C04_decodes_encoder_output_with_junk.

(* Non-vacuity of the composition on real bytes: the hypotheses hold for an encoder whose counter is 2^32 - 1 and two
   calls (an InputDataWrapper payload with source id 7, an unknown-type payload with version 1); the encoder model
   produces sequence numbers 2^32 - 1 and 0 (wrap), and the decoder model, fed the 63 bytes one at a time, returns both
   messages with those numbers, offsets 0 and 36, the original payloads, the encoder's bytes, and an empty buffer. *)
Example C04_link_nonvacuous :
  (Encoder_reachable 4294967295 /\ Forall call_in_domain demo_calls /\ Forall (link_call_ok demo_parser M24 M24) demo_calls) /\
  match Encoder_run 4294967295 demo_calls with
  | ([Some a; Some b], s') =>
      s' = 1%N /\
      match PyDecoder_run demo_parser M24 M24 true true false PyDecoder_init (map (fun x => [x]) (a ++ b)) with
      | PdRunDone rss st =>
          map (fun r => (h_type (pr_hdr r), h_seq (pr_hdr r), pr_payload r, pr_off r)) (concat rss) =
            [ (13120, 4294967295, [0; 0; 0; 0; 0; 0; 0; 0; 1; 2; 3; 4], Some 0); (20000, 0, [9; 8; 7], Some 36) ]%N /\
          map (fun r => pr_bytes r) (concat rss) = [Some a; Some b] /\ pd_buf st = [] /\ pd_processed st = 63%N
      | _ => False
      end
  | _ => False
  end.
Proof. split; [exact demo_calls_ok | exact demo_link_run]. Qed.

(* Non-vacuity: the initial state satisfies the between-calls invariant; the proviso of C04_exact_partial is met by a
   non-trivial parser; the SPEC accepts the 27-byte witness that the decoder drops; on real message bytes the decoder
   returns both messages with offsets 0 and 36 under three chunkings. *)
Example C04_nonvacuous :
  (forall (parse : N -> list N -> option (list N)) maxp maxe, PyDecoder_Post parse maxp maxe PyDecoder_init) /\
  (forall maxp maxe, parser_total (fun (_ : N) (p : list N) => Some p) maxp maxe) /\
  PyDecoder_judge M24 M24 bad_pose = Accept 27 /\
  (exists st, PyDecoder_run demo_parser M24 M24 true true false PyDecoder_init [bad_pose] = PdRunDone [[]] st).
Proof.
  split; [exact (fun parse maxp maxe => Post_init parse maxp maxe)|].
  split; [exact parser_total_identity|]. split; [exact bad_pose_accepted_by_spec|exact bad_pose_dropped_by_decoder].
Qed.
