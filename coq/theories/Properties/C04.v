(* C04 — floor version (the refinement theorems are added below as they are proved). *)
From Coq Require Import NArith List Bool.
From FEC Require Import Generated.FEConsts Base.Scan Base.FEFormat Models.PyDecoderM Proofs.PyDecoderP.
Import ListNotations.

Theorem C04_spec_is_base_judge : forall maxp, (maxp <= MAX_EXPECTED_SIZE_BYTES)%N ->
  forall l, PyDecoder_judge maxp MAX_EXPECTED_SIZE_BYTES l = judge_fe false true maxp l.
Proof. exact (fun maxp => judge_py_eq_fe maxp MAX_EXPECTED_SIZE_BYTES). Qed.
Print Assumptions C04_spec_is_base_judge.
