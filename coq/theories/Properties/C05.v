(* C05 — decoder output is independent of how the stream is split into chunks.
   Property theorems only.  Same SPEC / MODEL as Properties/C04.v; the theorems follow from the refinement
   (C04_decoder_refines_feed) and the generic chunking theory of Base/Scan.v (feed_app, feed_all_concat).
   A result entry carries the header, the decoded payload VALUE (pr_payload, what the payload parser returned), the raw
   bytes (with return_bytes) and the offset (with return_offset); equality of entries is equality of all four.
   The repaired decoder hands the parser the message's own bytes, so the value is a function of the frame. *)
From Coq Require Import NArith List Bool.
From FEC Require Import Generated.FEConsts Base.Scan Base.FEFormat Models.PyDecoderM Proofs.PyDecoderP Proofs.PyDecoderThm.
Import ListNotations.

(* ALL PARTITIONS AT ONCE: any two chunk lists with the same concatenation give the same concatenated results (headers,
   payload values, raw bytes, offsets) and leave the decoder in the same state — PyDecoder_obs: buffer, bytes
   processed, cached header, and message length while a header is cached (everything later calls can depend on; the
   stale _msg_len without a header and the logging-only _last_sequence_number are not part of it).  No proviso on the
   payload parser: dropped unparseable messages are dropped under every chunking alike. *)
Theorem C05_chunk_independent :
  forall (P : Type) (parse : N -> list N -> option P) maxp maxe rb ro cs1 cs2,
  concat cs1 = concat cs2 ->
  exists rss1 st1 rss2 st2,
    PyDecoder_run parse maxp maxe rb ro false PyDecoder_init cs1 = PdRunDone rss1 st1 /\
    PyDecoder_run parse maxp maxe rb ro false PyDecoder_init cs2 = PdRunDone rss2 st2 /\
    concat rss1 = concat rss2 /\ PyDecoder_obs st1 = PyDecoder_obs st2.
Proof. exact (@chunk_independent). Qed.
Print Assumptions C05_chunk_independent.

(* DELIVERY POINT: after the calls cs, one more call with chunk c returns exactly the frames G by which the scan of the
   longer prefix (concat cs ++ c) extends the scan of the shorter one (concat cs): a message is delivered by the first
   call after which the left-to-right scan of everything received so far contains it. *)
Theorem C05_delivery_point :
  forall (P : Type) (parse : N -> list N -> option P) maxp maxe rb ro cs c,
  exists rss st rs st' F G,
    PyDecoder_run parse maxp maxe rb ro false PyDecoder_init cs = PdRunDone rss st /\
    PyDecoder_on_data parse maxp maxe rb ro false st c = PdDone rs st' /\
    fst (scan (PyDecoder_judge_dec parse maxp maxe) 0 (concat cs)) = F /\
    fst (scan (PyDecoder_judge_dec parse maxp maxe) 0 (concat cs ++ c)) = F ++ G /\
    map Some (concat rss) = map (PyDecoder_result_of parse rb ro) F /\
    map Some rs = map (PyDecoder_result_of parse rb ro) G.
Proof. exact (@delivery_point). Qed.
Print Assumptions C05_delivery_point.

(* CLEAN STREAM: for a stream of complete valid messages msgs followed by the first k bytes of a further valid message
   m (k < length m, k = 0 allowed), under any chunking exactly the messages msgs have been returned, at offsets
   0, |m1|, |m1|+|m2|, ..., the k bytes are buffered and nothing else: each message is delivered by the call that
   supplies its last byte, not earlier and not later. *)
Theorem C05_clean_stream :
  forall (P : Type) (parse : N -> list N -> option P) maxp maxe rb ro msgs m k cs,
  Forall (self_framed (PyDecoder_judge_dec parse maxp maxe)) msgs ->
  self_framed (PyDecoder_judge_dec parse maxp maxe) m -> (k < length m)%nat ->
  concat cs = concat msgs ++ firstn k m ->
  exists rss st',
    PyDecoder_run parse maxp maxe rb ro false PyDecoder_init cs = PdRunDone rss st' /\
    map Some (concat rss) = map (PyDecoder_result_of parse rb ro) (rebase 0 msgs) /\
    pd_buf st' = firstn k m /\ pd_processed st' = N.of_nat (length (concat msgs)).
Proof. exact (@clean_stream). Qed.
Print Assumptions C05_clean_stream.

(* The pre-repair decoder (legacy = true: the parser saw everything buffered behind the header) did not have the
   property for payload values: a wrapper message with 4 data bytes followed by another message decodes to 40 payload
   bytes in one call and 12 when the calls are split between the messages.  Record of the defect repaired by /repo
   commit 6f503a9 (DESIGN 21 #3). *)
Theorem C05_values_legacy_refuted :
  let greedy := fun (_ : N) (p : list N) => Some p in
  let stream := wrapper4 ++ small_msg in
  match PyDecoder_run greedy M24 M24 true true true PyDecoder_init [stream],
        PyDecoder_run greedy M24 M24 true true true PyDecoder_init [wrapper4; small_msg] with
  | PdRunDone r1 _, PdRunDone r2 _ =>
      map (fun r => length (pr_payload r)) (concat r1) = [40; 4]%nat /\
      map (fun r => length (pr_payload r)) (concat r2) = [12; 4]%nat
  | _, _ => False
  end.
Proof. exact legacy_values_depend_on_chunking. Qed.
Print Assumptions C05_values_legacy_refuted.

(* Non-vacuity: real message bytes meet the clean-stream hypotheses, and the repaired model returns both messages with
   equal values and offsets 0 and 36 in one call, byte by byte, and with an empty call in the middle. *)
Example C05_nonvacuous :
  (self_framed (PyDecoder_judge_dec demo_parser M24 M24) wrapper4 /\
   self_framed (PyDecoder_judge_dec demo_parser M24 M24) small_msg) /\
  (let stream := wrapper4 ++ small_msg in
   let offs rss := map (fun r => pr_off r) (concat rss) in
   match PyDecoder_run demo_parser M24 M24 true true false PyDecoder_init [stream],
         PyDecoder_run demo_parser M24 M24 true true false PyDecoder_init (map (fun b => [b]) stream),
         PyDecoder_run demo_parser M24 M24 true true false PyDecoder_init [firstn 30 stream; []; skipn 30 stream] with
   | PdRunDone r1 s1, PdRunDone r2 s2, PdRunDone r3 s3 =>
       concat r1 = concat r2 /\ concat r2 = concat r3 /\ offs r1 = [Some 0%N; Some 36%N] /\
       map (fun r => pr_payload r) (concat r1) = [skipn 24 wrapper4; skipn 24 small_msg] /\
       PyDecoder_obs s1 = PyDecoder_obs s2 /\ pd_processed s1 = 64%N
   | _, _, _ => False
   end).
Proof. split; [exact demo_self_framed | exact demo_run]. Qed.
