(* C12 — placeholder while the floor is being built; replaced by the property theorems. *)
From Coq Require Import ZArith NArith List Bool.
From FEC Require Import Generated.DataLoaderConsts Models.DataLoaderM.
Import ListNotations.
Example C12_placeholder : norm_set [3; 1; 3; 2]%N = [1; 2; 3]%N.
Proof. reflexivity. Qed.
