(* C12 — data loader results do not depend on what was read before.
   Property theorems only; each is closed by [exact <lemma>] and followed by Print Assumptions.
   MODEL: Models/DataLoaderM.v ([read] = DataLoader.read()/_read() as it is now: cache-key fields and the deque-break
   guard are regenerated from the source on every run).  All theorems hold for every environment [e]: every log, every
   reader time-range selection, every set of discovered source ids, every time-alignment function; [env_ok] asks only
   that time alignment keeps the keys of the dictionary it mutates and that the reader's selections keep file order. *)
From Coq Require Import ZArith NArith List Bool Sorting.Sorted.
From FEC Require Import Generated.DataLoaderConsts Models.DataLoaderM Proofs.DataLoaderP Proofs.DataLoaderW.
Import ListNotations.

(* Caching is transparent: after ANY history of read() calls (any length, any arguments, including ignore_cache,
   in-order, numpy, alignment, maxima of either sign), a read returns exactly what the same read returns on a freshly
   opened loader: the same messages per type, numpy rows, message indices and bytes. *)
Theorem C12_cache_transparent : forall (e : env) (h : list args) (a : args),
  env_ok e -> snd (read e (run e init_state h) a) = fresh e a.
Proof. exact cache_transparent. Qed.
Print Assumptions C12_cache_transparent.

(* The part of _read that is not modelled (establishing t0 on a log without index) is never reached. *)
Theorem C12_read_never_unmodelled : forall (e : env) (h : list args) (a : args),
  env_ok e -> snd (read e (run e init_state h) a) <> OutUnmodelled.
Proof. exact read_never_unmodelled. Qed.
Print Assumptions C12_read_never_unmodelled.

(* The returned messages are those of the log reader under the same filters, limited to the first N (last N for
   negative N) across all requested types in file order - for every argument combination (source filters, maxima of
   either sign, require_p1_time / require_system_time, time ranges, numpy with kept messages), no side condition on
   the arguments.  [all_decode] is a fact about the log: every indexed message of a requested type has a payload that
   parses (a CRC-valid message that does not parse is C04's recorded finding).  Dict output: *)
Theorem C12_max_messages_semantics : forall (e : env) (a : args),
  env_ok e -> all_decode e a ->
  a_order a = false -> a_align a = align_none -> (a_numpy a = false \/ a_keep a = true) ->
  exists r, fresh e a = OutDict r /\ map fst r = types_of e a /\
            forall t d, lookup_data t r = Some d -> d_msgs d = map RFile (of_type t (spec_messages e a false)).
Proof. exact max_messages_semantics_full_dict. Qed.
Print Assumptions C12_max_messages_semantics.

(* ... and in-order output: *)
Theorem C12_max_messages_semantics_in_order : forall (e : env) (a : args),
  env_ok e -> all_decode e a -> a_order a = true ->
  exists d, fresh e a = OutOrder d /\ d_msgs d = map RFile (spec_messages e a false) /\
            Subseq (spec_messages e a false) (e_log e).
Proof. exact max_messages_semantics_full_in_order. Qed.
Print Assumptions C12_max_messages_semantics_in_order.

(* Before /repo 638779d the statement was false: with a source-id filter the index was sliced to N entries before the
   read-time source test (DESIGN 21 #16).  read([Pose], source_ids=[0], max_messages=1) on [Pose(src 1), Pose(src 0),
   Pose(src 0)] returned nothing; the reader's sequence limited to 1 is [Pose #1], which is what the code returns now. *)
Theorem C12_max_messages_semantics_legacy_refuted :
  exists e a, env_ok e /\ all_decode e a /\ a_order a = false /\ a_align a = align_none /\ a_numpy a = false /\
    ~ (exists r, snd (read_legacy e init_state a) = OutDict r /\
         forall t d, lookup_data t r = Some d -> d_msgs d = map RFile (of_type t (spec_messages e a false))).
Proof. exact max_messages_semantics_legacy_refuted. Qed.
Print Assumptions C12_max_messages_semantics_legacy_refuted.

Theorem C12_max_with_sources_legacy_witness :
  ords_of (snd (read_legacy senv init_state sargs)) POSE = Some [] /\
  map m_ord (spec_messages senv sargs false) = [1]%N /\
  ords_of (fresh senv sargs) POSE = Some [1]%N.
Proof. exact max_with_sources_witness. Qed.
Print Assumptions C12_max_with_sources_legacy_witness.

(* In-order output is in exact file order, unconditionally and after any history: the returned messages form a
   subsequence of the log (so ordinals increase strictly whenever the log's do). *)
Theorem C12_in_order_is_file_order : forall (e : env) (h : list args) (a : args),
  env_ok e -> a_order a = true ->
  exists l, snd (read e (run e init_state h) a) = OutOrder (fold_left (add_message (a_bytes a) (a_idx a)) l empty_data) /\
            d_msgs (fold_left (add_message (a_bytes a) (a_idx a)) l empty_data) = map RFile l /\
            Subseq l (e_log e) /\
            (StronglySorted N.lt (map m_ord (e_log e)) -> StronglySorted N.lt (map m_ord l)).
Proof. exact in_order_file_order. Qed.
Print Assumptions C12_in_order_is_file_order.

(* Without a source_ids argument no source test is made: every source in the log is returned, whatever the reader
   discovered when it sampled the first messages of each type (repair /repo 3541285; the source of this fact,
   `if source_ids is None`, is re-read from data_loader.py on every run). *)
Theorem C12_no_source_filter_returns_all_sources : forall (e : env) (a : args),
  a_src a = None -> spec_messages e a false = spec_messages e a true.
Proof. exact no_source_filter_spec. Qed.
Print Assumptions C12_no_source_filter_returns_all_sources.

(* open() of another file on the same loader empties the cache: whatever was read from the first file (any history h1
   on any log e1), reads on the second file return what a fresh loader returns (repair /repo 8223552; that open()
   assigns {} to self.data is re-read from the source on every run). *)
Theorem C12_open_resets_cache : forall (e1 : env) (h1 : list args) (e2 : env) (h2 : list args) (a : args),
  env_ok e2 -> snd (read e2 (run e2 (reopen (run e1 init_state h1)) h2) a) = fresh e2 a.
Proof. exact open_resets. Qed.
Print Assumptions C12_open_resets_cache.

Theorem C12_open_legacy_refuted :
  ords_of (snd (read senv (reopen_gen false (run wenv init_state [call [POSE]])) (call [POSE]))) POSE = Some [1; 2; 8]%N /\
  ords_of (fresh senv (call [POSE])) POSE = Some [0; 1; 2]%N /\
  ords_of (snd (read senv (reopen (run wenv init_state [call [POSE]])) (call [POSE]))) POSE = Some [0; 1; 2]%N.
Proof. exact legacy_open_keeps_cache. Qed.
Print Assumptions C12_open_legacy_refuted.

(* What the pre-repair code did (the records of the findings that led to /repo dabd2e0 and 224b603). *)
Theorem C12_cache_transparent_legacy_refuted :
  exists e h a, env_ok e /\ snd (read_legacy e (run_gen legacy e init_state h) a) <> snd (read_legacy e init_state a).
Proof. exact cache_transparent_legacy_refuted. Qed.
Print Assumptions C12_cache_transparent_legacy_refuted.

Theorem C12_legacy_sequences :
  (* read([Pose], return_numpy=True, keep_messages=False); read([Pose]) -> 0 messages instead of 3 *)
  (ords_of (snd (read_legacy wenv (run_gen legacy wenv init_state [with_numpy false (call [POSE])]) (call [POSE]))) POSE = Some [] /\
   ords_of (snd (read_legacy wenv init_state (call [POSE]))) POSE = Some [1; 2; 8]%N) /\
  (* read([Pose], max_messages=2); read([Pose, PoseAux], max_messages=2) -> 4 Pose entries instead of 2 *)
  (ords_of (snd (read_legacy wenv (run_gen legacy wenv init_state [with_max 2 (call [POSE])]) (with_max 2 (call [POSE; POSE_AUX])))) POSE = Some [1; 2; 1; 2]%N /\
   ords_of (snd (read_legacy wenv init_state (with_max 2 (call [POSE; POSE_AUX])))) POSE = Some [1; 2]%N) /\
  (* read([Event], require_system_time=True, max_messages=-1) -> the first event instead of the last *)
  (ords_of (snd (read_legacy wenv init_state (with_max (-1) (with_sys (call [EVENT]))))) EVENT = Some [0]%N /\
   ords_of (fresh wenv (with_max (-1) (with_sys (call [EVENT])))) EVENT = Some [9]%N).
Proof.
  split; [exact legacy_numpy_clears_cache |]. split; [exact legacy_limit_mixed_across_types |].
  split; [exact (proj1 legacy_last_n_returns_first_n) | exact (proj2 (proj2 legacy_last_n_returns_first_n))].
Qed.
Print Assumptions C12_legacy_sequences.

(* Non-vacuity.  [env_ok] holds for the environment the extracted runner uses, whatever the log, source ids and
   reader tables are; the log hypothesis of the semantic theorems holds for the 10-message corpus log, with concrete
   instances for positive and negative maxima; the same call sequences that broke the old code are transparent now. *)
Example C12_env_ok_nonvacuous : forall log avail tab nn, env_ok (concrete_env log avail tab nn).
Proof. exact concrete_env_ok. Qed.

Example C12_all_decode_nonvacuous : forall a, all_decode wenv a.
Proof. exact all_decode_wenv. Qed.

Example C12_semantics_instances :
  preslice_harmless wenv (with_max 3 (call [POSE; POSE_AUX])) /\
  preslice_harmless wenv (in_order (with_max (-2) (call [POSE; EVENT]))) /\
  map m_ord (spec_messages wenv (with_max 3 (call [POSE; POSE_AUX])) false) = [1; 2; 3]%N /\
  map m_ord (spec_messages wenv (in_order (with_max (-2) (call [POSE; EVENT]))) false) = [8; 9]%N /\
  ords_of (fresh wenv (in_order (with_max (-2) (call [POSE; EVENT])))) 0%N = Some [8; 9]%N /\
  StronglySorted N.lt (map m_ord (e_log wenv)).
Proof. exact preslice_harmless_instances. Qed.

Example C12_repaired_sequences :
  ords_of (snd (read wenv (run wenv init_state [with_numpy false (call [POSE])]) (call [POSE]))) POSE = Some [1; 2; 8]%N /\
  ords_of (snd (read wenv (run wenv init_state [with_max 2 (call [POSE])]) (with_max 2 (call [POSE; POSE_AUX])))) POSE = Some [1; 2]%N /\
  ords_of (snd (read wenv (run wenv init_state [call [POSE]]) (call [POSE; POSE_AUX]))) POSE = Some [1; 2; 8]%N.
Proof. exact current_sequences_transparent. Qed.

(* a source the reader's sampling did not discover is returned when no source_ids are given; requesting it by id
   returns nothing as long as the reader intersects requests with the sampled set (regenerated from the reader's
   source on every run; the remaining known finding) *)
Example C12_undiscovered_source_nonvacuous :
  ords_of (fresh lenv (call [POSE])) POSE = Some [0; 1; 2]%N /\
  ords_of (fresh lenv (with_src [0; 5]%N (call [POSE]))) POSE
    = Some (if reader_intersects_sampled_sources then [0; 1] else [0; 1; 2])%N /\
  map m_ord (spec_messages lenv (with_src [0; 5]%N (call [POSE])) true) = [0; 1; 2]%N.
Proof. exact undiscovered_source_instances. Qed.

(* ---------------------------------------------------------------------------------------------------------------
   LINK with the proved model of the log reader (C10 / C11: Models/LogReaderM.v, Models/FileIndexOpsM.v).
   Proofs/DataLoaderLinkP.v defines [link_env]: the environment whose reader selections are the reader model's own
   functions on the index of a file [f] (FileIndex.__getitem__(TimeRange) of C10/C11, the type filter, the removal of
   untimed entries).  [p1], [sy], [dec] are the three facts about a payload the reader model does not carry
   (get_p1_time() / get_system_time_ns() is not None; the payload class exists and parses); [al] is any
   time-alignment function that keeps dictionary keys.  Hypotheses are C10's: [wf_file] (messages consecutive, P1 times
   do not decrease) and [range_has_t0] (a time bound needs some P1 time in the log), plus non-negative type / source
   ids and [requested_decode]. *)
From FEC Require Models.FileIndexOpsM Models.LogReaderM Proofs.LogReaderP Proofs.DataLoaderLinkP.
Module L := DataLoaderLinkP.
Module R := LogReaderM.
Module RP := LogReaderP.
Module F := FileIndexOpsM.

Theorem C12_link_env_ok : forall p1 sy dec al,
  (forall mode at_ r, map fst (al mode at_ r) = map fst r) ->
  forall f avail, env_ok (L.link_env p1 sy dec al f avail).
Proof. exact L.link_env_ok. Qed.
Print Assumptions C12_link_env_ok.

(* The operations _read performs on the reader - rewind, clear_filters, filter_in_place(time_range),
   filter_in_place(message_types), the source ids, filter_out_invalid_p1_times, the int pre-slice, read_next until
   StopIteration - executed in the operational reader model (filter_in_place with its relocation arithmetic, as proved
   in C11) from ANY reader state over the file's index, read exactly: slice (remove-untimed (types (time window))) of
   the index, passed through the read-time source test ... *)
Theorem C12_reader_drive_is_selection : forall c f r Rg tys srcs rm sl,
  R.wf_file f -> R.r_orig r = R.index_of_file f None -> R.c_max_bytes c = None -> RP.range_has_t0 c f (Some Rg) ->
  let w := R.spec_window (R.f_msgs f) (Some Rg) in
  L.drive c f r Rg tys srcs rm sl
  = F.Ok (RP.read_all c srcs f
            (L.sl_sel sl (L.rm_sel rm (filter (RP.tyf (Some tys))
               (F.filter_pos (F.window_ok (fst w) (snd w)) (F.fi_data (R.index_of_file f None))))))).
Proof. exact L.drive_selection. Qed.
Print Assumptions C12_reader_drive_is_selection.

(* ... and that index selection is, entry for entry, the list the DataLoader model runs its loop over. *)
Theorem C12_loader_index_is_reader_selection : forall p1 sy dec al,
  (forall mode at_ r, map fst (al mode at_ r) = map fst r) ->
  forall f avail p types b sl,
  R.wf_file f -> L.ids_nonneg f -> RP.range_has_t0 L.c_idx f (Some (L.tr_link (p_tr p))) ->
  let w := R.spec_window (R.f_msgs f) (Some (L.tr_link (p_tr p))) in
  Forall2 (L.rel p1 sy dec f)
    (match sl with Some n => pre_slice n (index_select (L.link_env p1 sy dec al f avail) p types b)
                 | None => index_select (L.link_env p1 sy dec al f avail) p types b end)
    (L.sl_sel sl (L.rm_sel (p_p1 p && negb b) (filter (RP.tyf (Some (L.typesZ types)))
                   (F.filter_pos (F.window_ok (fst w) (snd w)) (F.fi_data (R.index_of_file f None)))))).
Proof. exact L.loader_index_rel. Qed.
Print Assumptions C12_loader_index_is_reader_selection.

(* "The returned messages are those of the log reader under the same filters", with the log reader being the proved
   model: after ANY history, the messages read() returns correspond one to one, in file order ([Forall2 rel_spec]: same
   message, same file ordinal), to C10's SPEC filter [spec_read] (type /\ source /\ time position among the timed
   messages), restricted by the read-time tests ([extraZ]: P1 time present / valid when required, system time present
   when required, payload parses) and limited to the first / last N.  Dict output: *)
Theorem C12_read_is_reader_filter : forall p1 sy dec al,
  (forall mode at_ r, map fst (al mode at_ r) = map fst r) ->
  forall f avail h a p types ign n0 ns,
  R.wf_file f -> L.ids_nonneg f -> L.requested_decode p1 sy dec al f avail a ->
  norm_args (L.link_env p1 sy dec al f avail) a = (p, types, ign) -> reduce_needed p types = n0 :: ns ->
  RP.range_has_t0 L.c_idx f (Some (L.tr_link (a_tr a))) ->
  a_order a = false -> a_align a = align_none -> (a_numpy a = false \/ a_keep a = true) ->
  exists r M,
    snd (read (L.link_env p1 sy dec al f avail) (run (L.link_env p1 sy dec al f avail) init_state h) a) = OutDict r /\
    map fst r = types /\
    (forall t d, lookup_data t r = Some d -> d_msgs d = map RFile (of_type t M)) /\
    Forall2 (L.rel_spec p1 sy dec) M
      (L.limit_gen (a_max a)
         (filter (L.extraZ p1 sy dec p (existsb (fun t => memN t sys_types) (n0 :: ns)))
                 (R.spec_read L.c_idx f (L.srcsZ p) (Some (L.typesZ types)) (Some (L.tr_link (a_tr a)))))).
Proof. exact L.read_is_reader_filter_dict. Qed.
Print Assumptions C12_read_is_reader_filter.

(* in-order output *)
Theorem C12_read_is_reader_filter_in_order : forall p1 sy dec al,
  (forall mode at_ r, map fst (al mode at_ r) = map fst r) ->
  forall f avail h a p types ign n0 ns,
  R.wf_file f -> L.ids_nonneg f -> L.requested_decode p1 sy dec al f avail a ->
  norm_args (L.link_env p1 sy dec al f avail) a = (p, types, ign) -> reduce_needed p types = n0 :: ns ->
  RP.range_has_t0 L.c_idx f (Some (L.tr_link (a_tr a))) ->
  a_order a = true ->
  exists d M,
    snd (read (L.link_env p1 sy dec al f avail) (run (L.link_env p1 sy dec al f avail) init_state h) a) = OutOrder d /\
    d_msgs d = map RFile M /\
    Forall2 (L.rel_spec p1 sy dec) M
      (L.limit_gen (a_max a)
         (filter (L.extraZ p1 sy dec p (existsb (fun t => memN t sys_types) (n0 :: ns)))
                 (R.spec_read L.c_idx f (L.srcsZ p) (Some (L.typesZ types)) (Some (L.tr_link (a_tr a)))))).
Proof. exact L.read_is_reader_filter_in_order. Qed.
Print Assumptions C12_read_is_reader_filter_in_order.

(* Non-vacuity of the link: C10's example log (E P1 E P2 E P3 E U) meets every hypothesis for
   read([Pose, Event], time_range=(1 s, -), max_messages=-3); both sides of the correspondence are messages #4 #5 #6. *)
Example C12_link_nonvacuous :
  R.wf_file LogReaderExamplesP.ex_file /\ L.ids_nonneg LogReaderExamplesP.ex_file /\
  L.requested_decode L.ex_p1 L.ex_sys L.ex_dec align_impl LogReaderExamplesP.ex_file [0%N] L.ex_args /\
  RP.range_has_t0 L.c_idx LogReaderExamplesP.ex_file (Some (L.tr_link (a_tr L.ex_args))) /\
  reduce_needed (fst (fst (norm_args L.ex_env L.ex_args))) (snd (fst (norm_args L.ex_env L.ex_args))) = [10000; 13004]%N /\
  map m_ord (spec_messages L.ex_env L.ex_args false) = [4; 5; 6]%N /\
  map (fun x => snd x) (L.limit_gen (Some (-3)%Z)
        (filter (L.extraZ L.ex_p1 L.ex_sys L.ex_dec (fst (fst (norm_args L.ex_env L.ex_args))) false)
                (R.spec_read L.c_idx LogReaderExamplesP.ex_file None (Some [10000; 13004]%Z) (Some (L.tr_link (a_tr L.ex_args))))))
  = [[R.PIndex 4]; [R.PIndex 5]; [R.PIndex 6]].
Proof. exact L.link_example. Qed.
