(* C11 — placeholder while the floor is assembled *)
From Coq Require Import ZArith List Bool.
From FEC Require Import Models.FileIndexOpsM Models.LogReaderM.
