(* C11 — Log reader is a correct cursor over the filtered list after any history.
   Property theorems only; each is closed by [exact <lemma>] and followed by Print Assumptions.

   MODEL: Models/LogReaderM.v [step_op fixed] (read_next, filter_in_place with the relocation arithmetic,
   filter_out_invalid_p1_times, clear_filters, rewind, seek_to_message, seek_to_eof) on the reader that
   [construct fixed] returns.  SPEC: [spec_step] on a cursor (S, pos): S is the entry list obtained by
   applying the position-defined meaning of each filter in sequence, pos the offset of the last entry
   consumed; read examines the entries of S beyond pos in order. *)
From Coq Require Import ZArith List Bool Sorted.
From Coq Require Import NArith.
From FEC Require Import Models.FastIndexerM Proofs.FastIndexerSpecP Models.FileIndexIOM Models.SystemLinkM Proofs.FileIndexIOP.
From FEC Require Import Generated.LogReaderConsts Models.FileIndexOpsM Models.LogReaderM
  Proofs.FileIndexOpsP Proofs.LogCursorP Proofs.LogReaderInitP Proofs.LogReaderExamplesP Proofs.LogReaderLinkP.
Import ListNotations.
Open Scope Z_scope.

(* For every well-formed log, every constructor source filter and EVERY operation sequence (no length
   bound) the reader's results — messages with their pieces / StopIteration / ValueError, IndexError —
   are those of the cursor SPEC with the same source filter. *)
Theorem C11_reader_refines_cursor : forall c f srcs ops,
  wf_file f -> run_script fixed c f srcs ops = Ok (spec_script c f srcs ops).
Proof. exact script_refines. Qed.
Print Assumptions C11_reader_refines_cursor.

(* The same from any reader state satisfying the invariant, and the invariant is kept by every operation. *)
Theorem C11_refines_from_any_state : forall c f ops r,
  WF r -> fst (run_ops fixed c f r ops) = spec_run c f (cursor_of r) ops /\ WF (snd (run_ops fixed c f r ops)).
Proof. exact run_refines_wf. Qed.
Print Assumptions C11_refines_from_any_state.

(* Key lemma: the argmax arithmetic of filter_in_place (including the empty index, the cursor at the
   start, "idx = 0 and offset[0] <= prev" = past the end) puts next_index_elem exactly between the
   entries at or before the remembered offset and those beyond it. *)
Theorem C11_relocate_correct : forall data prev,
  offs_inc data -> nonneg_offs data ->
  exists A B, data = A ++ B /\ relocate data prev = zlen A /\
              Forall (fun e => e_off e <= prev) A /\ Forall (fun e => prev < e_off e) B.
Proof. exact relocate_correct. Qed.
Print Assumptions C11_relocate_correct.

(* What "the filters then in force" select: on an index whose P1 times do not decrease, __getitem__ for
   every modelled key (type sets, time slices with hints, TimeRange objects, index slices) returns exactly
   the position-defined meaning, errors included. *)
Theorem C11_filter_meaning : forall fi k, times_sorted (fi_data fi) -> getitem fixed fi k = spec_getitem fi k.
Proof. exact getitem_spec. Qed.
Print Assumptions C11_filter_meaning.

(* Declarative reading of the SPEC's read (no byte limit): the first entry of S beyond the cursor whose
   message passes the source filter; iteration ends exactly when there is none. *)
Theorem C11_read_is_first_match : forall c f s,
  c_max_bytes c = None ->
  snd (spec_step c f s OpRead) =
  match find (passes (cs_srcs s) f) (beyond (cs_pos s) (fi_data (cs_cur s))) with
  | Some e => match file_at f (e_off e) with Some m => RMsg m (assemble c m (e_off e) (e_idx e)) | None => RStop end
  | None => RStop
  end.
Proof. exact spec_read_first_match. Qed.
Print Assumptions C11_read_is_first_match.

(* ---- non-vacuity: a concrete well-formed log (E P1 E P2 E P3 E U, Proofs/LogReaderExamplesP.v) and a script on it *)
Example C11_nonvacuous :
  wf_file ex_file /\
  run_script fixed ex_cfg ex_file None ex_script
  = Ok [RMsg (mkM 0 48 13004 0 None) [POffset 0]; RDone; RDone; RMsg (mkM 48 164 10000 0 (Some 8)) [POffset 48]; RDone;
        RMsg (mkM 260 164 10000 0 (Some 16)) [POffset 260]; RErr ValueError; RDone; RStop].
Proof. exact (conj ex_file_wf ex_script_result). Qed.

(* What the code did before the repairs (the findings): after read, filter to Pose, clear_filters the
   next read returned the first message again; remove-untimed removed nothing. *)
Theorem C11_legacy_refuted :
  run_script legacy ex_cfg_p ex_file None legacy_script_1 <> Ok (spec_script ex_cfg_p ex_file None legacy_script_1) /\
  run_script legacy ex_cfg_p ex_file None legacy_script_2 <> Ok (spec_script ex_cfg_p ex_file None legacy_script_2).
Proof. exact legacy_cursor_refuted. Qed.
Print Assumptions C11_legacy_refuted.

(* ---- from FILE BYTES (Proofs/LogReaderLinkP.v; see Properties/C10.v for log_of_file / file_of / opened_index) ----
   For the bytes d of any log file whose P1 times do not decrease, opened through fast_generate_index (index file absent,
   present, stale or ignored; fast indexer with any worker count; C08's 16 KiB precondition), the reader holds the fresh
   index of d, which is the index the model starts from, the log is the list of frames of C08's SPEC scan, and every
   operation sequence produces the results of the cursor SPEC over it. *)
Theorem C11_cursor_from_file_bytes : forall READ MAX : N,
  (2 <= READ)%N -> (READ mod 2 = 0)%N -> (24 <= MAX)%N -> (MAX <= READ)%N ->
  forall (ptime : N -> N -> list N -> option (N * N)) (W : N), (1 <= W)%N ->
  forall p1i d ig c srcs ops,
  fi_small_msgs MAX d -> plausible_index (p1_of_ptime ptime) p1i d -> c_max_bytes c = None -> p1_times_sorted (p1_of_ptime ptime) d ->
  exists idx, opened_index READ MAX ptime W load p1i d ig = Some idx /\
    findex_of idx = index_of_file (file_of (p1_of_ptime ptime) d) (c_max_bytes c) /\
    log_of_file (p1_of_ptime ptime) d = map (msg_of_frame (p1_of_ptime ptime)) (fi_spec_frames d) /\
    run_script fixed c (file_of (p1_of_ptime ptime) d) srcs ops = Ok (spec_script c (file_of (p1_of_ptime ptime) d) srcs ops).
Proof. exact script_through_open. Qed.
Print Assumptions C11_cursor_from_file_bytes.

(* the same for any byte string at the level of the scan alone (no indexer precondition, any max_bytes) *)
Theorem C11_cursor_on_file_log : forall p1 d c srcs ops,
  p1_times_sorted p1 d -> run_script fixed c (file_of p1 d) srcs ops = Ok (spec_script c (file_of p1 d) srcs ops).
Proof. exact script_on_file. Qed.
Print Assumptions C11_cursor_on_file_log.
