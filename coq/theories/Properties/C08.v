(* C08 — "Log index lists exactly the messages of a sequential scan of the file".
   Property theorems only; proofs in Proofs/FastIndexer*.v.

   MODEL  fi_generate READ MAX fi_cur ptime file W  = fast_generate_index(file, num_threads=W) of the working tree
          (Models/FastIndexerM.v; fi_cur = the repaired code, fi_legacy = the code before the six repairs).
   SPEC   fi_spec ptime file = entries (offset, type, whole-second P1 time or none, ordinal) of the frames that a
          left-to-right scan of the file accepts with Base judge_fe false false MAX_EXPECTED_SIZE_BYTES (sync,
          complete header, payload_size <= _MAX_EXPECTED_SIZE_BYTES, whole message present, CRC).  Unlike C04's
          decoder the indexer does NOT test the reserved bytes (check_reserved = false) — the C08 text does not
          list them.  The scan is end-of-file aware (a header whose payload runs past the end of the file is not a
          message and the scan goes on one byte further, as MixedLogReader does); [spec_extends_stream_scan]
          relates it to Base's streaming [scan].
   ptime  the per-class payload decoding (cls().unpack + get_p1_time()) is an arbitrary function: every theorem
          holds for all of them.
   All theorems are for every file, every worker count >= 1 and every even READ >= 2, 24 <= MAX <= READ; the
   constants of the working tree are an instance ([generated_constants_ok]). *)
From Coq Require Import NArith List.
From FEC Require Import Generated.FEConsts Base.Scan Base.FEFormat Models.FastIndexerM
  Proofs.FastIndexerListP Proofs.FastIndexerArithP Proofs.FastIndexerJudgeP Proofs.FastIndexerSpecP Proofs.FastIndexerLegacyP.
Import ListNotations.
Open Scope N_scope.

(* ---- block arithmetic --------------------------------------------------------------------------------------- *)
(* every offset o at which a 24-byte header still fits lies in the candidate range [k*READ, k*READ + 2*word_count)
   of exactly one block, and a message of at most MAX bytes starting at o lies wholly inside the bytes that
   block reads *)
Theorem blocks_cover : forall READ MAX : N,
  2 <= READ -> READ mod 2 = 0 -> 24 <= MAX -> MAX <= READ ->
  forall size o, o + 24 <= size ->
  exists k, k < fi_num_blocks READ size /\ fi_covers READ MAX size k o /\
    (forall n, n <= MAX -> o + n <= size -> o + n <= k * READ + fi_blen READ MAX size (k * READ)) /\
    (forall k', k' < fi_num_blocks READ size -> fi_covers READ MAX size k' o -> k' = k).
Proof. exact FastIndexerArithP.blocks_cover. Qed.
Print Assumptions blocks_cover.

Example generated_constants_ok :
  2 <= READ_SIZE_BYTES /\ READ_SIZE_BYTES mod 2 = 0 /\ 24 <= MAX_FE_MSG_SIZE_BYTES /\ MAX_FE_MSG_SIZE_BYTES <= READ_SIZE_BYTES.
Proof. exact FastIndexerArithP.generated_constants_ok. Qed.
Print Assumptions generated_constants_ok.

(* ---- the index is the sequential scan, for every worker count ------------------------------------------------ *)
(* precondition of the property: every message (every valid candidate) of the file is at most MAX bytes *)
(*   fi_small_msgs MAX file := forall j n, fi_judge (skipn j file) = Accept n -> N.of_nat n <= MAX *)

Theorem index_is_scan_for_every_worker_count : forall READ MAX : N,
  2 <= READ -> READ mod 2 = 0 -> 24 <= MAX -> MAX <= READ ->
  forall (ptime : N -> N -> list N -> option (N * N)) (file : list N) (W : N),
  1 <= W -> fi_small_msgs MAX file ->
  fi_generate READ MAX fi_cur ptime file W = FOk (fi_spec ptime file).
Proof. exact FastIndexerSpecP.index_is_scan. Qed.
Print Assumptions index_is_scan_for_every_worker_count.

Theorem one_worker_is_scan : forall READ MAX : N,
  2 <= READ -> READ mod 2 = 0 -> 24 <= MAX -> MAX <= READ ->
  forall ptime file, fi_small_msgs MAX file ->
  fi_generate READ MAX fi_cur ptime file 1 = FOk (fi_spec ptime file).
Proof. exact FastIndexerSpecP.one_worker_is_scan. Qed.
Print Assumptions one_worker_is_scan.

Theorem index_independent_of_workers : forall READ MAX : N,
  2 <= READ -> READ mod 2 = 0 -> 24 <= MAX -> MAX <= READ ->
  forall ptime file W1 W2, 1 <= W1 -> 1 <= W2 -> fi_small_msgs MAX file ->
  fi_generate READ MAX fi_cur ptime file W1 = fi_generate READ MAX fi_cur ptime file W2.
Proof. exact FastIndexerSpecP.index_independent_of_workers. Qed.
Print Assumptions index_independent_of_workers.

(* the hypotheses are met by a non-trivial input: the #15 file (wrapper across a block boundary, CRC-valid
   candidate running past it, real message inside) satisfies the precondition, and the index has 2 entries *)
Example index_is_scan_instance :
  fi_small_msgs 48 wit_overlap /\
  fi_generate 64 48 fi_cur no_time wit_overlap 1 = FOk (fi_spec no_time wit_overlap) /\
  fi_generate 64 48 fi_cur no_time wit_overlap 2 = FOk (fi_spec no_time wit_overlap) /\
  fi_generate 64 48 fi_cur no_time wit_overlap 3 = FOk (fi_spec no_time wit_overlap) /\
  fi_generate 64 48 fi_cur no_time wit_overlap 16 = FOk (fi_spec no_time wit_overlap) /\
  length (fi_spec no_time wit_overlap) = 2%nat.
Proof. exact (conj wit_overlap_small cur_overlap_ok). Qed.
Print Assumptions index_is_scan_instance.

(* ---- unconditional: whatever the file contains ------------------------------------------------------------------ *)
Theorem index_entries_crc_valid : forall READ MAX : N,
  2 <= READ -> READ mod 2 = 0 -> 24 <= MAX -> MAX <= READ ->
  forall ptime file W es, 1 <= W -> fi_generate READ MAX fi_cur ptime file W = FOk es ->
  forall e, In e es -> exists n, fi_judge (skipn (N.to_nat (e_off e)) file) = Accept n.
Proof. exact FastIndexerSpecP.entries_valid. Qed.
Print Assumptions index_entries_crc_valid.

Theorem index_never_raises : forall READ MAX : N,
  2 <= READ -> READ mod 2 = 0 -> 24 <= MAX -> MAX <= READ ->
  forall ptime file W, 1 <= W -> exists es, fi_generate READ MAX fi_cur ptime file W = FOk es.
Proof. exact FastIndexerSpecP.never_raises. Qed.
Print Assumptions index_never_raises.

(* ---- the SPEC that is extracted and run against the code is the SPEC; relation to Base's streaming scan ------- *)
Theorem spec_executable_is_spec : forall ptime file, fi_spec_x ptime file = fi_spec ptime file.
Proof. exact FastIndexerSpecP.spec_x_is_spec. Qed.
Print Assumptions spec_executable_is_spec.

Theorem spec_extends_stream_scan : forall file fs off' r,
  scan fi_judge 0 file = (fs, (off', r)) ->
  exists rest, fi_spec_frames file = fs ++ rest /\ ((length r < HEADER_SIZE)%nat -> rest = []).
Proof. exact FastIndexerSpecP.spec_extends_stream_scan. Qed.
Print Assumptions spec_extends_stream_scan.

(* ---- the code before the repairs violated each part (witnesses replayed on the code: corpus/C08) ---------------- *)
(* DESIGN 21 #15: although every valid candidate is <= MAX, one worker gives the scan and two workers do not *)
Theorem index_independent_legacy_refuted :
  fi_small_msgs 48 wit_overlap /\
  fi_generate 64 48 fi_legacy no_time wit_overlap 1 = FOk (fi_spec no_time wit_overlap) /\
  fi_generate 64 48 fi_legacy no_time wit_overlap 2 <> fi_generate 64 48 fi_legacy no_time wit_overlap 1.
Proof. exact (conj wit_overlap_small legacy_worker_dependent). Qed.
Print Assumptions index_independent_legacy_refuted.

(* DESIGN 21 #17: an entry whose payload is not in the file *)
Theorem index_entries_crc_valid_legacy_refuted :
  (exists e, fi_generate 64 48 fi_legacy no_time wit_trunc 1 = FOk [e] /\ e_off e = 0) /\
  (forall n, fi_judge (skipn 0 wit_trunc) <> Accept n) /\
  fi_generate 64 48 fi_cur no_time wit_trunc 1 = FOk [].
Proof. exact legacy_indexes_truncated. Qed.
Print Assumptions index_entries_crc_valid_legacy_refuted.

(* 1-byte file (also with the generated constants); DESIGN 21 #11: whole seconds >= 2^32 *)
Theorem index_never_raises_legacy_refuted :
  fi_generate 64 48 fi_legacy no_time [0] 1 = FRaise ErrNegativeDim /\
  fi_generate READ_SIZE_BYTES MAX_FE_MSG_SIZE_BYTES fi_legacy no_time [0] 1 = FRaise ErrNegativeDim /\
  fi_generate 64 48 fi_legacy big_time wit_msg 1 = FRaise ErrTimeOverflow /\
  fi_generate 64 48 fi_cur no_time [0] 1 = FOk [] /\
  (exists e, fi_generate 64 48 fi_cur big_time wit_msg 1 = FOk [e] /\ e_time e = None /\ e_off e = 0).
Proof. exact legacy_raises. Qed.
Print Assumptions index_never_raises_legacy_refuted.

(* the old code took the P1 time of a short-payload message from the bytes after it *)
Theorem index_time_legacy_refuted :
  (exists e, fi_generate 64 48 fi_legacy len_time wit_short 1 = FOk [e] /\ e_time e = Some 77) /\
  (exists e, fi_generate 64 48 fi_cur len_time wit_short 1 = FOk [e] /\ e_time e = None) /\
  (exists e, fi_spec len_time wit_short = [e] /\ e_time e = None).
Proof. exact legacy_time_from_following_bytes. Qed.
Print Assumptions index_time_legacy_refuted.
