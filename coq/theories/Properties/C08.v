(* C08 — property theorems (statements only; proofs in Proofs/FastIndexer*.v) *)
From Coq Require Import NArith List.
From FEC Require Import Generated.FEConsts Models.FastIndexerM Proofs.FastIndexerListP Proofs.FastIndexerArithP.
Open Scope N_scope.

(* blocks_cover: for every even READ >= 2 and 24 <= MAX <= READ, every file size and every offset o at which a
   24-byte header still fits, exactly one block of the block table has o in its candidate range
   [k*READ, k*READ + 2*word_count), and a message of at most MAX bytes starting at o lies wholly inside the
   bytes that block reads. *)
Theorem blocks_cover : forall READ MAX : N,
  2 <= READ -> READ mod 2 = 0 -> 24 <= MAX -> MAX <= READ ->
  forall size o, o + 24 <= size ->
  exists k, k < fi_num_blocks READ size /\ fi_covers READ MAX size k o /\
    (forall n, n <= MAX -> o + n <= size -> o + n <= k * READ + fi_blen READ MAX size (k * READ)) /\
    (forall k', k' < fi_num_blocks READ size -> fi_covers READ MAX size k' o -> k' = k).
Proof. exact FastIndexerArithP.blocks_cover. Qed.
Print Assumptions blocks_cover.

(* the constants of the working tree meet the hypotheses *)
Example generated_constants_ok :
  2 <= READ_SIZE_BYTES /\ READ_SIZE_BYTES mod 2 = 0 /\ 24 <= MAX_FE_MSG_SIZE_BYTES /\ MAX_FE_MSG_SIZE_BYTES <= READ_SIZE_BYTES.
Proof. exact FastIndexerArithP.generated_constants_ok. Qed.
Print Assumptions generated_constants_ok.
