(* C15 — Time alignment yields equal-length, time-matched series without altering data.
   Property theorems only; each is closed by [exact <lemma>] and followed by Print Assumptions.

   Reading guide.  [ta_align mode mt es] is the transcription of DataLoader.time_align_data: es is the data
   dict (entries in order), mt is `message_types` (None = all), a message is (time, id) with id standing for
   the identity of the Python object.  The result lists, per entry, either [Untouched] (`messages` is still
   the input list) or [Replaced l], l being made of [Kept m] (the input object m itself) and [Fresh t]
   (a new `cls()` with only p1_time := t).  [ta_out_of es outs i e l] says: entry e is at position i and was
   given the new list l.  Times are integers: NaN stamps are outside the statement.
   All statements quantify over every dict, every number of types, every family of timestamp lists
   (unsorted, with repeats) and every message_types argument. *)
From Coq Require Import ZArith Bool Sorted String List.
From FEC Require Import Generated.TimeAlignConsts Models.TimeAlignM Proofs.TimeAlignP.
Import ListNotations.
Open Scope Z_scope.

(* The call always succeeds (no index error inside the re-indexing) and returns one outcome per entry ... *)
Theorem C15_total : forall mode mt es,
  exists outs, ta_align mode mt es = Ok outs /\ List.length outs = List.length es.
Proof. exact ta_total. Qed.
Print Assumptions C15_total.

(* ... namely exactly what the small SPEC function says. *)
Theorem C15_model_meets_spec : forall mode mt es, ta_align mode mt es = Ok (ta_spec mode mt es).
Proof. exact align_eq_spec. Qed.
Print Assumptions C15_model_meets_spec.

(* Every type that takes part gets a new list ... *)
Theorem C15_aligned_replaced : forall mode mt es outs i e,
  ta_align mode mt es = Ok outs -> mode <> NONE -> nth_error es i = Some e -> ta_is_aligned mt e = true ->
  exists l, nth_error outs i = Some (Replaced l).
Proof. exact ta_aligned_replaced. Qed.
Print Assumptions C15_aligned_replaced.

(* ... and types excluded from alignment or lacking P1 time are untouched (also: mode NONE touches nothing). *)
Theorem C15_unaligned_untouched : forall mode mt es outs i e,
  ta_align mode mt es = Ok outs -> nth_error es i = Some e ->
  mode = NONE \/ ta_is_aligned mt e = false ->
  nth_error outs i = Some Untouched.
Proof. exact ta_unaligned_untouched. Qed.
Print Assumptions C15_unaligned_untouched.

(* Any two aligned types have the same number of entries ... *)
Theorem C15_all_same_length : forall mode mt es outs i e l j e' l',
  ta_align mode mt es = Ok outs -> ta_out_of es outs i e l -> ta_out_of es outs j e' l' ->
  length l = length l'.
Proof. exact ta_all_same_length. Qed.
Print Assumptions C15_all_same_length.

(* ... with pairwise equal timestamps ... *)
Theorem C15_pairwise_equal_times : forall mode mt es outs i e l j e' l',
  ta_align mode mt es = Ok outs -> ta_out_of es outs i e l -> ta_out_of es outs j e' l' ->
  map ta_time l = map ta_time l'.
Proof. exact ta_pairwise_equal_times. Qed.
Print Assumptions C15_pairwise_equal_times.

(* ... in strictly ascending order. *)
Theorem C15_ascending : forall mode mt es outs i e l,
  ta_align mode mt es = Ok outs -> ta_out_of es outs i e l -> StronglySorted Z.lt (map ta_time l).
Proof. exact ta_ascending_times. Qed.
Print Assumptions C15_ascending.

(* DROP: exactly the timestamps present in all aligned types. *)
Theorem C15_drop_times_intersection : forall mt es outs i e l,
  ta_align DROP mt es = Ok outs -> ta_out_of es outs i e l ->
  forall t, In t (map ta_time l) <-> (forall e', In e' (ta_aligned mt es) -> In t (ta_times e')).
Proof. exact ta_drop_times_intersection. Qed.
Print Assumptions C15_drop_times_intersection.

(* INSERT: exactly the union. *)
Theorem C15_insert_times_union : forall mt es outs i e l,
  ta_align INSERT mt es = Ok outs -> ta_out_of es outs i e l ->
  forall t, In t (map ta_time l) <-> (exists e', In e' (ta_aligned mt es) /\ In t (ta_times e')).
Proof. exact ta_insert_times_union. Qed.
Print Assumptions C15_insert_times_union.

(* Every original message that remains is the identical object of that type (same id, hence same time and
   content — the functional model has no way to alter it; the differential run checks content on the
   implementation).  Where a type repeats a timestamp, numpy's first-occurrence index keeps the FIRST such
   message: that is what [ta_first_occurrence] says. *)
Theorem C15_kept_identity : forall mode mt es outs i e l k m,
  ta_align mode mt es = Ok outs -> ta_out_of es outs i e l -> nth_error l k = Some (Kept m) ->
  In m (e_msgs e) /\ ta_first_occurrence m (e_msgs e).
Proof. exact ta_kept_identity. Qed.
Print Assumptions C15_kept_identity.

(* A default-valued message carrying the timestamp appears only in INSERT mode and only where the type had
   no message with that timestamp. *)
Theorem C15_fresh_only_when_missing : forall mode mt es outs i e l k t,
  ta_align mode mt es = Ok outs -> ta_out_of es outs i e l -> nth_error l k = Some (Fresh t) ->
  mode = INSERT /\ ~ In t (ta_times e).
Proof. exact ta_fresh_only_when_missing. Qed.
Print Assumptions C15_fresh_only_when_missing.

(* Position by position on the common axis: a type that has a message with that timestamp shows its first such
   message (the identical object); otherwise a default-valued message carrying the timestamp stands there. *)
Theorem C15_positionwise : forall mode mt es outs i e l k t,
  ta_align mode mt es = Ok outs -> ta_out_of es outs i e l -> nth_error (map ta_time l) k = Some t ->
  (In t (ta_times e) ->
     exists m, nth_error l k = Some (Kept m) /\ fst m = t /\ ta_first_occurrence m (e_msgs e)) /\
  (~ In t (ta_times e) -> nth_error l k = Some (Fresh t)).
Proof. exact ta_positionwise. Qed.
Print Assumptions C15_positionwise.

(* Which originals remain: exactly the first-occurrence messages whose time is on the common axis ... *)
Theorem C15_survivors : forall mode mt es outs i e l m,
  ta_align mode mt es = Ok outs -> ta_out_of es outs i e l ->
  (In (Kept m) l <-> ta_first_occurrence m (e_msgs e) /\ In (fst m) (map ta_time l)).
Proof. exact ta_survivors. Qed.
Print Assumptions C15_survivors.

(* ... so INSERT loses nothing except later messages that repeat a timestamp of their own type. *)
Theorem C15_insert_keeps_all : forall mt es outs i e l m,
  ta_align INSERT mt es = Ok outs -> ta_out_of es outs i e l ->
  ta_first_occurrence m (e_msgs e) -> In (Kept m) l.
Proof. exact ta_insert_keeps_all. Qed.
Print Assumptions C15_insert_keeps_all.

(* When a type has no repeated timestamp, "first occurrence" is plain membership. *)
Theorem C15_first_occurrence_nodup : forall m msgs,
  NoDup (map fst msgs) -> In m msgs -> ta_first_occurrence m msgs.
Proof. exact first_occurrence_nodup. Qed.
Print Assumptions C15_first_occurrence_nodup.

(* The constants evaluated from the implementation are the ones the model is written for: exactly the three modes
   NONE / DROP / INSERT (in whatever order) with distinct values, and a default that is one of them. *)
Theorem C15_generated_constants :
  forallb (fun n => existsb (String.eqb n) (map fst TimeAlignmentMode_members)) ["NONE"; "DROP"; "INSERT"]%string = true /\
  List.length TimeAlignmentMode_members = 3%nat /\
  NoDup (map snd TimeAlignmentMode_members) /\
  In time_align_data_default_mode (map fst TimeAlignmentMode_members).
Proof.
  split; [vm_compute; reflexivity|]. split; [vm_compute; reflexivity|]. split; [|vm_compute; tauto].
  vm_compute. repeat constructor; cbn; intuition discriminate.
Qed.
Print Assumptions C15_generated_constants.

(* Non-vacuity: concrete dicts meeting the hypotheses, with repeated and unsorted stamps, a type that is not
   selected, a type without P1 time, and an empty type. *)
Definition ex_es : list ta_entry :=
  [ {| e_type := 1%nat; e_has_p1 := true;  e_msgs := [(3, 0%nat); (1, 1%nat); (3, 2%nat)] |};
    {| e_type := 2%nat; e_has_p1 := true;  e_msgs := [(1, 3%nat); (2, 4%nat)] |};
    {| e_type := 3%nat; e_has_p1 := false; e_msgs := [(9, 5%nat)] |};
    {| e_type := 4%nat; e_has_p1 := true;  e_msgs := [(7, 6%nat)] |} ].
Definition ex_mt : option (list nat) := Some [1%nat; 2%nat; 3%nat].

Example C15_nonvacuous_insert :
  ta_align INSERT ex_mt ex_es =
    Ok [Replaced [Kept (1, 1%nat); Fresh 2; Kept (3, 0%nat)];
        Replaced [Kept (1, 3%nat); Kept (2, 4%nat); Fresh 3]; Untouched; Untouched] /\
  ta_out_of ex_es [Replaced [Kept (1, 1%nat); Fresh 2; Kept (3, 0%nat)];
                   Replaced [Kept (1, 3%nat); Kept (2, 4%nat); Fresh 3]; Untouched; Untouched]
            0 (nth 0 ex_es (Build_ta_entry 0 false [])) [Kept (1, 1%nat); Fresh 2; Kept (3, 0%nat)] /\
  ta_first_occurrence (3, 0%nat) [(3, 0%nat); (1, 1%nat); (3, 2%nat)] /\
  ~ ta_first_occurrence (3, 2%nat) [(3, 0%nat); (1, 1%nat); (3, 2%nat)].
Proof.
  split; [vm_compute; reflexivity|]. split; [split; reflexivity|]. split.
  - exists [], [(1, 1%nat); (3, 2%nat)]. split; [reflexivity|]. intros ? [].
  - intros [l1 [l2 [E H]]].
    destruct l1 as [|a l1]; [discriminate|]. injection E as <- E.
    apply (H (3, 0%nat)); [left|]; reflexivity.
Qed.

Example C15_nonvacuous_drop :
  ta_align DROP ex_mt ex_es =
    Ok [Replaced [Kept (1, 1%nat)]; Replaced [Kept (1, 3%nat)]; Untouched; Untouched] /\
  ta_align DROP None ex_es = Ok [Replaced []; Replaced []; Untouched; Replaced []] /\
  ta_align DROP (Some []) ex_es = Ok [Untouched; Untouched; Untouched; Untouched] /\
  ta_align NONE None ex_es = Ok [Untouched; Untouched; Untouched; Untouched].
Proof. repeat split; vm_compute; reflexivity. Qed.
