(* C16 — Numeric array conversion faithfully mirrors message fields.
   Property theorems only; each is closed by [exact <lemma>] and followed by Print Assumptions.

   [np_rows] is regenerated on every run from the `to_numpy` classmethods of /repo by translators/gen_c16.py:
   one row per (class, output key) with the normalised source expression — [Each path] for
   `np.array([m.path for m in messages])` (also through float()/int()/bool(), dtype=, .T), [First path] for
   `messages[0].path if len(messages) > 0 else ...`, [Opaque] for anything else (those are compared with the
   fields by the dynamic check only) — the class's field list and, for rows merged in from the embedded
   measurement details, the prefix [details]. *)
From Coq Require Import Bool Arith String List Sorted.
From FEC Require Import Generated.NumpyTables Models.ToNumpyM Models.NumpyTableM Proofs.ToNumpyP Proofs.NumpyTableP.
Import ListNotations.

(* Finite, over every generated row: an output array named like a field of the message (or of its embedded
   measurement details) is filled from that very field. *)
Theorem C16_same_name_same_source : forall r, In r np_rows -> In (r_key r) (r_fields r) ->
  r_src r = Opaque \/ r_src r = Each (np_expected_path r) \/ r_src r = First (np_expected_path r).
Proof. exact same_name_same_source. Qed.
Print Assumptions C16_same_name_same_source.

(* Finite: among the rows whose source expression is known, the outputs a class declares time-independent are
   exactly those holding the first message's value. *)
Theorem C16_ntd_iff_first : forall r, In r np_rows -> r_src r <> Opaque ->
  (r_ntd r = true <-> exists p, r_src r = First p).
Proof. exact ntd_iff_first. Qed.
Print Assumptions C16_ntd_iff_first.

Theorem C16_declared_ntd_are_outputs : forall c k ks, In (c, ks) np_declared_ntd -> In k ks ->
  exists r, In r np_rows /\ r_class r = c /\ r_key r = k.
Proof. exact declared_ntd_are_outputs. Qed.
Print Assumptions C16_declared_ntd_are_outputs.

(* Unbounded, any message type M, value type V, field accessor and message list:
   an [Each] output has one entry per message and holds at position i the field of the i-th message ... *)
Theorem C16_column_positions : forall (M V : Type) (get : M -> V) (ms : list M) i,
  nth_error (np_column get ms) i = option_map get (nth_error ms i).
Proof. intros M V. exact column_nth. Qed.
Print Assumptions C16_column_positions.

Theorem C16_column_length : forall (M V : Type) (get : M -> V) (ms : list M),
  length (np_column get ms) = length ms.
Proof. intros M V. exact column_length. Qed.
Print Assumptions C16_column_length.

(* ... a [First] (time-independent) output holds the first message's value ... *)
Theorem C16_time_independent_is_first : forall (M V : Type) (get : M -> V) dflt ms m,
  nth_error ms 0 = Some m -> np_first get dflt ms = get m.
Proof. intros M V. exact first_nth. Qed.
Print Assumptions C16_time_independent_is_first.

(* ... and the generic path returns exactly one such column per instance field. *)
Theorem C16_generic_path : forall (M V : Type) fields (get : string -> M -> V) ms,
  map fst (np_generic fields get ms) = fields /\
  forall k col, In (k, col) (np_generic fields get ms) <-> In k fields /\ col = np_column (get k) ms.
Proof. intros M V fields get ms. split; [apply generic_keys|intros; apply generic_columns]. Qed.
Print Assumptions C16_generic_path.

(* Removing untimed entries (MessageData.to_numpy(remove_nan_times=True), some P1 time invalid): every
   time-dependent array — 1-D of length N, AxN, NxA with A <> N, or Nx... — loses the same positions, the
   invalid ones, along its time axis; outputs declared not_time_dependent, bookkeeping attributes and
   non-arrays are left as they are; no key appears or disappears.
   (An NxA array with A = N is read as AxN by the code: that ambiguity is excluded by [np_has_time_axis].) *)
Theorem C16_remove_nan_consistent : forall (V : Type) is_nan ntd (entries : list (string * np_arr V)),
  existsb (fun b => b) is_nan = true ->
  let out := np_remove_nan is_nan ntd entries in
  map fst out = map fst entries /\
  (forall i key v ax,
      nth_error entries i = Some (key, v) -> np_is_skipped ntd key = false ->
      np_has_time_axis (length is_nan) v ax ->
      (forall cols d, v = A2 cols d -> Forall (fun r => length r = cols) d) ->
      nth_error out i = Some (key, np_select_time (np_positions is_nan) v ax)) /\
  (forall i key v,
      nth_error entries i = Some (key, v) -> np_is_skipped ntd key = true \/ v = A0 ->
      nth_error out i = Some (key, v)).
Proof. intros V. exact remove_nan_consistent. Qed.
Print Assumptions C16_remove_nan_consistent.

(* The positions that stay are exactly the indices of the valid P1 times, ascending ... *)
Theorem C16_kept_positions : forall is_nan,
  StronglySorted lt (np_positions is_nan) /\
  (forall p, In p (np_positions is_nan) <-> nth_error is_nan p = Some false) /\
  length (np_positions is_nan) = np_count (map negb is_nan).
Proof. intros. split; [apply positions_sorted|split; [apply positions_spec|apply positions_count]]. Qed.
Print Assumptions C16_kept_positions.

(* ... selecting them leaves one entry per valid time, the j-th one being the entry of the j-th valid time. *)
Theorem C16_selected_entries : forall (V : Type) is_nan (d : list V) j p,
  length d = length is_nan -> nth_error (np_positions is_nan) j = Some p ->
  length (np_select (np_positions is_nan) d) = np_count (map negb is_nan) /\
  nth_error (np_select (np_positions is_nan) d) j = nth_error d p.
Proof.
  intros V is_nan d j p L H. split; [apply remove_nan_lengths, L|].
  apply select_nth; [|exact H]. intros q Hq. apply positions_spec in Hq. rewrite L. apply nth_error_Some. congruence.
Qed.
Print Assumptions C16_selected_entries.

Theorem C16_remove_nan_nothing_to_do : forall (V : Type) is_nan ntd (entries : list (string * np_arr V)),
  existsb (fun b => b) is_nan = false -> np_remove_nan is_nan ntd entries = entries.
Proof. intros V. exact remove_nan_nothing_to_do. Qed.
Print Assumptions C16_remove_nan_nothing_to_do.

(* Non-vacuity.  The table is regenerated from whatever the source looks like today, so the instances are given on
   literal rows (how many rows of each kind the current table has is measured on every run and reported in
   evidence: coverage.table.row_kinds).  The checker accepts a same-named output read from its own field, directly
   or through the embedded details, and a time-independent one; it rejects the row the code had before the repair
   (gps_time_std_sec filled from baseline_distance_m); rows that are not named like a field, and Opaque rows,
   make no claim. *)
Example C16_nonvacuous_table :
  let fields := ["p1_time"; "gps_time_std_sec"; "baseline_distance_m"]%string in
  let dfields := ["measurement_time"; "data_source"; "p1_time"]%string in
  np_row_ok (Build_np_row "C" "gps_time_std_sec" (Each ["gps_time_std_sec"%string]) false [] fields) = true /\
  np_row_ok (Build_np_row "C" "gps_time_std_sec" (Each ["baseline_distance_m"%string]) false [] fields) = false /\
  np_row_ok (Build_np_row "C" "data_source" (Each ["details"; "data_source"]%string) false ["details"%string] dfields) = true /\
  np_row_ok (Build_np_row "C" "data_source" (Each ["details"; "measurement_time"]%string) false ["details"%string] dfields) = false /\
  np_row_ok (Build_np_row "C" "p1_time" (First ["p1_time"%string]) true [] fields) = true /\
  np_row_ok (Build_np_row "C" "undulation" (Each ["undulation_m"%string]) false [] fields) = true /\
  np_row_ok (Build_np_row "C" "p1_time" Opaque false [] fields) = true /\
  np_row_ntd_ok (Build_np_row "C" "p1_time" (First ["p1_time"%string]) false [] fields) = false /\
  np_row_ntd_ok (Build_np_row "C" "p1_time" (Each ["p1_time"%string]) true [] fields) = false.
Proof. vm_compute. repeat split. Qed.

Example C16_nonvacuous_remove_nan :
  np_remove_nan [false; true; false] ["fixed"%string]
    [("p1_time"%string, A1 [10; 11; 12]); ("lla_deg"%string, A2 3 [[1; 2; 3]; [4; 5; 6]]);
     ("nx2"%string, A2 2 [[1; 2]; [3; 4]; [5; 6]]); ("position_cov_enu_m2"%string, AH [[1]; [2]; [3]]);
     ("fixed"%string, A1 [7; 8; 9]); ("scalar"%string, A0)]
  = [("p1_time"%string, A1 [10; 12]); ("lla_deg"%string, A2 2 [[1; 3]; [4; 6]]);
     ("nx2"%string, A2 2 [[1; 2]; [5; 6]]); ("position_cov_enu_m2"%string, AH [[1]; [3]]);
     ("fixed"%string, A1 [7; 8; 9]); ("scalar"%string, A0)] /\
  np_positions [false; true; false] = [0; 2] /\
  np_has_time_axis 3 (A2 2 [[1; 2]; [3; 4]; [5; 6]]) TimeIsRows.
Proof. repeat split; try reflexivity. cbn. discriminate. Qed.

(* What the code did before the repair: arrays of more than two dimensions (PoseAuxMessage.position_cov_enu_m2,
   Nx3x3) kept their untimed entries while every other array lost them. *)
Theorem C16_legacy_refuted : forall (V : Type) (x : V),
  np_remove_nan_legacy [false; true] [] [("p1_time"%string, A1 [x; x]); ("position_cov_enu_m2"%string, AH [[x]; [x]])]
  = [("p1_time"%string, A1 [x]); ("position_cov_enu_m2"%string, AH [[x]; [x]])].
Proof. intros V. exact legacy_inconsistent. Qed.
Print Assumptions C16_legacy_refuted.
