(* C06 — Integrity check: encoder output validates, corruption is rejected, CRCs agree.
   Property theorems only; each is closed by [exact <lemma>] and followed by Print Assumptions.

   Vocabulary (Models/EncoderM.v, Base/Crc32.v, Base/FEFormat.v):
     Encoder_encode s m src          FusionEngineEncoder.encode_message in counter state s on a payload object m
                                     (get_type, get_version, pack) -> (bytes or struct.error, new counter)
     Encoder_unpack_validate l       MessageHeader().unpack(l, validate_crc=True)  (zlib = bit-serial CRC-32)
     Encoder_cpp_crc1 / _crc3 / Encoder_cpp_is_valid    CalculateCRC(buffer) / (buffer,len,init) / IsValid of crc.cc, crc.h
     judge_fe eager check_reserved max_payload          the acceptance test every scanner applies at one offset
     Encoder_xor_bytes m e           the received bytes: message m with error pattern e
     Encoder_err eC eR               an error pattern: nothing on bytes 0..3, eC on the CRC field (bytes 4..7),
                                     eR on the CRC-protected region (bytes 8..)
     Encoder_bits l                  the bits of l in the order the CRC register consumes them (LSB of each byte first)
     frame_crc_ok m                  CRC-32 of bytes 8.. of m equals the little-endian value of bytes 4..7
     rejected_everywhere .. l        judge_fe rejects l, unpack(validate_crc) raises, IsValid returns false *)
From Coq Require Import NArith List Bool.
From FEC Require Import Generated.FEConsts Generated.EncoderConsts Base.Bytes Base.Crc32 Base.Scan Base.FEFormat
  Models.EncoderM Proofs.CrcAlgebraP Proofs.EncoderP.
Import ListNotations.
Open Scope N_scope.

(* ================= 1. encoder output ========================================================================= *)
(* Every message the encoder produces, in any state it can reach, for any payload object whose type, version,
   source identifier and length fit their header fields: no exception, header carries exactly the given type,
   version, source, the counter value and the payload length, the payload follows unchanged, and the CRC is accepted
   by the Python validator, by CalculateCRC/IsValid of the C++ library and by the scanners' acceptance test
   (each within its own size limit). *)
Theorem C06_encoder_valid : forall s m source eager cr mp,
  Encoder_reachable s -> call_in_domain (m, source) ->
  exists out, Encoder_encode s m source = (Some out, (s + 1) mod 4294967296) /\
  let h := parse_header (firstn HEADER_SIZE out) in
  length out = (HEADER_SIZE + length (p_bytes m))%nat /\
  h_sync0 h = SYNC0 /\ h_sync1 h = SYNC1 /\ h_reserved h = 0 /\ h_proto h = PROTOCOL_VERSION /\
  h_type h = p_type m /\ h_msgver h = p_version m /\ h_seq h = s /\ h_source h = source /\
  h_psize h = N.of_nat (length (p_bytes m)) /\ skipn HEADER_SIZE out = p_bytes m /\
  h_crc h = crc32 (skipn 8 out) /\
  (h_psize h <= MAX_EXPECTED_SIZE_BYTES -> Encoder_unpack_validate out = Some (h, VcOk)) /\
  Encoder_cpp_crc1 out = Some (h_crc h) /\
  (N.of_nat HEADER_SIZE + h_psize h <= CPP_MAX_MESSAGE_SIZE_BYTES -> Encoder_cpp_is_valid out = Some true) /\
  (h_psize h <= mp -> judge_fe eager cr mp out = Accept (length out)).
Proof. exact encoder_valid_reachable. Qed.
Print Assumptions C06_encoder_valid.

(* Consecutive calls on one encoder carry s, s+1, s+2, ... modulo 2^32, each a valid frame. *)
Theorem C06_encoder_sequence : forall calls s, Encoder_reachable s -> Forall call_in_domain calls ->
  snd (Encoder_run s calls) = (s + N.of_nat (length calls)) mod 4294967296 /\
  forall k m src, nth_error calls k = Some (m, src) ->
    exists out, nth_error (fst (Encoder_run s calls)) k = Some (Some out) /\
                h_seq (parse_header (firstn HEADER_SIZE out)) = (s + N.of_nat k) mod 4294967296 /\
                h_source (parse_header (firstn HEADER_SIZE out)) = src /\ h_type (parse_header (firstn HEADER_SIZE out)) = p_type m /\
                skipn HEADER_SIZE out = p_bytes m /\
                frame_valid false true (N.of_nat (length (p_bytes m))) out.
Proof. exact encoder_run_reachable. Qed.
Print Assumptions C06_encoder_sequence.

(* Every reachable counter state fits the 32-bit header field (this is what the repair established). *)
Theorem C06_encoder_counter_fits : forall s, Encoder_reachable s -> s < 4294967296.
Proof. exact reachable_u32. Qed.
Print Assumptions C06_encoder_counter_fits.

(* Before the repair (counter never reduced) the statement was false: state 2^32 is reachable and the call raises. *)
Theorem C06_encoder_seq_overflow_legacy_refuted :
  ~ (forall s m src, Encoder_reachable_legacy s -> call_in_domain (m, src) ->
       exists out, fst (Encoder_encode_legacy s m src) = Some out).
Proof. exact encoder_seq_overflow_refuted. Qed.
Print Assumptions C06_encoder_seq_overflow_legacy_refuted.

(* ================= 2. the CRC routines agree ================================================================== *)
(* crc.cc (table built by its own initialisation loop) = the bit-serial CRC-32 definition (the model of zlib.crc32),
   for every buffer and every initial value ... *)
Theorem C06_crc_impls_agree : forall init l, bytes_ok l -> init < 4294967296 ->
  Encoder_cpp_crc3 l (N.of_nat (length l)) init = Some (Encoder_zlib_crc32 l init).
Proof. exact crc_impls_agree. Qed.
Print Assumptions C06_crc_impls_agree.

Theorem C06_crc_table_eq_bitserial : forall init l, bytes_ok l -> crc32_from init l = crc32_spec_from init l.
Proof. exact crc32_from_eq_spec. Qed.
Print Assumptions C06_crc_table_eq_bitserial.

(* ... and incrementally at every split point. *)
Theorem C06_crc_incremental : forall init a b,
  crc32_from (crc32_from init a) b = crc32_from init (a ++ b) /\
  Encoder_zlib_crc32 b (Encoder_zlib_crc32 a init) = Encoder_zlib_crc32 (a ++ b) init.
Proof. exact crc_incremental. Qed.
Print Assumptions C06_crc_incremental.

(* the three validators compute the same test on any buffer that holds the claimed message *)
Theorem C06_validate_crc_is_the_crc_test : forall l, bytes_ok l -> (HEADER_SIZE <= length l)%nat ->
  let h := parse_header (firstn HEADER_SIZE l) in
  let n := (HEADER_SIZE + N.to_nat (h_psize h))%nat in
  (n <= length l)%nat ->
  Encoder_unpack_validate l =
  Some (h, if MAX_EXPECTED_SIZE_BYTES <? h_psize h then VcTooBig
           else if crc32 (crc_region l n) =? h_crc h then VcOk else VcMismatch).
Proof. exact validate_crc_eq. Qed.
Print Assumptions C06_validate_crc_is_the_crc_test.

Theorem C06_is_valid_is_the_crc_test : forall l, bytes_ok l -> (HEADER_SIZE <= length l)%nat ->
  let h := parse_header (firstn HEADER_SIZE l) in
  let n := (HEADER_SIZE + N.to_nat (h_psize h))%nat in
  (n <= length l)%nat ->
  Encoder_cpp_is_valid l =
  Some (if CPP_MAX_MESSAGE_SIZE_BYTES <? N.of_nat HEADER_SIZE + h_psize h then false
        else h_crc h =? crc32 (crc_region l n)).
Proof. exact cpp_is_valid_eq. Qed.
Print Assumptions C06_is_valid_is_the_crc_test.

(* the acceptance test run by the extracted SPEC runner is judge_fe *)
Theorem C06_runner_judge_is_judge_fe : forall eager cr mp l, Encoder_judge eager cr mp l = judge_fe eager cr mp l.
Proof. exact Encoder_judge_eq. Qed.
Print Assumptions C06_runner_judge_is_judge_fe.

(* ================= 3. algebra of the register ================================================================== *)
Theorem C06_step_linear : forall x y, step_bit (N.lxor x y) = N.lxor (step_bit x) (step_bit y).
Proof. exact step_bit_lin. Qed.
Print Assumptions C06_step_linear.

Theorem C06_step_bijective :
  (forall c, u32 c -> u32 (step_bit c)) /\ (forall y, u32 y -> u32 (Encoder_unstep y)) /\
  (forall c, u32 c -> Encoder_unstep (step_bit c) = c) /\ (forall y, u32 y -> step_bit (Encoder_unstep y) = y).
Proof. exact step_bit_bijective. Qed.
Print Assumptions C06_step_bijective.

(* CRC of (m xor e) = CRC of m xor syndrome(e): the initial value and the final xor cancel *)
Theorem C06_crc_linear : forall m e, length m = length e -> bytes_ok m -> bytes_ok e ->
  crc32 (Encoder_xor_bytes m e) = N.lxor (crc32 m) (lin e).
Proof. exact crc32_xor. Qed.
Print Assumptions C06_crc_linear.

(* the register returns 1 to 1 after 2^32-1 steps and after no smaller positive number of steps *)
Theorem C06_order_exact : Encoder_steps ORD 1 = 1 /\ forall d, 0 < d < ORD -> Encoder_steps d 1 <> 1.
Proof. exact (conj steps_ORD order_exact). Qed.
Print Assumptions C06_order_exact.

(* a corrupted message passes the CRC test iff the syndrome of the region error equals the CRC-field error *)
Theorem C06_undetected_iff : forall m eC eR,
  bytes_ok m -> bytes_ok eC -> bytes_ok eR -> length eC = 4%nat -> length m = (8 + length eR)%nat ->
  frame_crc_ok m ->
  (frame_crc_ok (Encoder_xor_bytes m (Encoder_err eC eR)) <-> lin eR = le eC).
Proof. exact corrupted_crc_ok_iff. Qed.
Print Assumptions C06_undetected_iff.

(* ================= 4. detection (CRC test), every message length ================================================ *)
Theorem C06_detect_any_crc_field_error : forall m eC eR,
  bytes_ok m -> bytes_ok eC -> bytes_ok eR -> length eC = 4%nat -> length m = (8 + length eR)%nat -> frame_crc_ok m ->
  eR = repeat 0 (length eR) -> (exists b, In b eC /\ b <> 0) ->
  ~ frame_crc_ok (Encoder_xor_bytes m (Encoder_err eC eR)).
Proof. exact detect_any_crc_field_error. Qed.
Print Assumptions C06_detect_any_crc_field_error.

Theorem C06_detect_burst32 : forall m eC eR,
  bytes_ok m -> bytes_ok eC -> bytes_ok eR -> length eC = 4%nat -> length m = (8 + length eR)%nat -> frame_crc_ok m ->
  forall p W q, eC = repeat 0 4 ->
  Encoder_bits eR = repeat false p ++ W ++ repeat false q -> (length W <= 32)%nat -> In true W ->
  ~ frame_crc_ok (Encoder_xor_bytes m (Encoder_err eC eR)).
Proof. exact detect_burst32. Qed.
Print Assumptions C06_detect_burst32.

Theorem C06_detect_two_bits_region : forall m eC eR,
  bytes_ok m -> bytes_ok eC -> bytes_ok eR -> length eC = 4%nat -> length m = (8 + length eR)%nat -> frame_crc_ok m ->
  forall p d q, eC = repeat 0 4 ->
  Encoder_bits eR = repeat false p ++ [true] ++ repeat false d ++ [true] ++ repeat false q ->
  8 * N.of_nat (length eR) + 32 < 2 ^ 32 ->
  ~ frame_crc_ok (Encoder_xor_bytes m (Encoder_err eC eR)).
Proof. exact detect_two_bits_region. Qed.
Print Assumptions C06_detect_two_bits_region.

Theorem C06_detect_two_bits_region_and_crc : forall m eC eR,
  bytes_ok m -> bytes_ok eC -> bytes_ok eR -> length eC = 4%nat -> length m = (8 + length eR)%nat -> frame_crc_ok m ->
  forall p q j, Encoder_bits eC = repeat false j ++ [true] ++ repeat false (31 - j) -> (j < 32)%nat ->
  Encoder_bits eR = repeat false p ++ [true] ++ repeat false q ->
  8 * N.of_nat (length eR) + 32 < 2 ^ 32 ->
  ~ frame_crc_ok (Encoder_xor_bytes m (Encoder_err eC eR)).
Proof. exact detect_two_bits_region_and_crc. Qed.
Print Assumptions C06_detect_two_bits_region_and_crc.

Theorem C06_detect_one_bit_region : forall m eC eR,
  bytes_ok m -> bytes_ok eC -> bytes_ok eR -> length eC = 4%nat -> length m = (8 + length eR)%nat -> frame_crc_ok m ->
  forall p q, eC = repeat 0 4 -> Encoder_bits eR = repeat false p ++ [true] ++ repeat false q ->
  ~ frame_crc_ok (Encoder_xor_bytes m (Encoder_err eC eR)).
Proof. exact detect_one_bit_region. Qed.
Print Assumptions C06_detect_one_bit_region.

(* ================= 5. rejection by the validators and the scanners ================================================ *)
(* m is a message accepted whole by the acceptance test (e.g. any encoder output, theorem 1); the received bytes are
   m xor e followed by anything.  If the payload-size field still reads the same and the corruption fails the CRC
   test, then the acceptance test says Reject (not "need more bytes"), whatever follows ... *)
Theorem C06_corrupt_rejected_by_judge : forall eager cr mp m e rest,
  bytes_ok m -> frame_valid eager cr mp m -> bytes_ok e -> length e = length m -> bytes_ok rest ->
  h_psize (parse_header (firstn HEADER_SIZE (Encoder_xor_bytes m e))) = h_psize (parse_header (firstn HEADER_SIZE m)) ->
  ~ frame_crc_ok (Encoder_xor_bytes m e) ->
  judge_fe eager cr mp (Encoder_xor_bytes m e ++ rest) = Reject.
Proof. exact corrupt_rejected_by_judge. Qed.
Print Assumptions C06_corrupt_rejected_by_judge.

(* ... so no scanner that reports what Base/Scan.scan reports (the python decoder and the C++ framer are proved to,
   in C04/C05/C07) reports a frame at the offset of the corrupted message, wherever it sits in a stream. *)
Theorem C06_decoders_reject_corrupt : forall eager cr mp pre m e rest fs st,
  bytes_ok m -> frame_valid eager cr mp m -> bytes_ok e -> length e = length m -> bytes_ok rest ->
  h_psize (parse_header (firstn HEADER_SIZE (Encoder_xor_bytes m e))) = h_psize (parse_header (firstn HEADER_SIZE m)) ->
  ~ frame_crc_ok (Encoder_xor_bytes m e) ->
  scan (judge_fe eager cr mp) 0 (pre ++ Encoder_xor_bytes m e ++ rest) = (fs, st) ->
  forall bs, ~ In (length pre, bs) fs.
Proof. exact decoders_reject_corrupt. Qed.
Print Assumptions C06_decoders_reject_corrupt.

(* The classes of the property text, each rejected by the acceptance test, by unpack(validate_crc=True) and by IsValid.
   (a) any non-zero error confined to the CRC field: one bit, two bits, any burst inside the field, anything *)
Theorem C06_reject_crc_field_error : forall eager cr mp m eC eR rest,
  bytes_ok m -> frame_valid eager cr mp m -> bytes_ok eC -> bytes_ok eR -> length eC = 4%nat ->
  length m = (8 + length eR)%nat -> bytes_ok rest ->
  eR = repeat 0 (length eR) -> (exists b, In b eC /\ b <> 0) ->
  rejected_everywhere eager cr mp (Encoder_xor_bytes m (Encoder_err eC eR) ++ rest).
Proof. exact reject_crc_field_error. Qed.
Print Assumptions C06_reject_crc_field_error.

(* (b) any burst of at most 32 bits inside the protected region, at every position, for every message length *)
Theorem C06_reject_burst32 : forall eager cr mp m eC eR rest,
  bytes_ok m -> frame_valid eager cr mp m -> bytes_ok eC -> bytes_ok eR -> length eC = 4%nat ->
  length m = (8 + length eR)%nat -> bytes_ok rest ->
  h_psize (parse_header (firstn HEADER_SIZE (Encoder_xor_bytes m (Encoder_err eC eR)))) = h_psize (parse_header (firstn HEADER_SIZE m)) ->
  forall p W q, eC = repeat 0 4 ->
  Encoder_bits eR = repeat false p ++ W ++ repeat false q -> (length W <= 32)%nat -> In true W ->
  rejected_everywhere eager cr mp (Encoder_xor_bytes m (Encoder_err eC eR) ++ rest).
Proof. exact reject_burst32. Qed.
Print Assumptions C06_reject_burst32.

(* (c) one flipped bit of the region *)
Theorem C06_reject_one_bit_region : forall eager cr mp m eC eR rest,
  bytes_ok m -> frame_valid eager cr mp m -> bytes_ok eC -> bytes_ok eR -> length eC = 4%nat ->
  length m = (8 + length eR)%nat -> bytes_ok rest ->
  h_psize (parse_header (firstn HEADER_SIZE (Encoder_xor_bytes m (Encoder_err eC eR)))) = h_psize (parse_header (firstn HEADER_SIZE m)) ->
  forall p q, eC = repeat 0 4 -> Encoder_bits eR = repeat false p ++ [true] ++ repeat false q ->
  rejected_everywhere eager cr mp (Encoder_xor_bytes m (Encoder_err eC eR) ++ rest).
Proof. exact reject_one_bit_region. Qed.
Print Assumptions C06_reject_one_bit_region.

(* (d) two flipped bits of the region (any size limit below 2^29-20 bytes; the library's limits are 2^24) *)
Theorem C06_reject_two_bits_region : forall eager cr mp m eC eR rest,
  bytes_ok m -> frame_valid eager cr mp m -> bytes_ok eC -> bytes_ok eR -> length eC = 4%nat ->
  length m = (8 + length eR)%nat -> bytes_ok rest ->
  h_psize (parse_header (firstn HEADER_SIZE (Encoder_xor_bytes m (Encoder_err eC eR)))) = h_psize (parse_header (firstn HEADER_SIZE m)) ->
  forall p d q, mp + 20 < 2 ^ 29 -> eC = repeat 0 4 ->
  Encoder_bits eR = repeat false p ++ [true] ++ repeat false d ++ [true] ++ repeat false q ->
  rejected_everywhere eager cr mp (Encoder_xor_bytes m (Encoder_err eC eR) ++ rest).
Proof. exact reject_two_bits_region. Qed.
Print Assumptions C06_reject_two_bits_region.

(* (e) one flipped bit of the region and one of the CRC field *)
Theorem C06_reject_two_bits_region_and_crc : forall eager cr mp m eC eR rest,
  bytes_ok m -> frame_valid eager cr mp m -> bytes_ok eC -> bytes_ok eR -> length eC = 4%nat ->
  length m = (8 + length eR)%nat -> bytes_ok rest ->
  h_psize (parse_header (firstn HEADER_SIZE (Encoder_xor_bytes m (Encoder_err eC eR)))) = h_psize (parse_header (firstn HEADER_SIZE m)) ->
  forall p q j, mp + 20 < 2 ^ 29 ->
  Encoder_bits eC = repeat false j ++ [true] ++ repeat false (31 - j) -> (j < 32)%nat ->
  Encoder_bits eR = repeat false p ++ [true] ++ repeat false q ->
  rejected_everywhere eager cr mp (Encoder_xor_bytes m (Encoder_err eC eR) ++ rest).
Proof. exact reject_two_bits_region_and_crc. Qed.
Print Assumptions C06_reject_two_bits_region_and_crc.

(* ================= 6. the payload-size field ===================================================================== *)
(* the hypothesis "the size field reads the same" holds whenever the error is zero on bytes 16..19 *)
Theorem C06_size_field_untouched : forall m e, (HEADER_SIZE <= length m)%nat -> length e = length m ->
  sub e 16 4 = repeat 0 4 ->
  h_psize (parse_header (firstn HEADER_SIZE (Encoder_xor_bytes m e))) = h_psize (parse_header (firstn HEADER_SIZE m)).
Proof. exact size_field_untouched. Qed.
Print Assumptions C06_size_field_untouched.

(* when the error does change what the size field reads, the message is never accepted with its original extent *)
Theorem C06_corrupt_size_field_never_same_length : forall eager cr mp m e rest,
  frame_valid eager cr mp m -> length e = length m ->
  h_psize (parse_header (firstn HEADER_SIZE (Encoder_xor_bytes m e))) <> h_psize (parse_header (firstn HEADER_SIZE m)) ->
  judge_fe eager cr mp (Encoder_xor_bytes m e ++ rest) <> Accept (length m).
Proof. exact corrupt_size_field_never_same_length. Qed.
Print Assumptions C06_corrupt_size_field_never_same_length.

(* but the property as worded ("any message in which one bit ... of the CRC-protected region has been altered is
   rejected") is FALSE for bits of the size field: the field is protected only by the CRC whose extent it fixes.
   Witness: a valid 28-byte message in which flipping bit 2 of byte 16 (size 4 -> 0) leaves a valid 24-byte message;
   python validator, IsValid and both acceptance tests accept it (replayed on the implementation by the check). *)
Theorem C06_detect_one_bit_size_field_refuted :
  frame_valid false true MAX_EXPECTED_SIZE_BYTES size_flip_msg /\ bytes_ok size_flip_msg /\
  length size_flip_err = length size_flip_msg /\
  Encoder_bits size_flip_err = repeat false 130 ++ [true] ++ repeat false 93 /\
  let m' := Encoder_xor_bytes size_flip_msg size_flip_err in
  judge_fe false true MAX_EXPECTED_SIZE_BYTES m' = Accept 24 /\
  judge_fe true true MAX_EXPECTED_SIZE_BYTES m' = Accept 24 /\
  (exists h, Encoder_unpack_validate m' = Some (h, VcOk)) /\
  Encoder_cpp_is_valid m' = Some true.
Proof. exact detect_one_bit_size_field_refuted. Qed.
Print Assumptions C06_detect_one_bit_size_field_refuted.

(* ================= 7. non-vacuity ================================================================================ *)
Example C06_nonvacuous_message :
  Encoder_in_domain 4294967295 ex_payload 7 /\ bytes_ok ex_msg /\ length ex_msg = 27%nat /\
  frame_valid false true MAX_EXPECTED_SIZE_BYTES ex_msg /\ frame_valid true true (CPP_MAX_MESSAGE_SIZE_BYTES - 24) ex_msg /\
  MAX_EXPECTED_SIZE_BYTES + 20 < 2 ^ 29.
Proof. exact ex_msg_valid. Qed.

Example C06_nonvacuous_burst :
  bytes_ok ex_burst_eR /\ length ex_msg = (8 + length ex_burst_eR)%nat /\
  (exists W, Encoder_bits ex_burst_eR = repeat false 101 ++ W ++ repeat false 27 /\ (length W <= 32)%nat /\ In true W) /\
  sub (Encoder_err (repeat 0 4) ex_burst_eR) 16 4 = repeat 0 4.
Proof. exact ex_burst_meets_hypotheses. Qed.

Example C06_nonvacuous_two_bits :
  bytes_ok ex_two_eR /\ length ex_msg = (8 + length ex_two_eR)%nat /\
  Encoder_bits ex_two_eR = repeat false 32 ++ [true] ++ repeat false 118 ++ [true] ++ repeat false 0 /\
  sub (Encoder_err (repeat 0 4) ex_two_eR) 16 4 = repeat 0 4.
Proof. exact ex_two_bits_meet_hypotheses. Qed.

Example C06_nonvacuous_crc_and_region :
  let eC := [0; 2; 0; 0] in let eR := repeat 0 18 ++ [64] in
  bytes_ok eC /\ bytes_ok eR /\ length eC = 4%nat /\ length ex_msg = (8 + length eR)%nat /\
  Encoder_bits eC = repeat false 9 ++ [true] ++ repeat false (31 - 9) /\
  Encoder_bits eR = repeat false 150 ++ [true] ++ repeat false 1 /\
  sub (Encoder_err eC eR) 16 4 = repeat 0 4.
Proof. exact ex_crc_and_region_meet_hypotheses. Qed.
