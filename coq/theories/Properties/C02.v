(* C02 — Python wire layout equals the canonical C++ packed-struct layout.
   Property theorems only.  cpp_layouts is what clang++-14 / g++ make of the headers in the working tree,
   py_layouts what probing the working tree's Python pack()/unpack() observed (Generated/, rewritten every run);
   layout_exceptions is the committed exception table.  Specifications: Models/LayoutM.v, Models/PackingM.v. *)
From Coq Require Import Arith ZArith List String Bool Sorted.
From FEC Require Import Models.PackingM Models.LayoutM Models.LayoutValuesM Models.LayoutTables Proofs.PackingP Proofs.LayoutP Proofs.LayoutTablesP
     Generated.LayoutCpp Generated.LayoutPyProbe Generated.LayoutExc Generated.LayoutValues.
Import ListNotations.
Open Scope nat_scope.

(* the comparison, as computed: for every way the library reads a payload — unpack(buffer, message_version=MESSAGE_VERSION),
   unpack(buffer) with the default version, and FusionEngineDecoder.on_data() on the framed message — every struct's probe
   row agrees with the C++ layout, and all ways name the same attributes byte for byte *)
(* paths_agree T E cpp ref paths :=
     forallb (fun pt => forallb2 (struct_agree T E) cpp (snd pt) && forallb2 same_fixed ref (snd pt)) paths      (Models/LayoutM.v) *)
Theorem C02_layouts_agree :
  paths_agree cpp_layouts layout_exceptions cpp_layouts py_layouts py_layout_paths = true.
Proof. exact layouts_agree_b. Qed.
Print Assumptions C02_layouts_agree.

(* ... read as: on every call path, for every struct and every member — same fixed-part size (smallest buffer Python
   unpacks, bytes consumed, bytes packed = sizeof), every non-padding byte of the member read into one attribute which depends
   on no byte outside the member and carries the expected name, padding not read, pack writes exactly these bytes; and the
   attribute <-> byte map is the same on every path. *)
Theorem C02_layouts_agree_forall : forall path tbl, In (path, tbl) py_layout_paths ->
  layouts_agree_spec cpp_layouts layout_exceptions cpp_layouts tbl /\
  List.length py_layouts = List.length tbl /\
  forall p q, In (p, q) (combine py_layouts tbl) -> same_fixed p q = true.
Proof. exact layouts_agree_forall. Qed.
Print Assumptions C02_layouts_agree_forall.

(* Same interpretation, not only same byte ranges.  For every leaf element of every struct (nested structs flattened), every
   test value and every call path: the number written little-endian at the element's C++ offset is the number found at the
   element's Python path, times the tabulated scale (within 2^-40 relative); the Python value set and packed is found back at
   the C++ offset with no other byte changed; array attributes given in C order, Fortran order, as transposed / strided /
   block views put element [k] at the C++ offset of element [k].  (value_agrees: Models/LayoutValuesM.v.)  This is what sees
   swapped words inside a merged member, a wrong byte order, a wrong scale, a transposed matrix. *)
Theorem C02_values_agree : forall r, In r value_rows -> value_agrees r.
Proof. exact values_agree_forall. Qed.
Print Assumptions C02_values_agree.

(* README, Message Packing, claim 1: packed (members back to back from offset 0, no implicit padding) and aligned(4)
   (sizeof = total rounded up to a multiple of 4, alignof = 4) — for every struct. *)
Theorem C02_cpp_layouts_follow_readme : forall s, In s cpp_layouts ->
  dumped s = layout_packed (map m_type (s_members s)) /\
  s_size s = round_up4 (total_size (map m_type (s_members s))) /\ s_align s = 4.
Proof. exact readme_forall. Qed.
Print Assumptions C02_cpp_layouts_follow_readme.

(* README claim 2: every floating point member (and every nested 4-aligned struct) starts on a 4-byte boundary. *)
Theorem C02_all_float_members_aligned4 : forall s m, In s cpp_layouts -> In m (s_members s) ->
  needs_align4 m = true -> Nat.modulo (m_off m) 4 = 0.
Proof. exact floats_forall. Qed.
Print Assumptions C02_all_float_members_aligned4.

(* generic, by induction: the packed layout of non-empty members has strictly increasing offsets, ranges that do
   not overlap, stays within the total size, one range per member. *)
Theorem C02_layout_packed_no_overlap : forall l,
  Forall (fun c => 0 < ct_size c) l ->
  StronglySorted (fun a b => fst a + snd a <= fst b /\ fst a < fst b) (layout_packed l) /\
  (forall o s, In (o, s) (layout_packed l) -> o + s <= total_size l) /\
  List.length (layout_packed l) = List.length l.
Proof. exact layout_packed_no_overlap. Qed.
Print Assumptions C02_layout_packed_no_overlap.

(* non-vacuity: tables are non-empty, the hypothesis of the generic theorem holds for every struct, and the comparison
   flags a wrong width, a swapped pair of same-width fields, a size difference and a read of padding on small tables. *)
Open Scope string_scope.
Definition ex_cs := mkStruct "S" 4 4 [mkMember "a" 0 (mkCtype 1 1 1 false false) ""; mkMember "b" 1 (mkCtype 1 1 1 false false) "";
                                      mkMember "reserved" 2 (mkCtype 2 1 1 false true) ""].
Definition ex_byte (a : list string) (p : list nat) := mkPbyte a [] false 3 p false.
Definition ex_tail := repeat (ex_byte [] []) 8.
Definition ex_ps (b0 b1 b2 b3 : pbyte) (sz : nat) := mkPstruct "S" "m.S" (Some sz) (Some sz) (Some sz) ["a"; "b"] ([b0; b1; b2; b3] ++ ex_tail).
Definition ex_E := mkExc [] [] [] [].
Example C02_nonvacuous :
  cpp_layouts <> [] /\ py_layouts <> [] /\ value_table <> [] /\
  value_ok (mkVrow "S" "a" "unpack" 1000%Z 1%Z 1%Z 1%Z 500000000%Z 1%Z) = false /\ value_ok (mkVrow "S" "a" "unpack" 1000%Z 1%Z 1%Z 128%Z 125%Z 16%Z) = true /\
  List.length py_layout_paths = 3 /\ (exists path, In (path, py_layouts) py_layout_paths) /\
  forallb (fun s => forallb (fun m => Nat.ltb 0 (ct_size (m_type m))) (s_members s)) cpp_layouts = true /\
  struct_agree [ex_cs] ex_E ex_cs (ex_ps (ex_byte ["a"] [0]) (ex_byte ["b"] [1]) (ex_byte [] []) (ex_byte [] []) 4) = true /\
  struct_agree [ex_cs] ex_E ex_cs (ex_ps (ex_byte ["b"] [0]) (ex_byte ["a"] [1]) (ex_byte [] []) (ex_byte [] []) 4) = false /\
  struct_agree [ex_cs] ex_E ex_cs (ex_ps (ex_byte ["a"] [0]) (ex_byte ["a"] [1]) (ex_byte [] []) (ex_byte [] []) 4) = false /\
  struct_agree [ex_cs] ex_E ex_cs (ex_ps (ex_byte ["a"] [0]) (ex_byte ["b"] [1]) (ex_byte ["b"] [2]) (ex_byte [] []) 4) = false /\
  struct_agree [ex_cs] ex_E ex_cs (ex_ps (ex_byte ["a"] [0]) (ex_byte ["b"] [1]) (ex_byte [] []) (ex_byte [] []) 5) = false /\
  struct_agree [ex_cs] ex_E ex_cs (ex_ps (ex_byte ["a"] [0]) (ex_byte [] []) (ex_byte [] []) (ex_byte [] []) 4) = false.
Proof. split; [discriminate|]. split; [discriminate|]. split; [exact value_rows_nonempty|]. split; [reflexivity|]. split; [reflexivity|].
  split; [exact three_paths|]. split; [exact reference_is_a_path|].
  split; [exact members_nonempty_b|]. vm_compute. repeat split. Qed.
