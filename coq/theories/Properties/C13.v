(* C13 — placeholder while the floor is built; theorems follow. *)
From Coq Require Import ZArith List Bool.
From FEC Require Import Models.TimeRangeM.
Import ListNotations.
Open Scope Z_scope.
Example C13_docstring_example :
  accepted (init (mkargs (AFloat (Fin 8)) (AFloat (Fin 24)) (Some false) None))
    [Msg Untimed; Msg (Timed 8); Msg Untimed; Msg (Timed 16); Msg Untimed; Msg (Timed 24); Msg Untimed; Msg (Timed 32); Msg Untimed]
  = [false; false; false; true; true; true; true; false; false].
Proof. reflexivity. Qed.
