(* C13 — Time-range membership follows the documented interval semantics.
   Property theorems only; each is closed by [exact <lemma>] and followed by Print Assumptions.
   SPEC ([spec_run], [describe], [nondecr], [origins_agree], [fields_ok]) and MODEL ([init], [accepted] = verdicts of
   is_in_range over an op sequence, [restart], [make_absolute], [intersect], [parse]) are in Models/TimeRangeM.v.
   Times are integers on a grid (1/8 s in the harness); see the binary64 caveat in manifest.d/C13.json. *)
From Coq Require Import ZArith List Bool.
From FEC Require Import Generated.TimeRangeConsts Models.TimeRangeM Proofs.TimeRangeP.
Import ListNotations.
Open Scope Z_scope.

(* Applied in order to ANY sequence of messages and restart() calls whose P1 times do not decrease within a
   pass, the verdicts of is_in_range() on a freshly constructed range are exactly the documented ones: a
   P1-timed message is accepted iff its (relative) time lies in [start, end); an untimed message is accepted
   iff no P1 time at or beyond the end has been seen in this pass and (the start is open or some message of
   this pass has been accepted). No bound on the length of the sequence. *)
Theorem C13_in_range_matches_spec : forall (a : args) (ops : list op),
  nondecr None ops = true -> accepted (init a) ops = spec_run (describe a) ops.
Proof. exact in_range_matches_spec_proof. Qed.
Print Assumptions C13_in_range_matches_spec.

(* ... where the interval [describe a] is the literal [start, end) as far as P1 times (>= 0 when absolute) are
   concerned: dropping an absolute start of 0 and an end of +inf does not change membership; and the start
   counts as open exactly when it was omitted (None / NaN Timestamp) or is the absolute time 0. *)
Theorem C13_describe_is_interval : forall (a : args),
  (forall c, (describe_abs a = true -> 0 <= c) -> in_iv (describe a) c = in_iv (describe_raw a) c) /\
  (is_none (lo (describe a)) = true <->
   bound (a_start a) = None \/ (describe_abs a = true /\ bound (a_start a) = Some (Fin 0))).
Proof. exact describe_is_interval_proof. Qed.
Print Assumptions C13_describe_is_interval.

(* the same for every fresh range however obtained (parsed, made absolute, intersected, restarted) *)
Theorem C13_fresh_range_matches_spec : forall (r : tr) (ops : list op),
  fresh r -> nondecr None ops = true ->
  accepted r ops = spec_run (mkiv (start r) (stop r) (absolute r) (t0 r)) ops.
Proof. exact fresh_range_matches_spec_proof. Qed.
Print Assumptions C13_fresh_range_matches_spec.

(* restart() after any history clears both latches and leaves exactly the range one would construct with
   the t0 established so far; the verdicts after it are those of that fresh range. *)
Theorem C13_restart_resets : forall (a : args) (ops1 ops2 : list op),
  let r1 := snd (run (init a) ops1) in
  started (restart r1) = false /\ ended (restart r1) = false /\
  restart r1 = init (mkargs (a_start a) (a_end a) (a_abs a) (t0 r1)) /\
  accepted r1 (Restart :: ops2) = accepted (init (mkargs (a_start a) (a_end a) (a_abs a) (t0 r1))) ops2.
Proof. exact restart_resets_proof. Qed.
Print Assumptions C13_restart_resets.

(* t0 after any history: the supplied one, else the first P1 time ever seen (restart() does not forget it);
   a range without any bound never looks at P1 time and keeps what it was given. *)
Theorem C13_t0_first_timed : forall (a : args) (ops : list op),
  t0 (snd (run (init a) ops)) =
  if specified (init a) then match a_t0 a with Some z => Some z | None => first_timed ops end else a_t0 a.
Proof. exact t0_first_timed_proof. Qed.
Print Assumptions C13_t0_first_timed.

(* Every text of the documented form [START][:END][:{rel,abs}] parses, to the range whose accepted set is
   the interval the text describes (empty or negative field = open end; kind from the text, else from the
   argument, else relative). *)
Theorem C13_parse_spec : forall (sh : shape) (absarg : option bool) (vs ve : option ext) (ops : list op),
  fields_ok sh vs ve -> nondecr None ops = true ->
  exists r, parse (render sh) absarg = POk r /\
            accepted r ops = spec_run (describe (describe_text sh absarg vs ve)) ops.
Proof. exact parse_spec_proof. Qed.
Print Assumptions C13_parse_spec.

(* ... and nothing else is accepted: a text that parses is of that form (with supported numerals). *)
Theorem C13_parse_only_documented : forall (s : list Z) (absarg : option bool) (r : tr),
  parse s absarg = POk r ->
  exists sh vs ve, s = render sh /\ fields_ok sh vs ve /\ r = init (describe_text sh absarg vs ve).
Proof. exact parse_sound_proof. Qed.
Print Assumptions C13_parse_only_documented.

(* intersect(): on every sequence the verdicts of the result are the pointwise conjunction of the verdicts
   of the two operands (= membership in the intersection of the accepted sets), provided both measure
   relative time from one origin on that sequence ([origins_agree]); the result is again a fresh range, so
   the statement chains. *)
Theorem C13_intersect_spec : forall (A B I : tr) (ops : list op),
  fresh A -> fresh B -> intersect A B = Ok I ->
  nondecr None ops = true -> origins_agree A B ops = true ->
  fresh I /\ accepted I ops = and_lists (accepted A ops) (accepted B ops).
Proof. exact intersect_spec_proof. Qed.
Print Assumptions C13_intersect_spec.

(* ... and it refuses (ValueError) exactly the mixed absolute/relative pairs for which no t0 is known. *)
Theorem C13_intersect_raises : forall (A B : tr),
  intersect A B = ValueError <-> (absolute A <> absolute B /\ t0 A = None /\ t0 B = None).
Proof. exact intersect_raises_iff. Qed.
Print Assumptions C13_intersect_raises.

(* make_absolute(): the result is absolute, accepts the same messages, and a second call changes nothing. *)
Theorem C13_make_absolute_preserves : forall (r : tr) (arg : option Z) (r' : tr) (ops : list op),
  fresh r -> make_absolute r arg = Ok r' -> nondecr None ops = true ->
  (absolute r = true \/ t0 r <> None \/ forall f, first_timed ops = Some f -> arg = Some f) ->
  fresh r' /\ absolute r' = true /\ accepted r' ops = accepted r ops.
Proof. exact make_absolute_preserves_proof. Qed.
Print Assumptions C13_make_absolute_preserves.

Theorem C13_make_absolute_idempotent : forall (r : tr) (arg arg' : option Z) (r' : tr),
  absolute r = false -> make_absolute r arg = Ok r' -> make_absolute r' arg' = Ok r'.
Proof. exact make_absolute_idempotent_proof. Qed.
Print Assumptions C13_make_absolute_idempotent.

(* ---- non-vacuity: concrete non-trivial instances meet the hypotheses ------------------------------- *)
(* the docstring example (relative [1,3) s; events before / inside / after), with a restart and a second pass *)
Example C13_nonvacuous_sequence :
  let a := mkargs (AFloat (Fin 8)) (AFloat (Fin 24)) (Some false) None in
  let pass := [Msg Untimed; Msg (Timed 8); Msg Untimed; Msg (Timed 16); Msg Untimed; Msg (Timed 24); Msg Untimed;
               Msg (Timed 32); Msg Untimed] in
  nondecr None (pass ++ Restart :: pass) = true /\
  accepted (init a) (pass ++ Restart :: pass) =
    [false; false; false; true; true; true; true; false; false] ++ [false; false; false; true; true; true; true; false; false] /\
  t0 (snd (run (init a) pass)) = Some 8.
Proof. repeat split; reflexivity. Qed.

(* "2.5:-1:abs" : fields are separator-free, 2.5 s = 20 grid steps, negative end = open *)
Example C13_nonvacuous_parse :
  let sh := S3 [50; 46; 53] [45; 49] true in
  fields_ok sh (Some (Fin 20)) None /\
  render sh = [50; 46; 53; 58; 45; 49; 58; 97; 98; 115] /\
  parse (render sh) None = POk (init (mkargs (AFloat (Fin 20)) ANone (Some true) None)).
Proof.
  cbn zeta. split; [|split; reflexivity].
  repeat split; try reflexivity.
  - right. split; [discriminate|]. exists (Fin 20). split; reflexivity.
  - right. split; [discriminate|]. exists (Fin (-8)). split; reflexivity.
Qed.

(* relative [1,3) s without t0, intersected with absolute [0,12.5) s that knows t0 = 10 s, on a sequence that
   does start at 10 s: hypotheses hold, the result is the absolute range [11, 12.5) s *)
Example C13_nonvacuous_intersect :
  let A := init (mkargs (AFloat (Fin 8)) (AFloat (Fin 24)) (Some false) None) in
  let B := init (mkargs (AFloat (Fin 0)) (AFloat (Fin 100)) (Some true) (Some 80)) in
  let ops := [Msg (Timed 80); Msg (Timed 88); Msg Untimed; Msg (Timed 96); Msg (Timed 100); Msg (Timed 104)] in
  fresh A /\ fresh B /\ nondecr None ops = true /\ origins_agree A B ops = true /\
  exists I, intersect A B = Ok I /\ start I = Some (Fin 88) /\ stop I = Some (Fin 100) /\ absolute I = true /\
            accepted I ops = [false; true; true; true; false; false].
Proof. cbn zeta. repeat split; try reflexivity. eexists. repeat split; reflexivity. Qed.

(* relative [1,3) s without t0, make_absolute(10 s), on a sequence that starts at 10 s *)
Example C13_nonvacuous_make_absolute :
  let r := init (mkargs (AFloat (Fin 8)) (AFloat (Fin 24)) (Some false) None) in
  let ops := [Msg (Timed 80); Msg (Timed 88); Msg Untimed; Msg (Timed 104)] in
  fresh r /\ nondecr None ops = true /\ (forall f, first_timed ops = Some f -> Some 80 = Some f) /\
  exists r', make_absolute r (Some 80) = Ok r' /\ start r' = Some (Fin 88) /\ stop r' = Some (Fin 104) /\
             accepted r' ops = [false; true; true; false] /\ make_absolute r' (Some 3) = Ok r'.
Proof.
  cbn zeta. repeat split; try reflexivity.
  - cbn. intros f H. injection H as <-. reflexivity.
  - eexists. repeat split; reflexivity.
Qed.

Example C13_nonvacuous_raises :
  intersect (init (mkargs (AFloat (Fin 8)) ANone (Some true) None)) (init (mkargs (AFloat (Fin 8)) ANone (Some false) None)) = ValueError.
Proof. reflexivity. Qed.

(* ---- what the code did before the three repairs (the findings; replayed in corpus/C13) ---------------- *)
Theorem C13_legacy_refuted :
  (* c8dd2e2: open start, end 2 s: Pose@3 s, then an event was accepted *)
  (let a := mkargs ANone (AFloat (Fin 16)) (Some true) None in
   let ops := [Msg (Timed 24); Msg Untimed] in
   accepted_legacy (init_gen legacy a) ops = [false; true] /\ spec_run (describe a) ops = [false; false] /\
   accepted (init a) ops = [false; false]) /\
  (* 66f7bca: make_absolute left the range marked relative *)
  (let A := mkargs (AFloat (Fin 8)) (AFloat (Fin 24)) (Some false) (Some 80) in
   let B := mkargs (AFloat (Fin 0)) (AFloat (Fin 100)) (Some true) None in
   let ops := [Msg (Timed 80); Msg (Timed 88); Msg Untimed; Msg (Timed 96); Msg (Timed 100); Msg (Timed 104)] in
   (exists I, intersect_gen legacy (init_gen legacy A) (init_gen legacy B) = Ok I /\
              accepted_legacy I ops = [false; false; false; false; false; false]) /\
   and_lists (spec_run (describe A) ops) (spec_run (describe B) ops) = [false; true; true; true; false; false] /\
   (exists I, intersect (init A) (init B) = Ok I /\ accepted I ops = [false; true; true; true; false; false])) /\
  (* d6e4319: end = -inf read as "no end" *)
  (let a := mkargs (AFloat (Fin 8)) (AFloat NInf) (Some true) None in
   let ops := [Msg (Timed 8)] in
   accepted_legacy (init_gen legacy a) ops = [true] /\ spec_run (describe a) ops = [false] /\ accepted (init a) ops = [false]).
Proof. exact legacy_refuted_proof. Qed.
Print Assumptions C13_legacy_refuted.
