(* C03 — Enumerations and message-type registry agree between C++ and Python.
   Property theorems only.  The tables (cpp_enums, py_enums, cpp_classification, ...) are regenerated from the
   working tree of /repo on every run: the C++ ones by the compiler, the Python ones by the interpreter.
   The specifications are in Models/EnumsM.v (enums_agree_spec, classification_agrees_spec, registry_bijective_spec). *)
From Coq Require Import ZArith List String.
From FEC Require Import Generated.EnumsCpp Generated.EnumsPy Generated.EnumsExc Models.EnumsM Models.EnumsTables Proofs.EnumsP Proofs.EnumsTablesP.
Import ListNotations.

(* Every C++ `enum class` of the message headers has one Python enum; for every row: same name (or the tabulated
   spelling), same number, in both directions; range sentinels excepted, and an excepted C++ sentinel is an alias
   of a compared enumerator while an excepted Python member carries a number C++ does not define. *)
Theorem C03_enums_agree :
  enums_agree_spec enum_pairing exc_cpp_only exc_py_only exc_renamed cpp_enums py_enums.
Proof. exact enums_agree_tables. Qed.
Print Assumptions C03_enums_agree.

(* For every MessageType: is_command <-> IsCommand, is_response <-> IsResponse, never both; the Python functions
   are membership in COMMAND_MESSAGES / RESPONSE_MESSAGES, which are disjoint and hold only C++ message types. *)
Theorem C03_classification_agrees :
  classification_agrees_spec cpp_classification py_classification py_command_messages py_response_messages.
Proof. exact classification_agrees_tables. Qed.
Print Assumptions C03_classification_agrees.

(* Every C++ struct with MESSAGE_TYPE has exactly one Python class declaring that type, with the same version,
   and message_type_to_class resolves the type to that class; and vice versa. *)
Theorem C03_registry_bijective :
  registry_bijective_spec cpp_messages py_classes py_registry.
Proof. exact registry_bijective_tables. Qed.
Print Assumptions C03_registry_bijective.

(* The three statements still hold of the tables read again after the library has been used in the same interpreter
   (every payload class constructed/printed/encoded/decoded, name and value lookups, MixedLogReader, DataLoader, every
   Analyzer plot_* / generate_* method, message printing): library code does not change the registries while it runs. *)
Theorem C03_agree_after_use :
  enums_agree_spec enum_pairing exc_cpp_only exc_py_only exc_renamed cpp_enums py_enums_after /\
  classification_agrees_spec cpp_classification py_classification_after py_command_messages_after py_response_messages_after /\
  registry_bijective_spec cpp_messages py_classes_after py_registry_after.
Proof. exact tables_agree_after_use. Qed.
Print Assumptions C03_agree_after_use.

(* The three statements hold of what an interpreter sees that has only imported the public package
   (`from fusion_engine_client.messages import *`, `import fusion_engine_client.parsers`) — no submodule imported by hand:
   every payload class is registered by the package's own imports. *)
Theorem C03_agree_public_import :
  enums_agree_spec enum_pairing exc_cpp_only exc_py_only exc_renamed cpp_enums py_enums_public /\
  classification_agrees_spec cpp_classification py_classification_public py_command_messages_public py_response_messages_public /\
  registry_bijective_spec cpp_messages py_classes_public py_registry_public.
Proof. exact tables_agree_public_import. Qed.
Print Assumptions C03_agree_public_import.

(* The comparison is not vacuous: the tables are non-empty and the comparison functions flag synthetic errors. *)
Example C03_nonvacuous :
  cpp_enums <> [] /\ cpp_classification <> [] /\ cpp_messages <> [] /\ py_enums <> [] /\ py_classes <> [] /\
  (exists rows, In ("MessageType"%string, rows) cpp_enums /\ rows <> []).
Proof.
  repeat split; try discriminate.
  destruct (assoc "MessageType" cpp_enums) as [rows|] eqn:E; [|vm_compute in E; discriminate].
  exists rows. split; [apply assoc_In; exact E|]. intro H; subst; vm_compute in E; discriminate.
Qed.
