(* C09 — a saved index is either equivalent to a fresh one or is rejected.  (floor; deeper theorems follow) *)
From Coq Require Import NArith List Bool.
From FEC Require Import Generated.FEConsts Generated.FileIndexConsts Base.Bytes Base.Crc32 Base.Scan Base.FEFormat
  Models.FileScanM Models.FileIndexIOM.
Import ListNotations.

(* the loader before the repair: an empty data file with an index file shorter than one record *)
Theorem C09_load_total_legacy_refuted : load_legacy [0%N] [] = Crash.
Proof. vm_compute. reflexivity. Qed.
Print Assumptions C09_load_total_legacy_refuted.
