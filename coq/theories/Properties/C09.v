(* C09 — a saved index is either equivalent to a fresh one or is rejected.
   Property theorems only; each is closed by [exact <lemma>] and followed by Print Assumptions.
   [p1] is the P1-time decoder of the payload classes (any function); [fresh p1 d] is the index a fresh indexing of the
   data file d produces (index of the sequential scan, C08); [saved p1 d] the bytes FileIndex.save writes for it;
   [load idx d] the outcome of FileIndex.load for index-file bytes idx next to data file d;
   [file_ok d]: d is a list of bytes shorter than 2^64. *)
From Coq Require Import NArith List Bool.
From FEC Require Import Generated.FEConsts Generated.FileIndexConsts Base.Bytes Base.Crc32 Base.Scan Base.FEFormat
  Models.FastIndexerM Proofs.FastIndexerSpecP Proofs.FastIndexerLegacyP
  Models.FileScanM Models.FileIndexIOM Models.ExtractLogM Models.SystemLinkM Proofs.FileScanP Proofs.FileIndexIOP Proofs.SystemLinkP.
Import ListNotations.

(* A saved index, loaded next to the unchanged data file, is accepted and equals the fresh index (when the last
   message is not of type INVALID = 0: such a log is saved without EOF marker and its index is always rejected and
   rebuilt, see C09_nonvacuous). *)
Theorem C09_saved_then_loaded : forall p1 d s,
  file_ok d -> saved p1 d = Some s -> last_type_valid p1 d -> load s d = Accepted (fresh p1 d).
Proof. exact saved_then_loaded. Qed.
Print Assumptions C09_saved_then_loaded.

(* Every crash point of the save (the index file cut at ANY byte length k): the loader either accepts exactly the
   fresh index or rejects the file (ValueError -> re-indexing). *)
Theorem C09_truncated_index_safe : forall p1 d s k,
  file_ok d -> saved p1 d = Some s ->
  load (firstn k s) d = Accepted (fresh p1 d) \/ exists del, load (firstn k s) d = Rebuild del.
Proof. exact truncated_index_safe. Qed.
Print Assumptions C09_truncated_index_safe.

(* A data file of any other size (grown, shrunk, replaced) is rejected through the EOF marker, and the stale index is
   deleted ... *)
Theorem C09_stale_index_rejected_by_size : forall p1 d s d',
  file_ok d -> saved p1 d = Some s -> last_type_valid p1 d -> length d' <> length d -> load s d' = Rebuild true.
Proof. exact stale_size_rejected. Qed.
Print Assumptions C09_stale_index_rejected_by_size.

(* ... and for every cut of the index file AND a data file that has since been truncated (any length c) or appended
   to (any bytes x), whatever the loader accepts is the fresh index of the *current* data file. *)
Theorem C09_stale_index_rejected : forall p1 d s k d',
  file_ok d -> saved p1 d = Some s -> ((exists c, d' = firstn c d) \/ (exists x, d' = d ++ x)) ->
  forall i, load (firstn k s) d' = Accepted i -> i = fresh p1 d'.
Proof. exact load_sound. Qed.
Print Assumptions C09_stale_index_rejected.

(* The loader has no outcome other than "accepted" and "ValueError" (which fast_generate_index turns into re-indexing),
   for arbitrary index-file bytes and data-file bytes. *)
Theorem C09_load_total : forall idx d, load idx d <> Crash.
Proof. exact load_total. Qed.
Print Assumptions C09_load_total.

(* The loader before the repair f5d219e: empty data file, index file shorter than one record -> IndexError. *)
Theorem C09_load_total_legacy_refuted : exists idx d, load_legacy idx d = Crash.
Proof. exists [0%N], []. exact load_legacy_crashes. Qed.
Print Assumptions C09_load_total_legacy_refuted.

(* Opening the log (fast_generate_index + reading through the resulting index), with or without ignore_index, next to
   no index file or any cut of an index saved for a data file of which the current one is a truncation or an
   extension: never raises, returns exactly the messages of a sequential scan of the current data, and leaves behind
   the index it found (only if it accepted it), the freshly saved one, or none. *)
Theorem C09_open_is_fresh : forall p1 p1i d' ig,
  plausible_index p1 p1i d' ->
  exists o, open_log p1 load p1i d' ig = Opened o /\ o_msgs o = file_frames d' /\
            (o_p1i o = p1i \/ o_p1i o = saved p1 d' \/ (o_p1i o = None /\ file_frames d' = [])).
Proof. exact open_is_fresh. Qed.
Print Assumptions C09_open_is_fresh.

(* Opening with a byte limit (MixedLogReader(max_bytes=n)) smaller than the file: returns the messages that end within the
   limit, and never writes an index - it leaves the one it found or deletes a stale one - so a later unlimited open cannot
   meet a partial index; a limit that covers the file is an ordinary open. *)
Theorem C09_open_max_bytes_safe : forall p1 p1i d' ig n,
  plausible_index p1 p1i d' ->
  exists o, open_log_max p1 load p1i d' ig n = Opened o /\
            (length d' <= n -> open_log_max p1 load p1i d' ig n = open_log p1 load p1i d' ig)%nat /\
            (n < length d' -> o_msgs o = take_within n (file_frames d') /\ (o_p1i o = p1i \/ o_p1i o = None))%nat.
Proof. exact open_max_safe. Qed.
Print Assumptions C09_open_max_bytes_safe.

(* ---- link to C08: the fresh index IS the fast indexer's output ---------------------------------------------------- *)
(* Under C08's precondition the index fast_generate_index builds (model fi_generate, any worker count W >= 1), seen as the
   reader sees it, is [fresh]: same offsets as C08's SPEC frames, same types, same whole-second times. *)
Theorem C09_fresh_is_fast_index : forall READ MAX : N,
  (2 <= READ)%N -> (READ mod 2 = 0)%N -> (24 <= MAX)%N -> (MAX <= READ)%N ->
  forall (ptime : N -> N -> list N -> option (N * N)) W, (1 <= W)%N -> forall file, fi_small_msgs MAX file ->
  exists es, fi_generate READ MAX fi_cur ptime file W = FOk es /\ map fi_strip es = fresh (p1_of_ptime ptime) file /\
             map (fun e => N.to_nat (e_off e)) es = map fst (fi_spec_frames file).
Proof. exact fresh_is_fast_index. Qed.
Print Assumptions C09_fresh_is_fast_index.

(* Opening a log where re-indexing is done by the fast indexer itself ([open_log_fi], Models/SystemLinkM.v): never raises,
   returns the frames of C08's SPEC scan of the current data file, leaves an accepted, a freshly saved or no index. *)
Theorem C09_open_via_fast_index : forall READ MAX : N,
  (2 <= READ)%N -> (READ mod 2 = 0)%N -> (24 <= MAX)%N -> (MAX <= READ)%N ->
  forall (ptime : N -> N -> list N -> option (N * N)) W p1i d' ig,
  (1 <= W)%N -> fi_small_msgs MAX d' -> plausible_index (p1_of_ptime ptime) p1i d' ->
  exists o, open_log_fi READ MAX ptime W load p1i d' ig = Opened o /\ o_msgs o = fi_spec_frames d' /\
            (o_p1i o = p1i \/ o_p1i o = saved (p1_of_ptime ptime) d' \/ (o_p1i o = None /\ fi_spec_frames d' = [])).
Proof. exact open_via_fast_index_full. Qed.
Print Assumptions C09_open_via_fast_index.

Example C09_via_fast_index_nonvacuous :
  fi_small_msgs 48 wit_overlap /\ plausible_index (p1_of_ptime no_time) None wit_overlap /\
  exists o, open_log_fi 64 48 no_time 2 load None wit_overlap false = Opened o /\ length (o_msgs o) = 2%nat.
Proof.
  split; [exact wit_overlap_small|]. split; [exact I|]. eexists. split; vm_compute; reflexivity.
Qed.

(* Non-vacuity: a concrete two-message log with junk meets the hypotheses; its saved index cut after the second
   record is accepted exactly when the data ends with the second message, cut after the first record it is accepted
   for the data truncated to the end of the first message (and equals that file's fresh index), and rejected otherwise;
   a log whose last message has type 0 is saved without marker and rejected on load. *)
Definition ex_body (ty seq : N) : list N := [2; 0; ty; 39; seq; 0; 0; 0; 3; 0; 0; 0; 0; 0; 0; 0; 1; 2; 3]%N.
Definition ex_msg (ty seq : N) : list N := [46; 49; 0; 0]%N ++ le_enc 4 (crc32 (ex_body ty seq)) ++ ex_body ty seq.
Definition ex_log : list N := [1; 2; 46; 49; 7]%N ++ ex_msg 16 7 ++ [9]%N ++ ex_msg 17 8.
Definition ex_p1 (bs : list N) : option N := if N.eqb (nth 12 bs 0%N) 7 then Some 4294967298%N else Some 12%N.
Definition ex_saved : list N := match saved ex_p1 ex_log with Some s => s | None => [] end.
Definition ex_log0 : list N := ex_msg 16 7 ++ [46; 49; 0; 0]%N ++ le_enc 4 (crc32 [2; 0; 0; 0; 9; 0; 0; 0; 0; 0; 0; 0; 0; 0; 0; 0]%N)
                                ++ [2; 0; 0; 0; 9; 0; 0; 0; 0; 0; 0; 0; 0; 0; 0; 0]%N.

Example C09_nonvacuous :
  file_ok ex_log /\ saved ex_p1 ex_log = Some ex_saved /\ length ex_saved = 42%nat /\ last_type_valid ex_p1 ex_log /\
  map fst (file_frames ex_log) = [5; 33]%nat /\
  load ex_saved ex_log = Accepted (fresh ex_p1 ex_log) /\
  load (firstn 41 ex_saved) ex_log = Accepted (fresh ex_p1 ex_log) /\            (* marker cut: last message ends the file *)
  load (firstn 41 ex_saved) (ex_log ++ [0]%N) = Rebuild true /\
  load (firstn 27 ex_saved) ex_log = Rebuild true /\
  load (firstn 27 ex_saved) (firstn 32 ex_log) = Accepted (fresh ex_p1 (firstn 32 ex_log)) /\
  length (fresh ex_p1 (firstn 32 ex_log)) = 1%nat /\
  load (firstn 13 ex_saved) ex_log = Rebuild true /\
  load ex_saved (firstn 40 ex_log) = Rebuild true /\
  (exists s0, saved ex_p1 ex_log0 = Some s0 /\ length s0 = 28%nat /\ load s0 ex_log0 = Rebuild true).
Proof.
  split; [split; [repeat constructor|vm_compute; reflexivity]|].
  split; [vm_compute; reflexivity|]. split; [vm_compute; reflexivity|].
  split; [eexists; split; vm_compute; reflexivity|].
  repeat (split; [vm_compute; reflexivity|]).
  eexists. split; [vm_compute; reflexivity|]. split; vm_compute; reflexivity.
Qed.

Example C09_open_nonvacuous :
  plausible_index ex_p1 (Some (firstn 27 ex_saved)) (firstn 32 ex_log) /\
  plausible_index ex_p1 (Some (firstn 30 ex_saved)) (ex_log ++ [1; 2; 3]%N) /\
  (exists o, open_log ex_p1 load (Some (firstn 30 ex_saved)) (ex_log ++ [1; 2; 3]%N) false = Opened o /\
             map fst (o_msgs o) = [5; 33]%nat /\ o_p1i o = saved ex_p1 (ex_log ++ [1; 2; 3]%N)).
Proof.
  assert (Hok : file_ok ex_log) by (split; [repeat constructor|vm_compute; reflexivity]).
  assert (Hs : saved ex_p1 ex_log = Some ex_saved) by (vm_compute; reflexivity).
  split; [exists ex_log, ex_saved, 27%nat; split; [exact Hok|split; [exact Hs|split; [left; exists 32%nat; reflexivity|reflexivity]]]|].
  split; [exists ex_log, ex_saved, 30%nat; split; [exact Hok|split; [exact Hs|split; [right; exists [1; 2; 3]%N; reflexivity|reflexivity]]]|].
  eexists. split; [vm_compute; reflexivity|]. split; vm_compute; reflexivity.
Qed.
