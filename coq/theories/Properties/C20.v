(* C20 — C++ data-version text conversion is a safe, exact round trip.
   Property theorems only; each is closed by [exact <lemma>] and followed by Print Assumptions. *)
From Coq Require Import ZArith List Bool.
From FEC Require Import Generated.DataVersionConsts Models.DataVersion Proofs.DataVersionP.
Import ListNotations.
Open Scope Z_scope.

(* Parsing any NUL-terminated string yields exactly what the grammar "<0-255>.<0-65535>" yields
   (the invalid version for everything else) ... *)
Theorem C20_parse_is_grammar : forall s, wf_cstr s -> from_string s = spec_from_string s.
Proof. exact from_string_spec. Qed.
Print Assumptions C20_parse_is_grammar.

(* ... and never reads beyond the terminator (every read in the model is bounds-checked). *)
Theorem C20_never_reads_past_terminator : forall s, wf_cstr s -> from_string s <> OutOfBounds.
Proof. exact from_string_never_oob. Qed.
Print Assumptions C20_never_reads_past_terminator.

(* Formatting any valid version and parsing it back yields the same version: all 2^24 - 1 versions. *)
Theorem C20_roundtrip : forall maj min,
  0 <= maj <= 255 -> 0 <= min <= 65535 -> is_valid maj min = true ->
  wf_cstr (to_string maj min) /\ from_string (to_string maj min) = Ver maj min.
Proof. exact roundtrip. Qed.
Print Assumptions C20_roundtrip.

(* The ordering operators form a total order equal to lexicographic order on (major, minor). *)
Theorem C20_order_total_lex : forall a b c : Z * Z,
  (v_le a b = true <-> lex_lt a b \/ a = b) /\
  (v_ge a b = true <-> lex_lt b a \/ a = b) /\
  (v_gt a b = true <-> lex_lt b a) /\
  (v_eq a b = true <-> a = b) /\ (v_ne a b = negb (v_eq a b)) /\
  v_le a a = true /\
  (v_le a b = true -> v_le b a = true -> a = b) /\
  (v_le a b = true -> v_le b c = true -> v_le a c = true) /\
  (v_le a b = true \/ v_le b a = true) /\
  (Nat.b2n (v_lt a b) + Nat.b2n (v_eq a b) + Nat.b2n (v_gt a b) = 1)%nat.
Proof. exact order_total_lex. Qed.
Print Assumptions C20_order_total_lex.

(* Non-vacuity: the hypotheses are met by concrete non-trivial instances. *)
Example C20_nonvacuous :
  wf_cstr [49; 50; 46; 51; 52] /\ from_string [49; 50; 46; 51; 52] = Ver 12 34 /\
  from_string [49; 50] = Invalid /\ from_string [49; 120; 50] = Invalid /\
  is_valid 3 2 = true /\ to_string 3 2 = [51; 46; 50].
Proof. repeat split; try reflexivity. repeat constructor; cbv; reflexivity. Qed.

(* What the pre-fix code did (kept as the record of the finding that led to the fix). *)
Theorem C20_legacy_refuted :
  from_string_legacy [49; 50] = OutOfBounds /\ from_string_legacy [49; 120; 50] = Ver 1 2.
Proof. split; [exact legacy_reads_past_terminator | exact (proj1 legacy_accepts_garbage)]. Qed.
Print Assumptions C20_legacy_refuted.
