(* C01 — message payloads survive serialize/parse unchanged, with consistent sizes.
   Property theorems only; each is closed by [exact <lemma>] and followed by Print Assumptions.

   MODEL: Models/CodecM.v (generic decode / encode / sizeof interpreters over a wire description), Models/CodecTs.v
   (Timestamp adapter, binary64 in integer arithmetic), Generated/LayoutPy.v (one description per payload class,
   regenerated from the source on every run).  [Codec_roundtrip_at d b e n] is the law of the property:
     exists b1, pack e = Some b1 /\ length b1 = n /\ sizeof e = Some n /\
     exists e2, parse b1 = Some (e2, n) /\ e2 = e /\ pack e2 = Some b1. *)
From Coq Require Import ZArith NArith List Bool.
From FEC Require Import Generated.CodecConsts Models.CodecM Proofs.CodecP Proofs.CodecTableP Generated.LayoutPy.
Import ListNotations.
Open Scope Z_scope.

(* Round trip, for EVERY well-formed description without Timestamp fields and without lenient parts (tagged
   sub-payloads, length-prefixed strings), and every input that parses (no size bound). *)
Theorem C01_codec_roundtrip : forall d, Codec_wf d = true -> Codec_uses_ts d = false -> Codec_rigid d = true ->
  forall b e n, Codec_bytes_ok b = true -> Codec_parse d b = Some (e, n) -> Codec_roundtrip_at d b e n.
Proof. exact Codec_roundtrip_nots. Qed.
Print Assumptions C01_codec_roundtrip.

(* Round trip for EVERY well-formed description without Timestamp fields - polymorphic containers, conditional
   parts and strings included - for every input in CANONICAL form, i.e. accepted by the strict decoder: the declared
   length of a tagged sub-payload equals what its layout needs (nothing left over, nothing present when the
   revert-to-default flag says the object is absent), a length-prefixed string has no trailing NUL, the content is
   understood (known tag).  The inputs excluded are exactly the recorded findings (witnesses below). *)
Theorem C01_codec_roundtrip_canonical : forall d, Codec_wf d = true ->
  forall b e n, Codec_bytes_ok b = true -> Codec_parse_with Codec_adec_nots true d b = Some (e, n) ->
  Codec_parse d b = Some (e, n) /\ Codec_roundtrip_at d b e n.
Proof. exact Codec_roundtrip_canonical. Qed.
Print Assumptions C01_codec_roundtrip_canonical.

(* non-canonical inputs violate the first-step size law (the recorded over-long-payload and NUL-padded-string findings):
   a declared payload length of 1 for an empty sub-payload parses, consumes 9 bytes and is serialised in 8 ... *)
Theorem C01_overlong_payload_refuted :
  Codec_wf Codec_ex_tagged = true /\
  Codec_parse Codec_ex_tagged [0; 0; 0; 0; 1; 0; 0; 0; 7] = Some ([(1%N, VF (FInt 0)); (2%N, VF (FInt 1)); (3%N, VTag [] [] 0)], 9%nat) /\
  Codec_pack Codec_ex_tagged [(1%N, VF (FInt 0)); (2%N, VF (FInt 1)); (3%N, VTag [] [] 0)] = Some [0; 0; 0; 0; 0; 0; 0; 0] /\
  Codec_parse_with Codec_adec true Codec_ex_tagged [0; 0; 0; 0; 1; 0; 0; 0; 7] = None /\
  Codec_parse_with Codec_adec_nots true Codec_ex_tagged [4; 0; 0; 0; 1; 0; 0; 0; 1] =
    Some ([(1%N, VF (FInt 4)); (2%N, VF (FInt 1)); (3%N, VTag [] [(1%N, FInt 1)] 1)], 9%nat).
Proof. exact Codec_overlong_payload_refuted. Qed.
Print Assumptions C01_overlong_payload_refuted.
(* ... and the length-prefixed string "a\0" parses as "a", consumes 3 bytes and is serialised in 2 *)
Theorem C01_nul_padded_string_refuted :
  Codec_wf Codec_ex_string = true /\
  Codec_parse Codec_ex_string [2; 97; 0] = Some ([(1%N, VF (FInt 2)); (2%N, VBytes [97])], 3%nat) /\
  Codec_pack Codec_ex_string [(1%N, VF (FInt 2)); (2%N, VBytes [97])] = Some [1; 97] /\
  Codec_parse_with Codec_adec true Codec_ex_string [2; 97; 0] = None /\
  Codec_parse_with Codec_adec_nots true Codec_ex_string [2; 195; 177] = Some ([(1%N, VF (FInt 2)); (2%N, VBytes [195; 177])], 3%nat).
Proof. exact Codec_nul_padded_string_refuted. Qed.
Print Assumptions C01_nul_padded_string_refuted.

(* The Timestamp projection law at full strength: every stamp of the domain (a sentinel field, or ns < 10^9 and
   sec < 2^32 - 2) decodes to a double that pack writes back as a stamp decoding to the same double. *)
Definition C01_ts_projection_full : Prop := Codec_ts_projection_full.

(* PROVED IN FULL.  Sentinel stamps and whole seconds by integer arithmetic; the branch 0 < ns < 10^9 over the reals
   (Proofs/CodecTsRealP.v): the integer operations of Models/CodecTs.v are shown to be Flocq's round-to-nearest-even
   FLX(53) operations, then (a) a whole-number result is exact, (b) below 2^23 s the doubles are closer than a
   nanosecond, so pack recovers exactly (sec, ns), (c) from 2^23 s on the doubles are >= 2^-29 s apart and whatever
   nanosecond count pack writes is within 0.5000002 ns of the fractional part, inside half a spacing, so unpack rounds
   back to the same double.  Uses the axioms of Coq's classical real numbers (printed below). *)
Theorem C01_ts_projection : C01_ts_projection_full.
Proof. exact Codec_ts_projection_holds. Qed.
Print Assumptions C01_ts_projection.

(* Round trip for every well-formed description WITH Timestamp fields, for every canonical input whose stamps lie in
   that domain ([Codec_parse_dom] succeeds exactly on those) - unconditional now that the projection law is proved. *)
Theorem C01_codec_roundtrip_timestamps : forall d, Codec_wf d = true ->
  forall b e n, Codec_bytes_ok b = true -> Codec_parse_dom d b = Some (e, n) ->
  Codec_parse d b = Some (e, n) /\ Codec_roundtrip_at d b e n.
Proof. exact Codec_roundtrip_ts_full. Qed.
Print Assumptions C01_codec_roundtrip_timestamps.

(* the part of the projection law that needs no real-number axioms (closed under the global context): sentinel stamps
   and all 2^32 - 2 whole-second stamps *)
Theorem C01_ts_projection_axiom_free_part : forall z, 0 <= z < 2 ^ 64 ->
  ((Codec_ts_sec z =? ts_invalid) || (Codec_ts_ns z =? ts_invalid) = true \/ (Codec_ts_ns z = 0 /\ Codec_ts_sec z < ts_invalid - 1)) ->
  Codec_aval_ok U64 ATimestamp (Codec_ts_dec z).
Proof. exact Codec_ts_projection_partial. Qed.
Print Assumptions C01_ts_projection_axiom_free_part.

(* the code before the repair (truncation): the law is false; the witness is the finding (replayed on the implementation) *)
Theorem C01_ts_projection_legacy_refuted :
  exists z z', Codec_ts_dom z = true /\ Codec_ts_enc_legacy (Codec_ts_dec z) = Some z' /\
               Codec_ts_dec z' <> Codec_ts_dec z /\ z = Codec_ts_join 529378 273878287 /\ z' = Codec_ts_join 529378 273878286.
Proof. exact Codec_ts_legacy_refuted. Qed.
Print Assumptions C01_ts_projection_legacy_refuted.

(* outside the domain the law fails for the current code as well (recorded findings): ns >= 10^9, seconds reaching 2^32-1 *)
Theorem C01_ts_projection_outside_domain_refuted :
  (exists z z', Codec_ts_dom z = false /\ Codec_ts_enc (Codec_ts_dec z) = Some z' /\ Codec_ts_dec z' <> Codec_ts_dec z /\
                z = Codec_ts_join 0 3221225472) /\
  (exists z z', Codec_ts_dom z = false /\ Codec_ts_enc (Codec_ts_dec z) = Some z' /\ Codec_ts_dec z' = FNaN /\ Codec_ts_dec z <> FNaN /\
                z = Codec_ts_join 4294967294 999999999).
Proof. exact Codec_ts_outside_domain_refuted. Qed.
Print Assumptions C01_ts_projection_outside_domain_refuted.

(* Adapter lemmas: identity / lenient enum (AId), bool, quieted binary32, strict enum, sentinel + integer-scaled
   fixed point (ASentinel): a decoded value is written back and read back unchanged. *)
Theorem C01_adapter_projection : forall top k a z v,
  Codec_wf_adapter top k a = true -> Codec_not_count a -> a <> ATimestamp ->
  Codec_krange k z = true -> Codec_adec a z = Some v -> Codec_aval_ok k a v.
Proof. exact Codec_adapter_fix. Qed.
Print Assumptions C01_adapter_projection.

(* Offsets: a parse does not depend on what precedes or follows the message in the buffer (layouts without a greedy
   tail) ... *)
Theorem C01_codec_offset_indep : forall d b e n, Codec_nogreedy d = true -> Codec_parse d b = Some (e, n) ->
  forall pre post, Codec_parse_at d (length pre) (pre ++ b ++ post) = Some (e, n).
Proof. exact Codec_offset_indep_parse. Qed.
Print Assumptions C01_codec_offset_indep.

(* ... a layout with a greedy tail consumes exactly the slice it is given ... *)
Theorem C01_greedy_consumes_slice : forall AD ST d seen acc b e rest, Codec_wf_from d seen = true -> Codec_nogreedy d = false ->
  Codec_dec_wire AD ST d acc b = Some (e, rest) -> rest = [].
Proof. exact Codec_greedy_all. Qed.
Print Assumptions C01_greedy_consumes_slice.

(* ... and packing into a caller-supplied buffer writes exactly the bytes [off, off + size) and nothing else. *)
Theorem C01_pack_into_exact : forall buf off b1 r, Codec_pack_into buf off b1 = Some r ->
  length r = length buf /\ firstn off r = firstn off buf /\
  firstn (length b1) (skipn off r) = b1 /\ skipn (off + length b1) r = skipn (off + length b1) buf.
Proof. exact Codec_pack_into_spec. Qed.
Print Assumptions C01_pack_into_exact.

(* calcsize agrees with the length of the serialisation whenever the latter exists *)
Theorem C01_sizeof_is_pack_length : forall d e bs, Codec_pack d e = Some bs -> Codec_sizeof d e = Some (length bs).
Proof. exact Codec_sizeof_enc. Qed.
Print Assumptions C01_sizeof_is_pack_length.

(* Finite, by computation over every row of the generated table: all class descriptions are well-formed ... *)
Theorem C01_all_descriptions_wf : forallb (fun p => Codec_wf (snd p)) py_descriptions = true.
Proof. exact Codec_all_descriptions_wf. Qed.
Print Assumptions C01_all_descriptions_wf.

(* ... hence the laws hold for every generated class description. *)
Theorem C01_table_roundtrip : forall i d, In (i, d) py_descriptions -> Codec_uses_ts d = false -> Codec_rigid d = true ->
  forall b e n, Codec_bytes_ok b = true -> Codec_parse d b = Some (e, n) -> Codec_roundtrip_at d b e n.
Proof. exact Codec_table_roundtrip_nots. Qed.
Print Assumptions C01_table_roundtrip.
Theorem C01_table_roundtrip_canonical : forall i d, In (i, d) py_descriptions -> Codec_uses_ts d = false ->
  forall b e n, Codec_bytes_ok b = true -> Codec_parse_with Codec_adec true d b = Some (e, n) ->
  Codec_parse d b = Some (e, n) /\ Codec_roundtrip_at d b e n.
Proof. exact Codec_table_roundtrip_canonical. Qed.
Print Assumptions C01_table_roundtrip_canonical.
(* every class of the table falls under one of the three theorems: rigid without stamps (unconditional), lenient
   without stamps (canonical inputs), with stamps (canonical inputs with normalised stamps, under the projection law) *)
Theorem C01_table_partition :
  forallb (fun p => (negb (Codec_uses_ts (snd p)) && Codec_rigid (snd p)) || negb (Codec_uses_ts (snd p)) || Codec_uses_ts (snd p)) py_descriptions = true /\
  (length py_descriptions = length (filter (fun p => negb (Codec_uses_ts (snd p)) && Codec_rigid (snd p)) py_descriptions)
                         + length (filter (fun p => negb (Codec_uses_ts (snd p)) && negb (Codec_rigid (snd p))) py_descriptions)
                         + length (filter (fun p => Codec_uses_ts (snd p)) py_descriptions))%nat.
Proof. exact Codec_table_partition. Qed.
Print Assumptions C01_table_partition.
Theorem C01_table_roundtrip_timestamps : forall i d, In (i, d) py_descriptions ->
  forall b e n, Codec_bytes_ok b = true -> Codec_parse_dom d b = Some (e, n) ->
  Codec_parse d b = Some (e, n) /\ Codec_roundtrip_at d b e n.
Proof. exact Codec_table_roundtrip_ts_full. Qed.
Print Assumptions C01_table_roundtrip_timestamps.
Theorem C01_table_offsets : forall i d, In (i, d) py_descriptions ->
  (Codec_nogreedy d = true -> forall b e n, Codec_parse d b = Some (e, n) ->
     forall pre post, Codec_parse_at d (length pre) (pre ++ b ++ post) = Some (e, n)) /\
  (Codec_nogreedy d = false -> forall b e n, Codec_parse d b = Some (e, n) -> n = length b).
Proof. exact Codec_table_offsets. Qed.
Print Assumptions C01_table_offsets.

(* Non-vacuity: a well-formed description with a count, a counted part, a sentinel field, padding, a strict enum and
   a 32-bit float, and an input (with non-zero padding and a signalling NaN) that parses; its serialisation differs
   from the input exactly in the padding and the quieted NaN. *)
Example C01_nonvacuous : Codec_wf Codec_ex_desc = true /\ Codec_uses_ts Codec_ex_desc = false /\ Codec_bytes_ok Codec_ex_input = true /\
  Codec_parse Codec_ex_desc Codec_ex_input =
    Some ([(1%N, VF (FInt 2)); (2%N, VF FNaN); (3%N, VRecs [[(1%N, FInt 5); (2%N, FInt 2145386497)]; [(1%N, FInt 1); (2%N, FInt 1065353216)]])], 18%nat) /\
  Codec_pack Codec_ex_desc [(1%N, VF (FInt 2)); (2%N, VF FNaN); (3%N, VRecs [[(1%N, FInt 5); (2%N, FInt 2145386497)]; [(1%N, FInt 1); (2%N, FInt 1065353216)]])]
    = Some [2; 0; 0; 0; 0; 128;  5; 1; 0; 224; 127; 0;  1; 0; 0; 128; 63; 0].
Proof. exact Codec_ex_parses. Qed.
(* the projection law's hypothesis is met by a concrete stamp (the witness of the repaired defect) *)
Example C01_ts_nonvacuous : Codec_ts_dom (Codec_ts_join 529378 273878287) = true /\
  Codec_aval_ok U64 ATimestamp (Codec_ts_dec (Codec_ts_join 529378 273878287)).
Proof. split. vm_compute; reflexivity. apply Codec_ts_check_sound. vm_compute. reflexivity. Qed.
