
val negb : bool -> bool

type nat =
| O
| S of nat

val fst : ('a1 * 'a2) -> 'a1

val snd : ('a1 * 'a2) -> 'a2

val length : 'a1 list -> nat

val app : 'a1 list -> 'a1 list -> 'a1 list

type comparison =
| Eq
| Lt
| Gt

val compOpp : comparison -> comparison

val add : nat -> nat -> nat

val sub : nat -> nat -> nat

type positive =
| XI of positive
| XO of positive
| XH

type n =
| N0
| Npos of positive

type z =
| Z0
| Zpos of positive
| Zneg of positive

module Nat :
 sig
  val leb : nat -> nat -> bool

  val ltb : nat -> nat -> bool
 end

module Pos :
 sig
  type mask =
  | IsNul
  | IsPos of positive
  | IsNeg
 end

module Coq_Pos :
 sig
  val succ : positive -> positive

  val add : positive -> positive -> positive

  val add_carry : positive -> positive -> positive

  val pred_double : positive -> positive

  val pred_N : positive -> n

  type mask = Pos.mask =
  | IsNul
  | IsPos of positive
  | IsNeg

  val succ_double_mask : mask -> mask

  val double_mask : mask -> mask

  val double_pred_mask : positive -> mask

  val sub_mask : positive -> positive -> mask

  val sub_mask_carry : positive -> positive -> mask

  val mul : positive -> positive -> positive

  val iter : ('a1 -> 'a1) -> 'a1 -> positive -> 'a1

  val compare_cont : comparison -> positive -> positive -> comparison

  val compare : positive -> positive -> comparison

  val eqb : positive -> positive -> bool

  val coq_Nsucc_double : n -> n

  val coq_Ndouble : n -> n

  val coq_land : positive -> positive -> n

  val coq_lxor : positive -> positive -> n

  val testbit : positive -> n -> bool

  val iter_op : ('a1 -> 'a1 -> 'a1) -> positive -> 'a1 -> 'a1

  val to_nat : positive -> nat

  val of_succ_nat : nat -> positive
 end

module N :
 sig
  val succ_double : n -> n

  val double : n -> n

  val add : n -> n -> n

  val sub : n -> n -> n

  val mul : n -> n -> n

  val compare : n -> n -> comparison

  val eqb : n -> n -> bool

  val leb : n -> n -> bool

  val ltb : n -> n -> bool

  val min : n -> n -> n

  val div2 : n -> n

  val pos_div_eucl : positive -> n -> n * n

  val div_eucl : n -> n -> n * n

  val modulo : n -> n -> n

  val coq_land : n -> n -> n

  val coq_lxor : n -> n -> n

  val shiftr : n -> n -> n

  val testbit : n -> n -> bool

  val to_nat : n -> nat

  val of_nat : nat -> n
 end

val tl : 'a1 list -> 'a1 list

val nth : nat -> 'a1 list -> 'a1 -> 'a1

val nth_error : 'a1 list -> nat -> 'a1 option

val map : ('a1 -> 'a2) -> 'a1 list -> 'a2 list

val fold_left : ('a1 -> 'a2 -> 'a1) -> 'a2 list -> 'a1 -> 'a1

val fold_right : ('a2 -> 'a1 -> 'a1) -> 'a1 -> 'a2 list -> 'a1

val firstn : nat -> 'a1 list -> 'a1 list

val skipn : nat -> 'a1 list -> 'a1 list

val seq : nat -> nat -> nat list

module Z :
 sig
  val double : z -> z

  val succ_double : z -> z

  val pred_double : z -> z

  val pos_sub : positive -> positive -> z

  val add : z -> z -> z

  val opp : z -> z

  val sub : z -> z -> z

  val compare : z -> z -> comparison

  val ltb : z -> z -> bool

  val eqb : z -> z -> bool

  val to_N : z -> n

  val of_N : n -> z
 end

val crc_poly : n

val crc_xor : n

val sYNC0 : n

val sYNC1 : n

val cPP_SYNC0 : n

val cPP_SYNC1 : n

val hEADER_SIZE : nat

val step_bit : n -> n

val step8 : n -> n

val range256 : n list

val crc_table : n list

val table_lookup : n -> n

val upd_table : n -> n -> n

val crc_fold : (n -> n -> n) -> n -> n list -> n

val crc32_from_with : (n -> n -> n) -> n -> n list -> n

val crc32_from : n -> n list -> n

val crc32 : n list -> n

type 'a outcome =
| Ok of 'a
| OobRead of n * n
| OobWrite of n * n
| OutOfFuel

val bind : 'a1 outcome -> ('a1 -> 'a2 outcome) -> 'a2 outcome

val u32 : n -> n

val blen : n list -> n

val rd : n list -> n -> n outcome

val upd : n list -> nat -> n -> n list option

val wr : n list -> n -> n -> n list outcome

val rd_range : n list -> n -> n -> n list outcome

val memmove0 : n list -> n -> n -> n list outcome

type event = n * n list

type ('st, 'x) core = { c_buf : n list; c_cap : n; c_state : 'st; c_next : 
                        n; c_size : n; c_x : 'x }

val set_buf : ('a1, 'a2) core -> n list -> ('a1, 'a2) core

val set_state : ('a1, 'a2) core -> 'a1 -> ('a1, 'a2) core

val set_next : ('a1, 'a2) core -> n -> ('a1, 'a2) core

val set_size : ('a1, 'a2) core -> n -> ('a1, 'a2) core

val set_x : ('a1, 'a2) core -> 'a2 -> ('a1, 'a2) core

type ('st, 'x) framer = { f_has : bool; f_managed : bool;
                          f_core : ('st, 'x) core }

val reset_core : 'a1 -> ('a2 -> 'a2) -> ('a1, 'a2) core -> ('a1, 'a2) core

val reset : 'a1 -> ('a2 -> 'a2) -> ('a1, 'a2) framer -> ('a1, 'a2) framer

val set_buffer :
  'a1 -> ('a2 -> 'a2) -> n -> bool -> n -> n -> ('a1, 'a2) framer -> n option
  -> n -> n -> n list -> ('a1, 'a2) framer

type ('st, 'x) lstate = { l_c : ('st, 'x) core; l_off : n; l_avail : 
                          n; l_total : n; l_evs : event list }

val resync_body :
  ('a1 -> bool) -> n -> bool -> (bool -> ('a1, 'a2) core -> ((('a1, 'a2)
  core * z) * event list) outcome) -> ('a1, 'a2) lstate -> ('a1, 'a2) lstate
  outcome

val resync_inner :
  ('a1 -> bool) -> n -> bool -> (bool -> ('a1, 'a2) core -> ((('a1, 'a2)
  core * z) * event list) outcome) -> nat -> ('a1, 'a2) lstate -> (('a1, 'a2)
  lstate * bool) outcome

val resync_outer :
  ('a1 -> bool) -> n -> bool -> (bool -> ('a1, 'a2) core -> ((('a1, 'a2)
  core * z) * event list) outcome) -> nat -> nat -> ('a1, 'a2) lstate ->
  ('a1, 'a2) lstate outcome

val resync_fuel : n -> nat

val resync :
  'a1 -> ('a1 -> bool) -> n -> bool -> (bool -> ('a1, 'a2) core -> ((('a1,
  'a2) core * z) * event list) outcome) -> ('a1, 'a2) core -> ((('a1, 'a2)
  core * n) * event list) outcome

val on_data_loop :
  'a1 -> ('a1 -> bool) -> n -> bool -> (bool -> ('a1, 'a2) core -> ((('a1,
  'a2) core * z) * event list) outcome) -> ('a1, 'a2) core -> n list -> n ->
  event list -> ((('a1, 'a2) core * n) * event list) outcome

val on_data :
  'a1 -> ('a1 -> bool) -> n -> bool -> (bool -> ('a1, 'a2) core -> ((('a1,
  'a2) core * z) * event list) outcome) -> ('a1, 'a2) framer -> n list ->
  ((('a1, 'a2) framer * n) * event list) outcome

type verdict =
| Accept of nat
| Reject
| More

type 'b frame = nat * 'b list

type 'b sstate = nat * 'b list

val scan_aux :
  ('a1 list -> verdict) -> nat -> nat -> 'a1 list -> 'a1 frame list * 'a1
  sstate

val scan :
  ('a1 list -> verdict) -> nat -> 'a1 list -> 'a1 frame list * 'a1 sstate

val feed :
  ('a1 list -> verdict) -> 'a1 sstate -> 'a1 list -> 'a1 frame list * 'a1
  sstate

type op =
| OpData of n list
| OpReset
| OpSetBuffer of n option * n * n * n list

type spst = { sp_cap : n option; sp_off : nat; sp_res : n list }

val spec_init : spst

val spec_eff_capacity : n -> n -> n option -> n -> n -> n option

val spec_op :
  (n -> n list -> verdict) -> n -> n -> spst -> op -> spst * (nat * n list)
  list

val frames_total : (nat * n list) list -> n

val fR_CLAMP : n

val fR_ALIGN_MASK : n

val fR_MANAGED_EXTRA : n

val fR_HEADER_SIZE : n

val fR_OFF_RESERVED : n

val fR_OFF_CRC : n

val fR_OFF_CRC_START : n

val fR_OFF_PSIZE : n

val le : n list -> n

val sub0 : n list -> nat -> nat -> n list

type header = { h_sync0 : n; h_sync1 : n; h_reserved : n; h_crc : n;
                h_proto : n; h_msgver : n; h_type : n; h_seq : n;
                h_psize : n; h_source : n }

val parse_header : n list -> header

val crc_region : n list -> nat -> n list

val sync_mismatch_early : n list -> bool

val judge_fe : bool -> bool -> n -> n list -> verdict

type fstate =
| FS_SYNC0
| FS_SYNC1
| FS_HEADER
| FS_DATA

val f_is_sync : fstate -> bool

type fcore = (fstate, unit) core

type fframer = (fstate, unit) framer

val ld32 : n list -> n -> n outcome

val to_i32 : n -> z

val f_crc_check : fcore -> ((fcore * z) * event list) outcome

val f_on_byte : bool -> fcore -> ((fcore * z) * event list) outcome

val f_reset_x : unit -> unit

val fe_on_data :
  (fstate, unit) framer -> n list -> (((fstate, unit) framer * n) * event
  list) outcome

val fe_reset : (fstate, unit) framer -> (fstate, unit) framer

val fe_set_buffer :
  (fstate, unit) framer -> n option -> n -> n -> n list -> (fstate, unit)
  framer

val fe_legacy_on_data :
  (fstate, unit) framer -> n list -> (((fstate, unit) framer * n) * event
  list) outcome

val fe_legacy_set_buffer :
  (fstate, unit) framer -> n option -> n -> n -> n list -> (fstate, unit)
  framer

val fe_default : fframer

val fe_construct_with :
  (fframer -> n option -> n -> n -> n list -> fframer) -> n option -> n -> n
  -> n list -> fframer

val fe_construct : n option -> n -> n -> n list -> fframer

val fe_legacy_construct : n option -> n -> n -> n list -> fframer

val fe_op_with :
  (fframer -> n list -> ((fframer * n) * event list) outcome) -> (fframer ->
  n option -> n -> n -> n list -> fframer) -> fframer -> op ->
  ((fframer * n) * event list) outcome

val fe_op : fframer -> op -> ((fframer * n) * event list) outcome

val fe_legacy_op : fframer -> op -> ((fframer * n) * event list) outcome

val judge_fe_cap : n -> n list -> verdict

val fe_event_of : (nat * n list) -> event

val fe_spec_op : spst -> op -> spst * (nat * n list) list

val fe_spec_construct : n option -> n -> n -> spst

val judge_py_cap : n -> n list -> verdict
