
(** val negb : bool -> bool **)

let negb = function
| true -> false
| false -> true

type nat =
| O
| S of nat

(** val fst : ('a1 * 'a2) -> 'a1 **)

let fst = function
| (x, _) -> x

(** val snd : ('a1 * 'a2) -> 'a2 **)

let snd = function
| (_, y) -> y

(** val app : 'a1 list -> 'a1 list -> 'a1 list **)

let rec app l m =
  match l with
  | [] -> m
  | a :: l1 -> a :: (app l1 m)

type comparison =
| Eq
| Lt
| Gt

module Coq__1 = struct
 (** val add : nat -> nat -> nat **)
 let rec add n0 m =
   match n0 with
   | O -> m
   | S p -> S (add p m)
end
include Coq__1

type positive =
| XI of positive
| XO of positive
| XH

type n =
| N0
| Npos of positive

module Pos =
 struct
  type mask =
  | IsNul
  | IsPos of positive
  | IsNeg
 end

module Coq_Pos =
 struct
  (** val succ : positive -> positive **)

  let rec succ = function
  | XI p -> XO (succ p)
  | XO p -> XI p
  | XH -> XO XH

  (** val add : positive -> positive -> positive **)

  let rec add x y =
    match x with
    | XI p ->
      (match y with
       | XI q -> XO (add_carry p q)
       | XO q -> XI (add p q)
       | XH -> XO (succ p))
    | XO p ->
      (match y with
       | XI q -> XI (add p q)
       | XO q -> XO (add p q)
       | XH -> XI p)
    | XH -> (match y with
             | XI q -> XO (succ q)
             | XO q -> XI q
             | XH -> XO XH)

  (** val add_carry : positive -> positive -> positive **)

  and add_carry x y =
    match x with
    | XI p ->
      (match y with
       | XI q -> XI (add_carry p q)
       | XO q -> XO (add_carry p q)
       | XH -> XI (succ p))
    | XO p ->
      (match y with
       | XI q -> XO (add_carry p q)
       | XO q -> XI (add p q)
       | XH -> XO (succ p))
    | XH ->
      (match y with
       | XI q -> XI (succ q)
       | XO q -> XO (succ q)
       | XH -> XI XH)

  (** val pred_double : positive -> positive **)

  let rec pred_double = function
  | XI p -> XI (XO p)
  | XO p -> XI (pred_double p)
  | XH -> XH

  (** val pred_N : positive -> n **)

  let pred_N = function
  | XI p -> Npos (XO p)
  | XO p -> Npos (pred_double p)
  | XH -> N0

  type mask = Pos.mask =
  | IsNul
  | IsPos of positive
  | IsNeg

  (** val succ_double_mask : mask -> mask **)

  let succ_double_mask = function
  | IsNul -> IsPos XH
  | IsPos p -> IsPos (XI p)
  | IsNeg -> IsNeg

  (** val double_mask : mask -> mask **)

  let double_mask = function
  | IsPos p -> IsPos (XO p)
  | x0 -> x0

  (** val double_pred_mask : positive -> mask **)

  let double_pred_mask = function
  | XI p -> IsPos (XO (XO p))
  | XO p -> IsPos (XO (pred_double p))
  | XH -> IsNul

  (** val sub_mask : positive -> positive -> mask **)

  let rec sub_mask x y =
    match x with
    | XI p ->
      (match y with
       | XI q -> double_mask (sub_mask p q)
       | XO q -> succ_double_mask (sub_mask p q)
       | XH -> IsPos (XO p))
    | XO p ->
      (match y with
       | XI q -> succ_double_mask (sub_mask_carry p q)
       | XO q -> double_mask (sub_mask p q)
       | XH -> IsPos (pred_double p))
    | XH -> (match y with
             | XH -> IsNul
             | _ -> IsNeg)

  (** val sub_mask_carry : positive -> positive -> mask **)

  and sub_mask_carry x y =
    match x with
    | XI p ->
      (match y with
       | XI q -> succ_double_mask (sub_mask_carry p q)
       | XO q -> double_mask (sub_mask p q)
       | XH -> IsPos (pred_double p))
    | XO p ->
      (match y with
       | XI q -> double_mask (sub_mask_carry p q)
       | XO q -> succ_double_mask (sub_mask_carry p q)
       | XH -> double_pred_mask p)
    | XH -> IsNeg

  (** val mul : positive -> positive -> positive **)

  let rec mul x y =
    match x with
    | XI p -> add y (XO (mul p y))
    | XO p -> XO (mul p y)
    | XH -> y

  (** val iter : ('a1 -> 'a1) -> 'a1 -> positive -> 'a1 **)

  let rec iter f x = function
  | XI n' -> f (iter f (iter f x n') n')
  | XO n' -> iter f (iter f x n') n'
  | XH -> f x

  (** val compare_cont : comparison -> positive -> positive -> comparison **)

  let rec compare_cont r x y =
    match x with
    | XI p ->
      (match y with
       | XI q -> compare_cont r p q
       | XO q -> compare_cont Gt p q
       | XH -> Gt)
    | XO p ->
      (match y with
       | XI q -> compare_cont Lt p q
       | XO q -> compare_cont r p q
       | XH -> Gt)
    | XH -> (match y with
             | XH -> r
             | _ -> Lt)

  (** val compare : positive -> positive -> comparison **)

  let compare =
    compare_cont Eq

  (** val eqb : positive -> positive -> bool **)

  let rec eqb p q =
    match p with
    | XI p0 -> (match q with
                | XI q0 -> eqb p0 q0
                | _ -> false)
    | XO p0 -> (match q with
                | XO q0 -> eqb p0 q0
                | _ -> false)
    | XH -> (match q with
             | XH -> true
             | _ -> false)

  (** val coq_Nsucc_double : n -> n **)

  let coq_Nsucc_double = function
  | N0 -> Npos XH
  | Npos p -> Npos (XI p)

  (** val coq_Ndouble : n -> n **)

  let coq_Ndouble = function
  | N0 -> N0
  | Npos p -> Npos (XO p)

  (** val coq_land : positive -> positive -> n **)

  let rec coq_land p q =
    match p with
    | XI p0 ->
      (match q with
       | XI q0 -> coq_Nsucc_double (coq_land p0 q0)
       | XO q0 -> coq_Ndouble (coq_land p0 q0)
       | XH -> Npos XH)
    | XO p0 ->
      (match q with
       | XI q0 -> coq_Ndouble (coq_land p0 q0)
       | XO q0 -> coq_Ndouble (coq_land p0 q0)
       | XH -> N0)
    | XH -> (match q with
             | XO _ -> N0
             | _ -> Npos XH)

  (** val coq_lxor : positive -> positive -> n **)

  let rec coq_lxor p q =
    match p with
    | XI p0 ->
      (match q with
       | XI q0 -> coq_Ndouble (coq_lxor p0 q0)
       | XO q0 -> coq_Nsucc_double (coq_lxor p0 q0)
       | XH -> Npos (XO p0))
    | XO p0 ->
      (match q with
       | XI q0 -> coq_Nsucc_double (coq_lxor p0 q0)
       | XO q0 -> coq_Ndouble (coq_lxor p0 q0)
       | XH -> Npos (XI p0))
    | XH ->
      (match q with
       | XI q0 -> Npos (XO q0)
       | XO q0 -> Npos (XI q0)
       | XH -> N0)

  (** val testbit : positive -> n -> bool **)

  let rec testbit p n0 =
    match p with
    | XI p0 -> (match n0 with
                | N0 -> true
                | Npos n1 -> testbit p0 (pred_N n1))
    | XO p0 -> (match n0 with
                | N0 -> false
                | Npos n1 -> testbit p0 (pred_N n1))
    | XH -> (match n0 with
             | N0 -> true
             | Npos _ -> false)

  (** val iter_op : ('a1 -> 'a1 -> 'a1) -> positive -> 'a1 -> 'a1 **)

  let rec iter_op op p a =
    match p with
    | XI p0 -> op a (iter_op op p0 (op a a))
    | XO p0 -> iter_op op p0 (op a a)
    | XH -> a

  (** val to_nat : positive -> nat **)

  let to_nat x =
    iter_op Coq__1.add x (S O)

  (** val of_succ_nat : nat -> positive **)

  let rec of_succ_nat = function
  | O -> XH
  | S x -> succ (of_succ_nat x)
 end

module N =
 struct
  (** val succ_double : n -> n **)

  let succ_double = function
  | N0 -> Npos XH
  | Npos p -> Npos (XI p)

  (** val double : n -> n **)

  let double = function
  | N0 -> N0
  | Npos p -> Npos (XO p)

  (** val succ : n -> n **)

  let succ = function
  | N0 -> Npos XH
  | Npos p -> Npos (Coq_Pos.succ p)

  (** val pred : n -> n **)

  let pred = function
  | N0 -> N0
  | Npos p -> Coq_Pos.pred_N p

  (** val add : n -> n -> n **)

  let add n0 m =
    match n0 with
    | N0 -> m
    | Npos p -> (match m with
                 | N0 -> n0
                 | Npos q -> Npos (Coq_Pos.add p q))

  (** val sub : n -> n -> n **)

  let sub n0 m =
    match n0 with
    | N0 -> N0
    | Npos n' ->
      (match m with
       | N0 -> n0
       | Npos m' ->
         (match Coq_Pos.sub_mask n' m' with
          | Coq_Pos.IsPos p -> Npos p
          | _ -> N0))

  (** val mul : n -> n -> n **)

  let mul n0 m =
    match n0 with
    | N0 -> N0
    | Npos p -> (match m with
                 | N0 -> N0
                 | Npos q -> Npos (Coq_Pos.mul p q))

  (** val compare : n -> n -> comparison **)

  let compare n0 m =
    match n0 with
    | N0 -> (match m with
             | N0 -> Eq
             | Npos _ -> Lt)
    | Npos n' -> (match m with
                  | N0 -> Gt
                  | Npos m' -> Coq_Pos.compare n' m')

  (** val eqb : n -> n -> bool **)

  let eqb n0 m =
    match n0 with
    | N0 -> (match m with
             | N0 -> true
             | Npos _ -> false)
    | Npos p -> (match m with
                 | N0 -> false
                 | Npos q -> Coq_Pos.eqb p q)

  (** val leb : n -> n -> bool **)

  let leb x y =
    match compare x y with
    | Gt -> false
    | _ -> true

  (** val ltb : n -> n -> bool **)

  let ltb x y =
    match compare x y with
    | Lt -> true
    | _ -> false

  (** val max : n -> n -> n **)

  let max n0 n' =
    match compare n0 n' with
    | Gt -> n0
    | _ -> n'

  (** val div2 : n -> n **)

  let div2 = function
  | N0 -> N0
  | Npos p0 -> (match p0 with
                | XI p -> Npos p
                | XO p -> Npos p
                | XH -> N0)

  (** val pos_div_eucl : positive -> n -> n * n **)

  let rec pos_div_eucl a b =
    match a with
    | XI a' ->
      let (q, r) = pos_div_eucl a' b in
      let r' = succ_double r in
      if leb b r' then ((succ_double q), (sub r' b)) else ((double q), r')
    | XO a' ->
      let (q, r) = pos_div_eucl a' b in
      let r' = double r in
      if leb b r' then ((succ_double q), (sub r' b)) else ((double q), r')
    | XH ->
      (match b with
       | N0 -> (N0, (Npos XH))
       | Npos p -> (match p with
                    | XH -> ((Npos XH), N0)
                    | _ -> (N0, (Npos XH))))

  (** val div_eucl : n -> n -> n * n **)

  let div_eucl a b =
    match a with
    | N0 -> (N0, N0)
    | Npos na -> (match b with
                  | N0 -> (N0, a)
                  | Npos _ -> pos_div_eucl na b)

  (** val div : n -> n -> n **)

  let div a b =
    fst (div_eucl a b)

  (** val modulo : n -> n -> n **)

  let modulo a b =
    snd (div_eucl a b)

  (** val coq_land : n -> n -> n **)

  let coq_land n0 m =
    match n0 with
    | N0 -> N0
    | Npos p -> (match m with
                 | N0 -> N0
                 | Npos q -> Coq_Pos.coq_land p q)

  (** val coq_lxor : n -> n -> n **)

  let coq_lxor n0 m =
    match n0 with
    | N0 -> m
    | Npos p -> (match m with
                 | N0 -> n0
                 | Npos q -> Coq_Pos.coq_lxor p q)

  (** val shiftr : n -> n -> n **)

  let shiftr a = function
  | N0 -> a
  | Npos p -> Coq_Pos.iter div2 a p

  (** val testbit : n -> n -> bool **)

  let testbit a n0 =
    match a with
    | N0 -> false
    | Npos p -> Coq_Pos.testbit p n0

  (** val to_nat : n -> nat **)

  let to_nat = function
  | N0 -> O
  | Npos p -> Coq_Pos.to_nat p

  (** val of_nat : nat -> n **)

  let of_nat = function
  | O -> N0
  | S n' -> Npos (Coq_Pos.of_succ_nat n')
 end

(** val nth : nat -> 'a1 list -> 'a1 -> 'a1 **)

let rec nth n0 l default =
  match n0 with
  | O -> (match l with
          | [] -> default
          | x :: _ -> x)
  | S m -> (match l with
            | [] -> default
            | _ :: t -> nth m t default)

(** val map : ('a1 -> 'a2) -> 'a1 list -> 'a2 list **)

let rec map f = function
| [] -> []
| a :: t -> (f a) :: (map f t)

(** val fold_left : ('a1 -> 'a2 -> 'a1) -> 'a2 list -> 'a1 -> 'a1 **)

let rec fold_left f l a0 =
  match l with
  | [] -> a0
  | b :: t -> fold_left f t (f a0 b)

(** val existsb : ('a1 -> bool) -> 'a1 list -> bool **)

let rec existsb f = function
| [] -> false
| a :: l0 -> (||) (f a) (existsb f l0)

(** val firstn : nat -> 'a1 list -> 'a1 list **)

let rec firstn n0 l =
  match n0 with
  | O -> []
  | S n1 -> (match l with
             | [] -> []
             | a :: l0 -> a :: (firstn n1 l0))

(** val skipn : nat -> 'a1 list -> 'a1 list **)

let rec skipn n0 l =
  match n0 with
  | O -> l
  | S n1 -> (match l with
             | [] -> []
             | _ :: l0 -> skipn n1 l0)

(** val seq : nat -> nat -> nat list **)

let rec seq start = function
| O -> []
| S len0 -> start :: (seq (S start) len0)

(** val crc_poly : n **)

let crc_poly =
  Npos (XO (XO (XO (XO (XO (XI (XO (XO (XI (XI (XO (XO (XO (XO (XO (XI (XO
    (XO (XO (XI (XI (XI (XO (XI (XI (XO (XI (XI (XO (XI (XI
    XH)))))))))))))))))))))))))))))))

(** val crc_xor : n **)

let crc_xor =
  Npos (XI (XI (XI (XI (XI (XI (XI (XI (XI (XI (XI (XI (XI (XI (XI (XI (XI
    (XI (XI (XI (XI (XI (XI (XI (XI (XI (XI (XI (XI (XI (XI
    XH)))))))))))))))))))))))))))))))

(** val sYNC0 : n **)

let sYNC0 =
  Npos (XO (XI (XI (XI (XO XH)))))

(** val sYNC1 : n **)

let sYNC1 =
  Npos (XI (XO (XO (XO (XI XH)))))

(** val mAX_EXPECTED_SIZE_BYTES : n **)

let mAX_EXPECTED_SIZE_BYTES =
  Npos (XO (XO (XO (XO (XO (XO (XO (XO (XO (XO (XO (XO (XO (XO (XO (XO (XO
    (XO (XO (XO (XO (XO (XO (XO XH))))))))))))))))))))))))

(** val hEADER_SIZE : nat **)

let hEADER_SIZE =
  S (S (S (S (S (S (S (S (S (S (S (S (S (S (S (S (S (S (S (S (S (S (S (S
    O)))))))))))))))))))))))

(** val fI_TIME_INVALID : n **)

let fI_TIME_INVALID =
  Npos (XI (XI (XI (XI (XI (XI (XI (XI (XI (XI (XI (XI (XI (XI (XI (XI (XI
    (XI (XI (XI (XI (XI (XI (XI (XI (XI (XI (XI (XI (XI (XI
    XH)))))))))))))))))))))))))))))))

(** val fI_INT_MAX : n **)

let fI_INT_MAX =
  Npos (XI (XI (XI (XI (XI (XI (XI (XI (XI (XI (XI (XI (XI (XI (XI (XI (XI
    (XI (XI (XI (XI (XI (XI (XI (XI (XI (XI (XI (XI (XI (XI
    XH)))))))))))))))))))))))))))))))

(** val fI_SIZE_MAX : n **)

let fI_SIZE_MAX =
  Npos (XI (XI (XI (XI (XI (XI (XI (XI (XI (XI (XI (XI (XI (XI (XI (XI (XI
    (XI (XI (XI (XI (XI (XI (XI (XI (XI (XI (XI (XI (XI (XI
    XH)))))))))))))))))))))))))))))))

(** val le : n list -> n **)

let rec le = function
| [] -> N0
| b :: t ->
  N.add b (N.mul (Npos (XO (XO (XO (XO (XO (XO (XO (XO XH))))))))) (le t))

(** val sub0 : n list -> nat -> nat -> n list **)

let sub0 l a n0 =
  firstn n0 (skipn a l)

(** val step_bit : n -> n **)

let step_bit c =
  if N.testbit c N0
  then N.coq_lxor crc_poly (N.shiftr c (Npos XH))
  else N.shiftr c (Npos XH)

(** val step8 : n -> n **)

let step8 c =
  step_bit
    (step_bit
      (step_bit (step_bit (step_bit (step_bit (step_bit (step_bit c)))))))

(** val range256 : n list **)

let range256 =
  map N.of_nat
    (seq O (S (S (S (S (S (S (S (S (S (S (S (S (S (S (S (S (S (S (S (S (S (S
      (S (S (S (S (S (S (S (S (S (S (S (S (S (S (S (S (S (S (S (S (S (S (S (S
      (S (S (S (S (S (S (S (S (S (S (S (S (S (S (S (S (S (S (S (S (S (S (S (S
      (S (S (S (S (S (S (S (S (S (S (S (S (S (S (S (S (S (S (S (S (S (S (S (S
      (S (S (S (S (S (S (S (S (S (S (S (S (S (S (S (S (S (S (S (S (S (S (S (S
      (S (S (S (S (S (S (S (S (S (S (S (S (S (S (S (S (S (S (S (S (S (S (S (S
      (S (S (S (S (S (S (S (S (S (S (S (S (S (S (S (S (S (S (S (S (S (S (S (S
      (S (S (S (S (S (S (S (S (S (S (S (S (S (S (S (S (S (S (S (S (S (S (S (S
      (S (S (S (S (S (S (S (S (S (S (S (S (S (S (S (S (S (S (S (S (S (S (S (S
      (S (S (S (S (S (S (S (S (S (S (S (S (S (S (S (S (S (S (S (S (S (S (S (S
      (S (S (S (S (S (S (S (S (S (S (S (S (S (S (S (S (S (S
      O)))))))))))))))))))))))))))))))))))))))))))))))))))))))))))))))))))))))))))))))))))))))))))))))))))))))))))))))))))))))))))))))))))))))))))))))))))))))))))))))))))))))))))))))))))))))))))))))))))))))))))))))))))))))))))))))))))))))))))))))))))))))))))))))))

(** val crc_table : n list **)

let crc_table =
  map step8 range256

(** val table_lookup : n -> n **)

let table_lookup i =
  nth (N.to_nat i) crc_table N0

(** val upd_table : n -> n -> n **)

let upd_table c b =
  N.coq_lxor
    (table_lookup
      (N.coq_land (N.coq_lxor c b) (Npos (XI (XI (XI (XI (XI (XI (XI
        XH)))))))))) (N.shiftr c (Npos (XO (XO (XO XH)))))

(** val crc_fold : (n -> n -> n) -> n -> n list -> n **)

let crc_fold upd c l =
  fold_left upd l c

(** val crc32_from_with : (n -> n -> n) -> n -> n list -> n **)

let crc32_from_with upd init l =
  N.coq_lxor (crc_fold upd (N.coq_lxor init crc_xor) l) crc_xor

(** val crc32_from : n -> n list -> n **)

let crc32_from =
  crc32_from_with upd_table

(** val crc32 : n list -> n **)

let crc32 l =
  crc32_from N0 l

type header = { h_sync0 : n; h_sync1 : n; h_reserved : n; h_crc : n;
                h_proto : n; h_msgver : n; h_type : n; h_seq : n;
                h_psize : n; h_source : n }

(** val parse_header : n list -> header **)

let parse_header l =
  { h_sync0 = (le (sub0 l O (S O))); h_sync1 = (le (sub0 l (S O) (S O)));
    h_reserved = (le (sub0 l (S (S O)) (S (S O)))); h_crc =
    (le (sub0 l (S (S (S (S O)))) (S (S (S (S O)))))); h_proto =
    (le (sub0 l (S (S (S (S (S (S (S (S O)))))))) (S O))); h_msgver =
    (le (sub0 l (S (S (S (S (S (S (S (S (S O))))))))) (S O))); h_type =
    (le (sub0 l (S (S (S (S (S (S (S (S (S (S O)))))))))) (S (S O))));
    h_seq =
    (le
      (sub0 l (S (S (S (S (S (S (S (S (S (S (S (S O)))))))))))) (S (S (S (S
        O)))))); h_psize =
    (le
      (sub0 l (S (S (S (S (S (S (S (S (S (S (S (S (S (S (S (S
        O)))))))))))))))) (S (S (S (S O)))))); h_source =
    (le
      (sub0 l (S (S (S (S (S (S (S (S (S (S (S (S (S (S (S (S (S (S (S (S
        O)))))))))))))))))))) (S (S (S (S O)))))) }

(** val fi_take : n -> 'a1 list -> 'a1 list **)

let rec fi_take n0 = function
| [] -> []
| a :: t -> if N.eqb n0 N0 then [] else a :: (fi_take (N.pred n0) t)

(** val fi_drop : n -> 'a1 list -> 'a1 list **)

let rec fi_drop n0 l = match l with
| [] -> []
| _ :: t -> if N.eqb n0 N0 then l else fi_drop (N.pred n0) t

(** val fi_has : n -> 'a1 list -> bool **)

let rec fi_has n0 = function
| [] -> N.eqb n0 N0
| _ :: t -> if N.eqb n0 N0 then true else fi_has (N.pred n0) t

(** val fi_len_acc : 'a1 list -> n -> n **)

let rec fi_len_acc l acc =
  match l with
  | [] -> acc
  | _ :: t -> fi_len_acc t (N.succ acc)

(** val fi_len : 'a1 list -> n **)

let fi_len l =
  fi_len_acc l N0

type fi_cfg = { c_lencheck : bool; c_timeguard : bool; c_wcclamp : bool;
                c_sizewide : bool; c_payslice : bool; c_reportall : bool }

(** val fi_legacy : fi_cfg **)

let fi_legacy =
  { c_lencheck = false; c_timeguard = false; c_wcclamp = false; c_sizewide =
    false; c_payslice = false; c_reportall = false }

type fi_err =
| ErrNegativeDim
| ErrFromBuffer
| ErrTimeOverflow
| ErrSizeOverflow
| ErrZeroThreads

type 'a fi_res =
| FOk of 'a
| FRaise of fi_err

(** val tIME_INVALID : n **)

let tIME_INVALID =
  fI_TIME_INVALID

(** val sIZE_U2_MAX : n **)

let sIZE_U2_MAX =
  Npos (XI (XI (XI (XI (XI (XI (XI (XI (XI (XI (XI (XI (XI (XI (XI
    XH)))))))))))))))

type fi_raw = { r_int : n; r_type : n; r_off : n; r_size : n }

type fi_entry = { e_time : n option; e_type : n; e_off : n; e_idx : n }

(** val fi_accept : fi_cfg -> n list -> header option **)

let fi_accept cfg l =
  if negb (fi_has (Npos (XO (XO (XO (XI XH))))) l)
  then None
  else let h = parse_header (firstn hEADER_SIZE l) in
       if N.ltb mAX_EXPECTED_SIZE_BYTES h.h_psize
       then None
       else let n0 = N.add (Npos (XO (XO (XO (XI XH))))) h.h_psize in
            if (&&) cfg.c_lencheck (negb (fi_has n0 l))
            then None
            else if N.eqb
                      (crc32
                        (fi_take (N.sub n0 (Npos (XO (XO (XO XH)))))
                          (fi_drop (Npos (XO (XO (XO XH)))) l))) h.h_crc
                 then Some h
                 else None

(** val fi_time_raw : fi_cfg -> (n * n) option -> n **)

let fi_time_raw cfg = function
| Some p ->
  let (num, den) = p in
  let s = N.div num den in
  if (&&) cfg.c_timeguard (N.leb tIME_INVALID s) then tIME_INVALID else s
| None -> tIME_INVALID

(** val fi_payload_view : fi_cfg -> n list -> n -> n list **)

let fi_payload_view cfg l psize =
  if cfg.c_payslice
  then fi_take psize (fi_drop (Npos (XO (XO (XO (XI XH))))) l)
  else fi_drop (Npos (XO (XO (XO (XI XH))))) l

(** val fi_syncs : n list -> n -> nat -> (n * n list) list **)

let rec fi_syncs l i = function
| O -> []
| S c ->
  (match l with
   | [] -> []
   | b0 :: t ->
     (match t with
      | [] -> []
      | b1 :: _ ->
        if (&&) (N.eqb b0 sYNC0) (N.eqb b1 sYNC1)
        then (i, l) :: (fi_syncs t (N.succ i) c)
        else fi_syncs t (N.succ i) c))

(** val fi_process :
    fi_cfg -> (n -> n -> n list -> (n * n) option) -> n -> (n * n list) list
    -> n -> fi_raw list * n **)

let rec fi_process cfg ptime bo ms me =
  match ms with
  | [] -> ([], me)
  | p :: rest ->
    let (i, l) = p in
    let abs = N.add bo i in
    if (&&) (negb cfg.c_reportall) (N.ltb abs me)
    then fi_process cfg ptime bo rest me
    else (match fi_accept cfg l with
          | Some h ->
            let size = N.add (Npos (XO (XO (XO (XI XH))))) h.h_psize in
            let t =
              fi_time_raw cfg
                (ptime h.h_type h.h_msgver (fi_payload_view cfg l h.h_psize))
            in
            let (es, me') = fi_process cfg ptime bo rest (N.add abs size) in
            (({ r_int = t; r_type = h.h_type; r_off = abs; r_size =
            size } :: es), me')
          | None -> fi_process cfg ptime bo rest me)

type fi_wc =
| WCount of n
| WBreak
| WRaise of fi_err

(** val fi_word_count : n -> n -> fi_cfg -> n -> n -> fi_wc **)

let fi_word_count rEAD mAX cfg bo len =
  if N.eqb len (N.add rEAD mAX)
  then WCount (N.div rEAD (Npos (XO XH)))
  else if (||) (N.eqb bo N0) (N.leb mAX len)
       then if N.eqb (N.div len (Npos (XO XH))) N0
            then if cfg.c_wcclamp then WCount N0 else WRaise ErrNegativeDim
            else WCount (N.sub (N.div len (Npos (XO XH))) (Npos XH))
       else WBreak

(** val fi_block_data : n -> n -> n list -> n -> n list **)

let fi_block_data rEAD mAX file bo =
  fi_take (N.add rEAD mAX) (fi_drop bo file)

(** val fi_blocks :
    n -> n -> fi_cfg -> (n -> n -> n list -> (n * n) option) -> n list -> n
    list -> n -> fi_raw list fi_res **)

let rec fi_blocks rEAD mAX cfg ptime file starts me =
  match starts with
  | [] -> FOk []
  | bo :: rest ->
    let data = fi_block_data rEAD mAX file bo in
    (match fi_word_count rEAD mAX cfg bo (fi_len data) with
     | WCount wc ->
       if (&&) (negb (N.eqb wc N0))
            (negb (fi_has (N.add (N.mul (Npos (XO XH)) wc) (Npos XH)) data))
       then FRaise ErrFromBuffer
       else let (es, me') =
              fi_process cfg ptime bo
                (fi_syncs data N0 (N.to_nat (N.mul (Npos (XO XH)) wc))) me
            in
            (match fi_blocks rEAD mAX cfg ptime file rest me' with
             | FOk es2 -> FOk (app es es2)
             | FRaise e -> FRaise e)
     | WBreak -> FOk []
     | WRaise e -> FRaise e)

(** val fi_to_array : fi_cfg -> fi_raw list -> fi_raw list fi_res **)

let fi_to_array cfg es =
  if existsb (fun e -> N.ltb fI_INT_MAX e.r_int) es
  then FRaise ErrTimeOverflow
  else if existsb (fun e ->
            N.ltb (if cfg.c_sizewide then fI_SIZE_MAX else sIZE_U2_MAX)
              e.r_size) es
       then FRaise ErrSizeOverflow
       else FOk es

(** val fi_worker :
    n -> n -> fi_cfg -> (n -> n -> n list -> (n * n) option) -> n list -> n
    list -> fi_raw list fi_res **)

let fi_worker rEAD mAX cfg ptime file starts =
  match fi_blocks rEAD mAX cfg ptime file starts N0 with
  | FOk es -> fi_to_array cfg es
  | FRaise e -> FRaise e

(** val fi_range : n -> n -> nat -> n list **)

let rec fi_range rEAD a = function
| O -> []
| S c -> a :: (fi_range rEAD (N.add a rEAD) c)

(** val fi_num_blocks : n -> n -> n **)

let fi_num_blocks rEAD size =
  N.div (N.sub (N.add size rEAD) (Npos XH)) rEAD

(** val fi_alloc : n -> n -> n -> nat -> n -> n -> n list list **)

let rec fi_alloc rEAD q r n0 i byte_offset =
  match n0 with
  | O -> []
  | S n' ->
    let blocks = N.add q (if N.ltb i r then Npos XH else N0) in
    (fi_range rEAD byte_offset (N.to_nat blocks)) :: (fi_alloc rEAD q r n'
                                                       (N.succ i)
                                                       (N.add byte_offset
                                                         (N.mul blocks rEAD)))

(** val fi_block_table : n -> n -> n -> n list list **)

let fi_block_table rEAD size w =
  let nb = fi_num_blocks rEAD size in
  fi_alloc rEAD (N.div nb w) (N.modulo nb w) (N.to_nat w) N0 N0

(** val fi_gather : fi_raw list fi_res list -> fi_raw list fi_res **)

let rec fi_gather = function
| [] -> FOk []
| f :: rest ->
  (match f with
   | FOk es ->
     (match fi_gather rest with
      | FOk es2 -> FOk (app es es2)
      | FRaise e -> FRaise e)
   | FRaise e -> FRaise e)

(** val fi_overlap_filter : fi_raw list -> n -> fi_raw list **)

let rec fi_overlap_filter es runmax =
  match es with
  | [] -> []
  | e :: t ->
    let rm' = N.max runmax (N.add e.r_off e.r_size) in
    if N.leb runmax e.r_off
    then e :: (fi_overlap_filter t rm')
    else fi_overlap_filter t rm'

(** val fi_greedy : fi_raw list -> n -> fi_raw list **)

let rec fi_greedy es fin =
  match es with
  | [] -> []
  | e :: t ->
    if N.leb fin e.r_off
    then e :: (fi_greedy t (N.add e.r_off e.r_size))
    else fi_greedy t fin

(** val fi_from_raw : fi_raw list -> n -> fi_entry list **)

let rec fi_from_raw es k =
  match es with
  | [] -> []
  | e :: t ->
    { e_time = (if N.eqb e.r_int tIME_INVALID then None else Some e.r_int);
      e_type = e.r_type; e_off = e.r_off; e_idx =
      k } :: (fi_from_raw t (N.succ k))

(** val fi_generate :
    n -> n -> fi_cfg -> (n -> n -> n list -> (n * n) option) -> n list -> n
    -> fi_entry list fi_res **)

let fi_generate rEAD mAX cfg ptime file w =
  if N.eqb w N0
  then FRaise ErrZeroThreads
  else let tbl = fi_block_table rEAD (fi_len file) w in
       (match fi_gather (map (fi_worker rEAD mAX cfg ptime file) tbl) with
        | FOk raw ->
          let kept =
            if cfg.c_reportall
            then fi_greedy raw N0
            else fi_overlap_filter raw N0
          in
          FOk (fi_from_raw kept N0)
        | FRaise e -> FRaise e)

(** val fi_spec_time : (n * n) option -> n option **)

let fi_spec_time = function
| Some p ->
  let (num, den) = p in
  let s = N.div num den in if N.ltb s tIME_INVALID then Some s else None
| None -> None

(** val fi_sync_at : n list -> bool **)

let fi_sync_at = function
| [] -> false
| b0 :: l0 ->
  (match l0 with
   | [] -> false
   | b1 :: _ -> (&&) (N.eqb b0 sYNC0) (N.eqb b1 sYNC1))

(** val fi_valid : n list -> header option **)

let fi_valid l =
  if negb (fi_sync_at l)
  then None
  else if negb (fi_has (Npos (XO (XO (XO (XI XH))))) l)
       then None
       else let h = parse_header (firstn hEADER_SIZE l) in
            if N.ltb mAX_EXPECTED_SIZE_BYTES h.h_psize
            then None
            else let n0 = N.add (Npos (XO (XO (XO (XI XH))))) h.h_psize in
                 if negb (fi_has n0 l)
                 then None
                 else if N.eqb
                           (crc32
                             (fi_take (N.sub n0 (Npos (XO (XO (XO XH)))))
                               (fi_drop (Npos (XO (XO (XO XH)))) l))) h.h_crc
                      then Some h
                      else None

(** val fi_xscan :
    (n -> n -> n list -> (n * n) option) -> n list -> n -> n list -> n ->
    fi_entry list **)

let rec fi_xscan ptime fuel off l k =
  match fuel with
  | [] -> []
  | _ :: f ->
    (match l with
     | [] -> []
     | _ :: t ->
       (match fi_valid l with
        | Some h ->
          let n0 = N.add (Npos (XO (XO (XO (XI XH))))) h.h_psize in
          { e_time =
          (fi_spec_time
            (ptime h.h_type h.h_msgver
              (fi_take h.h_psize (fi_drop (Npos (XO (XO (XO (XI XH))))) l))));
          e_type = h.h_type; e_off = off; e_idx =
          k } :: (fi_xscan ptime f (N.add off n0) (fi_drop n0 l) (N.succ k))
        | None -> fi_xscan ptime f (N.succ off) t k))

(** val fi_spec_x :
    (n -> n -> n list -> (n * n) option) -> n list -> fi_entry list **)

let fi_spec_x ptime file =
  fi_xscan ptime (N0 :: file) N0 file N0

(** val fi_cur : fi_cfg **)

let fi_cur =
  { c_lencheck = true; c_timeguard = true; c_wcclamp = true; c_sizewide =
    true; c_payslice = true; c_reportall = true }
