
type nat =
| O
| S of nat

(** val snd : ('a1 * 'a2) -> 'a2 **)

let snd = function
| (_, y) -> y

type comparison =
| Eq
| Lt
| Gt

(** val compOpp : comparison -> comparison **)

let compOpp = function
| Eq -> Eq
| Lt -> Gt
| Gt -> Lt

module Coq__1 = struct
 (** val add : nat -> nat -> nat **)
 let rec add n m =
   match n with
   | O -> m
   | S p -> S (add p m)
end
include Coq__1

type positive =
| XI of positive
| XO of positive
| XH

type z =
| Z0
| Zpos of positive
| Zneg of positive

module Pos =
 struct
  type mask =
  | IsNul
  | IsPos of positive
  | IsNeg
 end

module Coq_Pos =
 struct
  (** val succ : positive -> positive **)

  let rec succ = function
  | XI p -> XO (succ p)
  | XO p -> XI p
  | XH -> XO XH

  (** val add : positive -> positive -> positive **)

  let rec add x y =
    match x with
    | XI p ->
      (match y with
       | XI q0 -> XO (add_carry p q0)
       | XO q0 -> XI (add p q0)
       | XH -> XO (succ p))
    | XO p ->
      (match y with
       | XI q0 -> XI (add p q0)
       | XO q0 -> XO (add p q0)
       | XH -> XI p)
    | XH -> (match y with
             | XI q0 -> XO (succ q0)
             | XO q0 -> XI q0
             | XH -> XO XH)

  (** val add_carry : positive -> positive -> positive **)

  and add_carry x y =
    match x with
    | XI p ->
      (match y with
       | XI q0 -> XI (add_carry p q0)
       | XO q0 -> XO (add_carry p q0)
       | XH -> XI (succ p))
    | XO p ->
      (match y with
       | XI q0 -> XO (add_carry p q0)
       | XO q0 -> XI (add p q0)
       | XH -> XO (succ p))
    | XH ->
      (match y with
       | XI q0 -> XI (succ q0)
       | XO q0 -> XO (succ q0)
       | XH -> XI XH)

  (** val pred_double : positive -> positive **)

  let rec pred_double = function
  | XI p -> XI (XO p)
  | XO p -> XI (pred_double p)
  | XH -> XH

  type mask = Pos.mask =
  | IsNul
  | IsPos of positive
  | IsNeg

  (** val succ_double_mask : mask -> mask **)

  let succ_double_mask = function
  | IsNul -> IsPos XH
  | IsPos p -> IsPos (XI p)
  | IsNeg -> IsNeg

  (** val double_mask : mask -> mask **)

  let double_mask = function
  | IsPos p -> IsPos (XO p)
  | x0 -> x0

  (** val double_pred_mask : positive -> mask **)

  let double_pred_mask = function
  | XI p -> IsPos (XO (XO p))
  | XO p -> IsPos (XO (pred_double p))
  | XH -> IsNul

  (** val sub_mask : positive -> positive -> mask **)

  let rec sub_mask x y =
    match x with
    | XI p ->
      (match y with
       | XI q0 -> double_mask (sub_mask p q0)
       | XO q0 -> succ_double_mask (sub_mask p q0)
       | XH -> IsPos (XO p))
    | XO p ->
      (match y with
       | XI q0 -> succ_double_mask (sub_mask_carry p q0)
       | XO q0 -> double_mask (sub_mask p q0)
       | XH -> IsPos (pred_double p))
    | XH -> (match y with
             | XH -> IsNul
             | _ -> IsNeg)

  (** val sub_mask_carry : positive -> positive -> mask **)

  and sub_mask_carry x y =
    match x with
    | XI p ->
      (match y with
       | XI q0 -> succ_double_mask (sub_mask_carry p q0)
       | XO q0 -> double_mask (sub_mask p q0)
       | XH -> IsPos (pred_double p))
    | XO p ->
      (match y with
       | XI q0 -> double_mask (sub_mask_carry p q0)
       | XO q0 -> succ_double_mask (sub_mask_carry p q0)
       | XH -> double_pred_mask p)
    | XH -> IsNeg

  (** val sub : positive -> positive -> positive **)

  let sub x y =
    match sub_mask x y with
    | IsPos z0 -> z0
    | _ -> XH

  (** val mul : positive -> positive -> positive **)

  let rec mul x y =
    match x with
    | XI p -> add y (XO (mul p y))
    | XO p -> XO (mul p y)
    | XH -> y

  (** val size_nat : positive -> nat **)

  let rec size_nat = function
  | XI p0 -> S (size_nat p0)
  | XO p0 -> S (size_nat p0)
  | XH -> S O

  (** val compare_cont : comparison -> positive -> positive -> comparison **)

  let rec compare_cont r x y =
    match x with
    | XI p ->
      (match y with
       | XI q0 -> compare_cont r p q0
       | XO q0 -> compare_cont Gt p q0
       | XH -> Gt)
    | XO p ->
      (match y with
       | XI q0 -> compare_cont Lt p q0
       | XO q0 -> compare_cont r p q0
       | XH -> Gt)
    | XH -> (match y with
             | XH -> r
             | _ -> Lt)

  (** val compare : positive -> positive -> comparison **)

  let compare =
    compare_cont Eq

  (** val ggcdn :
      nat -> positive -> positive -> positive * (positive * positive) **)

  let rec ggcdn n a b =
    match n with
    | O -> (XH, (a, b))
    | S n0 ->
      (match a with
       | XI a' ->
         (match b with
          | XI b' ->
            (match compare a' b' with
             | Eq -> (a, (XH, XH))
             | Lt ->
               let (g, p) = ggcdn n0 (sub b' a') a in
               let (ba, aa) = p in (g, (aa, (add aa (XO ba))))
             | Gt ->
               let (g, p) = ggcdn n0 (sub a' b') b in
               let (ab, bb) = p in (g, ((add bb (XO ab)), bb)))
          | XO b0 ->
            let (g, p) = ggcdn n0 a b0 in
            let (aa, bb) = p in (g, (aa, (XO bb)))
          | XH -> (XH, (a, XH)))
       | XO a0 ->
         (match b with
          | XI _ ->
            let (g, p) = ggcdn n0 a0 b in
            let (aa, bb) = p in (g, ((XO aa), bb))
          | XO b0 -> let (g, p) = ggcdn n0 a0 b0 in ((XO g), p)
          | XH -> (XH, (a, XH)))
       | XH -> (XH, (XH, b)))

  (** val ggcd : positive -> positive -> positive * (positive * positive) **)

  let ggcd a b =
    ggcdn (Coq__1.add (size_nat a) (size_nat b)) a b
 end

module Z =
 struct
  (** val double : z -> z **)

  let double = function
  | Z0 -> Z0
  | Zpos p -> Zpos (XO p)
  | Zneg p -> Zneg (XO p)

  (** val succ_double : z -> z **)

  let succ_double = function
  | Z0 -> Zpos XH
  | Zpos p -> Zpos (XI p)
  | Zneg p -> Zneg (Coq_Pos.pred_double p)

  (** val pred_double : z -> z **)

  let pred_double = function
  | Z0 -> Zneg XH
  | Zpos p -> Zpos (Coq_Pos.pred_double p)
  | Zneg p -> Zneg (XI p)

  (** val pos_sub : positive -> positive -> z **)

  let rec pos_sub x y =
    match x with
    | XI p ->
      (match y with
       | XI q0 -> double (pos_sub p q0)
       | XO q0 -> succ_double (pos_sub p q0)
       | XH -> Zpos (XO p))
    | XO p ->
      (match y with
       | XI q0 -> pred_double (pos_sub p q0)
       | XO q0 -> double (pos_sub p q0)
       | XH -> Zpos (Coq_Pos.pred_double p))
    | XH ->
      (match y with
       | XI q0 -> Zneg (XO q0)
       | XO q0 -> Zneg (Coq_Pos.pred_double q0)
       | XH -> Z0)

  (** val add : z -> z -> z **)

  let add x y =
    match x with
    | Z0 -> y
    | Zpos x' ->
      (match y with
       | Z0 -> x
       | Zpos y' -> Zpos (Coq_Pos.add x' y')
       | Zneg y' -> pos_sub x' y')
    | Zneg x' ->
      (match y with
       | Z0 -> x
       | Zpos y' -> pos_sub y' x'
       | Zneg y' -> Zneg (Coq_Pos.add x' y'))

  (** val opp : z -> z **)

  let opp = function
  | Z0 -> Z0
  | Zpos x0 -> Zneg x0
  | Zneg x0 -> Zpos x0

  (** val sub : z -> z -> z **)

  let sub m n =
    add m (opp n)

  (** val mul : z -> z -> z **)

  let mul x y =
    match x with
    | Z0 -> Z0
    | Zpos x' ->
      (match y with
       | Z0 -> Z0
       | Zpos y' -> Zpos (Coq_Pos.mul x' y')
       | Zneg y' -> Zneg (Coq_Pos.mul x' y'))
    | Zneg x' ->
      (match y with
       | Z0 -> Z0
       | Zpos y' -> Zneg (Coq_Pos.mul x' y')
       | Zneg y' -> Zpos (Coq_Pos.mul x' y'))

  (** val compare : z -> z -> comparison **)

  let compare x y =
    match x with
    | Z0 -> (match y with
             | Z0 -> Eq
             | Zpos _ -> Lt
             | Zneg _ -> Gt)
    | Zpos x' -> (match y with
                  | Zpos y' -> Coq_Pos.compare x' y'
                  | _ -> Gt)
    | Zneg x' ->
      (match y with
       | Zneg y' -> compOpp (Coq_Pos.compare x' y')
       | _ -> Lt)

  (** val sgn : z -> z **)

  let sgn = function
  | Z0 -> Z0
  | Zpos _ -> Zpos XH
  | Zneg _ -> Zneg XH

  (** val leb : z -> z -> bool **)

  let leb x y =
    match compare x y with
    | Gt -> false
    | _ -> true

  (** val ltb : z -> z -> bool **)

  let ltb x y =
    match compare x y with
    | Lt -> true
    | _ -> false

  (** val abs : z -> z **)

  let abs = function
  | Zneg p -> Zpos p
  | x -> x

  (** val to_pos : z -> positive **)

  let to_pos = function
  | Zpos p -> p
  | _ -> XH

  (** val pos_div_eucl : positive -> z -> z * z **)

  let rec pos_div_eucl a b =
    match a with
    | XI a' ->
      let (q0, r) = pos_div_eucl a' b in
      let r' = add (mul (Zpos (XO XH)) r) (Zpos XH) in
      if ltb r' b
      then ((mul (Zpos (XO XH)) q0), r')
      else ((add (mul (Zpos (XO XH)) q0) (Zpos XH)), (sub r' b))
    | XO a' ->
      let (q0, r) = pos_div_eucl a' b in
      let r' = mul (Zpos (XO XH)) r in
      if ltb r' b
      then ((mul (Zpos (XO XH)) q0), r')
      else ((add (mul (Zpos (XO XH)) q0) (Zpos XH)), (sub r' b))
    | XH -> if leb (Zpos (XO XH)) b then (Z0, (Zpos XH)) else ((Zpos XH), Z0)

  (** val div_eucl : z -> z -> z * z **)

  let div_eucl a b =
    match a with
    | Z0 -> (Z0, Z0)
    | Zpos a' ->
      (match b with
       | Z0 -> (Z0, a)
       | Zpos _ -> pos_div_eucl a' b
       | Zneg b' ->
         let (q0, r) = pos_div_eucl a' (Zpos b') in
         (match r with
          | Z0 -> ((opp q0), Z0)
          | _ -> ((opp (add q0 (Zpos XH))), (add b r))))
    | Zneg a' ->
      (match b with
       | Z0 -> (Z0, a)
       | Zpos _ ->
         let (q0, r) = pos_div_eucl a' b in
         (match r with
          | Z0 -> ((opp q0), Z0)
          | _ -> ((opp (add q0 (Zpos XH))), (sub b r)))
       | Zneg b' -> let (q0, r) = pos_div_eucl a' (Zpos b') in (q0, (opp r)))

  (** val div : z -> z -> z **)

  let div a b =
    let (q0, _) = div_eucl a b in q0

  (** val ggcd : z -> z -> z * (z * z) **)

  let ggcd a b =
    match a with
    | Z0 -> ((abs b), (Z0, (sgn b)))
    | Zpos a0 ->
      (match b with
       | Z0 -> ((abs a), ((sgn a), Z0))
       | Zpos b0 ->
         let (g, p) = Coq_Pos.ggcd a0 b0 in
         let (aa, bb) = p in ((Zpos g), ((Zpos aa), (Zpos bb)))
       | Zneg b0 ->
         let (g, p) = Coq_Pos.ggcd a0 b0 in
         let (aa, bb) = p in ((Zpos g), ((Zpos aa), (Zneg bb))))
    | Zneg a0 ->
      (match b with
       | Z0 -> ((abs a), ((sgn a), Z0))
       | Zpos b0 ->
         let (g, p) = Coq_Pos.ggcd a0 b0 in
         let (aa, bb) = p in ((Zpos g), ((Zneg aa), (Zpos bb)))
       | Zneg b0 ->
         let (g, p) = Coq_Pos.ggcd a0 b0 in
         let (aa, bb) = p in ((Zpos g), ((Zneg aa), (Zneg bb))))
 end

type q = { qnum : z; qden : positive }

(** val inject_Z : z -> q **)

let inject_Z x =
  { qnum = x; qden = XH }

(** val qplus : q -> q -> q **)

let qplus x y =
  { qnum = (Z.add (Z.mul x.qnum (Zpos y.qden)) (Z.mul y.qnum (Zpos x.qden)));
    qden = (Coq_Pos.mul x.qden y.qden) }

(** val qmult : q -> q -> q **)

let qmult x y =
  { qnum = (Z.mul x.qnum y.qnum); qden = (Coq_Pos.mul x.qden y.qden) }

(** val qopp : q -> q **)

let qopp x =
  { qnum = (Z.opp x.qnum); qden = x.qden }

(** val qminus : q -> q -> q **)

let qminus x y =
  qplus x (qopp y)

(** val qinv : q -> q **)

let qinv x =
  match x.qnum with
  | Z0 -> { qnum = Z0; qden = XH }
  | Zpos p -> { qnum = (Zpos x.qden); qden = p }
  | Zneg p -> { qnum = (Zneg x.qden); qden = p }

(** val qdiv : q -> q -> q **)

let qdiv x y =
  qmult x (qinv y)

(** val qred : q -> q **)

let qred q0 =
  let { qnum = q1; qden = q2 } = q0 in
  let (r1, r2) = snd (Z.ggcd q1 (Zpos q2)) in
  { qnum = r1; qden = (Z.to_pos r2) }

(** val qfloor : q -> z **)

let qfloor x =
  let { qnum = n; qden = d } = x in Z.div n (Zpos d)

(** val heading_wrap0 : q -> q -> q **)

let heading_wrap0 p x =
  qminus x (qmult p (inject_Z (qfloor (qdiv x p))))

(** val heading_wrapc : q -> q -> q **)

let heading_wrapc h x =
  qminus
    (heading_wrap0 (qmult { qnum = (Zpos (XO XH)); qden = XH } h) (qplus x h))
    h

(** val heading_heading : q -> q -> q **)

let heading_heading h yaw =
  heading_wrap0 (qmult { qnum = (Zpos (XO XH)); qden = XH } h)
    (qminus (qdiv h { qnum = (Zpos (XO XH)); qden = XH }) yaw)

(** val heading_yaw : q -> q -> q **)

let heading_yaw h heading =
  heading_wrapc h
    (qminus (qdiv h { qnum = (Zpos (XO XH)); qden = XH }) heading)

(** val heading_spec_heading : q -> q -> q **)

let heading_spec_heading h y =
  qred (heading_heading h y)

(** val heading_spec_yaw : q -> q -> q **)

let heading_spec_yaw h h0 =
  qred (heading_yaw h h0)
