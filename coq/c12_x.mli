
val negb : bool -> bool

type nat =
| O
| S of nat

val fst : ('a1 * 'a2) -> 'a1

val snd : ('a1 * 'a2) -> 'a2

val length : 'a1 list -> nat

val app : 'a1 list -> 'a1 list -> 'a1 list

type comparison =
| Eq
| Lt
| Gt

val compOpp : comparison -> comparison

val add : nat -> nat -> nat

val sub : nat -> nat -> nat

type positive =
| XI of positive
| XO of positive
| XH

type n =
| N0
| Npos of positive

type z =
| Z0
| Zpos of positive
| Zneg of positive

val bool_dec : bool -> bool -> bool

module Nat :
 sig
  val eqb : nat -> nat -> bool
 end

module Pos :
 sig
  val succ : positive -> positive

  val add : positive -> positive -> positive

  val add_carry : positive -> positive -> positive

  val pred_double : positive -> positive

  val mul : positive -> positive -> positive

  val compare_cont : comparison -> positive -> positive -> comparison

  val compare : positive -> positive -> comparison

  val eqb : positive -> positive -> bool

  val iter_op : ('a1 -> 'a1 -> 'a1) -> positive -> 'a1 -> 'a1

  val to_nat : positive -> nat

  val of_succ_nat : nat -> positive

  val eq_dec : positive -> positive -> bool
 end

module N :
 sig
  val compare : n -> n -> comparison

  val eqb : n -> n -> bool

  val leb : n -> n -> bool

  val eq_dec : n -> n -> bool
 end

module Z :
 sig
  val double : z -> z

  val succ_double : z -> z

  val pred_double : z -> z

  val pos_sub : positive -> positive -> z

  val add : z -> z -> z

  val opp : z -> z

  val sub : z -> z -> z

  val mul : z -> z -> z

  val compare : z -> z -> comparison

  val leb : z -> z -> bool

  val ltb : z -> z -> bool

  val eqb : z -> z -> bool

  val max : z -> z -> z

  val min : z -> z -> z

  val abs : z -> z

  val to_nat : z -> nat

  val to_N : z -> n

  val of_nat : nat -> z

  val of_N : n -> z

  val pos_div_eucl : positive -> z -> z * z

  val div_eucl : z -> z -> z * z

  val div : z -> z -> z

  val modulo : z -> z -> z

  val eq_dec : z -> z -> bool
 end

val hd_error : 'a1 list -> 'a1 option

val in_dec : ('a1 -> 'a1 -> bool) -> 'a1 -> 'a1 list -> bool

val rev : 'a1 list -> 'a1 list

val list_eq_dec : ('a1 -> 'a1 -> bool) -> 'a1 list -> 'a1 list -> bool

val map : ('a1 -> 'a2) -> 'a1 list -> 'a2 list

val flat_map : ('a1 -> 'a2 list) -> 'a1 list -> 'a2 list

val fold_left : ('a1 -> 'a2 -> 'a1) -> 'a2 list -> 'a1 -> 'a1

val fold_right : ('a2 -> 'a1 -> 'a1) -> 'a1 -> 'a2 list -> 'a1

val existsb : ('a1 -> bool) -> 'a1 list -> bool

val filter : ('a1 -> bool) -> 'a1 list -> 'a1 list

val find : ('a1 -> bool) -> 'a1 list -> 'a1 option

val firstn : nat -> 'a1 list -> 'a1 list

val skipn : nat -> 'a1 list -> 'a1 list

val nodup : ('a1 -> 'a1 -> bool) -> 'a1 list -> 'a1 list

val key_has_message_types : bool

val key_has_return_numpy : bool

val key_has_keep_messages : bool

val key_has_time_align : bool

val key_has_aligned_message_types : bool

val break_guarded_by_deque : bool

val preslice_guarded_by_read_time_tests : bool

val reader_intersects_sampled_sources : bool

val none_sources_sampled : bool

val all_types : n list

val p1_types : n list

val sys_types : n list

val np_p1_types : n list

val dict_p1_types : n list

val align_none : n

val align_drop : n

val align_insert : n

val memN : n -> n list -> bool

val is_some : 'a1 option -> bool

val insertZ : z -> z list -> z list

val sortZ : z list -> z list

val dedupZ : z list -> z list

val norm_setZ : z list -> z list

val insertN : n -> n list -> n list

val sortN : n list -> n list

val norm_set : n list -> n list

val lastn : nat -> 'a1 list -> 'a1 list

val deque_push : nat -> 'a1 list -> 'a1 -> 'a1 list

type dLmsg = { m_ord : n; m_type : n; m_src : n; m_time : z option;
               m_p1_some : bool; m_sys_some : bool; m_decodes : bool }

type rmsg =
| RFile of dLmsg
| RDefault of n * z option

val rm_time : rmsg -> z option

type trange = { tr_start : z option; tr_end : z option; tr_abs : bool }

type args = { a_types : n list option; a_tr : trange; a_src : n list option;
              a_ignore : bool; a_max : z option; a_p1 : bool; a_sys : 
              bool; a_order : bool; a_bytes : bool; a_idx : bool;
              a_numpy : bool; a_keep : bool; a_nan : bool; a_align : 
              n; a_atypes : n list option }

type params = { p_tr : trange; p_max : z option; p_p1 : bool; p_sys : 
                bool; p_bytes : bool; p_idx : bool; p_nan : bool;
                p_src : n list option; p_types : n list option;
                p_numpy : bool; p_keep : bool; p_align : n;
                p_atypes : n list option }

type variant = { v_key_types : bool; v_key_numpy : bool; v_key_keep : 
                 bool; v_key_align : bool; v_key_atypes : bool;
                 v_reread_all : bool; v_break_guarded : bool;
                 v_preslice_guarded : bool }

val current : variant

val legacy : variant

val key_of : variant -> params -> params

val optZ_eq_dec : z option -> z option -> bool

val listN_eq_dec : n list -> n list -> bool

val optlistN_eq_dec : n list option -> n list option -> bool

val trange_eq_dec : trange -> trange -> bool

val params_eq_dec : params -> params -> bool

type data = { d_msgs : rmsg list; d_np : rmsg list option; d_idx : n list;
              d_idx_arr : bool; d_bytes : n list; d_bytes_arr : bool }

val empty_data : data

val add_message : bool -> bool -> data -> dLmsg -> data

val time_neq : z option -> z option -> bool

val mask_filter : bool list -> 'a1 list -> 'a1 list

val mask_same_len : bool list -> 'a1 list -> 'a1 list

val entry_to_numpy : bool -> bool -> bool -> bool -> n -> data -> data

type env = { e_log : dLmsg list; e_avail : n list;
             e_tfilter : (trange -> dLmsg list -> dLmsg list);
             e_nonnan : (dLmsg list -> dLmsg list);
             e_align : (n -> n list option -> (n * data) list -> (n * data)
                       list) }

type entry = params * data

type state = { s_cache : (n -> entry option); s_need_t0 : bool;
               s_need_sys_t0 : bool }

val init_state : state

type outcome =
| OutDict of (n * data) list
| OutOrder of data
| OutUnmodelled

val cache_set : (n -> entry option) -> n -> entry -> n -> entry option

val index_select : env -> params -> n list -> bool -> dLmsg list

val pre_slice : z -> dLmsg list -> dLmsg list

val read_pass : env -> params -> dLmsg -> bool

val read_loop :
  variant -> z option -> bool -> (dLmsg -> bool) -> dLmsg list -> z -> dLmsg
  list -> dLmsg list -> dLmsg list * dLmsg list

val preslice_applied : variant -> params -> bool -> bool

val read_messages : variant -> env -> params -> n list -> n list -> dLmsg list

val of_type : n -> dLmsg list -> dLmsg list

val reduce_needed : params -> n list -> n list

val norm_args : env -> args -> (params * n list) * bool

val post_process : env -> params -> (n * data) list -> (n * data) list

val lookup_data : n -> (n * data) list -> data option

val needs_t0 : state -> n list -> bool

val fill : params -> dLmsg list -> (n * data) list -> (n * data) list

val write_back :
  n list -> (n -> entry option) -> (n * data) list -> n -> entry option

val with_cache : state -> (n -> entry option) -> state

val read_gen : variant -> env -> state -> args -> state * outcome

val run_gen : variant -> env -> state -> args list -> state

val spec_pass : env -> args -> params -> bool -> dLmsg -> bool

val spec_selected : env -> args -> bool -> dLmsg list

val limit : z option -> dLmsg list -> dLmsg list

val spec_messages : env -> args -> bool -> dLmsg list

val diag : env -> args -> bool * nat

val trange_eqb : trange -> trange -> bool

val tfilter_table :
  (trange * n list) list -> trange -> dLmsg list -> dLmsg list

val participating : n list option -> n -> bool

val somes : 'a1 option list -> 'a1 list

val times_of : data -> z list

val memZ : z -> z list -> bool

val first_at : z -> rmsg list -> rmsg option

val set_msgs : data -> rmsg list -> data

val align_impl : n -> n list option -> (n * data) list -> (n * data) list

val concrete_env :
  dLmsg list -> n list -> (trange * n list) list -> n list -> env

val read_size_bytes : z

type fixes = { fx_payload : bool; fx_after_log : bool; fx_time_first : 
               bool; fx_remove_nans : bool; fx_last_off : bool;
               fx_populate_rewind : bool; fx_srcs_as_requested : bool }

val fixed : fixes

type err =
| IndexError
| ValueError
| UnboundLocalError
| Unsupported
| InternalError

type 'a res =
| Ok of 'a
| Err of err

type entry0 = { e_time : z option; e_type : z; e_off : z; e_idx : z }

type findex = { fi_data : entry0 list; fi_t0 : z option }

val zlen : 'a1 list -> z

val find_first_from : bool list -> z -> z

val find_first : bool list -> z

val first_time : entry0 list -> z option

val mk_index : entry0 list -> z option -> findex

val slice_nn : 'a1 list -> z -> z -> 'a1 list

val filter_i_from : (z -> 'a1 -> bool) -> z -> 'a1 list -> 'a1 list

val filter_i : (z -> 'a1 -> bool) -> 'a1 list -> 'a1 list

val is_nan : entry0 -> bool

val time_ge_s : z -> entry0 -> bool

val time_ge_8 : z -> entry0 -> bool

type bnd =
| BNone
| BNaN
| BVal of z

val bnd_is_none : bnd -> bool

type hint =
| IncludeNans
| AllNans
| RemoveNans

val hint_is_include : hint -> bool

type trange0 = { tr_start0 : z option; tr_end0 : z option; tr_abs0 : 
                 bool; tr_t0 : z option }

val bnd_add : z option -> z option -> bnd

val bnd_of : z option -> bnd

val resolve_range : findex -> trange0 -> bnd * bnd

val get_time_range_b : fixes -> findex -> bnd -> bnd -> hint -> findex res

val get_time_range_R : fixes -> findex -> trange0 -> hint -> findex res

type key =
| KNone
| KTypes of z list
| KTimeSlice of z option * z option * hint option
| KTimeRange of trange0
| KIdxSlice of z option * z option * z option

val memZ0 : z -> z list -> bool

val norm_idx : z -> z option -> z -> z

val py_slice : 'a1 list -> z option -> z option -> z -> 'a1 list

val getitem : fixes -> findex -> key -> findex res

type msg = { m_off : z; m_size : z; m_type0 : z; m_src0 : z;
             m_time0 : z option }

type file = { f_msgs : msg list; f_size : z }

val entry_of : z -> msg -> entry0

val entries_from : z -> msg list -> entry0 list

val index_limit : file -> z option -> z option

val below : z option -> z -> bool

val index_of_file : file -> z option -> findex

val xconv :
  (msg -> bool) -> (msg -> bool) -> (msg -> bool) -> z -> msg -> dLmsg

val xconvs_from :
  (msg -> bool) -> (msg -> bool) -> (msg -> bool) -> z -> msg list -> dLmsg
  list

val xtr_link : trange -> trange0

val xsel_range : file -> trange -> entry0 list

val xby_entries : entry0 list -> dLmsg list -> dLmsg list

val linked_env :
  (msg -> bool) -> (msg -> bool) -> (msg -> bool) -> (n -> n list option ->
  (n * data) list -> (n * data) list) -> file -> n list -> env

val runner_env : file -> n list -> env
