
val negb : bool -> bool

type nat =
| O
| S of nat

val fst : ('a1 * 'a2) -> 'a1

val snd : ('a1 * 'a2) -> 'a2

val length : 'a1 list -> nat

val app : 'a1 list -> 'a1 list -> 'a1 list

type comparison =
| Eq
| Lt
| Gt

val add : nat -> nat -> nat

val sub : nat -> nat -> nat

type positive =
| XI of positive
| XO of positive
| XH

type n =
| N0
| Npos of positive

module Nat :
 sig
  val leb : nat -> nat -> bool

  val ltb : nat -> nat -> bool
 end

module Pos :
 sig
  type mask =
  | IsNul
  | IsPos of positive
  | IsNeg
 end

module Coq_Pos :
 sig
  val succ : positive -> positive

  val add : positive -> positive -> positive

  val add_carry : positive -> positive -> positive

  val pred_double : positive -> positive

  val pred_N : positive -> n

  type mask = Pos.mask =
  | IsNul
  | IsPos of positive
  | IsNeg

  val succ_double_mask : mask -> mask

  val double_mask : mask -> mask

  val double_pred_mask : positive -> mask

  val sub_mask : positive -> positive -> mask

  val sub_mask_carry : positive -> positive -> mask

  val mul : positive -> positive -> positive

  val iter : ('a1 -> 'a1) -> 'a1 -> positive -> 'a1

  val pow : positive -> positive -> positive

  val compare_cont : comparison -> positive -> positive -> comparison

  val compare : positive -> positive -> comparison

  val eqb : positive -> positive -> bool

  val coq_Nsucc_double : n -> n

  val coq_Ndouble : n -> n

  val coq_land : positive -> positive -> n

  val coq_lxor : positive -> positive -> n

  val testbit : positive -> n -> bool

  val iter_op : ('a1 -> 'a1 -> 'a1) -> positive -> 'a1 -> 'a1

  val to_nat : positive -> nat

  val of_succ_nat : nat -> positive
 end

module N :
 sig
  val succ_double : n -> n

  val double : n -> n

  val add : n -> n -> n

  val sub : n -> n -> n

  val mul : n -> n -> n

  val compare : n -> n -> comparison

  val eqb : n -> n -> bool

  val leb : n -> n -> bool

  val ltb : n -> n -> bool

  val min : n -> n -> n

  val div2 : n -> n

  val even : n -> bool

  val odd : n -> bool

  val pow : n -> n -> n

  val pos_div_eucl : positive -> n -> n * n

  val div_eucl : n -> n -> n * n

  val div : n -> n -> n

  val modulo : n -> n -> n

  val coq_land : n -> n -> n

  val coq_lxor : n -> n -> n

  val shiftr : n -> n -> n

  val testbit : n -> n -> bool

  val to_nat : n -> nat

  val of_nat : nat -> n
 end

val hd : 'a1 -> 'a1 list -> 'a1

val tl : 'a1 list -> 'a1 list

val nth : nat -> 'a1 list -> 'a1 -> 'a1

val map : ('a1 -> 'a2) -> 'a1 list -> 'a2 list

val fold_left : ('a1 -> 'a2 -> 'a1) -> 'a2 list -> 'a1 -> 'a1

val firstn : nat -> 'a1 list -> 'a1 list

val skipn : nat -> 'a1 list -> 'a1 list

val seq : nat -> nat -> nat list

val crc_poly : n

val crc_xor : n

val sYNC0 : n

val sYNC1 : n

val mAX_EXPECTED_SIZE_BYTES : n

val cPP_MAX_MESSAGE_SIZE_BYTES : n

val hEADER_SIZE : nat

val pROTOCOL_VERSION : n

val iNVALID_SOURCE_ID : n

val pY_CALC_CRC_START : nat

val pY_VALIDATE_CRC_START : nat

val eNC_SEQ_MODULUS : n

val cPP_HEADER_SIZE : nat

val cPP_CRC_OFFSET : nat

val cPP_OFF_CRC : nat

val cPP_OFF_PSIZE : nat

val cPP_SIZE_T_BITS : n

val le : n list -> n

val le_enc : nat -> n -> n list

val sub0 : n list -> nat -> nat -> n list

val step_bit : n -> n

val step8 : n -> n

val upd_bits : n -> n -> n

val range256 : n list

val crc_table : n list

val table_lookup : n -> n

val upd_table : n -> n -> n

val crc_fold : (n -> n -> n) -> n -> n list -> n

val crc32_from_with : (n -> n -> n) -> n -> n list -> n

val crc32_from : n -> n list -> n

val crc32_spec_from : n -> n list -> n

val crc32 : n list -> n

type verdict =
| Accept of nat
| Reject
| More

type 'b frame = nat * 'b list

type 'b sstate = nat * 'b list

val scan_aux :
  ('a1 list -> verdict) -> nat -> nat -> 'a1 list -> 'a1 frame list * 'a1
  sstate

val scan :
  ('a1 list -> verdict) -> nat -> 'a1 list -> 'a1 frame list * 'a1 sstate

type header = { h_sync0 : n; h_sync1 : n; h_reserved : n; h_crc : n;
                h_proto : n; h_msgver : n; h_type : n; h_seq : n;
                h_psize : n; h_source : n }

val parse_header : n list -> header

val pack_header : header -> n list

val crc_region : n list -> nat -> n list

val sync_mismatch_early : n list -> bool

val encoder_set_reserved : header -> n -> header

val encoder_set_crc : header -> n -> header

val encoder_set_psize : header -> n -> header

val encoder_fits : header -> bool

val encoder_struct_pack : header -> n list option

val encoder_zlib_crc32 : n list -> n -> n

val encoder_py_slice : n list -> n -> n -> n list

val encoder_pack_plain : header -> (header * n list) option

val encoder_calculate_crc : header -> n list -> header option

val encoder_pack_payload : header -> n list -> (header * n list) option

val encoder_new_header : n -> header

val encoder_next_seq : n -> n

val encoder_next_seq_legacy : n -> n

type encoder_payload = { p_type : n; p_version : n; p_bytes : n list }

val encoder_encode_with :
  (n -> n) -> n -> encoder_payload -> n -> n list option * n

val encoder_run_with :
  (n -> n) -> n -> (encoder_payload * n) list -> n list option list * n

val encoder_run : n -> (encoder_payload * n) list -> n list option list * n

val encoder_run_legacy :
  n -> (encoder_payload * n) list -> n list option list * n

type encoder_vc =
| VcOk
| VcTooBig
| VcNotEnough
| VcMismatch

val encoder_validate_crc : header -> n list -> n -> encoder_vc

val encoder_unpack_validate : n list -> (header * encoder_vc) option

val encoder_unpack_into : header -> n list -> (header * encoder_vc) option

val encoder_size_t : n -> n

val encoder_cpp_crc3 : n list -> n -> n -> n option

val encoder_cpp_psize : n list -> n

val encoder_cpp_stored_crc : n list -> n

val encoder_cpp_crc1 : n list -> n option

val encoder_cpp_is_valid : n list -> bool option

val encoder_judge : bool -> bool -> n -> n list -> verdict

val encoder_xor_bytes : n list -> n list -> n list

val encoder_mapply : n list -> n -> n

val encoder_mat_of : (n -> n) -> n list

val encoder_mmul : n list -> n list -> n list

val encoder_mpow : n list -> positive -> n list

val encoder_steps1_fast : positive -> n
